(* Line-oriented driver for the extracted model: one case per input line (space-separated
   non-negative integers), one result per output line.  No logic of its own beyond
   int <-> N conversion. *)
open Model

let rec pos_of_int (i : int) : positive =
  if i = 1 then XH
  else if i land 1 = 0 then XO (pos_of_int (i lsr 1))
  else XI (pos_of_int (i lsr 1))

let n_of_int (i : int) : n = if i = 0 then N0 else Npos (pos_of_int i)

let rec int_of_pos (p : positive) : int =
  match p with
  | XH -> 1
  | XO q -> 2 * int_of_pos q
  | XI q -> 2 * int_of_pos q + 1

let int_of_n (x : n) : int = match x with N0 -> 0 | Npos p -> int_of_pos p

let () =
  let buf = Buffer.create 4096 in
  (try
     while true do
       let line = input_line stdin in
       let toks = String.split_on_char ' ' line in
       let case = List.filter_map (fun t -> if t = "" then None else Some (n_of_int (int_of_string t))) toks in
       let res = dispatch case in
       Buffer.clear buf;
       List.iteri (fun i x -> if i > 0 then Buffer.add_char buf ' '; Buffer.add_string buf (string_of_int (int_of_n x))) res;
       Buffer.add_char buf '\n';
       print_string (Buffer.contents buf)
     done
   with End_of_file -> ());
  flush stdout
