//! Shared helpers: PRNG, output lines, panic capture.
use std::io::Write;

/// splitmix64 — every random choice of a run derives from one state.
pub struct Rng(pub u64);
impl Rng {
    pub fn next(&mut self) -> u64 {
        self.0 = self.0.wrapping_add(0x9E37_79B9_7F4A_7C15);
        let mut z = self.0;
        z = (z ^ (z >> 30)).wrapping_mul(0xBF58_476D_1CE4_E5B9);
        z = (z ^ (z >> 27)).wrapping_mul(0x94D0_49BB_1331_11EB);
        z ^ (z >> 31)
    }
    pub fn below(&mut self, n: u64) -> u64 {
        if n == 0 { 0 } else { self.next() % n }
    }
    pub fn pick<T: Copy>(&mut self, xs: &[T]) -> T {
        xs[self.below(xs.len() as u64) as usize]
    }
    pub fn bytes(&mut self, n: usize) -> Vec<u8> {
        (0..n).map(|_| self.next() as u8).collect()
    }
    pub fn chance(&mut self, num: u64, den: u64) -> bool {
        self.below(den) < num
    }
}

pub struct Out {
    w: std::io::BufWriter<std::io::Stdout>,
    pub count: u64,
}
impl Out {
    pub fn new() -> Self {
        Self { w: std::io::BufWriter::with_capacity(1 << 20, std::io::stdout()), count: 0 }
    }
    pub fn emit(&mut self, case: &[u64], result: &[u64]) {
        let mut s = String::with_capacity(4 * (case.len() + result.len()) + 4);
        for (i, x) in case.iter().enumerate() {
            if i > 0 { s.push(' '); }
            s.push_str(&x.to_string());
        }
        s.push('|');
        for (i, x) in result.iter().enumerate() {
            if i > 0 { s.push(' '); }
            s.push_str(&x.to_string());
        }
        s.push('\n');
        self.w.write_all(s.as_bytes()).unwrap();
        self.w.flush().unwrap();
        self.count += 1;
    }
    pub fn finish(mut self) {
        self.w.flush().unwrap();
    }
}

pub fn quiet_panics() {
    std::panic::set_hook(Box::new(|i| {
        if std::env::var_os("VH_SHOW_PANICS").is_some() {
            eprintln!("panic: {i}");
        }
    }));
}

pub fn catch<T>(f: impl FnOnce() -> T) -> Option<T> {
    std::panic::catch_unwind(std::panic::AssertUnwindSafe(f)).ok()
}

pub fn put_lp(out: &mut Vec<u64>, b: &[u8]) {
    out.push(b.len() as u64);
    out.extend(b.iter().map(|&x| u64::from(x)));
}

pub struct Args {
    pub seed: u64,
    pub n: u64,
    pub mode: String,
    pub replay: Option<String>,
}
pub fn parse_args(args: &[String]) -> Args {
    let mut a = Args { seed: 1, n: 1000, mode: String::new(), replay: None };
    let mut i = 0;
    while i < args.len() {
        match args[i].as_str() {
            "--seed" => { a.seed = args[i + 1].parse().unwrap(); i += 1; }
            "--n" => { a.n = args[i + 1].parse().unwrap(); i += 1; }
            "--mode" => { a.mode = args[i + 1].clone(); i += 1; }
            "--replay" => { a.replay = Some(args[i + 1].clone()); i += 1; }
            _ => {}
        }
        i += 1;
    }
    a
}

/// Read replay cases (one per line, the part before `|` if any).
pub fn read_cases(path: &str) -> Vec<Vec<u64>> {
    let s = std::fs::read_to_string(path).unwrap();
    s.lines()
        .filter(|l| !l.trim().is_empty())
        .map(|l| {
            l.split('|').next().unwrap().split_whitespace().map(|t| t.parse().unwrap()).collect()
        })
        .collect()
}

/// A loopback port (TCP and UDP) for a listener that is bound later by somebody else (the client under test): taken
/// from a range below the kernel's ephemeral ports and never handed out twice by this process, so that concurrent
/// scenarios, and connections made meanwhile, cannot grab it between the probe and the bind.
pub fn alloc_port() -> u16 {
    use std::sync::atomic::{AtomicU32, Ordering};
    static NEXT: AtomicU32 = AtomicU32::new(0);
    loop {
        let k = NEXT.fetch_add(1, Ordering::SeqCst);
        let start = (std::process::id() % 97) * 113;
        let p = 21000 + ((start + k) % 11000) as u16;
        if std::net::TcpListener::bind(("127.0.0.1", p)).is_ok() && std::net::UdpSocket::bind(("127.0.0.1", p)).is_ok() {
            return p;
        }
    }
}
