//! C19 (part 2): the real client (`client_main_inner`) against a scripted fake server on loopback.
//!
//! case: 19 2 max_retry_interval_ms max_retry_count handshake_timeout_ms channel_timeout_ms (kind hold_ms opens)*
//! server behaviour for the k-th accepted connection:
//!   0 healthy (upgrade, real Multiplexor, echo on every accepted stream)
//!   1 read the request, close without answering        (retryable, never connected)
//!   2 upgrade, hold, drop the TCP connection abruptly  (retryable, was connected)
//!   3 upgrade, hold, orderly WebSocket close frame     (retryable, was connected)
//!   4 answer 404                                        (fatal, never connected)
//!   5 stall the handshake until the client gives up     (retryable, never connected)
//!   6 upgrade, hold, send an undecodable frame          (fatal, was connected)
//!   7 upgrade, never answer a Connect, until the client leaves (stream request timeout if a
//!     request is pending: retryable, was connected)
//!   9 upgrade, open the `opens` local connections at once (their Connect is never answered), hold,
//!     then send an undecodable frame: fatal although a stream request is in flight
//!  10 accept the TCP connection and never answer the TLS ClientHello, until the client gives up
//!     (retryable, never connected).  A script containing a 10 runs the whole scenario over wss:// (the
//!     fake server speaks TLS with a self-signed certificate, the client skips verification): the
//!     handshake timeout bounds the whole attempt, TCP connect and TLS handshake included
//!  11 upgrade (by hand), then stay silent: never answer a Ping, until the client leaves (keepalive timeout:
//!     retryable, was connected).  A script containing an 11 runs the client with keepalive 150 ms / timeout 300 ms
//!  12 reset the TCP connection right after accepting it (ECONNRESET / EPIPE during the handshake: retryable)
//!  13 answer the TLS ClientHello with garbage (TLS error: fatal, never connected; wss:// scenario like 10)
//!  14 answer 101 with a wrong Sec-WebSocket-Accept (protocol error in the handshake: fatal, never connected)
//!   4 with hold != 0: the status answered is `hold` instead of 404 (401, 403, 500, 503, 301, 200: all fatal)
//!   8 refuse: the listener is closed while the client makes this attempt (ConnectionRefused:
//!     retryable, never connected); `hold` of the first entry of a run of 8s = how long the listener
//!     stays closed, counted from the previous observed failure (or from the client's start); the
//!     attempt itself cannot be observed, so the measured gap spans it
//! `opens` local connections are opened (in turn through the plain TCP remote, SOCKS5 CONNECT, SOCKS4 CONNECT and
//! HTTP CONNECT listeners of the client) right after the server has
//! failed that connection (i.e. while the tunnel is down), each sending 8 bytes it expects echoed.
//! Connections after the script's end are treated as healthy.
//!
//! result: n d_1 .. d_n (ms between the server failing attempt k and accepting attempt k+1)
//!         final (0 Ok, 1 fatal, 2 MaxRetryCountReached, 3 still running) n_attempts
//!         n_local served_1 .. (1 = echoed intact and in order of opening)
use crate::util::*;
use futures_util::{SinkExt, StreamExt};
use rusty_penguin_lib::arg::{ClientArgs, Remote, ServerUrl};
use rusty_penguin_lib::client::{Error, HandlerResources, client_main_inner};
use std::str::FromStr;
use std::sync::Arc;
use std::sync::atomic::{AtomicU64, Ordering};
use std::time::{Duration, Instant};
use tokio::io::{AsyncReadExt, AsyncWriteExt};
use tokio::net::{TcpListener, TcpStream};
use tokio_tungstenite::tungstenite::Message;
use tokio_tungstenite::tungstenite::handshake::server::{Request, Response};

trait Rw: tokio::io::AsyncRead + tokio::io::AsyncWrite + Unpin + Send {}
impl<T: tokio::io::AsyncRead + tokio::io::AsyncWrite + Unpin + Send> Rw for T {}
type Io = Box<dyn Rw>;

fn tls_acceptor() -> tokio_rustls::TlsAcceptor {
    static ACC: std::sync::OnceLock<tokio_rustls::TlsAcceptor> = std::sync::OnceLock::new();
    ACC.get_or_init(|| {
        let kp = rcgen::KeyPair::generate().unwrap();
        let params = rcgen::CertificateParams::new(vec!["127.0.0.1".to_string()]).unwrap();
        let cert = params.self_signed(&kp).unwrap();
        let key = rustls::pki_types::PrivateKeyDer::try_from(kp.serialize_der()).unwrap();
        let cfg = rustls::ServerConfig::builder().with_no_client_auth().with_single_cert(vec![cert.der().clone()], key).unwrap();
        tokio_rustls::TlsAcceptor::from(Arc::new(cfg))
    })
    .clone()
}

async fn read_request(tcp: &mut Io) -> bool {
    tokio::time::timeout(Duration::from_secs(5), read_request_inner(tcp)).await.unwrap_or(false)
}

async fn read_request_inner(tcp: &mut Io) -> bool {
    let mut buf = Vec::new();
    let mut b = [0u8; 512];
    loop {
        match tcp.read(&mut b).await {
            Ok(0) | Err(_) => return false,
            Ok(n) => {
                buf.extend_from_slice(&b[..n]);
                if buf.windows(4).any(|w| w == b"\r\n\r\n") {
                    return true;
                }
            }
        }
    }
}

async fn upgrade(tcp: Io) -> Option<tokio_tungstenite::WebSocketStream<Io>> {
    #[allow(clippy::result_large_err)]
    let cb = |_req: &Request, mut resp: Response| {
        resp.headers_mut().insert("sec-websocket-protocol", http::HeaderValue::from_static(penguin_mux::PROTOCOL_VERSION));
        Ok(resp)
    };
    tokio::time::timeout(Duration::from_secs(5), tokio_tungstenite::accept_hdr_async(tcp, cb)).await.ok()?.ok()
}

/// answer the upgrade request by hand (so that the harness keeps the raw connection): `good` = correct accept key
async fn manual_upgrade(tcp: &mut Io, good: bool) -> bool {
    use base64::Engine;
    use sha1::{Digest, Sha1};
    let mut buf = Vec::new();
    let mut b = [0u8; 512];
    let got = tokio::time::timeout(Duration::from_secs(5), async {
        loop {
            match tcp.read(&mut b).await {
                Ok(0) | Err(_) => return false,
                Ok(n) => {
                    buf.extend_from_slice(&b[..n]);
                    if buf.windows(4).any(|w| w == b"\r\n\r\n") {
                        return true;
                    }
                }
            }
        }
    })
    .await
    .unwrap_or(false);
    if !got {
        return false;
    }
    let head = String::from_utf8_lossy(&buf).to_string();
    let key = head.lines().find_map(|l| {
        let (k, v) = l.split_once(':')?;
        k.trim().eq_ignore_ascii_case("sec-websocket-key").then(|| v.trim().to_string())
    });
    let Some(key) = key else { return false };
    let mut h = Sha1::new();
    h.update(key.as_bytes());
    h.update(if good { &b"258EAFA5-E914-47DA-95CA-C5AB0DC85B11"[..] } else { &b"258EAFA5-E914-47DA-95CA-C5AB0DC85B12"[..] });
    let accept = base64::engine::general_purpose::STANDARD.encode(h.finalize());
    let resp = format!(
        "HTTP/1.1 101 Switching Protocols\r\nconnection: upgrade\r\nupgrade: websocket\r\nsec-websocket-accept: {accept}\r\nsec-websocket-protocol: {}\r\n\r\n",
        penguin_mux::PROTOCOL_VERSION
    );
    tcp.write_all(resp.as_bytes()).await.is_ok()
}

async fn free_port() -> u16 {
    alloc_port()
}

struct Local {
    served: Arc<AtomicU64>,
}

/// one local connection through one of the client's TCP entry points (`via`: 0 plain TCP remote,
/// 1 SOCKS5 CONNECT, 2 SOCKS4 CONNECT, 3 HTTP CONNECT), sending 8 bytes it expects echoed
fn open_local(ports: [u16; 3], id: u64) -> Local {
    let served = Arc::new(AtomicU64::new(0));
    let s2 = served.clone();
    let via = id % 4;
    let port = match via { 0 => ports[0], 1 | 2 => ports[1], _ => ports[2] };
    tokio::spawn(async move {
        let mut sock = None;
        for _ in 0..200 {
            match TcpStream::connect(("127.0.0.1", port)).await {
                Ok(s) => {
                    sock = Some(s);
                    break;
                }
                Err(_) => tokio::time::sleep(Duration::from_millis(10)).await,
            }
        }
        let Some(mut sock) = sock else { return };
        match via {
            1 => {
                let mut b = [0u8; 10];
                if sock.write_all(&[5, 1, 0]).await.is_err() || sock.read_exact(&mut b[..2]).await.is_err() || b[..2] != [5, 0] {
                    return;
                }
                if sock.write_all(&[5, 1, 0, 1, 127, 0, 0, 1, 0, 7]).await.is_err() || sock.read_exact(&mut b).await.is_err() || b[1] != 0 {
                    return;
                }
            }
            2 => {
                let mut b = [0u8; 8];
                if sock.write_all(&[4, 1, 0, 7, 127, 0, 0, 1, 0]).await.is_err() || sock.read_exact(&mut b).await.is_err() || b[1] != 0x5a {
                    return;
                }
            }
            3 => {
                if sock.write_all(b"CONNECT 127.0.0.1:7 HTTP/1.1\r\nHost: 127.0.0.1:7\r\n\r\n").await.is_err() {
                    return;
                }
                let mut head = Vec::new();
                let mut b = [0u8; 1];
                while !head.ends_with(b"\r\n\r\n") {
                    match sock.read(&mut b).await {
                        Ok(1) => head.push(b[0]),
                        _ => return,
                    }
                }
                if !head.starts_with(b"HTTP/1.1 200") {
                    return;
                }
            }
            _ => {}
        }
        let msg = id.to_be_bytes();
        if sock.write_all(&msg).await.is_err() {
            return;
        }
        let mut back = [0u8; 8];
        if sock.read_exact(&mut back).await.is_ok() && back == msg {
            s2.store(1, Ordering::SeqCst);
        }
        // keep the connection open a little so that the echo side does not see a reset
        tokio::time::sleep(Duration::from_millis(50)).await;
    });
    Local { served }
}

async fn scenario(c: Vec<u64>) -> Vec<u64> {
    let (max_ms, max_count, hs_ms, ch_ms) = (c[0], c[1] as u32, c[2], c[3]);
    let script: Vec<(u64, u64, u64)> = c[4..].chunks(3).filter(|x| x.len() == 3).map(|x| (x[0], x[1], x[2])).collect();
    // (the server's port is closed and bound again during refused windows: not an ephemeral port either)
    let sport = alloc_port();
    let mut listener = Some(TcpListener::bind(("127.0.0.1", sport)).await.unwrap());
    let lport = [free_port().await, free_port().await, free_port().await];
    let tls = script.iter().any(|e| matches!(e.0, 10 | 13));
    let ka = script.iter().any(|e| e.0 == 11);
    let args: &'static ClientArgs = Box::leak(Box::new(ClientArgs {
        server: ServerUrl::from_str(&format!("{}://127.0.0.1:{sport}/ws", if tls { "wss" } else { "ws" })).unwrap(),
        tls_skip_verify: tls,
        remote: vec![
            Remote::from_str(&format!("127.0.0.1:{}:127.0.0.1:7", lport[0])).unwrap(),
            Remote::from_str(&format!("127.0.0.1:{}:socks", lport[1])).unwrap(),
            Remote::from_str(&format!("127.0.0.1:{}:http", lport[2])).unwrap(),
        ],
        keepalive: if ka { Duration::from_millis(150).into() } else { penguin_mux::timing::OptionalDuration::NONE },
        keepalive_timeout: if ka { Duration::from_millis(300).into() } else { penguin_mux::timing::OptionalDuration::NONE },
        max_retry_count: max_count,
        max_retry_interval: max_ms,
        handshake_timeout: Duration::from_millis(hs_ms).into(),
        channel_timeout: Duration::from_millis(ch_ms).into(),
        ..Default::default()
    }));
    let (hr, srx, drx) = HandlerResources::create();
    let hr: &'static HandlerResources = Box::leak(Box::new(hr));
    let mut client = tokio::spawn(client_main_inner(args, hr, srx, drx));

    let mut delays: Vec<u64> = vec![];
    let mut last_fail: Option<Instant> = None;
    let mut attempts = 0u64;
    let mut idx = 0usize; // next script entry (refused attempts are not accepted connections)
    let started = Instant::now();
    let mut locals: Vec<Local> = vec![];
    let mut healthy_tasks = vec![];
    let mut final_code = 3u64;
    let mut healthy_since: Option<Instant> = None;
    let longest = Duration::from_millis(max_ms.max(200) * 2 + hs_ms + ch_ms + 3000);
    loop {
        // the scenario is over once a healthy connection has served every local connection (or 1.5 s passed)
        if let Some(t) = healthy_since {
            let all = locals.iter().all(|l| l.served.load(Ordering::SeqCst) == 1);
            if all || t.elapsed() > Duration::from_millis(1500 + ch_ms) {
                break;
            }
        }
        // a run of refused attempts: close the listener for the given time
        if healthy_since.is_none() && script.get(idx).is_some_and(|e| e.0 == 8) {
            let closed_for = Duration::from_millis(script[idx].1);
            let from = last_fail.unwrap_or(started);
            if last_fail.is_none() {
                last_fail = Some(started);
            }
            while script.get(idx).is_some_and(|e| e.0 == 8) {
                // (no local connections are opened for a refused attempt: whether the client is still
                //  there is only known once the window is over)
                idx += 1;
            }
            drop(listener.take());
            let wait = closed_for.saturating_sub(from.elapsed());
            let ended = tokio::select! {
                r = &mut client => Some(r),
                () = tokio::time::sleep(wait) => None,
            };
            if let Some(r) = ended {
                final_code = match r {
                    Ok(Ok(())) => 0,
                    Ok(Err(Error::MaxRetryCountReached(_))) => 2,
                    Ok(Err(_)) => 1,
                    Err(_) => 9,
                };
                break;
            }
            listener = Some(loop {
                match TcpListener::bind(("127.0.0.1", sport)).await {
                    Ok(l) => break l,
                    Err(_) => tokio::time::sleep(Duration::from_millis(2)).await,
                }
            });
        }
        let acc = tokio::select! {
            r = &mut client => {
                final_code = match r {
                    Ok(Ok(())) => 0,
                    Ok(Err(Error::MaxRetryCountReached(_))) => 2,
                    Ok(Err(_)) => 1,
                    Err(_) => 9,
                };
                break;
            }
            a = listener.as_ref().unwrap().accept() => a,
            () = tokio::time::sleep(if healthy_since.is_some() { Duration::from_millis(20) } else { longest }) => {
                if healthy_since.is_some() { continue; }
                // nothing happened for longer than any delay the client may sleep: it hangs
                final_code = 8;
                break;
            }
        };
        let Ok((tcp, _)) = acc else { continue };
        let now = Instant::now();
        if let Some(t) = last_fail.take() {
            delays.push(now.duration_since(t).as_millis() as u64);
        }
        let (kind, hold, opens) = script.get(idx).copied().unwrap_or((0, 0, 0));
        idx += 1;
        attempts += 1;
        let hold = Duration::from_millis(hold);
        if kind == 12 {
            #[allow(deprecated)]
            let _ = tcp.set_linger(Some(Duration::ZERO));
            drop(tcp);
            last_fail = Some(Instant::now());
            for _ in 0..opens {
                locals.push(open_local(lport, 0x1900_0000 + locals.len() as u64));
            }
            continue;
        }
        let mut tcp: Io = if tls && !matches!(kind, 10 | 13) {
            match tokio::time::timeout(Duration::from_secs(5), tls_acceptor().accept(tcp)).await {
                Ok(Ok(s)) => Box::new(s),
                _ => {
                    // the client left during the TLS handshake: counts as a failed attempt of this kind
                    last_fail = Some(Instant::now());
                    continue;
                }
            }
        } else {
            Box::new(tcp)
        };
        match kind {
            1 => {
                read_request(&mut tcp).await;
                drop(tcp);
            }
            13 => {
                let mut b = [0u8; 512];
                let _ = tokio::time::timeout(Duration::from_secs(5), tcp.read(&mut b)).await;
                let _ = tcp.write_all(b"HTTP/1.1 400 Bad Request\r\ncontent-length: 0\r\n\r\n").await;
                let _ = tcp.shutdown().await;
                drop(tcp);
            }
            14 => {
                manual_upgrade(&mut tcp, false).await;
                let mut b = [0u8; 512];
                let _ = tokio::time::timeout(Duration::from_millis(500), async { while let Ok(n) = tcp.read(&mut b).await { if n == 0 { break; } } }).await;
            }
            11 => {
                if manual_upgrade(&mut tcp, true).await {
                    // read (and ignore) whatever the client sends, answer nothing, until it leaves
                    let mut b = [0u8; 512];
                    let left = tokio::time::timeout(Duration::from_millis(300 + 150 + 3000), async {
                        while let Ok(n) = tcp.read(&mut b).await {
                            if n == 0 { break; }
                        }
                    })
                    .await
                    .is_ok();
                    if !left {
                        // no keepalive timeout long after it was due: the client sits on a dead connection
                        final_code = 8;
                        break;
                    }
                }
            }
            4 => {
                read_request(&mut tcp).await;
                let status = if hold.is_zero() { 404 } else { hold.as_millis() as u64 };
                let _ = tcp.write_all(format!("HTTP/1.1 {status} Status\r\ncontent-length: 0\r\n\r\n").as_bytes()).await;
                let _ = tcp.shutdown().await;
                drop(tcp);
            }
            5 | 10 => {
                let mut b = [0u8; 512];
                let gave_up = tokio::time::timeout(Duration::from_millis(hs_ms + 3000), async {
                    while let Ok(n) = tcp.read(&mut b).await {
                        if n == 0 { break; }
                    }
                })
                .await
                .is_ok();
                if !gave_up {
                    // the client is still in this attempt long after its handshake timeout: it hangs
                    final_code = 8;
                    break;
                }
            }
            2 => {
                if let Some(ws) = upgrade(tcp).await {
                    tokio::time::sleep(hold).await;
                    drop(ws);
                }
            }
            3 => {
                if let Some(mut ws) = upgrade(tcp).await {
                    tokio::time::sleep(hold).await;
                    let _ = ws.close(None).await;
                    let _ = tokio::time::timeout(Duration::from_millis(300), async { while let Some(Ok(_)) = ws.next().await {} }).await;
                }
            }
            6 => {
                if let Some(mut ws) = upgrade(tcp).await {
                    tokio::time::sleep(hold).await;
                    let _ = ws.send(Message::Binary(vec![0xffu8, 0xff, 0xff].into())).await;
                    // wait for the client to leave
                    let _ = tokio::time::timeout(Duration::from_millis(500), async { while let Some(Ok(_)) = ws.next().await {} }).await;
                }
            }
            9 => {
                if let Some(mut ws) = upgrade(tcp).await {
                    for _ in 0..opens {
                        locals.push(open_local(lport, 0x1900_0000 + locals.len() as u64));
                    }
                    tokio::time::sleep(hold).await;
                    let _ = ws.send(Message::Binary(vec![0xffu8, 0xff, 0xff].into())).await;
                    let _ = tokio::time::timeout(Duration::from_millis(500), async { while let Some(Ok(_)) = ws.next().await {} }).await;
                }
                last_fail = Some(Instant::now());
                continue;
            }
            7 => {
                if let Some(mut ws) = upgrade(tcp).await {
                    // open the local connections now: their stream request will never be answered
                    for _ in 0..opens {
                        locals.push(open_local(lport, 0x1900_0000 + locals.len() as u64));
                    }
                    let _ = tokio::time::timeout(hold, async { while let Some(Ok(_)) = ws.next().await {} }).await;
                    drop(ws);
                }
                last_fail = Some(Instant::now());
                continue;
            }
            _ => {
                if let Some(ws) = upgrade(tcp).await {
                    let mux = penguin_mux::Multiplexor::new(ws);
                    healthy_since = Some(Instant::now());
                    healthy_tasks.push(tokio::spawn(async move {
                        while let Ok(stream) = mux.accept_stream_channel().await {
                            tokio::spawn(async move {
                                let (mut r, mut w) = tokio::io::split(stream);
                                let _ = tokio::io::copy(&mut r, &mut w).await;
                                let _ = w.shutdown().await;
                            });
                        }
                    }));
                }
                continue;
            }
        }
        last_fail = Some(Instant::now());
        if matches!(kind, 4 | 6 | 13 | 14) && opens > 0 {
            // the client is ending: give it the time to do so before new local connections arrive
            // (a request arriving in the very poll in which the fatal error is noticed is scenario 9's subject)
            tokio::time::sleep(Duration::from_millis(100)).await;
        }
        for _ in 0..opens {
            locals.push(open_local(lport, 0x1900_0000 + locals.len() as u64));
        }
    }
    client.abort();
    for t in healthy_tasks {
        t.abort();
    }
    let mut out = vec![delays.len() as u64];
    out.extend(&delays);
    out.push(final_code);
    out.push(attempts);
    out.push(locals.len() as u64);
    out.extend(locals.iter().map(|l| l.served.load(Ordering::SeqCst)));
    out
}

pub fn run_cases(cases: Vec<Vec<u64>>) -> Vec<Vec<u64>> {
    let rt = tokio::runtime::Builder::new_multi_thread().worker_threads(8).enable_all().build().unwrap();
    rt.block_on(async move {
        let mut hs = vec![];
        for c in cases {
            hs.push(tokio::spawn(scenario(c)));
            // stagger the starts a little so that the scenarios' timers do not all fire together
            tokio::time::sleep(Duration::from_millis(7)).await;
        }
        let mut out = vec![];
        for h in hs {
            out.push(h.await.unwrap_or_else(|_| vec![999_998]));
        }
        out
    })
}

pub fn run_case(c: &[u64]) -> Vec<u64> {
    run_cases(vec![c.to_vec()]).pop().unwrap()
}

/// fill in how long the listener stays closed for each run of refused attempts (kind 8): until half
/// way between the last refused attempt and the next one, by the delays the client is expected to sleep
fn place_refusals(c: &mut [u64]) {
    let max_ms = c[0];
    let d = |j: u32| (200u64.checked_shl(j).unwrap_or(u64::MAX)).min(max_ms.max(1)).min(max_ms);
    let n = (c.len() - 4) / 3;
    let mut j = 0u32; // consecutive failures so far
    let mut k = 0;
    while k < n {
        let kind = c[4 + 3 * k];
        if kind == 0 {
            break;
        }
        if kind != 8 {
            if matches!(kind, 2 | 3 | 6 | 7 | 9 | 11) {
                j = 0;
            }
            j += 1;
            k += 1;
            continue;
        }
        // a run of refusals starting at k; reference time = previous observed failure (or the start)
        let mut t = if k == 0 { 0 } else { d(j - 1) }; // time of the first refused attempt
        let first = k;
        let mut last_t = t;
        while k < n && c[4 + 3 * k] == 8 {
            last_t = t;
            t += d(j);
            j += 1;
            k += 1;
        }
        c[4 + 3 * first + 1] = (last_t + t) / 2;
    }
}

pub fn generate(a: &Args, out: &mut Out) {
    let mut rng = Rng(a.seed ^ 0x1902);
    let mut cases: Vec<Vec<u64>> = vec![];
    // fixed scenarios first: each rule of the property once
    let fixed: Vec<Vec<u64>> = vec![
        // four failures before any connection, cap 500 ms, unlimited retries
        vec![500, 0, 400, 2000, 1, 0, 0, 1, 0, 0, 1, 0, 0, 1, 0, 0],
        // give up after 2 retries
        vec![1000, 2, 400, 2000, 1, 0, 0, 1, 0, 0, 1, 0, 0, 1, 0, 0],
        // reset after a connection that had been established (orderly close by the server)
        vec![2000, 0, 400, 2000, 1, 0, 0, 1, 0, 0, 3, 100, 0, 1, 0, 0],
        // same with an abrupt loss
        vec![2000, 0, 400, 2000, 1, 0, 0, 1, 0, 0, 2, 100, 0, 1, 0, 0],
        // fatal answers
        vec![1000, 0, 400, 2000, 1, 0, 0, 4, 0, 0],
        vec![1000, 0, 400, 2000, 6, 50, 0],
        // stalled handshake
        vec![1000, 3, 300, 2000, 5, 0, 0, 1, 0, 0],
        // the same within the TLS handshake (the whole scenario over wss://)
        vec![1000, 3, 300, 2000, 10, 0, 0, 1, 0, 0, 10, 0, 1, 3, 60, 0],
        // local connections opened while down are served by the next good connection
        vec![400, 0, 400, 2000, 1, 0, 2, 3, 80, 1, 1, 0, 1],
        // keepalive timeout on a silent server; reset during the handshake; other fatal answers
        vec![1000, 0, 400, 2000, 1, 0, 0, 11, 0, 1, 1, 0, 0],
        vec![1000, 2, 400, 2000, 12, 0, 0, 12, 0, 1, 12, 0, 0, 12, 0, 0],
        vec![1000, 0, 400, 2000, 1, 0, 0, 13, 0, 0],
        vec![1000, 0, 400, 2000, 1, 0, 0, 14, 0, 0],
        vec![1000, 0, 400, 2000, 4, 503, 0],
        vec![1000, 0, 400, 2000, 1, 0, 0, 4, 401, 0],
        vec![1000, 0, 400, 2000, 4, 200, 0],
        // a burst of local connections (more than the request queue holds) through all four TCP entry points while down
        vec![400, 0, 400, 2000, 1, 0, 90, 1, 0, 0],
        // stream request times out, then served
        vec![400, 0, 400, 300, 7, 3000, 1, 1, 0, 0],
        // refused connections: at the start, and between other failures
        vec![800, 0, 400, 2000, 8, 0, 0, 8, 0, 0, 1, 0, 0],
        vec![800, 0, 400, 2000, 1, 0, 1, 8, 0, 0, 1, 0, 0],
        vec![1000, 2, 400, 2000, 1, 0, 0, 8, 0, 0, 8, 0, 0, 1, 0, 0],
        // a fatal error while a stream request is in flight is still fatal
        vec![1000, 0, 400, 2000, 1, 0, 0, 9, 120, 1, 1, 0, 0],
        // the same when the request in flight is the parked one (timed out on the previous connection), retried first
        vec![1000, 0, 400, 300, 7, 3000, 1, 9, 120, 1, 1, 0, 0],
        vec![1000, 0, 400, 300, 1, 0, 0, 7, 3000, 2, 9, 150, 1],
    ];
    let fixed: Vec<Vec<u64>> = fixed.into_iter().map(|mut c| { place_refusals(&mut c); c }).collect();
    if !a.mode.contains("random-only") {
        cases.extend(fixed);
    }
    for _ in 0..a.n {
        let max_ms = rng.pick(&[200u64, 300, 800, 1600]);
        let max_count = rng.pick(&[0u64, 0, 1, 2, 3, 4]);
        let hs = rng.pick(&[300u64, 500]);
        let ch = rng.pick(&[300u64, 1000]);
        let n = 1 + rng.below(5);
        let mut c = vec![max_ms, max_count, hs, ch];
        for _ in 0..n {
            let kind = rng.pick(&[1u64, 1, 1, 2, 2, 3, 3, 5, 7, 4, 6, 0, 8, 8, 9, 10, 11, 12, 12, 13, 14, 4]);
            let hold = if kind == 4 { rng.pick(&[0u64, 401, 403, 500, 502, 503, 301, 200, 426]) } else { rng.pick(&[0u64, 30, 120]) };
            let opens = if rng.chance(1, 3) { 1 + rng.below(2) } else { 0 };
            c.extend([kind, if kind == 7 { 3000 } else if kind == 9 { 120 } else { hold }, if kind == 9 { opens.max(1) } else if kind == 8 { 0 } else { opens }]);
        }
        place_refusals(&mut c);
        cases.push(c);
    }
    // run in batches of 12 concurrent scenarios
    for batch in cases.chunks(12) {
        let rs = run_cases(batch.to_vec());
        for (c, r) in batch.iter().zip(rs) {
            let mut full = vec![19, 2];
            full.extend(c);
            out.emit(&full, &r);
        }
    }
}
