//! C17: the TLS configuration matrix and the hot-swappable identity, through the real
//! `tls::{make_tls_identity, reload_tls_identity, tls_connect}` and `server::run_listener`.
//!
//! case 17 1 server_cert(0 issued by the CA the client trusts, 1 other CA, 2 self-signed)
//!           name(0 matches, 1 differs) skip_verify client_cert(0 none, 1 under the server's client CA, 2 other CA)
//!           server_client_ca(0/1)
//!   result: reached(0/1: TLS up and an HTTP response received) asked(0/1: server sent a CertificateRequest)
//! case 17 2 cert ca events..   events: 0 handshake | 1 good cert ca reload | 2 k use established connection k
//!   result: per handshake 1 cert_seen asked; per reload 1/0; per use 1 cert_seen | 0
//! case 17 4 which skip_verify: the roots / client CA given are a file WITHOUT any certificate, or no file at all;
//!           the process's system store (SSL_CERT_FILE) holds root A, under which server certificate 0 was issued
//!   which 0: client given a blank --tls-ca        -> reached (must be: only when verification is skipped)
//!         1: client given no --tls-ca (system roots) -> reached
//!         2: server given a blank client CA        -> 1 if the identity can be built (must fail: 0)
//!         3: a good client CA, client certificate under root A only (the system store) -> reached (must not be)
//! case 17 5 cert n: the real server_main with a client CA and two listening addresses, identity replaced n times at run time the way an
//!           operator does it (files rewritten, SIGUSR1 to the process); before and after every reload:
//!   result per round: reached_with_good_client_cert cert_seen reached_without_client_cert asked
//! case 17 3 url_host(0 127.0.0.1, 1 localhost) hostname(0 none, 1 localhost, 2 other.example)
//!           tls_server_name(0 none, 1 localhost, 2 other.example) skip_verify
//!   the real client (client_main_inner -> ws_connect::handshake) against the TLS listener whose
//!   certificate (under the client's roots) names only "localhost"
//!   result: reached(0/1: a local connection through the tunnel gets its bytes echoed)
use crate::util::*;
use rcgen::{BasicConstraints, CertificateParams, DnType, ExtendedKeyUsagePurpose, IsCa, Issuer, KeyPair, KeyUsagePurpose};
use rustls::client::danger::{HandshakeSignatureValid, ServerCertVerified, ServerCertVerifier};
use rustls::pki_types::{CertificateDer, ServerName, UnixTime};
use rusty_penguin_lib::tls::{TlsIdentity, make_tls_identity, reload_tls_identity, tls_connect};
use std::path::{Path, PathBuf};
use std::sync::Arc;
use std::sync::atomic::{AtomicBool, Ordering};
use std::time::Duration;
use tokio::io::{AsyncReadExt, AsyncWriteExt};
use tokio::net::{TcpListener, TcpStream};

pub struct Pki {
    pub dir: tempfile::TempDir,
    pub srv_der: Vec<Vec<u8>>,
}

fn p(dir: &Path, name: &str) -> String {
    dir.join(name).to_str().unwrap().to_string()
}

fn make_ca(cn: &str) -> (CertificateParams, KeyPair, String) {
    let mut params = CertificateParams::new(Vec::<String>::new()).unwrap();
    params.is_ca = IsCa::Ca(BasicConstraints::Unconstrained);
    params.distinguished_name.push(DnType::CommonName, cn);
    params.key_usages = vec![KeyUsagePurpose::KeyCertSign, KeyUsagePurpose::DigitalSignature, KeyUsagePurpose::CrlSign];
    let kp = KeyPair::generate().unwrap();
    let pem = params.self_signed(&kp).unwrap().pem();
    (params, kp, pem)
}

fn make_leaf(ca: &(CertificateParams, KeyPair, String), san: &str, cn: &str, client: bool) -> (String, String, Vec<u8>) {
    make_leaf_with(ca, san, cn, client, KeyPair::generate().unwrap())
}

/// a leaf certificate over a given key (other key algorithms than rcgen's default P-256)
fn make_leaf_with(ca: &(CertificateParams, KeyPair, String), san: &str, cn: &str, client: bool, kp: KeyPair) -> (String, String, Vec<u8>) {
    let mut params = CertificateParams::new(vec![san.to_string()]).unwrap();
    params.distinguished_name.push(DnType::CommonName, cn);
    params.extended_key_usages = vec![if client { ExtendedKeyUsagePurpose::ClientAuth } else { ExtendedKeyUsagePurpose::ServerAuth }];
    let issuer = Issuer::from_params(&ca.0, &ca.1);
    let cert = params.signed_by(&kp, &issuer).unwrap();
    (cert.pem(), kp.serialize_pem(), cert.der().to_vec())
}

impl Pki {
    pub fn new() -> Self {
        let dir = tempfile::TempDir::new().unwrap();
        let d = dir.path();
        let ca_a = make_ca("verif root A");
        let ca_b = make_ca("verif root B");
        let cca = make_ca("verif client CA");
        // the trust anchors are given as bundles with the relevant certificate in the middle: a loader that takes only
        // the first (or the last) certificate of a file would not find it
        let (pad1, pad2, pad3, pad4) = (make_ca("verif unused 1"), make_ca("verif unused 2"), make_ca("verif unused 3"), make_ca("verif unused 4"));
        std::fs::write(d.join("rootA.pem"), format!("{}{}{}", pad1.2, ca_a.2, pad2.2)).unwrap();
        std::fs::write(d.join("blank.pem"), b"# a CA bundle that holds no certificate\n\n").unwrap();
        // a client certificate issued under root A (which is also what the harness installs as the system store)
        let c3 = make_leaf(&ca_a, "client.local", "client under system root", true);
        std::fs::write(d.join("cli3.pem"), &c3.0).unwrap();
        std::fs::write(d.join("cli3.key"), &c3.1).unwrap();
        std::fs::write(d.join("clientca.pem"), format!("{}{}{}", pad3.2, cca.2, pad4.2)).unwrap();
        let mut srv_der = vec![];
        let s0 = make_leaf(&ca_a, "localhost", "srv trusted", false);
        let s1 = make_leaf(&ca_b, "localhost", "srv other", false);
        let s2 = {
            let mut params = CertificateParams::new(vec!["localhost".to_string()]).unwrap();
            params.distinguished_name.push(DnType::CommonName, "srv self-signed");
            let kp = KeyPair::generate().unwrap();
            let cert = params.self_signed(&kp).unwrap();
            (cert.pem(), kp.serialize_pem(), cert.der().to_vec())
        };
        // the trusted server certificate again over other key algorithms (Ed25519, P-384, RSA 2048)
        let s3 = make_leaf_with(&ca_a, "localhost", "srv trusted ed25519", false, KeyPair::generate_for(&rcgen::PKCS_ED25519).unwrap());
        let s4 = make_leaf_with(&ca_a, "localhost", "srv trusted p384", false, KeyPair::generate_for(&rcgen::PKCS_ECDSA_P384_SHA384).unwrap());
        let s5 = make_leaf_with(&ca_a, "localhost", "srv trusted rsa", false, KeyPair::generate_rsa_for(&rcgen::PKCS_RSA_SHA256, rcgen::RsaKeySize::_2048).unwrap());
        for (i, s) in [s0, s1, s2, s3, s4, s5].into_iter().enumerate() {
            std::fs::write(d.join(format!("srv{i}.pem")), &s.0).unwrap();
            std::fs::write(d.join(format!("srv{i}.key")), &s.1).unwrap();
            srv_der.push(s.2);
        }
        let c1 = make_leaf(&cca, "client.local", "client good", true);
        let c2 = make_leaf(&ca_b, "client.local", "client other", true);
        // a second client CA (what the CA file is rewritten to hold in the rotation scripts) and a client under it
        let cca2 = make_ca("verif client CA 2");
        std::fs::write(d.join("clientca2.pem"), &cca2.2).unwrap();
        let c5 = make_leaf(&cca2, "client.local", "client under the second CA", true);
        std::fs::write(d.join("cli5.pem"), &c5.0).unwrap();
        std::fs::write(d.join("cli5.key"), &c5.1).unwrap();
        // a good client certificate over an Ed25519 key
        let c4 = make_leaf_with(&cca, "client.local", "client good ed25519", true, KeyPair::generate_for(&rcgen::PKCS_ED25519).unwrap());
        for (i, c) in [(1, c1), (2, c2), (4, c4)] {
            std::fs::write(d.join(format!("cli{i}.pem")), &c.0).unwrap();
            std::fs::write(d.join(format!("cli{i}.key")), &c.1).unwrap();
        }
        Self { dir, srv_der }
    }
    fn d(&self) -> &Path {
        self.dir.path()
    }
    fn seen(&self, der: &[u8]) -> u64 {
        self.srv_der.iter().position(|x| x == der).map_or(9, |i| i as u64)
    }
}

#[derive(Debug)]
struct AcceptAll(Arc<rustls::crypto::CryptoProvider>);
impl ServerCertVerifier for AcceptAll {
    fn verify_server_cert(&self, _: &CertificateDer<'_>, _: &[CertificateDer<'_>], _: &ServerName<'_>, _: &[u8], _: UnixTime) -> Result<ServerCertVerified, rustls::Error> {
        Ok(ServerCertVerified::assertion())
    }
    fn verify_tls12_signature(&self, m: &[u8], c: &CertificateDer<'_>, d: &rustls::DigitallySignedStruct) -> Result<HandshakeSignatureValid, rustls::Error> {
        rustls::crypto::verify_tls12_signature(m, c, d, &self.0.signature_verification_algorithms)
    }
    fn verify_tls13_signature(&self, m: &[u8], c: &CertificateDer<'_>, d: &rustls::DigitallySignedStruct) -> Result<HandshakeSignatureValid, rustls::Error> {
        rustls::crypto::verify_tls13_signature(m, c, d, &self.0.signature_verification_algorithms)
    }
    fn supported_verify_schemes(&self) -> Vec<rustls::SignatureScheme> {
        self.0.signature_verification_algorithms.supported_schemes()
    }
}

#[derive(Debug)]
struct AskProbe(Arc<AtomicBool>);
impl rustls::client::ResolvesClientCert for AskProbe {
    fn resolve(&self, _: &[&[u8]], _: &[rustls::SignatureScheme]) -> Option<Arc<rustls::sign::CertifiedKey>> {
        self.0.store(true, Ordering::SeqCst);
        None
    }
    fn has_certs(&self) -> bool {
        true
    }
}

/// does the server listening on `port` send a CertificateRequest?
async fn asks(port: u16) -> u64 {
    let provider = rustls::crypto::CryptoProvider::get_default().unwrap().clone();
    let flag = Arc::new(AtomicBool::new(false));
    let cfg = rustls::ClientConfig::builder()
        .dangerous()
        .with_custom_certificate_verifier(Arc::new(AcceptAll(provider)))
        .with_client_cert_resolver(Arc::new(AskProbe(flag.clone())));
    let conn = tokio_rustls::TlsConnector::from(Arc::new(cfg));
    let Ok(tcp) = TcpStream::connect(("127.0.0.1", port)).await else { return 9 };
    if let Ok(mut s) = conn.connect(ServerName::try_from("localhost").unwrap(), tcp).await {
        // drive the connection a little so that a TLS 1.3 post-handshake alert is consumed
        let _ = s.write_all(b"GET /version HTTP/1.1\r\nhost: x\r\nconnection: close\r\n\r\n").await;
        let mut b = [0u8; 64];
        let _ = tokio::time::timeout(Duration::from_millis(500), s.read(&mut b)).await;
    }
    u64::from(flag.load(Ordering::SeqCst))
}

async fn http_roundtrip<S: AsyncReadExt + AsyncWriteExt + Unpin>(s: &mut S, close: bool) -> bool {
    let req = if close { "GET /version HTTP/1.1\r\nhost: x\r\nconnection: close\r\n\r\n" } else { "GET /version HTTP/1.1\r\nhost: x\r\n\r\n" };
    if s.write_all(req.as_bytes()).await.is_err() {
        return false;
    }
    let mut buf = Vec::new();
    let mut b = [0u8; 1024];
    let r = tokio::time::timeout(Duration::from_secs(3), async {
        loop {
            match s.read(&mut b).await {
                Ok(0) | Err(_) => return false,
                Ok(n) => {
                    buf.extend_from_slice(&b[..n]);
                    if let Some(pos) = buf.windows(4).position(|w| w == b"\r\n\r\n") {
                        let head = String::from_utf8_lossy(&buf[..pos]).to_ascii_lowercase();
                        let cl = head.lines().find_map(|l| l.strip_prefix("content-length:").map(|v| v.trim().parse::<usize>().unwrap_or(0))).unwrap_or(0);
                        if buf.len() >= pos + 4 + cl {
                            return buf.starts_with(b"HTTP/1.1 ");
                        }
                    }
                }
            }
        }
    })
    .await;
    r.unwrap_or(false)
}

struct Server {
    port: u16,
    identity: TlsIdentity,
    task: tokio::task::JoinHandle<()>,
    cert: String,
    key: String,
    ca: String,
}

async fn start_server(pki: &Pki, tag: &str, cert: u64, ca: bool) -> Server {
    let d = pki.d();
    let (certp, keyp, cap) = (p(d, &format!("live-{tag}.pem")), p(d, &format!("live-{tag}.key")), p(d, &format!("live-{tag}-ca.pem")));
    std::fs::copy(d.join("clientca.pem"), &cap).unwrap();
    std::fs::copy(d.join(format!("srv{cert}.pem")), &certp).unwrap();
    std::fs::copy(d.join(format!("srv{cert}.key")), &keyp).unwrap();
    let identity = make_tls_identity(&certp, &keyp, if ca { Some(&cap) } else { None }).await.expect("identity");
    let listener = TcpListener::bind("127.0.0.1:0").await.unwrap();
    let port = listener.local_addr().unwrap().port();
    let state = rusty_penguin_lib::server::State::new().await.expect("state");
    let task = tokio::spawn(rusty_penguin_lib::server::run_listener(listener, Some(identity.clone()), state));
    Server { port, identity, task, cert: certp, key: keyp, ca: cap }
}

async fn matrix_case(pki: &Pki, servers: &[Server], c: &[u64]) -> Vec<u64> {
    let (sc, nm, sk, cc, ca) = (c[0], c[1], c[2] != 0, c[3], c[4] != 0);
    let srv = &servers[(sc * 2 + u64::from(ca)) as usize];
    let d = pki.d();
    let name = if nm == 0 { "localhost" } else { "other.example" };
    let (ccert, ckey) = match cc {
        0 => (None, None),
        k => (Some(p(d, &format!("cli{k}.pem"))), Some(p(d, &format!("cli{k}.key")))),
    };
    let root = p(d, "rootA.pem");
    let reached = match TcpStream::connect(("127.0.0.1", srv.port)).await {
        Err(_) => 9,
        Ok(tcp) => match tls_connect(tcp, name, ccert.as_deref(), ckey.as_deref(), Some(&root), sk).await {
            Err(_) => 0,
            Ok(mut s) => u64::from(http_roundtrip(&mut s, true).await),
        },
    };
    vec![reached, asks(srv.port).await]
}

async fn reload_case(pki: &Pki, tag: &str, c: &[u64]) -> Vec<u64> {
    let d = pki.d();
    let srv = start_server(pki, tag, c[0], c[1] != 0).await;
    let mut ca_now = c[1] != 0;
    let mut out = vec![];
    let mut conns = vec![];
    let mut i = 2;
    let (ccert, ckey) = (p(d, "cli1.pem"), p(d, "cli1.key"));
    let mut returning: [Option<Arc<rustls::ClientConfig>>; 2] = [None, None];
    while i < c.len() {
        match c[i] {
            0 => {
                i += 1;
                let tcp = TcpStream::connect(("127.0.0.1", srv.port)).await.unwrap();
                match tls_connect(tcp, "localhost", Some(&ccert), Some(&ckey), None, true).await {
                    Ok(mut s) => {
                        let seen = s.get_ref().1.peer_certificates().and_then(|v| v.first()).map_or(9, |der| pki.seen(der.as_ref()));
                        if http_roundtrip(&mut s, false).await {
                            out.extend([1, seen, asks(srv.port).await]);
                            conns.push((s, seen));
                        } else {
                            out.push(0);
                        }
                    }
                    Err(_) => out.push(0),
                }
            }
            1 if i + 3 < c.len() => {
                let (good, cert, ca) = (c[i + 1] != 0, c[i + 2], c[i + 3] != 0);
                // ca 2: the CA file is rewritten in place to hold another CA before the reload (1: the first CA again)
                if c[i + 3] != 0 {
                    std::fs::copy(d.join(if c[i + 3] == 2 { "clientca2.pem" } else { "clientca.pem" }), &srv.ca).unwrap();
                }
                i += 4;
                if good {
                    std::fs::copy(d.join(format!("srv{cert}.pem")), &srv.cert).unwrap();
                    std::fs::copy(d.join(format!("srv{cert}.key")), &srv.key).unwrap();
                } else {
                    std::fs::write(&srv.cert, b"-----BEGIN GARBAGE-----\nnot a certificate\n").unwrap();
                }
                let r = reload_tls_identity(&srv.identity, &srv.cert, &srv.key, if ca { Some(&srv.ca) } else { None }).await;
                if r.is_ok() {
                    ca_now = ca;
                }
                out.push(u64::from(r.is_ok()));
            }
            4 if i + 1 < c.len() => {
                // a new client presenting no certificate (0), the good one (1) or one under the second CA (2)
                let k = c[i + 1];
                i += 2;
                let (cc, ck) = match k {
                    0 => (None, None),
                    1 => (Some(ccert.clone()), Some(ckey.clone())),
                    _ => (Some(p(d, "cli5.pem")), Some(p(d, "cli5.key"))),
                };
                let mut res = vec![0];
                if let Ok(tcp) = TcpStream::connect(("127.0.0.1", srv.port)).await {
                    if let Ok(mut s) = tls_connect(tcp, "localhost", cc.as_deref(), ck.as_deref(), None, true).await {
                        let seen = s.get_ref().1.peer_certificates().and_then(|v| v.first()).map_or(9, |der| pki.seen(der.as_ref()));
                        if http_roundtrip(&mut s, true).await {
                            res = vec![1, seen];
                        }
                    }
                }
                out.extend(res);
            }
            3 if i + 1 < c.len() => {
                // a returning client: one persistent client configuration (made by the real make_client_config,
                // verification skipped) whose session cache survives from its earlier connections
                let k = usize::from(c[i + 1] != 0);
                i += 2;
                if returning[k].is_none() {
                    let (cc, ck) = if k == 0 { (Some(ccert.as_str()), Some(ckey.as_str())) } else { (None, None) };
                    returning[k] = rusty_penguin_lib::tls::make_client_config(cc, ck, None, true, Some(&["http/1.1"])).await.ok().map(Arc::new);
                }
                let mut res = vec![0];
                if let (Some(cfg), Ok(tcp)) = (returning[k].clone(), TcpStream::connect(("127.0.0.1", srv.port)).await) {
                    let conn = tokio_rustls::TlsConnector::from(cfg);
                    if let Ok(Ok(mut s)) = tokio::time::timeout(Duration::from_secs(5), conn.connect(ServerName::try_from("localhost").unwrap(), tcp)).await {
                        let seen = s.get_ref().1.peer_certificates().and_then(|v| v.first()).map_or(9, |der| pki.seen(der.as_ref()));
                        // the round trip also lets the client take the session tickets the server sends
                        if http_roundtrip(&mut s, true).await {
                            res = vec![1, seen];
                        }
                    }
                }
                out.extend(res);
            }
            2 if i + 1 < c.len() => {
                let k = c[i + 1] as usize;
                i += 2;
                match conns.get_mut(k) {
                    Some((s, seen)) => {
                        if http_roundtrip(s, false).await {
                            out.extend([1, *seen]);
                        } else {
                            out.extend([0, 7]);
                        }
                    }
                    None => out.push(0),
                }
            }
            _ => break,
        }
    }
    let _ = ca_now;
    srv.task.abort();
    out
}

async fn name_case(pki: &Pki, srv: &Server, echo_port: u16, c: &[u64]) -> Vec<u64> {
    use rusty_penguin_lib::arg::{ClientArgs, Remote, ServerUrl};
    use std::str::FromStr;
    let name = |k: u64| match k { 1 => Some("localhost"), 2 => Some("other.example"), _ => None };
    let url_host = if c[0] == 0 { "127.0.0.1" } else { "localhost" };
    let lport = alloc_port();
    let args: &'static ClientArgs = Box::leak(Box::new(ClientArgs {
        server: ServerUrl::from_str(&format!("wss://{url_host}:{}/ws", srv.port)).unwrap(),
        remote: vec![Remote::from_str(&format!("127.0.0.1:{lport}:127.0.0.1:{echo_port}")).unwrap()],
        keepalive: penguin_mux::timing::OptionalDuration::NONE,
        max_retry_count: 1,
        max_retry_interval: 200,
        handshake_timeout: Duration::from_secs(3).into(),
        hostname: name(c[1]).map(http::HeaderValue::from_static),
        tls_server_name: name(c[2]).map(str::to_string),
        tls_ca: Some(p(pki.d(), "rootA.pem")),
        tls_skip_verify: c[3] != 0,
        ..Default::default()
    }));
    let (hr, srx, drx) = rusty_penguin_lib::client::HandlerResources::create();
    let hr: &'static rusty_penguin_lib::client::HandlerResources = Box::leak(Box::new(hr));
    let mut client = tokio::spawn(rusty_penguin_lib::client::client_main_inner(args, hr, srx, drx));
    let probe = async {
        for _ in 0..300 {
            if let Ok(mut s) = TcpStream::connect(("127.0.0.1", lport)).await {
                if s.write_all(b"ping").await.is_ok() {
                    let mut b = [0u8; 4];
                    return matches!(tokio::time::timeout(Duration::from_secs(4), s.read_exact(&mut b)).await, Ok(Ok(_))) && &b == b"ping";
                }
            }
            tokio::time::sleep(Duration::from_millis(10)).await;
        }
        false
    };
    let reached = tokio::select! {
        _ = &mut client => false,
        r = probe => r,
    };
    client.abort();
    vec![u64::from(reached)]
}

async fn blank_case(pki: &Pki, servers: &[Server], c: &[u64]) -> Vec<u64> {
    let d = pki.d();
    let skip = c[1] != 0;
    let blank = p(d, "blank.pem");
    let get = |ca: Option<String>, cert: Option<(String, String)>, port: u16| async move {
        match TcpStream::connect(("127.0.0.1", port)).await {
            Err(_) => 9,
            Ok(tcp) => {
                let (cc, ck) = match &cert { Some((a, b)) => (Some(a.as_str()), Some(b.as_str())), None => (None, None) };
                match tls_connect(tcp, "localhost", cc, ck, ca.as_deref(), skip).await {
                    Err(_) => 0,
                    Ok(mut s) => u64::from(http_roundtrip(&mut s, true).await),
                }
            }
        }
    };
    match c[0] {
        0 => vec![get(Some(blank), None, servers[0].port).await],
        1 => vec![get(None, None, servers[0].port).await],
        2 => {
            let r = make_tls_identity(&p(d, "srv0.pem"), &p(d, "srv0.key"), Some(&blank)).await;
            vec![u64::from(r.is_ok())]
        }
        // a client CA that is configured but cannot be loaded (no such file, a directory, a damaged PEM body): no identity
        // (a server that went on without client authentication would admit everybody)
        4..=6 => {
            let path = match c[0] {
                4 => p(d, "no-such-ca.pem"),
                5 => d.to_str().unwrap().to_string(),
                _ => {
                    let bad = p(d, "damaged-ca.pem");
                    std::fs::write(&bad, b"-----BEGIN CERTIFICATE-----\nTUlJ@@@@not base64@@@@\n-----END CERTIFICATE-----\n").unwrap();
                    bad
                }
            };
            let r = make_tls_identity(&p(d, "srv0.pem"), &p(d, "srv0.key"), Some(&path)).await;
            vec![u64::from(r.is_ok())]
        }
        // the same on a reload: it fails, the identity (with its client CA) stays, a client without certificate stays out
        7 => {
            let (certp, keyp, cap) = (p(d, "rl7.pem"), p(d, "rl7.key"), p(d, "rl7-ca.pem"));
            std::fs::copy(d.join("srv0.pem"), &certp).unwrap();
            std::fs::copy(d.join("srv0.key"), &keyp).unwrap();
            std::fs::copy(d.join("clientca.pem"), &cap).unwrap();
            let Ok(identity) = make_tls_identity(&certp, &keyp, Some(&cap)).await else { return vec![9, 9] };
            let listener = TcpListener::bind("127.0.0.1:0").await.unwrap();
            let port = listener.local_addr().unwrap().port();
            let state = rusty_penguin_lib::server::State::new().await.expect("state");
            let task = tokio::spawn(rusty_penguin_lib::server::run_listener(listener, Some(identity.clone()), state));
            std::fs::remove_file(&cap).unwrap();
            let r = reload_tls_identity(&identity, &certp, &keyp, Some(&cap)).await;
            let bare = get(None, None, port).await;
            task.abort();
            vec![u64::from(r.is_ok()), bare]
        }
        _ => vec![get(Some(p(d, "rootA.pem")), Some((p(d, "cli3.pem"), p(d, "cli3.key"))), servers[1].port).await],
    }
}

async fn signal_case(pki: &Pki, tag: &str, c: &[u64]) -> Vec<u64> {
    use rusty_penguin_lib::arg::ServerArgs;
    let d = pki.d();
    let (mut cert, n, bad) = (c[0] % 3, c[1], c.get(2).is_some_and(|&b| b != 0));
    let (certp, keyp, cap) = (p(d, &format!("sig-{tag}.pem")), p(d, &format!("sig-{tag}.key")), p(d, "clientca.pem"));
    std::fs::copy(d.join(format!("srv{cert}.pem")), &certp).unwrap();
    std::fs::copy(d.join(format!("srv{cert}.key")), &keyp).unwrap();
    // the server listens on two addresses (--host twice): every listener must carry the same, current identity and the
    // same client-certificate requirement; the rounds alternate between the two, the probes after a failed reload use the other
    let ports = [alloc_port(), alloc_port()];
    let args: &'static ServerArgs = Box::leak(Box::new(ServerArgs {
        host: vec!["127.0.0.1".to_string(), "127.0.0.1".to_string()],
        port: ports.to_vec(),
        tls_cert: Some(certp.clone()),
        tls_key: Some(keyp.clone()),
        tls_ca: Some(cap),
        ..Default::default()
    }));
    let server = tokio::spawn(rusty_penguin_lib::server::server_main(args));
    for _ in 0..300 {
        if TcpStream::connect(("127.0.0.1", ports[0])).await.is_ok() && TcpStream::connect(("127.0.0.1", ports[1])).await.is_ok() {
            break;
        }
        tokio::time::sleep(Duration::from_millis(10)).await;
    }
    let (good_c, good_k) = (p(d, "cli1.pem"), p(d, "cli1.key"));
    let mut out = vec![];
    for round in 0..=n {
        let port = ports[(round % 2) as usize];
        // with the right client certificate
        let (mut reached, mut seen) = (0u64, 9u64);
        if let Ok(tcp) = TcpStream::connect(("127.0.0.1", port)).await {
            if let Ok(mut s) = tls_connect(tcp, "localhost", Some(&good_c), Some(&good_k), None, true).await {
                seen = s.get_ref().1.peer_certificates().and_then(|v| v.first()).map_or(9, |der| pki.seen(der.as_ref()));
                reached = u64::from(http_roundtrip(&mut s, true).await);
            }
        }
        // without any client certificate
        let mut bare = 0u64;
        if let Ok(tcp) = TcpStream::connect(("127.0.0.1", port)).await {
            if let Ok(mut s) = tls_connect(tcp, "localhost", None, None, None, true).await {
                bare = u64::from(http_roundtrip(&mut s, true).await);
            }
        }
        out.extend([reached, seen, bare, asks(port).await]);
        if round < n && bad {
            // a reload that fails (the certificate file holds garbage when the signal arrives): the identity stays, and the
            // server must go on listening to later signals
            std::fs::write(&certp, b"-----BEGIN GARBAGE-----\nnot a certificate\n").unwrap();
            let _ = std::process::Command::new("sh").arg("-c").arg(format!("kill -USR1 {}", std::process::id())).status();
            tokio::time::sleep(Duration::from_millis(200)).await;
            let port = ports[((round + 1) % 2) as usize];
            let (mut reached, mut seen) = (0u64, 9u64);
            if let Ok(tcp) = TcpStream::connect(("127.0.0.1", port)).await {
                if let Ok(mut s) = tls_connect(tcp, "localhost", Some(&good_c), Some(&good_k), None, true).await {
                    seen = s.get_ref().1.peer_certificates().and_then(|v| v.first()).map_or(9, |der| pki.seen(der.as_ref()));
                    reached = u64::from(http_roundtrip(&mut s, true).await);
                }
            }
            out.extend([reached, seen]);
        }
        if round < n {
            cert = (cert + 1) % 3;
            std::fs::copy(d.join(format!("srv{cert}.pem")), &certp).unwrap();
            std::fs::copy(d.join(format!("srv{cert}.key")), &keyp).unwrap();
            // what an operator does: SIGUSR1 to the server process (this process)
            let _ = std::process::Command::new("sh").arg("-c").arg(format!("kill -USR1 {}", std::process::id())).status();
            tokio::time::sleep(Duration::from_millis(200)).await;
        }
    }
    server.abort();
    out
}

pub struct Ctx {
    echo_port: u16,
    rt: tokio::runtime::Runtime,
    pki: Pki,
    servers: Vec<Server>,
    n: std::cell::Cell<u64>,
}

impl Ctx {
    pub fn new() -> Self {
        let rt = tokio::runtime::Builder::new_multi_thread().worker_threads(4).enable_all().build().unwrap();
        let pki = Pki::new();
        // SIGUSR1 must never kill the harness: keep a listener registered for the whole run
        rt.spawn(async {
            if let Ok(mut s) = tokio::signal::unix::signal(tokio::signal::unix::SignalKind::user_defined1()) {
                while s.recv().await.is_some() {}
            }
        });
        // the "system" root store of this process holds root A only (rustls-native-certs honours SSL_CERT_FILE)
        unsafe { std::env::set_var("SSL_CERT_FILE", p(pki.d(), "rootA.pem")) };
        let servers = rt.block_on(async {
            let mut v = vec![];
            for sc in 0..6u64 {
                for ca in [false, true] {
                    v.push(start_server(&pki, &format!("m{sc}{}", u8::from(ca)), sc, ca).await);
                }
            }
            v
        });
        let echo_port = rt.block_on(async {
            let l = TcpListener::bind("127.0.0.1:0").await.unwrap();
            let port = l.local_addr().unwrap().port();
            tokio::spawn(async move {
                while let Ok((mut s, _)) = l.accept().await {
                    tokio::spawn(async move {
                        let (mut r, mut w) = s.split();
                        let _ = tokio::io::copy(&mut r, &mut w).await;
                    });
                }
            });
            port
        });
        Self { echo_port, rt, pki, servers, n: std::cell::Cell::new(0) }
    }
    pub fn run_case(&self, c: &[u64]) -> Vec<u64> {
        match c.first() {
            Some(1) if c.len() == 6 && c[1] < 6 && c[4] < 5 => self.rt.block_on(matrix_case(&self.pki, &self.servers, &c[1..])),
            Some(2) if c.len() >= 3 && c[1] < 6 => {
                self.n.set(self.n.get() + 1);
                self.rt.block_on(reload_case(&self.pki, &format!("r{}", self.n.get()), &c[1..]))
            }
            Some(5) if (c.len() == 3 || c.len() == 4) && c[2] <= 6 => {
                self.n.set(self.n.get() + 1);
                self.rt.block_on(signal_case(&self.pki, &format!("s{}", self.n.get()), &c[1..]))
            }
            Some(4) if c.len() == 3 && c[1] < 8 => self.rt.block_on(blank_case(&self.pki, &self.servers, &c[1..])),
            Some(3) if c.len() == 5 => self.rt.block_on(name_case(&self.pki, &self.servers[0], self.echo_port, &c[1..])),
            _ => vec![999_999],
        }
    }
}

pub fn generate(a: &Args, out: &mut Out) {
    let ctx = Ctx::new();
    let mut rng = Rng(a.seed ^ 0x17);
    let mut matrix = vec![];
    for sc in 0..6u64 {
        for nm in 0..2u64 {
            for sk in 0..2u64 {
                for cc in 0..5u64 {
                    for ca in 0..2u64 {
                        matrix.push(vec![17, 1, sc, nm, sk, cc, ca]);
                    }
                }
            }
        }
    }
    // the configurations are independent of each other: eight at a time
    for batch in matrix.chunks(8) {
        let rs = ctx.rt.block_on(futures_util::future::join_all(batch.iter().map(|c| matrix_case(&ctx.pki, &ctx.servers, &c[2..]))));
        for (c, r) in batch.iter().zip(rs) {
            out.emit(c, &r);
        }
    }
    for (cert, n) in [(0u64, 3u64), (2, 2)] {
        let c = vec![17, 5, cert, n];
        let r = ctx.run_case(&c[1..]);
        out.emit(&c, &r);
    }
    // the same with a failed reload (garbage in the certificate file) before each good one
    {
        let c = vec![17, 5, 1, 2, 1];
        let r = ctx.run_case(&c[1..]);
        out.emit(&c, &r);
    }
    for which in 0..8u64 {
        for sk in 0..2u64 {
            let c = vec![17, 4, which, sk];
            let r = ctx.run_case(&c[1..]);
            out.emit(&c, &r);
        }
    }
    for url in 0..2u64 {
        for hn in 0..3u64 {
            for sni in 0..3u64 {
                for sk in 0..2u64 {
                    let c = vec![17, 3, url, hn, sni, sk];
                    let r = ctx.run_case(&c[1..]);
                    out.emit(&c, &r);
                }
            }
        }
    }
    // the client CA file rewritten in place and the identity reloaded: the old CA's clients are out, the new CA's are in
    for c in [
        vec![17u64, 2, 0, 1, 4, 1, 4, 2, 1, 1, 0, 2, 4, 1, 4, 2, 4, 0, 0, 1, 1, 3, 1, 4, 1, 4, 2, 0],
        vec![17, 2, 3, 1, 0, 1, 1, 1, 2, 4, 2, 4, 1, 3, 0, 1, 1, 1, 0, 4, 0, 4, 1, 4, 2],
    ] {
        let r = ctx.run_case(&c[1..]);
        out.emit(&c, &r);
    }
    // returning clients across reloads: certificate replaced; client CA switched on; client CA switched off
    for c in [
        vec![17u64, 2, 0, 0, 3, 0, 3, 1, 1, 1, 1, 0, 3, 0, 3, 1, 1, 1, 2, 1, 3, 0, 3, 1],
        vec![17, 2, 1, 1, 3, 0, 3, 1, 1, 1, 0, 0, 3, 0, 3, 1, 3, 1, 1, 1, 2, 1, 3, 1, 3, 0],
    ] {
        let r = ctx.run_case(&c[1..]);
        out.emit(&c, &r);
    }
    for _ in 0..a.n {
        let mut c = vec![17, 2, rng.below(6), rng.below(2)];
        let n = 2 + rng.below(8);
        let mut conns = 0;
        for _ in 0..n {
            match rng.below(12) {
                0..=3 => {
                    c.push(0);
                    conns += 1;
                }
                10 => c.extend([3, rng.below(2)]),
                11 => c.extend([4, rng.below(3)]),
                4..=6 => c.extend([1, u64::from(!rng.chance(1, 5)), rng.below(6), rng.below(3)]),
                _ => c.extend([2, if conns > 0 && !rng.chance(1, 8) { rng.below(conns) } else { conns + rng.below(2) }]),
            }
        }
        let r = ctx.run_case(&c[1..]);
        out.emit(&c, &r);
    }
}

#[allow(dead_code)]
fn _unused(_: PathBuf) {}
