//! C01: the real client (`client_main_inner`) and the real server (`run_listener`) on loopback,
//! local clients and targets driven by the harness.
//!
//! (UDP cases, SOCKS5: variant + 16 = the association goes through a second SOCKS listener on the dual-stack wildcard
//!  address [::], reached over IPv4, so that the relay sees its client as an IPv4-mapped address)
//! TCP case:  1 1 entry variant nconn (shape nl l_1.. nt t_1..)*
//!   entry 0 TCP remote, 1 Unix-socket remote, 2 SOCKS5 CONNECT (variant 0 IPv4, 1 domain name),
//!         3 SOCKS4, 4 SOCKS4a, 5 HTTP CONNECT; variant + 2 (entries 2-5): an eager local client, which sends its
//!         first payload bytes in the same write as the request, before it has read the proxy's reply;
//!         variant + 8 (entries 2-5): the request reaches the listener in several TCP segments with pauses between them
//!   shape 0 local writes, half-closes, then reads to EOF; target reads to EOF, then answers, closes
//!         1 target writes, half-closes, reads to EOF; local reads to EOF, then writes, closes
//!         2 both write at once, each half-closes when done, both read to EOF
//!         3 target writes then closes the connection; local reads to EOF
//!         4 local writes then closes the connection; target reads to EOF
//!         5 the target port refuses connections; the local connection must get closed
//!         6 target answers and half-closes, then (after the local client has seen EOF) closes completely while
//!           the local client keeps uploading: the upload must fail (l_end 1) instead of going on for ever (0);
//!           the target reports only that what it received is a prefix of the upload (t_len 0, t_end 0)
//!         7 target half-closes at once and drains slowly; local uploads 3 MB, half-closes, reads to EOF: every byte of
//!           the upload must arrive before the target sees EOF (the chunk lists are ignored)
//!         8 target answers and half-closes; only then the local client sends its data and KEEPS its side open until the
//!           target has provably received all of it (l_end 1; 0 = the data did not arrive while the connection was open)
//!         9 local writes and half-closes; the target reads to EOF, then answers and KEEPS the connection open until the
//!           local client has provably received the whole answer (t_end 1; 0 = it did not arrive while open)
//!        10 the local client sends its request (if the entry has one) and hangs up a few milliseconds later, with the
//!           stream request still on its way (the client reaches the server through a relay adding 15 ms); nothing is
//!           observed of this connection itself: the other connections of the case must not notice
//!   every local connection first sends a 4-byte tag (part of the payload) naming its target script
//!   result per connection: l_len l_ok l_end t_len t_ok t_end
//!     (len = bytes received, ok = they are exactly the peer's byte stream so far, end: 1 clean EOF,
//!      2 error/reset, 0 still open after the timeout)
//! stalled reader: 1 5 entry n    (see `stalled_reader`)
//! slow UDP:  1 3 entry n gap_ms   (see `slow_udp`)
//! UDP burst: 1 4 entry n          (see `burst_udp`)
//! UDP case:  1 2 entry shared nclients (n size_1..size_n)*
//!   entry 0 UDP remote, 1 SOCKS5 UDP association (shared 1: one association used by all clients;
//!   variant 0/1 IPv4 / domain-name header, 2/3 the same with each client alternating between two targets,
//!   4 the target on the IPv6 loopback: IPv6 address in the SOCKS5 header / the UDP remote pointing at `[::1]`;
//!   + 8: the clients start 200 ms one after the other instead of all at once)
//!   TCP variant + 4 (entries 0, 2, 5): the target on the IPv6 loopback (remote `[::1]:port`, SOCKS5 ATYP 4, `CONNECT [::1]:port`)
//!   result per client: mine foreign from_ok header_ok target_got
use crate::util::*;
use rusty_penguin_lib::arg::{ClientArgs, Remote, ServerUrl};
use rusty_penguin_lib::client::{HandlerResources, client_main_inner};
use std::collections::HashMap;
use std::net::SocketAddr;
use std::path::PathBuf;
use std::str::FromStr;
use std::sync::{Arc, Mutex};
use std::time::{Duration, Instant};
use tokio::io::{AsyncRead, AsyncReadExt, AsyncWrite, AsyncWriteExt};
use tokio::net::{TcpListener, TcpStream, UdpSocket, UnixStream};

const TMO: Duration = Duration::from_secs(6);

/// the deterministic byte stream of direction `dir` of connection `tag`
fn stream_bytes(tag: u32, dir: u64, n: usize) -> Vec<u8> {
    let mut r = Rng(u64::from(tag) << 8 | dir);
    r.bytes(n)
}

#[derive(Clone, Debug)]
struct TScript {
    shape: u64,
    total_local: usize,
    t_chunks: Vec<usize>,
}

#[derive(Clone, Debug, Default)]
struct Obs {
    len: u64,
    ok: u64,
    end: u64,
}

type Scripts = Arc<Mutex<HashMap<u32, TScript>>>;
/// bytes received so far by the target (key (tag, 0)) / by the local client (key (tag, 1)): lets one end keep the
/// connection open until the other has provably received everything
type Progress = Arc<Mutex<HashMap<(u32, u8), u64>>>;

fn progress() -> &'static Progress {
    static P: std::sync::OnceLock<Progress> = std::sync::OnceLock::new();
    P.get_or_init(Arc::default)
}

/// like read_all, publishing the running total
async fn read_all_progress<R: AsyncRead + Unpin>(r: &mut R, expect: &[u8], key: (u32, u8), base: u64) -> Obs {
    let mut got = 0usize;
    let mut ok = 1u64;
    let mut buf = vec![0u8; 16384];
    progress().lock().unwrap().insert(key, base);
    loop {
        match tokio::time::timeout(TMO, r.read(&mut buf)).await {
            Err(_) => return Obs { len: got as u64, ok, end: 0 },
            Ok(Err(_)) => return Obs { len: got as u64, ok, end: 2 },
            Ok(Ok(0)) => return Obs { len: got as u64, ok, end: 1 },
            Ok(Ok(n)) => {
                if got + n > expect.len() || buf[..n] != expect[got..got + n] {
                    ok = 0;
                }
                got += n;
                progress().lock().unwrap().insert(key, base + got as u64);
            }
        }
    }
}

/// wait (up to 3 s) until the other end has received `want` bytes
async fn wait_progress(key: (u32, u8), want: u64) -> bool {
    for _ in 0..300 {
        if progress().lock().unwrap().get(&key).copied().unwrap_or(0) >= want {
            return true;
        }
        tokio::time::sleep(Duration::from_millis(10)).await;
    }
    false
}
type ObsMap = Arc<Mutex<HashMap<u32, Obs>>>;

trait Io: AsyncRead + AsyncWrite + Unpin + Send {}
impl<T: AsyncRead + AsyncWrite + Unpin + Send> Io for T {}

/// read until EOF / error / timeout, checking the bytes against `expect`
async fn read_all<R: AsyncRead + Unpin>(r: &mut R, expect: &[u8]) -> Obs {
    let mut got = 0usize;
    let mut ok = 1u64;
    let mut buf = vec![0u8; 16384];
    loop {
        match tokio::time::timeout(TMO, r.read(&mut buf)).await {
            Err(_) => return Obs { len: got as u64, ok, end: 0 },
            Ok(Err(_)) => return Obs { len: got as u64, ok, end: 2 },
            Ok(Ok(0)) => return Obs { len: got as u64, ok, end: 1 },
            Ok(Ok(n)) => {
                if got + n > expect.len() || buf[..n] != expect[got..got + n] {
                    ok = 0;
                }
                got += n;
            }
        }
    }
}

async fn write_chunks<W: AsyncWrite + Unpin>(w: &mut W, data: &[u8], chunks: &[usize]) -> bool {
    // a write that does not complete within the timeout counts as failed (the peer has stopped
    // reading: on a direct connection that only happens when it is gone)
    let r = tokio::time::timeout(TMO, async {
        let mut off = 0;
        for (i, &c) in chunks.iter().enumerate() {
            if c == 0 {
                // a zero-length write
                if w.write(&[]).await.is_err() {
                    return false;
                }
            } else if w.write_all(&data[off..off + c]).await.is_err() {
                return false;
            }
            off += c;
            if i % 3 == 2 {
                let _ = w.flush().await;
                tokio::task::yield_now().await;
            }
        }
        true
    })
    .await;
    r.unwrap_or(false)
}

async fn target_conn(mut s: TcpStream, scripts: Scripts, obs: ObsMap) {
    let mut tagb = [0u8; 4];
    if s.read_exact(&mut tagb).await.is_err() {
        return;
    }
    let tag = u32::from_be_bytes(tagb);
    let Some(sc) = scripts.lock().unwrap().get(&tag).cloned() else { return };
    let expect = stream_bytes(tag, 0, sc.total_local);
    let total_t: usize = sc.t_chunks.iter().sum();
    let data = stream_bytes(tag, 1, total_t);
    let (mut r, mut w) = s.split();
    let o = match sc.shape {
        0 => {
            let o = read_all(&mut r, &expect).await;
            write_chunks(&mut w, &data, &sc.t_chunks).await;
            let _ = w.shutdown().await;
            o
        }
        1 => {
            write_chunks(&mut w, &data, &sc.t_chunks).await;
            let _ = w.shutdown().await;
            read_all(&mut r, &expect).await
        }
        2 => {
            let wr = async {
                write_chunks(&mut w, &data, &sc.t_chunks).await;
                let _ = w.shutdown().await;
            };
            let (_, o) = tokio::join!(wr, read_all(&mut r, &expect));
            o
        }
        3 => {
            write_chunks(&mut w, &data, &sc.t_chunks).await;
            Obs { len: 0, ok: 1, end: 0 }
        }
        11 => {
            // a long stream of small chunks, each sent on its own (1 ms apart), then close
            for (i, &c) in sc.t_chunks.iter().enumerate() {
                let off = i * c;
                if tokio::time::timeout(TMO, w.write_all(&data[off..off + c])).await.map_or(true, |r| r.is_err()) {
                    break;
                }
                tokio::time::sleep(Duration::from_millis(1)).await;
            }
            Obs { len: 0, ok: 1, end: 0 }
        }
        8 => {
            // answer, half-close, then keep reading: the local client sends its data only now and keeps its side open
            write_chunks(&mut w, &data, &sc.t_chunks).await;
            let _ = w.shutdown().await;
            read_all_progress(&mut r, &expect, (tag, 0), 4).await
        }
        9 => {
            // read to EOF (the local client half-closed), then answer and keep the connection open until the local
            // client has provably received the whole answer
            let o = read_all(&mut r, &expect).await;
            write_chunks(&mut w, &data, &sc.t_chunks).await;
            let _ = w.flush().await;
            let confirmed = wait_progress((tag, 1), total_t as u64).await;
            let _ = w.shutdown().await;
            Obs { end: if o.end == 1 { u64::from(confirmed) } else { o.end }, ..o }
        }
        7 => {
            let _ = w.shutdown().await;
            // a slow consumer: small reads with pauses
            let mut got = 0usize;
            let mut ok = 1u64;
            let mut buf = vec![0u8; 32768];
            let end = loop {
                match tokio::time::timeout(TMO, r.read(&mut buf)).await {
                    Err(_) => break 0,
                    Ok(Err(_)) => break 2,
                    Ok(Ok(0)) => break 1,
                    Ok(Ok(n)) => {
                        if got + n > expect.len() || buf[..n] != expect[got..got + n] {
                            ok = 0;
                        }
                        got += n;
                        tokio::time::sleep(Duration::from_millis(3)).await;
                    }
                }
            };
            Obs { len: got as u64, ok, end }
        }
        6 => {
            write_chunks(&mut w, &data, &sc.t_chunks).await;
            let _ = w.shutdown().await;
            // keep reading the upload for a while, then close completely (with the upload still coming)
            let mut got = 0usize;
            let mut ok = 1u64;
            let mut buf = vec![0u8; 16384];
            let until = tokio::time::Instant::now() + Duration::from_millis(400);
            while let Ok(Ok(n)) = tokio::time::timeout_at(until, r.read(&mut buf)).await {
                if n == 0 {
                    break;
                }
                if got + n > expect.len() || buf[..n] != expect[got..got + n] {
                    ok = 0;
                }
                got += n;
            }
            obs.lock().unwrap().insert(tag, Obs { len: 0, ok, end: 0 });
            return;
        }
        _ => read_all(&mut r, &expect).await,
    };
    obs.lock().unwrap().insert(tag, Obs { len: o.len + 4, ..o });
    // the socket is dropped (closed) here
}

/// what a slow UDP client needs of the world (so that it can run as a task beside the other cases)
#[derive(Clone)]
struct SlowCtx {
    uds: PathBuf,
    tcp_port: u16,
    scripts: Scripts,
    obs: ObsMap,
    udp_port: u16,
    socks_port: u16,
    target_udp: u16,
    udp_seen: Arc<Mutex<HashMap<u32, u64>>>,
}

/// UDP case kind 3: one client sending `n` datagrams `gap_ms` apart through a UDP remote (entry 0) or its own SOCKS5
/// association (entry 1), each of which must be answered before the next is sent (3 s at most).  With gaps around or
/// beyond the idle time after which both ends forget a UDP client (10 s), this exercises the refresh of active
/// clients and the re-registration of pruned ones.  result: mine foreign from_ok header_ok target_got
async fn slow_udp(cx: SlowCtx, entry: u64, n: u64, gap_ms: u64, tag: u32) -> Vec<u64> {
    let Ok(sock) = UdpSocket::bind("127.0.0.1:0").await else { return vec![999_997] };
    let mut control = None;
    let dest: SocketAddr = if entry == 1 {
        let Ok(mut s) = TcpStream::connect(("127.0.0.1", cx.socks_port)).await else { return vec![999_997] };
        let mut b = [0u8; 2];
        let mut rep = [0u8; 10];
        if s.write_all(&[5, 1, 0]).await.is_err()
            || s.read_exact(&mut b).await.is_err()
            || s.write_all(&[5, 3, 0, 1, 0, 0, 0, 0, 0, 0]).await.is_err()
            || s.read_exact(&mut rep).await.is_err()
            || rep[1] != 0
            || rep[3] != 1
        {
            return vec![999_997];
        }
        control = Some(s);
        ([rep[4], rep[5], rep[6], rep[7]], u16::from_be_bytes([rep[8], rep[9]])).into()
    } else {
        ([127, 0, 0, 1], cx.udp_port).into()
    };
    let (mut mine, mut foreign, mut from_ok, mut hdr_ok) = (0u64, 0u64, 1u64, 1u64);
    let mut buf = vec![0u8; 65536];
    for seq in 0..n {
        if seq > 0 {
            tokio::time::sleep(Duration::from_millis(gap_ms)).await;
        }
        let mut p = vec![];
        p.extend(tag.to_be_bytes());
        p.extend((seq as u16).to_be_bytes());
        p.extend(stream_bytes(tag, 100 + seq, 50));
        let mut d = vec![];
        if entry == 1 {
            d.extend([0, 0, 0, 1, 127, 0, 0, 1]);
            d.extend(cx.target_udp.to_be_bytes());
        }
        d.extend(&p);
        let _ = sock.send_to(&d, dest).await;
        let mut want = vec![b'R'];
        want.extend(&p);
        let deadline = tokio::time::Instant::now() + Duration::from_secs(3);
        loop {
            let Ok(Ok((m, from))) = tokio::time::timeout_at(deadline, sock.recv_from(&mut buf)).await else { break };
            if from != dest {
                from_ok = 0;
            }
            let mut body = &buf[..m];
            if entry == 1 {
                if body.len() < 10 || body[..4] != [0, 0, 0, 1] {
                    hdr_ok = 0;
                    foreign += 1;
                    continue;
                }
                body = &body[10..];
            }
            if body == &want[..] {
                mine += 1;
                break;
            }
            foreign += 1;
        }
    }
    drop(control);
    let got = *cx.udp_seen.lock().unwrap().get(&tag).unwrap_or(&0);
    vec![mine, foreign, from_ok, hdr_ok, got]
}

/// TCP case kind 5: the target streams `n` chunks of 2 KiB, each sent on its own, then closes; the local client (small
/// receive buffer, through the fixed TCP remote) reads nothing for 6 s, then reads to the end.  The receive window of
/// the tunnelled stream closes meanwhile (back-pressure reaches the target); every byte must arrive, in order.
/// result: l_len l_ok l_end t_len t_ok t_end
async fn stalled_reader(cx: SlowCtx, entry: u64, n: u64, tag: u32) -> Vec<u64> {
    // entry 1: through the Unix-socket remote (small, fixed socket buffers: the bridge's writes towards the local client
    // are accepted in part only) with chunks of 512 KiB (frames larger than the socket buffer takes at once) and a stall of 2 s; otherwise the TCP remote, 2 KiB, 6 s
    let chunk = if entry == 1 { 524_288usize } else { 2048 };
    let total = n as usize * chunk;
    cx.scripts.lock().unwrap().insert(tag, TScript { shape: 11, total_local: 0, t_chunks: vec![chunk; n as usize] });
    let expect = stream_bytes(tag, 1, total);
    let mut s: Box<dyn Io> = if entry == 1 {
        let Ok(Ok(s)) = tokio::time::timeout(TMO, UnixStream::connect(&cx.uds)).await else { return vec![0, 0, 9, 0, 0, 9] };
        Box::new(s)
    } else {
        let sock = tokio::net::TcpSocket::new_v4().unwrap();
        let _ = sock.set_recv_buffer_size(4096);
        let Ok(Ok(s)) = tokio::time::timeout(TMO, sock.connect(([127, 0, 0, 1], cx.tcp_port).into())).await else {
            return vec![0, 0, 9, 0, 0, 9];
        };
        Box::new(s)
    };
    let _ = s.write_all(&tag.to_be_bytes()).await;
    tokio::time::sleep(Duration::from_secs(if entry == 1 { 2 } else { 6 })).await;
    let l = read_all(&mut s, &expect).await;
    drop(s);
    let mut t = None;
    for _ in 0..700 {
        if let Some(o) = cx.obs.lock().unwrap().remove(&tag) {
            t = Some(o);
            break;
        }
        tokio::time::sleep(Duration::from_millis(10)).await;
    }
    let t = t.unwrap_or(Obs { len: 0, ok: 0, end: 8 });
    cx.scripts.lock().unwrap().remove(&tag);
    vec![l.len, l.ok, l.end, t.len, t.ok, t.end]
}

/// UDP case kind 4: the target answers one datagram with a burst of `n` replies sent back to back (the tunnel may drop
/// some of them: its reply queue is bounded); once the burst is over the exchange must work as before: the next datagram
/// reaches the target and its reply comes back.  result: late_reply foreign from_ok header_ok late_seen_by_target
async fn burst_udp(cx: SlowCtx, entry: u64, n: u64, tag: u32) -> Vec<u64> {
    let Ok(sock) = UdpSocket::bind("127.0.0.1:0").await else { return vec![999_997] };
    let mut control = None;
    let dest: SocketAddr = if entry == 1 {
        let Ok(mut s) = TcpStream::connect(("127.0.0.1", cx.socks_port)).await else { return vec![999_997] };
        let mut b = [0u8; 2];
        let mut rep = [0u8; 10];
        if s.write_all(&[5, 1, 0]).await.is_err()
            || s.read_exact(&mut b).await.is_err()
            || s.write_all(&[5, 3, 0, 1, 0, 0, 0, 0, 0, 0]).await.is_err()
            || s.read_exact(&mut rep).await.is_err()
            || rep[1] != 0
            || rep[3] != 1
        {
            return vec![999_997];
        }
        control = Some(s);
        ([rep[4], rep[5], rep[6], rep[7]], u16::from_be_bytes([rep[8], rep[9]])).into()
    } else {
        ([127, 0, 0, 1], cx.udp_port).into()
    };
    let header: Vec<u8> = if entry == 1 {
        let mut h = vec![0, 0, 0, 1, 127, 0, 0, 1];
        h.extend(cx.target_udp.to_be_bytes());
        h
    } else {
        vec![]
    };
    let (mut foreign, mut from_ok, mut hdr_ok) = (0u64, 1u64, 1u64);
    let mut buf = vec![0u8; 65536];
    let mut req = tag.to_be_bytes().to_vec();
    req.extend(b"BRST");
    req.extend((n as u16).to_be_bytes());
    let mut d = header.clone();
    d.extend(&req);
    let _ = sock.send_to(&d, dest).await;
    let strip = |m: &[u8], hdr_ok: &mut u64| -> Option<Vec<u8>> {
        if entry == 1 {
            if m.len() < 10 || m[..4] != [0, 0, 0, 1] {
                *hdr_ok = 0;
                return None;
            }
            Some(m[10..].to_vec())
        } else {
            Some(m.to_vec())
        }
    };
    // drain the burst: until nothing has arrived for 300 ms (3 s at most)
    let t0 = Instant::now();
    while t0.elapsed() < Duration::from_secs(3) {
        let Ok(Ok((m, from))) = tokio::time::timeout(Duration::from_millis(300), sock.recv_from(&mut buf)).await else { break };
        if from != dest {
            from_ok = 0;
        }
        match strip(&buf[..m], &mut hdr_ok) {
            Some(b) if b.len() == req.len() + 3 && b[0] == b'R' && b[1..=req.len()] == req[..] => {}
            _ => foreign += 1,
        }
    }
    // the exchange after the burst
    let mut p = tag.to_be_bytes().to_vec();
    p.extend(1u16.to_be_bytes());
    p.extend(stream_bytes(tag, 101, 50));
    let mut d = header.clone();
    d.extend(&p);
    let _ = sock.send_to(&d, dest).await;
    let mut want = vec![b'R'];
    want.extend(&p);
    let mut late = 0u64;
    let deadline = tokio::time::Instant::now() + Duration::from_secs(2);
    while let Ok(Ok((m, from))) = tokio::time::timeout_at(deadline, sock.recv_from(&mut buf)).await {
        if from != dest {
            from_ok = 0;
        }
        match strip(&buf[..m], &mut hdr_ok) {
            Some(b) if b == want => {
                late = 1;
                break;
            }
            Some(b) if b.len() == req.len() + 3 && b[0] == b'R' => {} // a straggler of the burst
            _ => foreign += 1,
        }
    }
    drop(control);
    let got = *cx.udp_seen.lock().unwrap().get(&tag).unwrap_or(&0);
    vec![late, foreign, from_ok, hdr_ok, u64::from(got >= 2)]
}

pub struct World {
    rt: tokio::runtime::Runtime,
    tcp_port: u16,
    tcp_refused_remote: u16,
    uds: PathBuf,
    socks_port: u16,
    http_port: u16,
    udp_port: u16,
    target_tcp: u16,
    target_udp: u16,
    target_udp2: u16,
    refused: u16,
    /// IPv6 loopback targets and the remotes that point at them (None: no `::1` on this machine)
    v6: Option<V6>,
    scripts: Scripts,
    obs: ObsMap,
    udp_seen: Arc<Mutex<HashMap<u32, u64>>>,
    _tmp: tempfile::TempDir,
    counter: std::cell::Cell<u32>,
}

#[derive(Clone, Copy)]
struct V6 {
    target_tcp: u16,
    target_udp: u16,
    tcp_port: u16,
    udp_port: u16,
    /// a second SOCKS listener, on the dual-stack wildcard address [::]
    socks_port: u16,
}

async fn free_tcp_port() -> u16 {
    alloc_port()
}
async fn free_udp_port() -> u16 {
    alloc_port()
}

impl World {
    pub fn new() -> Self {
        let rt = tokio::runtime::Builder::new_multi_thread().worker_threads(8).enable_all().build().unwrap();
        let tmp = tempfile::TempDir::new().unwrap();
        let uds = tmp.path().join("c01.sock");
        let scripts: Scripts = Arc::default();
        let obs: ObsMap = Arc::default();
        let udp_seen: Arc<Mutex<HashMap<u32, u64>>> = Arc::default();
        let (tcp_port, tcp_refused_remote, socks_port, http_port, udp_port, target_tcp, target_udp, refused, target_udp2, v6) = rt.block_on(async {
            // targets
            let tl = TcpListener::bind("127.0.0.1:0").await.unwrap();
            let target_tcp = tl.local_addr().unwrap().port();
            let (sc, ob) = (scripts.clone(), obs.clone());
            tokio::spawn(async move {
                while let Ok((s, _)) = tl.accept().await {
                    tokio::spawn(target_conn(s, sc.clone(), ob.clone()));
                }
            });
            let tu = UdpSocket::bind("127.0.0.1:0").await.unwrap();
            let target_udp = tu.local_addr().unwrap().port();
            let seen = udp_seen.clone();
            tokio::spawn(async move {
                let mut buf = vec![0u8; 65536];
                while let Ok((n, from)) = tu.recv_from(&mut buf).await {
                    if n >= 4 {
                        let tag = u32::from_be_bytes([buf[0], buf[1], buf[2], buf[3]]);
                        *seen.lock().unwrap().entry(tag).or_default() += 1;
                    } else {
                        *seen.lock().unwrap().entry(0).or_default() += 1;
                    }
                    if n >= 10 && &buf[4..8] == b"BRST" {
                        // a request for a burst of replies (more than the tunnel's reply queue holds), sent back to back
                        let count = u16::from_be_bytes([buf[8], buf[9]]);
                        for k in 0..count {
                            let mut reply = vec![b'R'];
                            reply.extend_from_slice(&buf[..n]);
                            reply.extend(k.to_be_bytes());
                            let _ = tu.send_to(&reply, from).await;
                        }
                        continue;
                    }
                    let mut reply = vec![b'R'];
                    reply.extend_from_slice(&buf[..n]);
                    let _ = tu.send_to(&reply, from).await;
                }
            });
            let tu2 = UdpSocket::bind("127.0.0.1:0").await.unwrap();
            let target_udp2 = tu2.local_addr().unwrap().port();
            let seen2 = udp_seen.clone();
            tokio::spawn(async move {
                let mut buf = vec![0u8; 65536];
                while let Ok((n, from)) = tu2.recv_from(&mut buf).await {
                    if n >= 4 {
                        let tag = u32::from_be_bytes([buf[0], buf[1], buf[2], buf[3]]);
                        *seen2.lock().unwrap().entry(tag).or_default() += 1;
                    }
                    let mut reply = vec![b'S'];
                    reply.extend_from_slice(&buf[..n]);
                    let _ = tu2.send_to(&reply, from).await;
                }
            });
            // the same targets on the IPv6 loopback, where there is one
            let mut v6 = None;
            if let (Ok(tl6), Ok(tu6)) = (TcpListener::bind("[::1]:0").await, UdpSocket::bind("[::1]:0").await) {
                let (t6, u6) = (tl6.local_addr().unwrap().port(), tu6.local_addr().unwrap().port());
                let (sc, ob) = (scripts.clone(), obs.clone());
                tokio::spawn(async move {
                    while let Ok((s, _)) = tl6.accept().await {
                        tokio::spawn(target_conn(s, sc.clone(), ob.clone()));
                    }
                });
                let seen6 = udp_seen.clone();
                tokio::spawn(async move {
                    let mut buf = vec![0u8; 65536];
                    while let Ok((n, from)) = tu6.recv_from(&mut buf).await {
                        if n >= 4 {
                            let tag = u32::from_be_bytes([buf[0], buf[1], buf[2], buf[3]]);
                            *seen6.lock().unwrap().entry(tag).or_default() += 1;
                        }
                        let mut reply = vec![b'T'];
                        reply.extend_from_slice(&buf[..n]);
                        let _ = tu6.send_to(&reply, from).await;
                    }
                });
                v6 = Some(V6 { target_tcp: t6, target_udp: u6, tcp_port: free_tcp_port().await, udp_port: free_udp_port().await, socks_port: free_tcp_port().await });
            }
            let refused = free_tcp_port().await;
            // the real server
            let sl = TcpListener::bind("127.0.0.1:0").await.unwrap();
            let sport = sl.local_addr().unwrap().port();
            let state = rusty_penguin_lib::server::State::new().await.expect("state");
            tokio::spawn(rusty_penguin_lib::server::run_listener(sl, None, state));
            // the client reaches the server through a relay that delays the server-to-client direction by 15 ms (full
            // throughput, constant latency): requests are in flight for a noticeable time, as over a real network
            let rl = TcpListener::bind("127.0.0.1:0").await.unwrap();
            let rport = rl.local_addr().unwrap().port();
            tokio::spawn(async move {
                while let Ok((c, _)) = rl.accept().await {
                    tokio::spawn(async move {
                        let Ok(srv) = TcpStream::connect(("127.0.0.1", sport)).await else { return };
                        let _ = c.set_nodelay(true);
                        let _ = srv.set_nodelay(true);
                        let (mut cr, mut cw) = c.into_split();
                        let (mut sr, mut sw) = srv.into_split();
                        let up = tokio::spawn(async move {
                            let _ = tokio::io::copy(&mut cr, &mut sw).await;
                            let _ = sw.shutdown().await;
                        });
                        let (tx, mut rx) = tokio::sync::mpsc::unbounded_channel::<(tokio::time::Instant, Vec<u8>)>();
                        let rd = tokio::spawn(async move {
                            let mut buf = vec![0u8; 65536];
                            loop {
                                match sr.read(&mut buf).await {
                                    Ok(0) | Err(_) => break,
                                    Ok(n) => {
                                        if tx.send((tokio::time::Instant::now() + Duration::from_millis(15), buf[..n].to_vec())).is_err() {
                                            break;
                                        }
                                    }
                                }
                            }
                        });
                        while let Some((at, data)) = rx.recv().await {
                            tokio::time::sleep_until(at).await;
                            if cw.write_all(&data).await.is_err() {
                                break;
                            }
                        }
                        let _ = cw.shutdown().await;
                        rd.abort();
                        up.abort();
                    });
                }
            });
            // the real client
            let tcp_port = free_tcp_port().await;
            let tcp_refused_remote = free_tcp_port().await;
            let socks_port = free_tcp_port().await;
            let http_port = free_tcp_port().await;
            let udp_port = free_udp_port().await;
            let mut remotes = vec![
                format!("127.0.0.1:{tcp_port}:127.0.0.1:{target_tcp}"),
                format!("127.0.0.1:{tcp_refused_remote}:127.0.0.1:{refused}"),
                format!("[unix:{}]:127.0.0.1:{target_tcp}", uds.display()),
                format!("127.0.0.1:{socks_port}:socks"),
                format!("127.0.0.1:{http_port}:http"),
                format!("127.0.0.1:{udp_port}:127.0.0.1:{target_udp}/udp"),
            ];
            if let Some(v) = v6 {
                remotes.push(format!("127.0.0.1:{}:[::1]:{}", v.tcp_port, v.target_tcp));
                remotes.push(format!("127.0.0.1:{}:[::1]:{}/udp", v.udp_port, v.target_udp));
                remotes.push(format!("[::]:{}:socks", v.socks_port));
            }
            let args: &'static ClientArgs = Box::leak(Box::new(ClientArgs {
                server: ServerUrl::from_str(&format!("ws://127.0.0.1:{rport}/ws")).unwrap(),
                remote: remotes.iter().map(|r| Remote::from_str(r).unwrap()).collect(),
                keepalive: penguin_mux::timing::OptionalDuration::NONE,
                ..Default::default()
            }));
            let (hr, srx, drx) = HandlerResources::create();
            let hr: &'static HandlerResources = Box::leak(Box::new(hr));
            tokio::spawn(client_main_inner(args, hr, srx, drx));
            // wait until the listeners are up
            for _ in 0..500 {
                if TcpStream::connect(("127.0.0.1", http_port)).await.is_ok() && TcpStream::connect(("127.0.0.1", tcp_refused_remote)).await.is_ok() {
                    break;
                }
                tokio::time::sleep(Duration::from_millis(10)).await;
            }
            tokio::time::sleep(Duration::from_millis(100)).await;
            (tcp_port, tcp_refused_remote, socks_port, http_port, udp_port, target_tcp, target_udp, refused, target_udp2, v6)
        });
        Self { rt, tcp_port, tcp_refused_remote, uds, socks_port, http_port, udp_port, target_tcp, target_udp, target_udp2, refused, v6, scripts, obs, udp_seen, _tmp: tmp, counter: std::cell::Cell::new(1) }
    }

    /// open a local connection through the given entry point towards the target (or the refusing port);
    /// variant bit 8: the request reaches the listener in several TCP segments with pauses between them
    async fn open(&self, entry: u64, variant: u64, refused: bool, eager: &[u8], v6: Option<V6>) -> Option<Box<dyn Io>> {
        let tport = if refused { self.refused } else if let Some(v) = v6 { v.target_tcp } else { self.target_tcp };
        let frag = variant & 8 != 0;
        match entry {
            0 => Some(Box::new(TcpStream::connect(("127.0.0.1", if refused { self.tcp_refused_remote } else if let Some(v) = v6 { v.tcp_port } else { self.tcp_port })).await.ok()?)),
            1 => Some(Box::new(UnixStream::connect(&self.uds).await.ok()?)),
            2 => {
                let mut s = TcpStream::connect(("127.0.0.1", self.socks_port)).await.ok()?;
                send_request(&mut s, &[5, 1, 0], frag).await?;
                let mut b = [0u8; 2];
                s.read_exact(&mut b).await.ok()?;
                if b != [5, 0] {
                    return None;
                }
                let mut req = vec![5, 1, 0];
                if v6.is_some() {
                    req.push(4);
                    req.extend(std::net::Ipv6Addr::LOCALHOST.octets());
                } else if variant & 1 == 0 {
                    req.extend([1, 127, 0, 0, 1]);
                } else {
                    req.push(3);
                    req.push(9);
                    req.extend(b"localhost");
                }
                req.extend(tport.to_be_bytes());
                req.extend(eager);
                send_request(&mut s, &req, frag).await?;
                let mut rep = [0u8; 10];
                s.read_exact(&mut rep).await.ok()?;
                if rep[0] != 5 || rep[1] != 0 {
                    return None;
                }
                Some(Box::new(s))
            }
            3 | 4 => {
                let mut s = TcpStream::connect(("127.0.0.1", self.socks_port)).await.ok()?;
                let mut req = vec![4, 1];
                req.extend(tport.to_be_bytes());
                if entry == 3 {
                    req.extend([127, 0, 0, 1]);
                    req.extend(b"user\0");
                } else {
                    req.extend([0, 0, 0, 1]);
                    req.extend(b"user\0localhost\0");
                }
                req.extend(eager);
                send_request(&mut s, &req, frag).await?;
                let mut rep = [0u8; 8];
                s.read_exact(&mut rep).await.ok()?;
                if rep[1] != 0x5a {
                    return None;
                }
                Some(Box::new(s))
            }
            _ => {
                let mut s = TcpStream::connect(("127.0.0.1", self.http_port)).await.ok()?;
                let host = if v6.is_some() { "[::1]" } else { "127.0.0.1" };
                let req = format!("CONNECT {host}:{tport} HTTP/1.1\r\nHost: {host}:{tport}\r\n\r\n");
                let mut req = req.into_bytes();
                req.extend(eager);
                send_request(&mut s, &req, frag).await?;
                let mut head = Vec::new();
                let mut b = [0u8; 1];
                while !head.ends_with(b"\r\n\r\n") {
                    s.read_exact(&mut b).await.ok()?;
                    head.push(b[0]);
                    if head.len() > 4096 {
                        return None;
                    }
                }
                if !head.starts_with(b"HTTP/1.1 200") {
                    return None;
                }
                Some(Box::new(s))
            }
        }
    }

    async fn abandon(&self, entry: u64, variant: u64) {
        let tport = self.target_tcp;
        match entry {
            0 => {
                if let Ok(s) = TcpStream::connect(("127.0.0.1", self.tcp_port)).await {
                    tokio::time::sleep(Duration::from_millis(3)).await;
                    drop(s);
                }
            }
            1 => {
                if let Ok(s) = UnixStream::connect(&self.uds).await {
                    tokio::time::sleep(Duration::from_millis(3)).await;
                    drop(s);
                }
            }
            2..=4 => {
                if let Ok(mut s) = TcpStream::connect(("127.0.0.1", self.socks_port)).await {
                    let mut req = vec![];
                    if entry == 2 {
                        req.extend([5, 1, 0, 5, 1, 0]);
                        if variant & 1 == 0 {
                            req.extend([1, 127, 0, 0, 1]);
                        } else {
                            req.push(3);
                            req.push(9);
                            req.extend(b"localhost");
                        }
                        req.extend(tport.to_be_bytes());
                    } else {
                        req.extend([4, 1]);
                        req.extend(tport.to_be_bytes());
                        if entry == 3 {
                            req.extend([127, 0, 0, 1]);
                            req.extend(b"user\0");
                        } else {
                            req.extend([0, 0, 0, 1]);
                            req.extend(b"user\0localhost\0");
                        }
                    }
                    let _ = s.write_all(&req).await;
                    tokio::time::sleep(Duration::from_millis(3)).await;
                    drop(s);
                }
            }
            _ => {
                if let Ok(mut s) = TcpStream::connect(("127.0.0.1", self.http_port)).await {
                    let req = format!("CONNECT 127.0.0.1:{tport} HTTP/1.1\r\nHost: 127.0.0.1:{tport}\r\n\r\n");
                    let _ = s.write_all(req.as_bytes()).await;
                    tokio::time::sleep(Duration::from_millis(3)).await;
                    drop(s);
                }
            }
        }
    }

    async fn tcp_conn(&self, entry: u64, variant: u64, tag: u32, shape: u64, l_chunks: Vec<usize>, t_chunks: Vec<usize>) -> Vec<u64> {
        let total_l: usize = if shape == 6 { 1 << 21 } else if shape == 7 { 3 << 20 } else { l_chunks.iter().sum() };
        let total_t: usize = if shape == 7 { 0 } else { t_chunks.iter().sum() };
        self.scripts.lock().unwrap().insert(tag, TScript { shape, total_local: total_l, t_chunks: t_chunks.clone() });
        if shape == 10 {
            // a local client that gives up at once: it sends its request (if the entry has one) and hangs up a few
            // milliseconds later, while the stream request is still on its way to the server; some time after the other
            // connections of the case have started
            tokio::time::sleep(Duration::from_millis(60 + u64::from(tag % 7) * 9)).await;
            self.abandon(entry, variant).await;
            self.scripts.lock().unwrap().remove(&tag);
            return vec![0, 1, 0, 0, 1, 0];
        }
        // variant bit 1 (SOCKS and HTTP CONNECT entries): an eager local client, which sends its first payload bytes (the tag)
        // in the same write as the request, before it has read the proxy's reply
        let tagb = tag.to_be_bytes();
        let eager = variant & 2 != 0 && entry >= 2;
        // variant bit 2 (entries 0, 2, 5): the target is reached over the IPv6 loopback
        let v6 = if variant & 4 != 0 && matches!(entry, 0 | 2 | 5) { self.v6 } else { None };
        let Some(s) = tokio::time::timeout(TMO, self.open(entry, variant & 9, shape == 5, if eager { &tagb } else { &[] }, v6)).await.ok().flatten() else {
            // a refused target may already show as a failed entry handshake: the connection is closed
            return if shape == 5 { vec![0, 1, 1, 0, 1, 0] } else { vec![0, 0, 9, 0, 0, 9] };
        };
        let (mut r, mut w) = tokio::io::split(s);
        let data = stream_bytes(tag, 0, total_l);
        let expect = stream_bytes(tag, 1, total_t);
        let tagb: &[u8] = if eager { &[] } else { &tagb };
        let l = match shape {
            0 => {
                let _ = w.write_all(tagb).await;
                write_chunks(&mut w, &data, &l_chunks).await;
                let _ = w.shutdown().await;
                read_all(&mut r, &expect).await
            }
            1 => {
                let _ = w.write_all(tagb).await;
                let _ = w.flush().await;
                let o = read_all(&mut r, &expect).await;
                write_chunks(&mut w, &data, &l_chunks).await;
                let _ = w.shutdown().await;
                o
            }
            2 => {
                let wr = async {
                    let _ = w.write_all(tagb).await;
                    write_chunks(&mut w, &data, &l_chunks).await;
                    let _ = w.shutdown().await;
                };
                let (_, o) = tokio::join!(wr, read_all(&mut r, &expect));
                o
            }
            3 => {
                let _ = w.write_all(tagb).await;
                let _ = w.flush().await;
                read_all(&mut r, &expect).await
            }
            8 => {
                // read the answer to EOF (the target half-closed), then send the data and keep the connection open
                // until the target has provably received all of it
                let _ = w.write_all(tagb).await;
                let _ = w.flush().await;
                let o = read_all(&mut r, &expect).await;
                write_chunks(&mut w, &data, &l_chunks).await;
                let _ = w.flush().await;
                let confirmed = wait_progress((tag, 0), 4 + total_l as u64).await;
                let _ = w.shutdown().await;
                Obs { end: if o.end == 1 { u64::from(confirmed) } else { o.end }, ..o }
            }
            9 => {
                let _ = w.write_all(tagb).await;
                write_chunks(&mut w, &data, &l_chunks).await;
                let _ = w.shutdown().await;
                read_all_progress(&mut r, &expect, (tag, 1), 0).await
            }
            4 => {
                let _ = w.write_all(tagb).await;
                write_chunks(&mut w, &data, &l_chunks).await;
                let _ = w.flush().await;
                Obs { len: 0, ok: 1, end: 0 }
            }
            7 => {
                let _ = w.write_all(tagb).await;
                let big: Vec<usize> = vec![1 << 16; total_l >> 16];
                write_chunks(&mut w, &data, &big).await;
                let _ = w.shutdown().await;
                read_all(&mut r, &[]).await
            }
            6 => {
                let _ = w.write_all(tagb).await;
                let _ = w.flush().await;
                // upload slowly and for ever; meanwhile read the answer to its end
                let up = async {
                    let mut off = 0usize;
                    let t0 = Instant::now();
                    while t0.elapsed() < Duration::from_secs(5) && off + 1024 <= data.len() {
                        match tokio::time::timeout(Duration::from_secs(2), w.write_all(&data[off..off + 1024])).await {
                            Ok(Ok(())) => {}
                            Ok(Err(_)) => return 1u64, // the upload failed: the connection is known to be closed
                            Err(_) => return 0,        // the upload is stuck: left hanging
                        }
                        off += 1024;
                        tokio::time::sleep(Duration::from_millis(5)).await;
                    }
                    0
                };
                let (closed, o) = tokio::join!(up, read_all(&mut r, &expect));
                Obs { len: o.len, ok: o.ok, end: if o.end == 1 { closed } else { 9 } }
            }
            _ => {
                let o = read_all(&mut r, &[]).await;
                Obs { end: u64::from(o.end != 0), ..o }
            }
        };
        drop(r);
        drop(w);
        // wait for the target's observation
        let t = if shape == 5 {
            Obs { len: 0, ok: 1, end: 0 }
        } else {
            let mut t = None;
            for _ in 0..700 {
                if let Some(o) = self.obs.lock().unwrap().remove(&tag) {
                    t = Some(o);
                    break;
                }
                tokio::time::sleep(Duration::from_millis(10)).await;
            }
            t.unwrap_or(Obs { len: 0, ok: 0, end: 8 })
        };
        self.scripts.lock().unwrap().remove(&tag);
        progress().lock().unwrap().retain(|k, _| k.0 != tag);
        vec![l.len, l.ok, l.end, t.len, t.ok, t.end]
    }

    async fn tcp_case(&self, c: &[u64], base: u32) -> Vec<u64> {
        let (entry, variant, nconn) = (c[0], c[1], c[2] as usize);
        let mut i = 3;
        let mut futs = vec![];
        for k in 0..nconn {
            if i + 1 >= c.len() {
                return vec![999_999];
            }
            let shape = c[i];
            let nl = c[i + 1] as usize;
            let l: Vec<usize> = c[i + 2..i + 2 + nl].iter().map(|&x| x as usize).collect();
            let nt = c[i + 2 + nl] as usize;
            let t: Vec<usize> = c[i + 3 + nl..i + 3 + nl + nt].iter().map(|&x| x as usize).collect();
            i += 3 + nl + nt;
            futs.push(self.tcp_conn(entry, variant, base + k as u32, shape, l, t));
        }
        let rs = futures_util::future::join_all(futs).await;
        rs.into_iter().flatten().collect()
    }

    async fn udp_client(&self, entry: u64, variant: u64, relay: Option<SocketAddr>, tag: u32, sizes: Vec<usize>, start_after: Duration) -> Vec<u64> {
        let sock = UdpSocket::bind("127.0.0.1:0").await.unwrap();
        tokio::time::sleep(start_after).await;
        // variant 4: the target is on the IPv6 loopback (SOCKS5 header with an IPv6 address / the UDP remote that points there)
        let v6 = if variant == 4 { self.v6 } else { None };
        let dest: SocketAddr = match relay {
            Some(r) => r,
            None => ([127, 0, 0, 1], if let Some(v) = v6 { v.udp_port } else { self.udp_port }).into(),
        };
        // variants 2 and 3: one client alternates between two targets through the same association
        let two = entry == 1 && (variant == 2 || variant == 3);
        let mk_header = |port: u16| -> Vec<u8> {
            let mut header = vec![];
            if entry == 1 {
                header.extend([0, 0, 0]);
                if v6.is_some() {
                    header.push(4);
                    header.extend(std::net::Ipv6Addr::LOCALHOST.octets());
                } else if variant % 2 == 0 {
                    header.extend([1, 127, 0, 0, 1]);
                } else {
                    header.push(3);
                    header.push(9);
                    header.extend(b"localhost");
                }
                header.extend(port.to_be_bytes());
            }
            header
        };
        let mut sent: Vec<Vec<u8>> = vec![];
        for (seq, &sz) in sizes.iter().enumerate() {
            let mut p = vec![];
            if sz >= 6 {
                p.extend(tag.to_be_bytes());
                p.extend((seq as u16).to_be_bytes());
                p.extend(stream_bytes(tag, 100 + seq as u64, sz - 6));
            } else {
                // too short to carry the tag: only used by single-client cases
                p.extend(stream_bytes(tag, 100 + seq as u64, sz));
            }
            let second = two && seq % 2 == 1;
            let mut d = mk_header(if second { self.target_udp2 } else if let Some(v) = v6 { v.target_udp } else { self.target_udp });
            d.extend(&p);
            let _ = sock.send_to(&d, dest).await;
            if entry == 1 && seq == 0 {
                // a fragmented datagram (FRAG != 0): RFC 1928 has the relay drop it; the association must go on working
                let mut f = mk_header(self.target_udp);
                f[2] = 1;
                f.extend(b"fragment");
                let _ = sock.send_to(&f, dest).await;
            }
            // what must come back: the target's mark in front of the payload
            let mut want = vec![if second { b'S' } else if v6.is_some() { b'T' } else { b'R' }];
            want.extend(&p);
            sent.push(want);
            tokio::time::sleep(Duration::from_millis(2)).await;
        }
        let (mut mine, mut foreign, mut from_ok, mut hdr_ok) = (0u64, 0u64, 1u64, 1u64);
        let mut seen = vec![false; sent.len()];
        let mut buf = vec![0u8; 65536];
        let deadline = tokio::time::Instant::now() + Duration::from_millis(1500);
        while mine < sent.len() as u64 {
            let Ok(Ok((n, from))) = tokio::time::timeout_at(deadline, sock.recv_from(&mut buf)).await else { break };
            if from != dest {
                from_ok = 0;
            }
            let mut body = &buf[..n];
            if entry == 1 {
                // RFC 1928 section 7: RSV(2) FRAG ATYP DST.ADDR DST.PORT DATA
                let alen = match body.get(3) {
                    Some(1) => 4,
                    Some(4) => 16,
                    Some(3) => 1 + usize::from(*body.get(4).unwrap_or(&0)),
                    _ => usize::MAX,
                };
                if body.len() < 4 || body[0] != 0 || body[1] != 0 || body[2] != 0 || alen == usize::MAX || body.len() < 4 + alen + 2 {
                    hdr_ok = 0;
                    foreign += 1;
                    continue;
                }
                body = &body[4 + alen + 2..];
            }
            // (two datagrams may carry the same bytes, e.g. two empty ones: each reply matches one not yet answered)
            let pos = sent.iter().enumerate().position(|(k, p)| !seen[k] && p[..] == body[..]);
            match pos {
                Some(k) => {
                    seen[k] = true;
                    mine += 1;
                }
                _ => foreign += 1,
            }
        }
        // anything that still arrives within a short grace period would be foreign or duplicate
        if let Ok(Ok(_)) = tokio::time::timeout(Duration::from_millis(60), sock.recv_from(&mut buf)).await {
            foreign += 1;
        }
        let target_got = if sizes.iter().all(|&s| s >= 6) { *self.udp_seen.lock().unwrap().get(&tag).unwrap_or(&0) } else { sizes.len() as u64 };
        vec![mine, foreign, from_ok, hdr_ok, target_got]
    }

    /// `dual`: through the SOCKS listener on [::] (reached over IPv4), whose relay socket is dual-stack too
    async fn assoc(&self, dual: bool) -> Option<(TcpStream, SocketAddr)> {
        // (a machine whose [::] sockets do not take IPv4 peers cannot show this variant: the plain listener is used then)
        let mut s = match (dual, self.v6) {
            (true, Some(v)) => match TcpStream::connect(("127.0.0.1", v.socks_port)).await {
                Ok(s) => s,
                Err(_) => TcpStream::connect(("127.0.0.1", self.socks_port)).await.ok()?,
            },
            _ => TcpStream::connect(("127.0.0.1", self.socks_port)).await.ok()?,
        };
        s.write_all(&[5, 1, 0]).await.ok()?;
        let mut b = [0u8; 2];
        s.read_exact(&mut b).await.ok()?;
        s.write_all(&[5, 3, 0, 1, 0, 0, 0, 0, 0, 0]).await.ok()?;
        let mut rep = [0u8; 4];
        s.read_exact(&mut rep).await.ok()?;
        if rep[1] != 0 || (rep[3] != 1 && rep[3] != 4) {
            return None;
        }
        if rep[3] == 4 {
            // the wildcard address: RFC 1928 clients then use the address of the proxy they connected to
            let mut a = [0u8; 18];
            s.read_exact(&mut a).await.ok()?;
            if a[..16] != [0u8; 16] {
                return None;
            }
            return Some((s, ([127, 0, 0, 1], u16::from_be_bytes([a[16], a[17]])).into()));
        }
        let mut a = [0u8; 6];
        s.read_exact(&mut a).await.ok()?;
        let addr: SocketAddr = ([a[0], a[1], a[2], a[3]], u16::from_be_bytes([a[4], a[5]])).into();
        Some((s, addr))
    }

    async fn udp_case(&self, c: &[u64], base: u32) -> Vec<u64> {
        // variant + 8: staggered start (client k begins 200 ms after client k-1, i.e. after the earlier clients' first
        // replies have come back) instead of all clients at once
        // variant + 16 (SOCKS5): the association is made through the listener on the dual-stack wildcard address
        let (entry, shared, stagger, variant, ncl) = (c[0], c[1], c[2] & 8 != 0, c[2] & 7, c[3] as usize);
        let dual = c[2] & 16 != 0;
        let mut i = 4;
        let mut specs = vec![];
        for _ in 0..ncl {
            if i >= c.len() {
                return vec![999_999];
            }
            let n = c[i] as usize;
            specs.push(c[i + 1..i + 1 + n].iter().map(|&x| x as usize).collect::<Vec<_>>());
            i += 1 + n;
        }
        let mut controls = vec![];
        let mut relays = vec![];
        if entry == 1 {
            let n_assoc = if shared == 1 { 1 } else { ncl };
            for _ in 0..n_assoc {
                let Some((s, a)) = self.assoc(dual).await else { return vec![999_997] };
                controls.push(s);
                relays.push(a);
            }
        }
        let mut futs = vec![];
        for (k, sizes) in specs.into_iter().enumerate() {
            let relay = if entry == 1 { Some(relays[if shared == 1 { 0 } else { k }]) } else { None };
            futs.push(self.udp_client(entry, variant, relay, base + k as u32, sizes, Duration::from_millis(if stagger { 200 * k as u64 } else { 0 })));
        }
        let rs = futures_util::future::join_all(futs).await;
        drop(controls);
        rs.into_iter().flatten().collect()
    }

    fn slow_ctx(&self) -> SlowCtx {
        SlowCtx { uds: self.uds.clone(), tcp_port: self.tcp_port, scripts: self.scripts.clone(), obs: self.obs.clone(), udp_port: self.udp_port, socks_port: self.socks_port, target_udp: self.target_udp, udp_seen: self.udp_seen.clone() }
    }

    pub fn run_case(&self, c: &[u64]) -> Vec<u64> {
        let base = self.counter.get();
        self.counter.set(base + 64);
        let base = 0x0100_0000 + base;
        let wants_v6 = match c.first() {
            Some(1) => c.get(2).is_some_and(|v| v & 4 != 0) && matches!(c.get(1), Some(0 | 2 | 5)),
            Some(2) => c.get(3).map(|v| v & 7) == Some(4),
            _ => false,
        };
        if wants_v6 && self.v6.is_none() {
            return vec![999_996]; // no IPv6 loopback here: not run
        }
        match c.first() {
            Some(3) if c.len() == 4 => self.rt.block_on(slow_udp(self.slow_ctx(), c[1], c[2], c[3], base)),
            Some(4) if c.len() == 3 => self.rt.block_on(burst_udp(self.slow_ctx(), c[1], c[2], base)),
            Some(5) if c.len() == 3 && c[2] <= 20_000 => self.rt.block_on(stalled_reader(self.slow_ctx(), c[1], c[2], base)),
            Some(1) if c.len() >= 4 => self.rt.block_on(self.tcp_case(&c[1..], base)),
            Some(2) if c.len() >= 5 => self.rt.block_on(self.udp_case(&c[1..], base)),
            _ => vec![999_999],
        }
    }
}

fn chunks(rng: &mut Rng, big: bool) -> Vec<u64> {
    let n = rng.below(6);
    (0..n)
        .map(|_| match rng.below(10) {
            0 => 0,
            1 => 1,
            2..=5 => 1 + rng.below(300),
            6..=7 => 1000 + rng.below(9000),
            _ => {
                if big {
                    20000 + rng.below(180_000)
                } else {
                    rng.below(3000)
                }
            }
        })
        .collect()
}

pub fn generate(a: &Args, out: &mut Out) {
    let w = World::new();
    let mut rng = Rng(a.seed ^ 0xC01);
    let emit = |out: &mut Out, c: Vec<u64>| {
        let r = w.run_case(&c[1..]);
        out.emit(&c, &r);
    };
    // slow UDP clients (idle times around the 10 s after which a UDP client is forgotten) run beside everything else
    let mut slow = vec![];
    if !a.mode.contains("random-only") {
        for (k, (entry, n, gap)) in [(0u64, 8u64, 3200u64), (1, 8, 3200), (0, 2, 23_000), (1, 2, 23_000)].into_iter().enumerate() {
            let cx = w.slow_ctx();
            slow.push((vec![1u64, 3, entry, n, gap], w.rt.spawn(slow_udp(cx, entry, n, gap, 0x0300_0000 + k as u32))));
        }
        // a long stream of small chunks towards a local client that does not read for a while
        slow.push((vec![1u64, 5, 0, 5000], w.rt.spawn(stalled_reader(w.slow_ctx(), 0, 5000, 0x0300_0010))));
        // the same through the Unix-socket remote (its small socket buffers make the bridge's writes partial)
        slow.push((vec![1u64, 5, 1, 12], w.rt.spawn(stalled_reader(w.slow_ctx(), 1, 12, 0x0300_0011))));
    }
    // one case per (entry, shape) first
    if !a.mode.contains("random-only") {
        let mut evs = vec![(0u64, 0u64), (1, 0), (2, 0), (2, 1), (3, 0), (4, 0), (5, 0), (2, 2), (2, 3), (3, 2), (4, 2), (5, 2)];
        if w.v6.is_some() {
            evs.extend([(0, 4), (2, 4), (2, 6), (5, 4), (5, 6), (2, 8), (2, 9), (3, 8), (4, 8), (5, 8), (3, 10), (4, 10)]);
        }
        for (entry, variant) in evs {
            for shape in 0..10u64 {
                if variant >= 4 && !matches!(shape, 0 | 1 | 2 | 5 | 8 | 9) {
                    continue;
                }
                if variant >= 2 && variant < 4 && !matches!(shape, 0 | 2 | 4 | 8 | 9) {
                    continue;
                }
                if shape == 7 && !matches!(entry, 0 | 2 | 5) {
                    continue;
                }
                if shape == 5 && entry == 1 {
                    continue;
                }
                emit(out, vec![1, 1, entry, variant, 1, shape, 3, 700, 0, 5000, 2, 3000, 41]);
            }
        }
        emit(out, vec![1, 2, 0, 0, 0, 1, 3, 0, 1, 5]);
        emit(out, vec![1, 2, 0, 0, 0, 3, 2, 10, 600, 3, 6, 7, 1400, 1, 64]);
        emit(out, vec![1, 2, 1, 0, 0, 3, 2, 10, 600, 3, 6, 7, 1400, 1, 64]);
        emit(out, vec![1, 2, 1, 1, 1, 3, 2, 10, 600, 3, 6, 7, 1400, 1, 64]);
        emit(out, vec![1, 2, 1, 0, 2, 2, 4, 10, 600, 30, 8, 3, 6, 7, 1400]);
        emit(out, vec![1, 2, 1, 1, 3, 2, 4, 10, 600, 30, 8, 3, 6, 7, 1400]);
        // the same with the clients starting one after the other
        emit(out, vec![1, 2, 0, 0, 8, 3, 2, 10, 600, 3, 6, 7, 1400, 1, 64]);
        emit(out, vec![1, 2, 1, 0, 8, 3, 2, 10, 600, 3, 6, 7, 1400, 1, 64]);
        emit(out, vec![1, 2, 1, 1, 9, 3, 2, 10, 600, 3, 6, 7, 1400, 1, 64]);
        // local clients that give up while their request is in flight, beside connections in progress (which must not notice)
        for entry in [5u64, 2, 3, 0] {
            emit(out, vec![1, 1, entry, 0, 5, 8, 2, 900, 41, 1, 700, 10, 0, 0, 10, 0, 0, 9, 1, 600, 2, 300, 5, 10, 0, 0]);
            emit(out, vec![1, 1, entry, 0, 4, 2, 3, 150_000, 90_000, 7, 2, 120_000, 64_000, 10, 0, 0, 10, 0, 0, 10, 0, 0]);
        }
        emit(out, vec![1, 4, 0, 300]);
        emit(out, vec![1, 4, 1, 300]);
        emit(out, vec![1, 4, 0, 600]);
        if w.v6.is_some() {
            emit(out, vec![1, 2, 0, 0, 4, 2, 3, 10, 600, 1400, 2, 7, 64]);
            emit(out, vec![1, 2, 1, 1, 4, 2, 3, 10, 600, 1400, 2, 7, 64]);
            emit(out, vec![1, 2, 1, 0, 4, 1, 4, 10, 600, 1400, 9000]);
            // SOCKS5 associations through the listener on the dual-stack wildcard address, used over IPv4
            emit(out, vec![1, 2, 1, 0, 16, 2, 3, 10, 600, 1400, 2, 7, 64]);
            emit(out, vec![1, 2, 1, 1, 17, 1, 4, 10, 600, 1400, 9000]);
            emit(out, vec![1, 2, 1, 0, 26, 3, 2, 10, 600, 3, 6, 7, 1400, 1, 64]);
        }
    }
    for _ in 0..a.n {
        if rng.chance(3, 4) {
            let (mut entry, mut variant) = rng.pick(&[(0u64, 0u64), (1, 0), (2, 0), (2, 1), (3, 0), (4, 0), (5, 0), (2, 2), (2, 3), (3, 2), (4, 2), (5, 2), (0, 4), (2, 4), (2, 6), (5, 4), (5, 6), (2, 8), (2, 9), (3, 8), (4, 8), (5, 8), (3, 10), (4, 10)]);
            if variant & 4 != 0 && w.v6.is_none() {
                (entry, variant) = (entry, variant & 11);
            }
            let nconn = if rng.chance(1, 3) { 2 + rng.below(4) } else { 1 };
            let mut c = vec![1, 1, entry, variant, nconn];
            for _ in 0..nconn {
                let mut shape = rng.pick(&[0u64, 0, 1, 1, 2, 2, 2, 3, 4, 5, 6, 0, 1, 2, 3, 4, 7, 8, 8, 9, 9]);
                if nconn > 1 && rng.chance(1, 6) {
                    shape = 10;
                }
                if shape == 5 && entry == 1 {
                    shape = 2;
                }
                let big = rng.chance(1, 4);
                let l = chunks(&mut rng, big);
                let t = chunks(&mut rng, big);
                c.push(shape);
                c.push(l.len() as u64);
                c.extend(&l);
                c.push(t.len() as u64);
                c.extend(&t);
            }
            emit(out, c);
        } else {
            let entry = rng.below(2);
            let shared = rng.below(2);
            let variant = (if w.v6.is_some() && rng.chance(1, 5) { 4 } else if entry == 1 { rng.below(4) } else { rng.below(2) }) + if rng.chance(1, 3) { 8 } else { 0 } + if entry == 1 && w.v6.is_some() && rng.chance(1, 5) { 16 } else { 0 };
            let ncl = 1 + rng.below(4);
            let mut c = vec![1, 2, entry, shared, variant, ncl];
            for _ in 0..ncl {
                let n = 1 + rng.below(6);
                c.push(n);
                for _ in 0..n {
                    c.push(if ncl == 1 && rng.chance(1, 6) { rng.below(6) } else { 6 + rng.pick(&[0u64, 1, 30, 500, 1400, 8000]) + rng.below(20) });
                }
            }
            emit(out, c);
        }
    }
    for (c, h) in slow {
        let r = w.rt.block_on(h).unwrap_or_else(|_| vec![999_998]);
        out.emit(&c, &r);
    }
}

/// write a proxy request, either in one piece or (frag) in several TCP segments: 1, 2, 2 octets, then the halves of the
/// rest, with a pause after each, so that the listener never finds a whole field group in one read
async fn send_request(s: &mut TcpStream, req: &[u8], frag: bool) -> Option<()> {
    if !frag {
        return s.write_all(req).await.ok();
    }
    let _ = s.set_nodelay(true);
    let mut off = 0;
    let rest = req.len().saturating_sub(5);
    for n in [1, 2, 2, rest / 2, rest - rest / 2] {
        let n = n.min(req.len() - off);
        if n == 0 {
            continue;
        }
        s.write_all(&req[off..off + n]).await.ok()?;
        s.flush().await.ok()?;
        off += n;
        tokio::time::sleep(Duration::from_millis(25)).await;
    }
    Some(())
}
