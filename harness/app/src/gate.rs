//! C14 harness: rusty_penguin_lib::server::State called in-process as a hyper Service.
use crate::util::*;
use base64::Engine;
use bytes::Bytes;
use http::{HeaderName, HeaderValue, Method, Request};
use http_body_util::{BodyExt, Empty};
use hyper::service::Service;
use rusty_penguin_lib::server::State;
use sha1::{Digest, Sha1};

const MALFORMED: u64 = 999_999;
/// what /version answers: the version of the rusty-penguin crate, read from its manifest at build time
const PENGUIN_VERSION: &str = env!("VH_PENGUIN_VERSION");

struct Case {
    psk: Option<Vec<u8>>,
    obfs: bool,
    ext: bool,
    method: Vec<u8>,
    path: Vec<u8>,
    hdrs: Vec<(Vec<u8>, Vec<u8>)>,
}

fn lp(c: &[u64], i: &mut usize) -> Option<Vec<u8>> {
    let n = *c.get(*i)? as usize;
    *i += 1;
    if *i + n > c.len() {
        return None;
    }
    let v = c[*i..*i + n].iter().map(|&x| x as u8).collect();
    *i += n;
    Some(v)
}

fn parse(c: &[u64]) -> Option<Case> {
    let mut i = 0;
    let has_psk = *c.get(i)? != 0;
    i += 1;
    let psk = lp(c, &mut i)?;
    let obfs = *c.get(i)? != 0;
    let ext = *c.get(i + 1)? != 0;
    i += 2;
    let method = lp(c, &mut i)?;
    let path = lp(c, &mut i)?;
    let n = *c.get(i)? as usize;
    i += 1;
    let mut hdrs = Vec::new();
    for _ in 0..n {
        let k = lp(c, &mut i)?;
        let v = lp(c, &mut i)?;
        hdrs.push((k, v));
    }
    if i != c.len() {
        return None;
    }
    Some(Case { psk: if has_psk { Some(psk) } else { None }, obfs, ext, method, path, hdrs })
}

fn build(case: &Case, path: &[u8]) -> Option<Request<Empty<Bytes>>> {
    let mut b = Request::builder()
        .method(Method::from_bytes(&case.method).ok()?)
        .uri(std::str::from_utf8(path).ok()?);
    for (k, v) in &case.hdrs {
        b = b.header(HeaderName::from_bytes(k).ok()?, HeaderValue::from_bytes(v).ok()?);
    }
    let mut req = b.body(Empty::<Bytes>::new()).ok()?;
    if case.ext {
        // hyper attaches this extension to requests on upgradable connections
        let on = hyper::upgrade::on(http::Request::new(Empty::<Bytes>::new()));
        req.extensions_mut().insert(on);
    }
    Some(req)
}

type Full = (u16, Vec<(String, Vec<u8>)>, Vec<u8>);

async fn call(state: &State, req: Request<Empty<Bytes>>) -> Option<Full> {
    let resp = Service::call(state, req).await.ok()?;
    let status = resp.status().as_u16();
    let mut hs: Vec<(String, Vec<u8>)> =
        resp.headers().iter().map(|(k, v)| (k.as_str().to_string(), v.as_bytes().to_vec())).collect();
    hs.sort();
    let body = resp.into_body().collect().await.ok()?.to_bytes().to_vec();
    Some((status, hs, body))
}

/// a backend that reports what it received: `x-seen-path` = the request target, `x-seen` = a hash of the method and
/// of every header line (sorted), body = that dump; so a request that the server alters on its way to the backend
/// gets a visibly different answer
pub fn start_backend(rt: &tokio::runtime::Runtime) -> &'static rusty_penguin_lib::arg::BackendUrl {
    use std::str::FromStr;
    use tokio::io::{AsyncReadExt, AsyncWriteExt};
    let port = rt.block_on(async {
        let l = tokio::net::TcpListener::bind("127.0.0.1:0").await.unwrap();
        let port = l.local_addr().unwrap().port();
        tokio::spawn(async move {
            while let Ok((mut s, _)) = l.accept().await {
                tokio::spawn(async move {
                    let mut buf = Vec::new();
                    let mut b = [0u8; 2048];
                    loop {
                        match s.read(&mut b).await {
                            Ok(0) | Err(_) => return,
                            Ok(n) => buf.extend_from_slice(&b[..n]),
                        }
                        while let Some(pos) = buf.windows(4).position(|w| w == b"\r\n\r\n") {
                            let head: Vec<u8> = buf.drain(..pos + 4).collect();
                            let head = String::from_utf8_lossy(&head[..pos]).to_string();
                            let mut lines = head.split("\r\n");
                            let first = lines.next().unwrap_or("");
                            let mut parts = first.split(' ');
                            let method = parts.next().unwrap_or("").to_string();
                            let path = parts.next().unwrap_or("").to_string();
                            let mut hs: Vec<String> = lines
                                .filter_map(|l| l.split_once(':').map(|(k, v)| format!("{}: {}", k.trim().to_ascii_lowercase(), v.trim())))
                                .collect();
                            hs.sort();
                            let dump = format!("M={method}\n{}\n", hs.join("\n"));
                            let mut h: u64 = 0xcbf2_9ce4_8422_2325;
                            for &x in dump.as_bytes() {
                                h = (h ^ u64::from(x)).wrapping_mul(0x100_0000_01b3);
                            }
                            let body = if method == "HEAD" { String::new() } else { dump.clone() };
                            let resp = format!(
                                "HTTP/1.1 200 OK\r\ncontent-length: {}\r\nx-backend: yes\r\nx-seen: {h:016x}\r\nx-seen-path: {path}\r\n\r\n{body}",
                                dump.len()
                            );
                            if s.write_all(resp.as_bytes()).await.is_err() {
                                return;
                            }
                        }
                    }
                });
            }
        });
        port
    });
    Box::leak(Box::new(rusty_penguin_lib::arg::BackendUrl::from_str(&format!("http://127.0.0.1:{port}/")).unwrap()))
}

/// the class of a response for the comparison between the two configurations
fn class_of(full: &Full) -> u64 {
    let (status, _, body) = full;
    if *status == 101 {
        2
    } else if *status == 200 && body == b"OK" {
        0
    } else if *status == 200 && body == PENGUIN_VERSION.as_bytes() {
        1
    } else {
        3
    }
}

/// With a backend configured the classes must be the same as without one, and every fallback
/// response must be exactly what the same request gets on an unknown path (now: the backend's
/// answer).  Returns None when consistent, else [7, class without backend, class with, same].
async fn backend_variant(state_b: &State, case: &Case, class_nb: u64) -> Option<Vec<u64>> {
    let req = build(case, &case.path)?;
    // an unknown path of the same shape (so that the backend's answer has the same size)
    let known: [&[u8]; 3] = [b"/ws", b"/health", b"/version"];
    let unk_path: Vec<u8> = if known.iter().any(|k| case.path.starts_with(k)) {
        case.path.iter().map(|&c| if c.is_ascii_alphanumeric() { b'q' } else { c }).collect()
    } else {
        case.path.clone()
    };
    let unk = build(case, &unk_path)?;
    let seen_path = |f: &Full| f.1.iter().find(|(k, _)| k == "x-seen-path").map(|(_, v)| v.clone());
    let strip = |f: Full| -> Full { (f.0, f.1.into_iter().filter(|(k, _)| k != "date" && k != "x-seen-path").collect(), f.2) };
    let r0 = call(state_b, req).await?;
    let cb = class_of(&r0);
    let same = if cb == 3 {
        let u0 = call(state_b, unk).await;
        // the backend saw each request under its own path, and otherwise the same request
        let paths_ok = seen_path(&r0).is_none_or(|p| p == case.path) && u0.as_ref().and_then(seen_path).is_none_or(|p| p == unk_path);
        u64::from(paths_ok && u0.map(strip).as_ref() == Some(&strip(r0)))
    } else {
        1
    };
    if cb == class_nb && same == 1 { None } else { Some(vec![7, class_nb, cb, same]) }
}

pub fn run_case(rt: &tokio::runtime::Runtime, base: &State, c: &[u64]) -> Vec<u64> {
    thread_local! { static BACKEND: std::cell::OnceCell<&'static rusty_penguin_lib::arg::BackendUrl> = const { std::cell::OnceCell::new() }; }
    let backend = BACKEND.with(|b| *b.get_or_init(|| start_backend(rt)));
    let r = run_case_inner(rt, base, c);
    if r.first() == Some(&MALFORMED) || r.first() == Some(&9) {
        return r;
    }
    let Some(case) = parse(c) else { return r };
    let psk: Option<&'static HeaderValue> = case.psk.as_ref().and_then(|p| HeaderValue::from_bytes(p).ok()).map(|v| &*Box::leak(Box::new(v)));
    let state_b = base.clone().with_ws_psk(psk).obfs(case.obfs).with_backend(Some(backend));
    if let Some(bad) = rt.block_on(backend_variant(&state_b, &case, r[0])) {
        return bad;
    }
    // with a custom not-found response configured: the same classes, and every fallback answer is that response
    let state_nf = base.clone().with_ws_psk(psk).obfs(case.obfs).with_not_found_resp("nf-custom-7f3a");
    let nf = rt.block_on(async {
        let req = build(&case, &case.path)?;
        let unk = build(&case, b"/__no_such_path__")?;
        let a = call(&state_nf, req).await?;
        let c = class_of(&a);
        let same = if c == 3 {
            let b = call(&state_nf, unk).await;
            u64::from(a.0 == 404 && a.2 == b"nf-custom-7f3a" && b.as_ref() == Some(&a))
        } else {
            1
        };
        if c == r[0] && same == 1 { None } else { Some(vec![8, r[0], c, same]) }
    });
    match nf {
        Some(bad) => bad,
        None => r,
    }
}

fn run_case_inner(rt: &tokio::runtime::Runtime, base: &State, c: &[u64]) -> Vec<u64> {
    let Some(case) = parse(c) else { return vec![MALFORMED] };
    let psk: Option<&'static HeaderValue> = match &case.psk {
        Some(p) => match HeaderValue::from_bytes(p) {
            Ok(v) => Some(Box::leak(Box::new(v))),
            Err(_) => return vec![MALFORMED],
        },
        None => None,
    };
    let state = base.clone().with_ws_psk(psk).obfs(case.obfs);
    let Some(req) = build(&case, &case.path) else { return vec![MALFORMED] };
    let Some(unk) = build(&case, b"/__no_such_path__") else { return vec![MALFORMED] };
    let key = case.hdrs.iter().find(|(k, _)| k.eq_ignore_ascii_case(b"sec-websocket-key")).map(|(_, v)| v.clone());
    rt.block_on(async {
        let Some((status, hs, body)) = call(&state, req).await else { return vec![9, 0] };
        if status == 101 {
            let get = |n: &str| hs.iter().find(|(k, _)| k == n).map(|(_, v)| v.clone());
            let hdr_ok = get("connection").as_deref() == Some(b"upgrade")
                && get("upgrade").as_deref() == Some(b"websocket")
                && get("sec-websocket-protocol").as_deref() == Some(b"penguin-v7")
                && body.is_empty()
                && hs.len() == 4;
            let mut h = Sha1::new();
            h.update(key.clone().unwrap_or_default());
            h.update(b"258EAFA5-E914-47DA-95CA-C5AB0DC85B11");
            let want = base64::engine::general_purpose::STANDARD.encode(h.finalize());
            let acc_ok = key.is_some() && get("sec-websocket-accept").as_deref() == Some(want.as_bytes());
            return vec![2, u64::from(hdr_ok), u64::from(acc_ok)];
        }
        if status == 200 && body == b"OK" {
            return vec![0];
        }
        if status == 200 && body == PENGUIN_VERSION.as_bytes() {
            return vec![1];
        }
        // anything else must be exactly what an unknown path gets
        let other = call(&state, unk).await;
        let same = other.as_ref() == Some(&(status, hs, body));
        vec![3, u64::from(same)]
    })
}

// ------------------------------------------------------------------ generation

fn put(v: &mut Vec<u64>, b: &[u8]) {
    v.push(b.len() as u64);
    v.extend(b.iter().map(|&x| u64::from(x)));
}

const NAMES: [&str; 6] = ["connection", "upgrade", "sec-websocket-version", "sec-websocket-protocol", "sec-websocket-key", "x-penguin-psk"];
const GOOD: [&str; 6] = ["upgrade", "websocket", "13", "penguin-v7", "dGhlIHNhbXBsZSBub25jZQ==", "s3cret"];

/// variant of header i: 0 exact, 1 absent, 2 upper-case value, 3 near-miss, 4 duplicate first bad,
/// 5 duplicate first good, 6 empty, 7 mixed-case name, 8 value with surrounding space,
/// 9 leading zero, 10 leading plus, 11 trailing ".0", 12 a trailing octet beyond ASCII,
/// 13 a letter replaced by a non-ASCII character that Unicode case folding maps to it
fn header_variant(i: usize, var: u64, psk: &[u8], out: &mut Vec<(Vec<u8>, Vec<u8>)>) {
    let name = NAMES[i].as_bytes().to_vec();
    let good: Vec<u8> = if i == 5 { psk.to_vec() } else { GOOD[i].as_bytes().to_vec() };
    let near: Vec<u8> = match i {
        0 => b"keep-alive".to_vec(),
        1 => b"websockets".to_vec(),
        2 => b"12".to_vec(),
        3 => b"penguin-v6".to_vec(),
        4 => b"AAAA".to_vec(),
        _ => {
            let mut p = good.clone();
            p.pop();
            p
        }
    };
    match var {
        0 => out.push((name, good)),
        1 => {}
        2 => out.push((name, good.to_ascii_uppercase())),
        3 => out.push((name, near)),
        4 => {
            out.push((name.clone(), near));
            out.push((name, good));
        }
        5 => {
            out.push((name.clone(), good));
            out.push((name, near));
        }
        6 => out.push((name, vec![])),
        7 => out.push((name.to_ascii_uppercase(), good)),
        8 => {
            let mut v = good.clone();
            v.push(b' ');
            out.push((name, v));
        }
        // values that a lenient parser would take for the right one ("013", "+13", "13.0" for the version)
        9 => {
            let mut v = vec![b'0'];
            v.extend(&good);
            out.push((name, v));
        }
        10 => {
            let mut v = vec![b'+'];
            v.extend(&good);
            out.push((name, v));
        }
        11 => {
            let mut v = good.clone();
            v.extend(b".0");
            out.push((name, v));
        }
        // a value in which a letter is replaced by a character that Unicode case folding (but not ASCII case folding) maps
        // to it: the Kelvin sign for k, the long s for s; with neither letter, a trailing long s
        13 => {
            let mut v = Vec::new();
            let mut done = false;
            let kind = if good.iter().any(|c| c.eq_ignore_ascii_case(&b'k')) { b'k' } else { b's' };
            for &c in &good {
                if !done && c.eq_ignore_ascii_case(&kind) {
                    v.extend(if kind == b'k' { &[0xe2u8, 0x84, 0xaa][..] } else { &[0xc5u8, 0xbf][..] });
                    done = true;
                } else {
                    v.push(c);
                }
            }
            if !done {
                v.extend([0xc5u8, 0xbf]);
            }
            out.push((name, v));
        }
        // a value with an octet beyond ASCII (obs-text is legal in a header value): for the key, a valid upgrade whose accept
        // hash must still be the hash of the octets sent; for the other headers, not the expected value
        _ => {
            let mut v = good.clone();
            v.push(0xe9);
            out.push((name, v));
        }
    }
}

fn encode_case(psk: Option<&[u8]>, obfs: bool, ext: bool, method: &[u8], path: &[u8], hdrs: &[(Vec<u8>, Vec<u8>)]) -> Vec<u64> {
    let mut c = vec![14u64, u64::from(psk.is_some())];
    put(&mut c, psk.unwrap_or(b""));
    c.push(u64::from(obfs));
    c.push(u64::from(ext));
    put(&mut c, method);
    put(&mut c, path);
    c.push(hdrs.len() as u64);
    for (k, v) in hdrs {
        put(&mut c, k);
        put(&mut c, v);
    }
    c
}

pub fn generate(a: &Args, out: &mut Out) {
    let rt = tokio::runtime::Builder::new_current_thread().enable_all().build().unwrap();
    let base = rt.block_on(State::new()).expect("state");
    let mut r = Rng(a.seed ^ 0x14);
    let methods: [&[u8]; 5] = [b"GET", b"POST", b"HEAD", b"get", b"PUT"];
    let paths: [&[u8]; 8] = [b"/ws", b"/ws/", b"/x", b"/health", b"/version", b"/WS", b"/ws?x=1", b"/"];
    let psks: [&[u8]; 2] = [b"s3cret", b"S3cret"];
    let mut emit = |c: Vec<u64>, out: &mut Out| {
        let res = run_case(&rt, &base, &c[1..]);
        out.emit(&c, &res);
    };
    if a.mode.contains("exhaustive") {
        // one deviation at a time from a valid request, for every configuration
        for cfg_psk in [None, Some(&b"s3cret"[..])] {
            for obfs in [false, true] {
                for ext in [true, false] {
                    for (mi, m) in methods.iter().enumerate() {
                        for (pi, p) in paths.iter().enumerate() {
                            for hi in 0..7usize {
                                for var in 0..14u64 {
                                    if hi == 6 && var > 0 {
                                        continue;
                                    }
                                    if (mi > 0 || pi > 0) && var > 1 && hi != 5 {
                                        continue; // deviations of method/path with the headers valid or one absent
                                    }
                                    let mut hs = Vec::new();
                                    for i in 0..6 {
                                        let v = if i == hi { var } else { 0 };
                                        header_variant(i, v, b"s3cret", &mut hs);
                                    }
                                    emit(encode_case(cfg_psk, obfs, ext, m, p, &hs), out);
                                }
                            }
                        }
                    }
                }
            }
        }
    }
    for _ in 0..a.n {
        let cfg_psk = if r.chance(1, 2) { Some(r.pick(&psks)) } else { None };
        let presented = r.pick(&[&b"s3cret"[..], b"s3cre", b"S3CRET", b"s3cret ", b"", b"s3cretx"]);
        let mut hs = Vec::new();
        for i in 0..6 {
            let var = if r.chance(3, 5) { 0 } else { r.below(14) };
            header_variant(i, var, presented, &mut hs);
        }
        if r.chance(1, 4) {
            // shuffle the header order a little
            let n = hs.len();
            if n > 1 {
                let i = r.below(n as u64) as usize;
                let j = r.below(n as u64) as usize;
                hs.swap(i, j);
            }
        }
        let m = if r.chance(3, 4) { methods[0] } else { r.pick(&methods) };
        let p = if r.chance(2, 3) { paths[0] } else { r.pick(&paths) };
        emit(encode_case(cfg_psk, r.chance(1, 2), r.chance(5, 6), m, p, &hs), out);
    }
}
