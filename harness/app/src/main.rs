mod backoff;
mod e2e;
mod gate;
mod reconnect;
mod socksd;
mod tlsm;
mod util;
use util::*;

fn main() {
    let args: Vec<String> = std::env::args().skip(1).collect();
    let which = args.first().cloned().unwrap_or_default();
    let a = parse_args(&args[1.min(args.len())..]);
    quiet_panics();
    rusty_penguin_lib::tls::init_crypto_provider();
    let mut out = Out::new();
    if let Some(path) = &a.replay {
        let rt = tokio::runtime::Builder::new_current_thread().enable_all().build().unwrap();
        let base = rt.block_on(rusty_penguin_lib::server::State::new()).expect("state");
        let mut tls_ctx: Option<tlsm::Ctx> = None;
        let mut world: Option<e2e::World> = None;
        let mut socksd: Option<socksd::Socksd> = None;
        for c in read_cases(path) {
            let r = match c.first() {
                Some(14) => gate::run_case(&rt, &base, &c[1..]),
                Some(1) => world.get_or_insert_with(e2e::World::new).run_case(&c[1..]),
                Some(18) if c.get(1) == Some(&7) => socksd.get_or_insert_with(socksd::Socksd::new).run_case(&c[2..]),
                Some(18) if c.get(1) == Some(&8) => socksd.get_or_insert_with(socksd::Socksd::new).run_connect(&c[2..]),
                Some(17) => tls_ctx.get_or_insert_with(tlsm::Ctx::new).run_case(&c[1..]),
                Some(19) if c.get(1) == Some(&1) => backoff::run_case(&c[2..]),
                Some(19) if c.get(1) == Some(&2) => reconnect::run_case(&c[2..]),
                _ => vec![999_999],
            };
            out.emit(&c, &r);
        }
        out.finish();
        return;
    }
    match which.as_str() {
        "gate" => gate::generate(&a, &mut out),
        "e2e" => e2e::generate(&a, &mut out),
        "tls" => tlsm::generate(&a, &mut out),
        "backoff" => backoff::generate(&a, &mut out),
        "reconnect" => reconnect::generate(&a, &mut out),
        "socksd" => socksd::generate(&a, &mut out),
        _ => {
            eprintln!("usage: vh-app <gate|...> [--seed S] [--n N] [--mode M] [--replay FILE]");
            std::process::exit(2);
        }
    }
    out.finish();
}
