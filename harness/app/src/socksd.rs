//! C18 (the client's use of penguin-socks): the real client (`client_main_inner`) with a SOCKS listener and a tunnel
//! server that is not there; a local connection sends a byte string (a version 5 greeting, possibly followed by a
//! request), half-closes, and reads what the listener answers until it closes the connection.
//!
//! case: 18 7 b_1 .. b_n      result: m r_1 .. r_m  (the bytes answered; 999997 = no connection, 999996 = not closed in time)
use crate::util::*;
use rusty_penguin_lib::arg::{ClientArgs, Remote, ServerUrl};
use rusty_penguin_lib::client::{HandlerResources, client_main_inner};
use std::str::FromStr;
use std::time::Duration;
use tokio::io::{AsyncReadExt, AsyncWriteExt};
use tokio::net::TcpStream;

pub struct Socksd {
    rt: tokio::runtime::Runtime,
    port: u16,
}

impl Socksd {
    pub fn new() -> Self {
        let rt = tokio::runtime::Builder::new_multi_thread().worker_threads(4).enable_all().build().unwrap();
        let port = alloc_port();
        let dead = alloc_port(); // nobody listens here: the tunnel never comes up, the listeners must be there all the same
        rt.block_on(async {
            let args: &'static ClientArgs = Box::leak(Box::new(ClientArgs {
                server: ServerUrl::from_str(&format!("ws://127.0.0.1:{dead}/ws")).unwrap(),
                remote: vec![Remote::from_str(&format!("127.0.0.1:{port}:socks")).unwrap()],
                keepalive: penguin_mux::timing::OptionalDuration::NONE,
                max_retry_count: 0,
                max_retry_interval: 1000,
                ..Default::default()
            }));
            let (hr, srx, drx) = HandlerResources::create();
            let hr: &'static HandlerResources = Box::leak(Box::new(hr));
            tokio::spawn(client_main_inner(args, hr, srx, drx));
            for _ in 0..500 {
                if TcpStream::connect(("127.0.0.1", port)).await.is_ok() {
                    break;
                }
                tokio::time::sleep(Duration::from_millis(10)).await;
            }
        });
        Self { rt, port }
    }

    pub fn run_case(&self, c: &[u64]) -> Vec<u64> {
        let bytes: Vec<u8> = c.iter().map(|&x| x as u8).collect();
        let port = self.port;
        self.rt.block_on(async move {
            let Ok(mut s) = TcpStream::connect(("127.0.0.1", port)).await else { return vec![999_997] };
            // in two writes when long enough (the listener must not depend on how the bytes are chunked)
            let cut = if bytes.len() > 3 { bytes.len() / 2 } else { bytes.len() };
            let _ = s.write_all(&bytes[..cut]).await;
            let _ = s.flush().await;
            if cut < bytes.len() {
                tokio::time::sleep(Duration::from_millis(2)).await;
                let _ = s.write_all(&bytes[cut..]).await;
            }
            let _ = s.shutdown().await;
            let mut got = Vec::new();
            let mut buf = [0u8; 256];
            let done = tokio::time::timeout(Duration::from_secs(3), async {
                loop {
                    match s.read(&mut buf).await {
                        Ok(0) | Err(_) => break,
                        Ok(n) => got.extend_from_slice(&buf[..n]),
                    }
                }
            })
            .await
            .is_ok();
            if !done {
                return vec![999_996];
            }
            let mut out = vec![got.len() as u64];
            out.extend(got.iter().map(|&b| u64::from(b)));
            out
        })
    }
}

pub fn generate(a: &Args, out: &mut Out) {
    let w = Socksd::new();
    let mut rng = Rng(a.seed ^ 0x1807);
    let mut emit = |bytes: Vec<u8>, out: &mut Out| {
        let mut c = vec![18u64, 7];
        c.extend(bytes.iter().map(|&b| u64::from(b)));
        let r = w.run_case(&c[2..]);
        out.emit(&c, &r);
    };
    // a request that needs no tunnel: BIND (2) or an unknown command, to an IPv4 / domain / IPv6 address
    let request = |rng: &mut Rng| -> Vec<u8> {
        let cmd = rng.pick(&[2u8, 2, 4, 0, 9]);
        let mut r = vec![5, cmd, 0];
        match rng.below(3) {
            0 => r.extend([1, 127, 0, 0, 1]),
            1 => {
                r.extend([3, 9]);
                r.extend(b"localhost");
            }
            _ => {
                r.push(4);
                r.extend(std::net::Ipv6Addr::LOCALHOST.octets());
            }
        }
        r.extend([0, 80]);
        r
    };
    // every position of "no authentication" in lists of 1..5 methods, and lists without it
    let others = [1u8, 2, 3, 0x80, 0xfe];
    for n in 1..=5usize {
        for pos in 0..=n {
            let mut ms: Vec<u8> = (0..n).map(|i| others[(i * 2 + n) % others.len()]).collect();
            if pos < n {
                ms[pos] = 0;
            }
            let mut g = vec![5, n as u8];
            g.extend(&ms);
            emit(g.clone(), out);
            g.extend(request(&mut rng));
            emit(g, out);
        }
    }
    emit(vec![5, 0], out);
    emit(vec![5], out);
    for _ in 0..a.n {
        let n = rng.below(7) as usize;
        let mut ms: Vec<u8> = (0..n).map(|_| rng.pick(&[0u8, 1, 2, 2, 3, 0x80, 0xff, 1])).collect();
        if rng.chance(1, 3) {
            ms.retain(|&m| m != 0);
        }
        let mut g = vec![5, ms.len() as u8];
        g.extend(&ms);
        if rng.chance(2, 3) {
            let mut r = request(&mut rng);
            if rng.chance(1, 5) {
                let k = rng.below(r.len() as u64) as usize;
                r.truncate(k);
            }
            g.extend(r);
        }
        emit(g, out);
    }
}
