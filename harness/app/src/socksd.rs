//! C18 (the client's use of penguin-socks): the real client (`client_main_inner`) with a SOCKS listener and a tunnel
//! server that is not there; a local connection sends a byte string (a version 5 greeting, possibly followed by a
//! request), half-closes, and reads what the listener answers until it closes the connection.
//!
//! case: 18 7 b_1 .. b_n      result: m r_1 .. r_m  (the bytes answered; 999997 = no connection, 999996 = not closed in time)
//!
//! A second client is connected to an in-process tunnel server (a real `Multiplexor`) that records the target of every
//! stream request it receives: a local connection sends a complete CONNECT request (version 4, 4a or 5), reads the
//! reply, and the harness reports the reply together with the host and port that reached the server.
//! case: 18 8 b_1 .. b_n      result: m r_1 .. r_m  h host_1 .. host_h  port   (999995 = no stream request arrived)
use crate::util::*;
use rusty_penguin_lib::arg::{ClientArgs, Remote, ServerUrl};
use rusty_penguin_lib::client::{HandlerResources, client_main_inner};
use std::str::FromStr;
use std::time::Duration;
use tokio::io::{AsyncReadExt, AsyncWriteExt};
use tokio::net::TcpStream;

pub struct Socksd {
    rt: tokio::runtime::Runtime,
    port: u16,
    port2: u16,
    seen: std::sync::Arc<std::sync::Mutex<Vec<(Vec<u8>, u16)>>>,
}

impl Socksd {
    pub fn new() -> Self {
        let rt = tokio::runtime::Builder::new_multi_thread().worker_threads(4).enable_all().build().unwrap();
        let port = alloc_port();
        let dead = alloc_port(); // nobody listens here: the tunnel never comes up, the listeners must be there all the same
        rt.block_on(async {
            let args: &'static ClientArgs = Box::leak(Box::new(ClientArgs {
                server: ServerUrl::from_str(&format!("ws://127.0.0.1:{dead}/ws")).unwrap(),
                remote: vec![Remote::from_str(&format!("127.0.0.1:{port}:socks")).unwrap()],
                keepalive: penguin_mux::timing::OptionalDuration::NONE,
                max_retry_count: 0,
                max_retry_interval: 1000,
                ..Default::default()
            }));
            let (hr, srx, drx) = HandlerResources::create();
            let hr: &'static HandlerResources = Box::leak(Box::new(hr));
            tokio::spawn(client_main_inner(args, hr, srx, drx));
            for _ in 0..500 {
                if TcpStream::connect(("127.0.0.1", port)).await.is_ok() {
                    break;
                }
                tokio::time::sleep(Duration::from_millis(10)).await;
            }
        });
        // the second client, with a tunnel
        let seen: std::sync::Arc<std::sync::Mutex<Vec<(Vec<u8>, u16)>>> = std::sync::Arc::default();
        let port2 = alloc_port();
        let seen2 = seen.clone();
        rt.block_on(async {
            let listener = tokio::net::TcpListener::bind("127.0.0.1:0").await.unwrap();
            let sport = listener.local_addr().unwrap().port();
            tokio::spawn(async move {
                while let Ok((tcp, _)) = listener.accept().await {
                    let seen = seen2.clone();
                    tokio::spawn(async move {
                        #[allow(clippy::result_large_err)]
                        let cb = |_req: &tokio_tungstenite::tungstenite::handshake::server::Request, mut resp: tokio_tungstenite::tungstenite::handshake::server::Response| {
                            resp.headers_mut().insert("sec-websocket-protocol", http::HeaderValue::from_static(penguin_mux::PROTOCOL_VERSION));
                            Ok(resp)
                        };
                        let Ok(ws) = tokio_tungstenite::accept_hdr_async(tcp, cb).await else { return };
                        let mux = penguin_mux::Multiplexor::new(ws);
                        while let Ok(stream) = mux.accept_stream_channel().await {
                            seen.lock().unwrap().push((stream.dest_host.to_vec(), stream.dest_port));
                            drop(stream);
                        }
                    });
                }
            });
            let args: &'static ClientArgs = Box::leak(Box::new(ClientArgs {
                server: ServerUrl::from_str(&format!("ws://127.0.0.1:{sport}/ws")).unwrap(),
                remote: vec![Remote::from_str(&format!("127.0.0.1:{port2}:socks")).unwrap()],
                keepalive: penguin_mux::timing::OptionalDuration::NONE,
                ..Default::default()
            }));
            let (hr, srx, drx) = HandlerResources::create();
            let hr: &'static HandlerResources = Box::leak(Box::new(hr));
            tokio::spawn(client_main_inner(args, hr, srx, drx));
            for _ in 0..500 {
                if TcpStream::connect(("127.0.0.1", port2)).await.is_ok() {
                    break;
                }
                tokio::time::sleep(Duration::from_millis(10)).await;
            }
            tokio::time::sleep(Duration::from_millis(100)).await;
        });
        Self { rt, port, port2, seen }
    }

    /// a complete CONNECT request through the client with a tunnel: the reply and the target that reached the server
    pub fn run_connect(&self, c: &[u64]) -> Vec<u64> {
        let bytes: Vec<u8> = c.iter().map(|&x| x as u8).collect();
        let (port, seen) = (self.port2, self.seen.clone());
        self.rt.block_on(async move {
            let before = seen.lock().unwrap().len();
            let Ok(mut s) = TcpStream::connect(("127.0.0.1", port)).await else { return vec![999_997] };
            let cut = bytes.len() / 2;
            let _ = s.write_all(&bytes[..cut]).await;
            let _ = s.flush().await;
            tokio::time::sleep(Duration::from_millis(2)).await;
            let _ = s.write_all(&bytes[cut..]).await;
            // the reply: 2 + 10 octets (version 5) or 8 (version 4); whatever arrives within the time limit
            let want = if bytes.first() == Some(&5) { 12 } else { 8 };
            let mut got = Vec::new();
            let mut buf = [0u8; 64];
            let _ = tokio::time::timeout(Duration::from_secs(3), async {
                while got.len() < want {
                    match s.read(&mut buf).await {
                        Ok(0) | Err(_) => break,
                        Ok(n) => got.extend_from_slice(&buf[..n]),
                    }
                }
            })
            .await;
            drop(s);
            let mut target = None;
            for _ in 0..200 {
                if let Some(t) = seen.lock().unwrap().get(before).cloned() {
                    target = Some(t);
                    break;
                }
                tokio::time::sleep(Duration::from_millis(10)).await;
            }
            let mut out = vec![got.len() as u64];
            out.extend(got.iter().map(|&b| u64::from(b)));
            match target {
                Some((h, p)) => {
                    out.push(h.len() as u64);
                    out.extend(h.iter().map(|&b| u64::from(b)));
                    out.push(u64::from(p));
                }
                None => out.push(999_995),
            }
            out
        })
    }

    pub fn run_case(&self, c: &[u64]) -> Vec<u64> {
        let bytes: Vec<u8> = c.iter().map(|&x| x as u8).collect();
        let port = self.port;
        self.rt.block_on(async move {
            let Ok(mut s) = TcpStream::connect(("127.0.0.1", port)).await else { return vec![999_997] };
            // in two writes when long enough (the listener must not depend on how the bytes are chunked)
            let cut = if bytes.len() > 3 { bytes.len() / 2 } else { bytes.len() };
            let _ = s.write_all(&bytes[..cut]).await;
            let _ = s.flush().await;
            if cut < bytes.len() {
                tokio::time::sleep(Duration::from_millis(2)).await;
                let _ = s.write_all(&bytes[cut..]).await;
            }
            let _ = s.shutdown().await;
            let mut got = Vec::new();
            let mut buf = [0u8; 256];
            let done = tokio::time::timeout(Duration::from_secs(3), async {
                loop {
                    match s.read(&mut buf).await {
                        Ok(0) | Err(_) => break,
                        Ok(n) => got.extend_from_slice(&buf[..n]),
                    }
                }
            })
            .await
            .is_ok();
            if !done {
                return vec![999_996];
            }
            let mut out = vec![got.len() as u64];
            out.extend(got.iter().map(|&b| u64::from(b)));
            out
        })
    }
}

pub fn generate(a: &Args, out: &mut Out) {
    let w = Socksd::new();
    let mut rng = Rng(a.seed ^ 0x1807);
    // CONNECT requests through the tunnel: the target the server is asked for is the one of the request, byte for byte
    {
        let mut emit8 = |bytes: Vec<u8>, out: &mut Out| {
            let mut c = vec![18u64, 8];
            c.extend(bytes.iter().map(|&b| u64::from(b)));
            let r = w.run_connect(&c[2..]);
            out.emit(&c, &r);
        };
        // domain names with every kind of octet (not valid UTF-8 included; no NUL in a version 4a name)
        let names: Vec<Vec<u8>> = vec![
            b"localhost".to_vec(),
            b"caf\xe9.example".to_vec(),
            vec![0xff, 0xfe, 0x80, b'.', b'x'],
            (1u8..=255).collect(),
            vec![b'a'],
            b"xn--bcher-kva.example".to_vec(),
        ];
        for name in &names {
            // version 5, domain
            let mut g = vec![5, 1, 0, 5, 1, 0, 3, name.len() as u8];
            g.extend(name);
            g.extend([0x1f, 0x90]);
            emit8(g, out);
            // version 4a
            let mut g = vec![4, 1, 0x1f, 0x90, 0, 0, 0, 7];
            g.extend(b"user\0");
            g.extend(name.iter().filter(|&&b| b != 0));
            g.push(0);
            emit8(g, out);
        }
        emit8(vec![5, 1, 0, 5, 1, 0, 1, 10, 0, 200, 255, 0, 80], out);
        emit8(vec![4, 1, 0, 80, 10, 0, 200, 255, 0], out);
        emit8(vec![4, 1, 255, 255, 1, 2, 3, 4, b'u', 0], out);
        for _ in 0..(a.n / 6) {
            let n = 1 + rng.below(40) as usize;
            let name: Vec<u8> = (0..n).map(|_| 1 + rng.below(255) as u8).collect();
            let port = [rng.below(256) as u8, rng.below(256) as u8];
            if rng.chance(1, 2) {
                let mut g = vec![5, 2, 2, 0, 5, 1, 0, 3, n as u8];
                g.extend(&name);
                g.extend(port);
                emit8(g, out);
            } else {
                let mut g = vec![4, 1, port[0], port[1], 0, 0, 0, 1 + rng.below(255) as u8];
                g.extend(b"u\0");
                g.extend(&name);
                g.push(0);
                emit8(g, out);
            }
        }
    }
    let mut emit = |bytes: Vec<u8>, out: &mut Out| {
        let mut c = vec![18u64, 7];
        c.extend(bytes.iter().map(|&b| u64::from(b)));
        let r = w.run_case(&c[2..]);
        out.emit(&c, &r);
    };
    // a request that needs no tunnel: BIND (2) or an unknown command, to an IPv4 / domain / IPv6 address
    let request = |rng: &mut Rng| -> Vec<u8> {
        let cmd = rng.pick(&[2u8, 2, 4, 0, 9]);
        let mut r = vec![5, cmd, 0];
        match rng.below(5) {
            3 => {
                // an address type that does not exist (answered "address type not supported")
                r.extend([rng.pick(&[0u8, 2, 5, 9]), 1, 2, 3, 4]);
            }
            4 => {
                // the request's own version byte is wrong
                r[0] = rng.pick(&[4u8, 6, 0]);
                r.extend([1, 127, 0, 0, 1]);
            }
            0 => r.extend([1, 127, 0, 0, 1]),
            1 => {
                r.extend([3, 9]);
                r.extend(b"localhost");
            }
            _ => {
                r.push(4);
                r.extend(std::net::Ipv6Addr::LOCALHOST.octets());
            }
        }
        r.extend([0, 80]);
        r
    };
    // every position of "no authentication" in lists of 1..5 methods, and lists without it
    let others = [1u8, 2, 3, 0x80, 0xfe];
    for n in 1..=5usize {
        for pos in 0..=n {
            let mut ms: Vec<u8> = (0..n).map(|i| others[(i * 2 + n) % others.len()]).collect();
            if pos < n {
                ms[pos] = 0;
            }
            let mut g = vec![5, n as u8];
            g.extend(&ms);
            emit(g.clone(), out);
            g.extend(request(&mut rng));
            emit(g, out);
        }
    }
    emit(vec![5, 0], out);
    emit(vec![5], out);
    emit(vec![6, 1, 0], out);
    emit(vec![0], out);
    // version 4 / 4a requests with other commands than CONNECT
    let v4 = |rng: &mut Rng| -> Vec<u8> {
        let cmd = rng.pick(&[2u8, 2, 0, 3, 9]);
        let mut r = vec![4, cmd, 0, 80];
        let a4 = rng.chance(1, 2);
        if a4 {
            r.extend([0, 0, 0, rng.pick(&[1u8, 7, 255])]);
        } else {
            r.extend([127, 0, 0, 1]);
        }
        let ulen = rng.pick(&[0usize, 1, 4, 30]);
        r.extend((0..ulen).map(|i| b'a' + (i % 26) as u8));
        r.push(0);
        if a4 {
            let dlen = rng.pick(&[0usize, 1, 9, 60]);
            r.extend((0..dlen).map(|i| b'k' + (i % 10) as u8));
            r.push(0);
        }
        r
    };
    for _ in 0..12 {
        let r = v4(&mut rng);
        emit(r, out);
    }
    for _ in 0..a.n {
        let n = rng.below(7) as usize;
        let mut ms: Vec<u8> = (0..n).map(|_| rng.pick(&[0u8, 1, 2, 2, 3, 0x80, 0xff, 1])).collect();
        if rng.chance(1, 3) {
            ms.retain(|&m| m != 0);
        }
        let mut g = vec![5, ms.len() as u8];
        g.extend(&ms);
        if rng.chance(2, 3) {
            let mut r = request(&mut rng);
            if rng.chance(1, 5) {
                let k = rng.below(r.len() as u64) as usize;
                r.truncate(k);
            }
            g.extend(r);
        }
        emit(g, out);
        if rng.chance(1, 4) {
            let mut r = v4(&mut rng);
            if rng.chance(1, 5) {
                let k = 1 + rng.below(r.len() as u64 - 1) as usize;
                r.truncate(k);
            }
            emit(r, out);
        }
    }
}
