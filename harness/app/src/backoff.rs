//! C19 (part 1): `penguin_mux::timing::Backoff` driven directly.
//! case: 19 1 initial(3 limbs) max(3 limbs) mult max_count ops..   (op 0 = advance, 1 = reset)
//! result per advance: 0 | 1 d(3 limbs) | 2 (panic: Duration overflow; the run stops there)
use crate::util::*;
use penguin_mux::timing::Backoff;
use std::time::Duration;

const NS: u128 = 1_000_000_000;

fn limbs(x: u128) -> [u64; 3] {
    [(x & 0xffff_ffff) as u64, ((x >> 32) & 0xffff_ffff) as u64, (x >> 64) as u64]
}
fn unlimbs(c: &[u64]) -> u128 {
    u128::from(c[0]) + (u128::from(c[1]) << 32) + (u128::from(c[2]) << 64)
}
fn dur(ns: u128) -> Duration {
    Duration::new((ns / NS) as u64, (ns % NS) as u32)
}

pub fn run_case(c: &[u64]) -> Vec<u64> {
    if c.len() < 8 {
        return vec![999_999];
    }
    let (initial, max) = (unlimbs(&c[0..3]), unlimbs(&c[3..6]));
    let mut b = Backoff::new(dur(initial), dur(max), c[6] as u32, c[7] as u32);
    let mut out = vec![];
    for &op in &c[8..] {
        if op == 0 {
            match catch(|| b.advance()) {
                None => {
                    out.push(2);
                    break;
                }
                Some(None) => out.push(0),
                Some(Some(d)) => {
                    out.push(1);
                    out.extend(limbs(d.as_nanos()));
                }
            }
        } else {
            b.reset();
        }
    }
    out
}

const DMAX: u128 = (u64::MAX as u128) * NS + 999_999_999;

pub fn generate(a: &Args, out: &mut Out) {
    let mut rng = Rng(a.seed ^ 0x19);
    let emit = |out: &mut Out, initial: u128, max: u128, mult: u64, mc: u64, ops: &[u64]| {
        let mut c = vec![19, 1];
        c.extend(limbs(initial));
        c.extend(limbs(max));
        c.push(mult);
        c.push(mc);
        c.extend_from_slice(ops);
        let r = run_case(&c[2..]);
        out.emit(&c, &r);
    };
    if a.mode.contains("exhaustive") {
        // all small tuples, three op patterns each
        let pats: [&[u64]; 3] = [&[0, 0, 0, 0, 0, 0, 0], &[0, 0, 1, 0, 0, 0, 0, 0], &[0, 1, 1, 0, 0, 0, 1, 0]];
        for initial in 0..=4u128 {
            for max in 0..=9u128 {
                for mult in 0..=3u64 {
                    for mc in 0..=4u64 {
                        for p in pats {
                            emit(out, initial, max, mult, mc, p);
                        }
                    }
                }
            }
        }
        return;
    }
    let big = [0u128, 1, 3, 200_000_000, NS, 300_000 * 1_000_000, DMAX / 2, DMAX / 2 + 1, DMAX - 1, DMAX];
    for _ in 0..a.n {
        let pickd = |rng: &mut Rng| -> u128 {
            match rng.below(4) {
                0 => u128::from(rng.below(10)),
                1 => u128::from(rng.next() >> rng.below(60)),
                2 => big[rng.below(big.len() as u64) as usize],
                _ => (u128::from(rng.next()) << 30) % (DMAX + 1),
            }
        };
        let initial = pickd(&mut rng);
        let max = pickd(&mut rng);
        let mult = match rng.below(5) {
            0 => 1,
            1 => 2,
            2 => rng.below(5),
            3 => u64::from(u32::MAX) - rng.below(2),
            _ => rng.below(1000),
        };
        let mc = if rng.chance(1, 3) { 0 } else { rng.below(8) };
        let n = rng.below(14) as usize;
        let ops: Vec<u64> = (0..n).map(|_| u64::from(rng.chance(1, 6))).collect();
        emit(out, initial, max, mult, mc, &ops);
    }
}
