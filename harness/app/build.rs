fn main() {
    let m = std::fs::read_to_string("/repo/penguin/Cargo.toml").unwrap();
    let v = m.lines().find(|l| l.starts_with("version")).and_then(|l| l.split('"').nth(1)).unwrap().to_string();
    println!("cargo:rustc-env=VH_PENGUIN_VERSION={v}");
    println!("cargo:rerun-if-changed=/repo/penguin/Cargo.toml");
}
