//! Two real penguin-mux endpoints driven label by label under the harness's control.
//! Every call into the real code is one poll; the harness owns the transport, the RNG,
//! and every waker.
use crate::util::*;
use crate::ws::{FakeWs, WsState};
use bytes::Bytes;
use penguin_mux::config::Options;
use penguin_mux::frame::BindType;
use penguin_mux::ws::Message;
use penguin_mux::{BindRequest, Datagram, Multiplexor, MuxStream};
use std::collections::VecDeque;
use std::convert::Infallible;
use std::future::Future;
use std::pin::Pin;
use std::sync::atomic::{AtomicBool, Ordering};
use std::sync::{Arc, Mutex};
use std::task::{Context, Poll, Wake, Waker};
use tokio::io::{AsyncBufRead, AsyncRead, AsyncWrite, ReadBuf};

pub const MALFORMED: u64 = 999_999;

/// scripted RNG: the script first, then a fixed fallback sequence
pub struct ScriptRng {
    script: VecDeque<u32>,
    fallback: u32,
}
impl rand::TryRng for ScriptRng {
    type Error = Infallible;
    fn try_next_u32(&mut self) -> Result<u32, Infallible> {
        Ok(match self.script.pop_front() {
            Some(v) => v,
            None => {
                self.fallback = self.fallback.wrapping_add(1);
                self.fallback
            }
        })
    }
    fn try_next_u64(&mut self) -> Result<u64, Infallible> {
        let lo = u64::from(self.try_next_u32()?);
        let hi = u64::from(self.try_next_u32()?);
        Ok(hi << 32 | lo)
    }
    fn try_fill_bytes(&mut self, dst: &mut [u8]) -> Result<(), Infallible> {
        for ch in dst.chunks_mut(4) {
            let v = self.try_next_u32()?.to_le_bytes();
            ch.copy_from_slice(&v[..ch.len()]);
        }
        Ok(())
    }
}

#[derive(Clone, Copy)]
pub struct Ts;
impl penguin_mux::timing::TimestampProvider for Ts {
    fn now() -> Self {
        Ts
    }
    fn duration_since(&self, _earlier: Self) -> std::time::Duration {
        std::time::Duration::ZERO
    }
}

struct Flag(AtomicBool);
impl Wake for Flag {
    fn wake(self: Arc<Self>) {
        self.0.store(true, Ordering::SeqCst);
    }
    fn wake_by_ref(self: &Arc<Self>) {
        self.0.store(true, Ordering::SeqCst);
    }
}

struct Pollable {
    id: u64,
    flag: Arc<Flag>,
    waker: Waker,
}
impl Pollable {
    fn new(id: u64) -> Self {
        let flag = Arc::new(Flag(AtomicBool::new(false)));
        let waker = Waker::from(flag.clone());
        Self { id, flag, waker }
    }
}

type BoxFut<T> = Pin<Box<dyn Future<Output = T> + Send>>;

pub struct Cfg {
    pub rwnd: u32,
    pub threshold: u32,
    pub accept_q: usize,
    pub dgram_q: usize,
    pub bind_q: usize,
    pub retries: usize,
    pub rng: Vec<u32>,
}

/// what the scripted local side of a bridge does next
#[derive(Default)]
pub struct LocalState {
    /// read side: 0 data, 1 eof (sticky), 2 error (once)
    rq: VecDeque<(u8, Vec<u8>)>,
    /// write side: (0, k) accept k bytes, (1, _) pending once, (2, _) error once; empty = accept all
    wq: VecDeque<(u8, usize)>,
    /// shutdown: 1 pending once, 2 error once; empty = ok
    sq: VecDeque<u8>,
    written: Vec<u8>,
    shutdown_done: bool,
    waker: Option<Waker>,
}

pub struct LocalSide {
    st: Arc<Mutex<LocalState>>,
    cur: Vec<u8>,
}

fn ioerr() -> std::io::Error {
    std::io::Error::new(std::io::ErrorKind::ConnectionReset, "injected")
}

impl AsyncRead for LocalSide {
    fn poll_read(self: Pin<&mut Self>, _cx: &mut Context<'_>, _buf: &mut ReadBuf<'_>) -> Poll<std::io::Result<()>> {
        unreachable!("the bridge reads through AsyncBufRead")
    }
}
impl AsyncBufRead for LocalSide {
    fn poll_fill_buf(self: Pin<&mut Self>, cx: &mut Context<'_>) -> Poll<std::io::Result<&[u8]>> {
        let this = self.get_mut();
        if this.cur.is_empty() {
            let mut st = this.st.lock().unwrap();
            match st.rq.front().map(|x| x.0) {
                None => {
                    st.waker = Some(cx.waker().clone());
                    return Poll::Pending;
                }
                Some(0) => {
                    let (_, d) = st.rq.pop_front().unwrap();
                    this.cur = d;
                    if this.cur.is_empty() {
                        // an empty chunk is not representable (it would read as EOF): skip it
                        drop(st);
                        return Pin::new(this).poll_fill_buf(cx);
                    }
                }
                Some(1) => return Poll::Ready(Ok(&[])),
                Some(_) => {
                    st.rq.pop_front();
                    return Poll::Ready(Err(ioerr()));
                }
            }
        }
        Poll::Ready(Ok(&this.cur))
    }
    fn consume(self: Pin<&mut Self>, amt: usize) {
        let this = self.get_mut();
        this.cur.drain(..amt.min(this.cur.len()));
    }
}
impl AsyncWrite for LocalSide {
    fn poll_write(self: Pin<&mut Self>, cx: &mut Context<'_>, buf: &[u8]) -> Poll<std::io::Result<usize>> {
        let mut st = self.st.lock().unwrap();
        match st.wq.pop_front() {
            None => {
                st.written.extend_from_slice(buf);
                Poll::Ready(Ok(buf.len()))
            }
            Some((0, k)) => {
                let k = k.max(1).min(buf.len());
                st.written.extend_from_slice(&buf[..k]);
                Poll::Ready(Ok(k))
            }
            Some((1, _)) => {
                st.waker = Some(cx.waker().clone());
                Poll::Pending
            }
            Some(_) => Poll::Ready(Err(ioerr())),
        }
    }
    fn poll_flush(self: Pin<&mut Self>, _cx: &mut Context<'_>) -> Poll<std::io::Result<()>> {
        Poll::Ready(Ok(()))
    }
    fn poll_shutdown(self: Pin<&mut Self>, cx: &mut Context<'_>) -> Poll<std::io::Result<()>> {
        let mut st = self.st.lock().unwrap();
        match st.sq.pop_front() {
            None => {
                st.shutdown_done = true;
                Poll::Ready(Ok(()))
            }
            Some(1) => {
                st.waker = Some(cx.waker().clone());
                Poll::Pending
            }
            Some(_) => Poll::Ready(Err(ioerr())),
        }
    }
}

struct BridgeInst {
    e: usize,
    fut: Option<Pin<Box<dyn Future<Output = std::io::Result<(usize, usize)>> + Send>>>,
    local: Arc<Mutex<LocalState>>,
    seen_written: usize,
}

struct Ep {
    idx: u64,
    mux: Option<Arc<Multiplexor<ScriptRng>>>,
    ws: Arc<Mutex<WsState>>,
    task: Option<BoxFut<penguin_mux::Result<()>>>,
    task_p: Pollable,
    streams: Vec<Option<Pin<Box<MuxStream>>>>,
    opens: Vec<Option<BoxFut<penguin_mux::Result<MuxStream>>>>,
    binds: Vec<Option<BoxFut<penguin_mux::Result<bool>>>>,
    bindreqs: Vec<Option<BindRequest<'static>>>,
    pollables: Vec<Pollable>,
    all_fids: Vec<u64>,
}

fn err_code(e: &penguin_mux::Error) -> Vec<u64> {
    use penguin_mux::Error as E;
    match e {
        E::SendStreamToClient => vec![1],
        E::Closed => vec![2],
        E::PeerUnsupportedOperation => vec![3],
        E::UnsupportedOperation => vec![4],
        E::FlowIdRejected => vec![5],
        E::KeepaliveTimeout => vec![6],
        E::WebSocket(_) => vec![7],
        E::DatagramHostTooLong => vec![8],
        E::InvalidFrame(_) => vec![9],
        E::TextMessage => vec![10],
        E::ConnAckGone => vec![11],
        E::ChannelClosed(_) => vec![12],
        _ => vec![99],
    }
}

fn put_msg(o: &mut Vec<u64>, m: &Message) {
    match m {
        Message::Binary(b) => {
            o.push(0);
            put_lp(o, b);
        }
        Message::Ping => o.push(1),
        Message::Pong => o.push(2),
        Message::Close => o.push(3),
    }
}

/// the flow id of a stream, from its Debug output (the field is crate-private)
fn flow_id_of(s: &MuxStream) -> u64 {
    let d = format!("{s:?}");
    let i = d.find("flow_id: ").map(|i| i + 9).unwrap_or(0);
    u64::from_str_radix(d[i..].split(|c: char| !c.is_ascii_hexdigit()).next().unwrap_or("0"), 16).unwrap_or(0)
}

impl Ep {
    fn new(idx: u64, cfg: &Cfg) -> Self {
        let ws = Arc::new(Mutex::new(WsState::default()));
        let opts = Options::new()
            .rwnd(cfg.rwnd)
            .default_rwnd_threshold(cfg.threshold)
            .stream_buffer_size(cfg.accept_q)
            .datagram_buffer_size(cfg.dgram_q)
            .bind_buffer_size(cfg.bind_q)
            .max_flow_id_retries(cfg.retries);
        let rng = ScriptRng { script: cfg.rng.iter().copied().collect(), fallback: 0x4000_0000 + (idx as u32) * 0x1000_0000 };
        let (mux, taskdata) = Multiplexor::new_detailed::<_, Ts>(FakeWs(ws.clone()), opts, rng);
        let task: BoxFut<penguin_mux::Result<()>> = Box::pin(taskdata.into_task());
        Self {
            idx,
            mux: Some(Arc::new(mux)),
            ws,
            task: Some(task),
            task_p: Pollable::new(idx * 1_000_000),
            streams: Vec::new(),
            opens: Vec::new(),
            binds: Vec::new(),
            bindreqs: Vec::new(),
            pollables: Vec::new(),
            all_fids: Vec::new(),
        }
    }

    fn waker(&mut self, kind: u64, i: usize) -> Waker {
        let id = self.idx * 1_000_000 + kind * 10_000 + i as u64;
        if let Some(p) = self.pollables.iter().find(|p| p.id == id) {
            return p.waker.clone();
        }
        let p = Pollable::new(id);
        let w = p.waker.clone();
        self.pollables.push(p);
        w
    }

    fn add_stream(&mut self, s: MuxStream) -> usize {
        self.all_fids.push(flow_id_of(&s));
        self.streams.push(Some(Box::pin(s)));
        self.streams.len() - 1
    }
}

pub struct World {
    eps: [Ep; 2],
    /// link[d]: messages travelling from endpoint d to endpoint 1-d
    link: [VecDeque<Message>; 2],
    out: Vec<u64>,
    pending_deliver: Option<usize>,
    pending_deliver_all: Option<(usize, u64)>,
    bridges: Vec<BridgeInst>,
}

const K_READ: u64 = 1;
const K_WRITE: u64 = 2;
const K_OPEN: u64 = 3;
const K_ACCEPT: u64 = 4;
const K_DGRAM: u64 = 5;
const K_BIND: u64 = 6;
const K_NEXTBIND: u64 = 7;

impl World {
    pub fn new(a: &Cfg, b: &Cfg) -> Self {
        let mut w = Self { eps: [Ep::new(0, a), Ep::new(1, b)], link: [VecDeque::new(), VecDeque::new()], out: Vec::new(), pending_deliver: None, pending_deliver_all: None, bridges: Vec::new() };
        // first poll of both tasks (registers their wakers); nothing is emitted
        let mut done = Vec::new();
        w.settle(&mut done);
        let mut sink = Vec::new();
        w.collect_emitted(&mut sink);
        w.clear_wakes();
        w
    }

    /// poll both tasks until neither has been woken again; bounded
    fn settle(&mut self, done: &mut Vec<u64>) {
        for e in 0..2 {
            self.eps[e].task_p.flag.0.store(true, Ordering::SeqCst);
        }
        for _round in 0..64 {
            let mut any = false;
            for e in 0..2 {
                let ep = &mut self.eps[e];
                if !ep.task_p.flag.0.swap(false, Ordering::SeqCst) {
                    continue;
                }
                any = true;
                if let Some(t) = ep.task.as_mut() {
                    let mut cx = Context::from_waker(&ep.task_p.waker);
                    match catch(|| t.as_mut().poll(&mut cx)) {
                        None => {
                            ep.task = None;
                            done.extend([e as u64, 2_000_002]);
                        }
                        Some(Poll::Ready(r)) => {
                            ep.task = None;
                            done.push(e as u64);
                            match r {
                                Ok(()) => done.push(0),
                                Err(er) => done.push(100 + err_code(&er)[0]),
                            }
                        }
                        Some(Poll::Pending) => {}
                    }
                }
            }
            if !any {
                return;
            }
        }
        done.extend([9, 2_000_003]); // did not quiesce
    }

    /// move what the endpoints sent onto the links; report it
    fn collect_emitted(&mut self, o: &mut Vec<u64>) {
        for e in 0..2 {
            let msgs: Vec<Message> = std::mem::take(&mut self.eps[e].ws.lock().unwrap().outbox);
            let mut sec = Vec::new();
            for m in &msgs {
                put_msg(&mut sec, m);
            }
            {
                let mut s = self.eps[e].ws.lock().unwrap();
                if s.close_calls > 0 {
                    s.close_calls = 0;
                    sec.push(4);
                }
                if s.sent_after_close > 0 {
                    s.sent_after_close = 0;
                    sec.push(5);
                }
            }
            o.push(sec.len() as u64);
            o.extend(sec);
            self.link[e].extend(msgs);
        }
    }

    fn clear_wakes(&mut self) {
        for e in 0..2 {
            for p in &self.eps[e].pollables {
                p.flag.0.store(false, Ordering::SeqCst);
            }
        }
    }

    fn collect_wakes(&mut self) -> Vec<u64> {
        let mut w = Vec::new();
        for e in 0..2 {
            for p in &self.eps[e].pollables {
                if p.flag.0.swap(false, Ordering::SeqCst) {
                    w.push(p.id);
                }
            }
        }
        w.sort_unstable();
        w
    }

    /// run one label; appends [len res, res.., len wakes, wakes.., lenA, emittedA.., lenB, emittedB.., len done, done..]
    pub fn label(&mut self, l: &[u64]) -> bool {
        let res = match catch(|| self.exec(l)) {
            Some(Some(r)) => r,
            Some(None) => return false,
            None => vec![2_000_002],
        };
        let mut res = res;
        let mut done = Vec::new();
        self.settle(&mut done);
        if let Some((d, n)) = self.pending_deliver_all.take() {
            // whatever the task did not take (receive side suspended, task ended) goes back to the link, in order
            let rx = 1 - d;
            let mut back: Vec<Message> = self.eps[rx].ws.lock().unwrap().inbox.drain(..).collect();
            let left = back.len() as u64;
            while let Some(m) = back.pop() {
                self.link[d].push_front(m);
            }
            res = vec![0, n - left];
        }
        if let Some(d) = self.pending_deliver.take() {
            // not consumed: the receive side is suspended; take the message back
            let rx = 1 - d;
            let back = self.eps[rx].ws.lock().unwrap().inbox.pop_front();
            if let Some(m) = back {
                self.link[d].push_front(m);
                res = if res.len() == 2 { vec![0, 1] } else { vec![1] };
            }
        }
        let wakes = self.collect_wakes();
        let mut o = Vec::new();
        o.push(res.len() as u64);
        o.extend(res);
        o.push(wakes.len() as u64);
        o.extend(wakes);
        self.collect_emitted(&mut o);
        o.push(done.len() as u64);
        o.extend(done);
        self.out.extend(o);
        true
    }

    pub fn link_len(&self, d: usize) -> usize {
        self.link[d].len()
    }
    pub fn n_streams(&self, e: usize) -> usize {
        self.eps[e].streams.len()
    }
    pub fn stream_alive(&self, e: usize, sid: usize) -> bool {
        matches!(self.eps[e].streams.get(sid), Some(Some(_)))
    }
    pub fn n_opens(&self, e: usize) -> usize {
        self.eps[e].opens.len()
    }
    pub fn open_pending(&self, e: usize, k: usize) -> bool {
        matches!(self.eps[e].opens.get(k), Some(Some(_)))
    }
    pub fn n_binds(&self, e: usize) -> usize {
        self.eps[e].binds.len()
    }
    pub fn bind_pending(&self, e: usize, k: usize) -> bool {
        matches!(self.eps[e].binds.get(k), Some(Some(_)))
    }
    pub fn n_bindreqs(&self, e: usize) -> usize {
        self.eps[e].bindreqs.len()
    }
    pub fn bindreq_alive(&self, e: usize, k: usize) -> bool {
        matches!(self.eps[e].bindreqs.get(k), Some(Some(_)))
    }
    pub fn mux_alive(&self, e: usize) -> bool {
        self.eps[e].mux.is_some()
    }
    pub fn task_alive(&self, e: usize) -> bool {
        self.eps[e].task.is_some()
    }
    pub fn fids(&self, e: usize) -> &[u64] {
        &self.eps[e].all_fids
    }
    pub fn n_bridges(&self) -> usize {
        self.bridges.len()
    }
    pub fn bridge_live(&self, k: usize) -> bool {
        self.bridges.get(k).is_some_and(|b| b.fut.is_some())
    }
    pub fn out_len(&self) -> usize {
        self.out.len()
    }
    pub fn out_tail(&self, from: usize) -> &[u64] {
        &self.out[from..]
    }
    pub fn finish(self) -> Vec<u64> {
        self.out
    }

    fn exec(&mut self, l: &[u64]) -> Option<Vec<u64>> {
        let op = *l.first()?;
        let a = &l[1..];
        match op {
            10 => {
                // Open e port lp(host)
                let e = *a.first()? as usize;
                let port = *a.get(1)? as u16;
                let host = lp_at(a, 2)?;
                let ep = &mut self.eps[e];
                let k = ep.opens.len();
                match ep.mux.clone() {
                    Some(mux) => {
                        let fut: BoxFut<penguin_mux::Result<MuxStream>> =
                            Box::pin(async move { mux.new_stream_channel(&host, port).await });
                        ep.opens.push(Some(fut));
                    }
                    None => {
                        ep.opens.push(None);
                    }
                }
                Some(self.poll_open(e, k))
            }
            11 => {
                let e = *a.first()? as usize;
                let k = *a.get(1)? as usize;
                Some(self.poll_open(e, k))
            }
            12 => {
                let e = *a.first()? as usize;
                let ep = &mut self.eps[e];
                let Some(mux) = ep.mux.clone() else { return Some(vec![3]) };
                let w = ep.waker(K_ACCEPT, 0);
                let mut cx = Context::from_waker(&w);
                let mut fut = std::pin::pin!(mux.accept_stream_channel());
                Some(match fut.as_mut().poll(&mut cx) {
                    Poll::Pending => vec![1],
                    Poll::Ready(Ok(s)) => {
                        let mut o = vec![0];
                        let host = s.dest_host.clone();
                        let port = s.dest_port;
                        let fid = flow_id_of(&s);
                        let sid = ep.add_stream(s);
                        o.push(sid as u64);
                        o.push(u64::from(port));
                        put_lp(&mut o, &host);
                        o.push(fid);
                        o
                    }
                    Poll::Ready(Err(er)) => [vec![2], err_code(&er)].concat(),
                })
            }
            13 => {
                // Write e sid lp
                let e = *a.first()? as usize;
                let sid = *a.get(1)? as usize;
                let data = lp_at(a, 2)?;
                let ep = &mut self.eps[e];
                let w = ep.waker(K_WRITE, sid);
                let Some(Some(s)) = ep.streams.get_mut(sid) else { return Some(vec![3]) };
                let mut cx = Context::from_waker(&w);
                Some(match s.as_mut().poll_write(&mut cx, &data) {
                    Poll::Pending => vec![1],
                    Poll::Ready(Ok(n)) => vec![0, n as u64],
                    Poll::Ready(Err(er)) => vec![2, io_code(&er)],
                })
            }
            14 => {
                // WriteV e sid n (lp)*
                let e = *a.first()? as usize;
                let sid = *a.get(1)? as usize;
                let n = *a.get(2)? as usize;
                let mut chunks = Vec::new();
                let mut i = 3;
                for _ in 0..n {
                    let c = lp_at(a, i)?;
                    i += 1 + c.len();
                    chunks.push(c);
                }
                let ep = &mut self.eps[e];
                let w = ep.waker(K_WRITE, sid);
                let Some(Some(s)) = ep.streams.get_mut(sid) else { return Some(vec![3]) };
                let mut cx = Context::from_waker(&w);
                let slices: Vec<std::io::IoSlice<'_>> = chunks.iter().map(|c| std::io::IoSlice::new(c)).collect();
                Some(match s.as_mut().poll_write_vectored(&mut cx, &slices) {
                    Poll::Pending => vec![1],
                    Poll::Ready(Ok(n)) => vec![0, n as u64],
                    Poll::Ready(Err(er)) => vec![2, io_code(&er)],
                })
            }
            15 => {
                // Read e sid n
                let e = *a.first()? as usize;
                let sid = *a.get(1)? as usize;
                let n = *a.get(2)? as usize;
                let ep = &mut self.eps[e];
                let w = ep.waker(K_READ, sid);
                let Some(Some(s)) = ep.streams.get_mut(sid) else { return Some(vec![3]) };
                let mut cx = Context::from_waker(&w);
                let mut buf = vec![0u8; n];
                let mut rb = ReadBuf::new(&mut buf);
                Some(match s.as_mut().poll_read(&mut cx, &mut rb) {
                    Poll::Pending => vec![1],
                    Poll::Ready(Ok(())) => {
                        let mut o = vec![0];
                        put_lp(&mut o, rb.filled());
                        o
                    }
                    Poll::Ready(Err(er)) => vec![2, io_code(&er)],
                })
            }
            16 => {
                let e = *a.first()? as usize;
                let sid = *a.get(1)? as usize;
                let ep = &mut self.eps[e];
                let w = ep.waker(K_WRITE, sid);
                let Some(Some(s)) = ep.streams.get_mut(sid) else { return Some(vec![3]) };
                let mut cx = Context::from_waker(&w);
                Some(match s.as_mut().poll_shutdown(&mut cx) {
                    Poll::Pending => vec![1],
                    Poll::Ready(Ok(())) => vec![0],
                    Poll::Ready(Err(er)) => vec![2, io_code(&er)],
                })
            }
            17 => {
                let e = *a.first()? as usize;
                let sid = *a.get(1)? as usize;
                let ep = &mut self.eps[e];
                match ep.streams.get_mut(sid) {
                    Some(s @ Some(_)) => {
                        *s = None;
                        Some(vec![0])
                    }
                    _ => Some(vec![3]),
                }
            }
            18 => {
                // Deliver d: head of link d goes to endpoint 1-d
                let d = *a.first()? as usize;
                let Some(m) = self.link[d].pop_front() else { return Some(vec![3]) };
                let rx = 1 - d;
                {
                    let mut s = self.eps[rx].ws.lock().unwrap();
                    s.inbox.push_back(m);
                    if let Some(w) = s.rx_waker.take() {
                        w.wake();
                    }
                }
                self.pending_deliver = Some(d);
                Some(vec![0])
            }
            34 => {
                // DeliverAll d: everything in flight on link d reaches endpoint 1-d before its task runs again
                let d = *a.first()? as usize;
                if self.link[d].is_empty() {
                    return Some(vec![3]);
                }
                let rx = 1 - d;
                let n = self.link[d].len() as u64;
                {
                    let mut s = self.eps[rx].ws.lock().unwrap();
                    while let Some(m) = self.link[d].pop_front() {
                        s.inbox.push_back(m);
                    }
                    if let Some(w) = s.rx_waker.take() {
                        w.wake();
                    }
                }
                self.pending_deliver_all = Some((d, n));
                Some(vec![0, n])
            }
            33 => {
                // DropDeliver e sid: the application drops the stream and the next inbound message
                // becomes visible to the connection task in the same poll (drop not yet processed)
                let e = *a.first()? as usize;
                let sid = *a.get(1)? as usize;
                match self.eps[e].streams.get_mut(sid) {
                    Some(s @ Some(_)) => *s = None,
                    _ => return Some(vec![3]),
                }
                let d = 1 - e;
                let Some(m) = self.link[d].pop_front() else { return Some(vec![0, 3]) };
                {
                    let mut s = self.eps[e].ws.lock().unwrap();
                    s.inbox.push_back(m);
                    if let Some(w) = s.rx_waker.take() {
                        w.wake();
                    }
                }
                self.pending_deliver = Some(d);
                Some(vec![0, 0])
            }
            19 => {
                // SendDgram e fid port lp host lp data
                let e = *a.first()? as usize;
                let fid = *a.get(1)? as u32;
                let port = *a.get(2)? as u16;
                let host = lp_at(a, 3)?;
                let data = lp_at(a, 4 + host.len())?;
                let ep = &mut self.eps[e];
                let Some(mux) = ep.mux.clone() else { return Some(vec![3]) };
                let w = Waker::noop();
                let mut cx = Context::from_waker(w);
                let d = Datagram { flow_id: fid, target_host: Bytes::from(host), target_port: port, data: Bytes::from(data) };
                let mut fut = std::pin::pin!(mux.send_datagram(d));
                Some(match fut.as_mut().poll(&mut cx) {
                    Poll::Pending => vec![1],
                    Poll::Ready(Ok(())) => vec![0],
                    Poll::Ready(Err(er)) => [vec![2], err_code(&er)].concat(),
                })
            }
            20 => {
                let e = *a.first()? as usize;
                let ep = &mut self.eps[e];
                let Some(mux) = ep.mux.clone() else { return Some(vec![3]) };
                let w = ep.waker(K_DGRAM, 0);
                let mut cx = Context::from_waker(&w);
                let mut fut = std::pin::pin!(mux.get_datagram());
                Some(match fut.as_mut().poll(&mut cx) {
                    Poll::Pending => vec![1],
                    Poll::Ready(Ok(d)) => {
                        let mut o = vec![0, u64::from(d.flow_id), u64::from(d.target_port)];
                        put_lp(&mut o, &d.target_host);
                        put_lp(&mut o, &d.data);
                        o
                    }
                    Poll::Ready(Err(er)) => [vec![2], err_code(&er)].concat(),
                })
            }
            21 => {
                // BindReq e type port lp host
                let e = *a.first()? as usize;
                let bt = BindType::try_from(*a.get(1)? as u8).ok()?;
                let port = *a.get(2)? as u16;
                let host = lp_at(a, 3)?;
                let ep = &mut self.eps[e];
                let k = ep.binds.len();
                match ep.mux.clone() {
                    Some(mux) => {
                        let fut: BoxFut<penguin_mux::Result<bool>> =
                            Box::pin(async move { mux.request_bind(&host, port, bt).await });
                        ep.binds.push(Some(fut));
                    }
                    None => ep.binds.push(None),
                }
                Some(self.poll_bind(e, k))
            }
            22 => {
                let e = *a.first()? as usize;
                let k = *a.get(1)? as usize;
                Some(self.poll_bind(e, k))
            }
            23 => {
                let e = *a.first()? as usize;
                let ep = &mut self.eps[e];
                let Some(mux) = ep.mux.clone() else { return Some(vec![3]) };
                let w = ep.waker(K_NEXTBIND, 0);
                let mut cx = Context::from_waker(&w);
                let mut fut = std::pin::pin!(mux.next_bind_request());
                Some(match fut.as_mut().poll(&mut cx) {
                    Poll::Pending => vec![1],
                    Poll::Ready(Ok(r)) => {
                        let mut o = vec![0, ep.bindreqs.len() as u64, u64::from(r.flow_id()), r.bind_type() as u64, u64::from(r.port())];
                        put_lp(&mut o, r.host());
                        ep.bindreqs.push(Some(r));
                        o
                    }
                    Poll::Ready(Err(er)) => [vec![2], err_code(&er)].concat(),
                })
            }
            24 => {
                let e = *a.first()? as usize;
                let rid = *a.get(1)? as usize;
                let acc = *a.get(2)? != 0;
                let ep = &mut self.eps[e];
                let Some(Some(r)) = ep.bindreqs.get(rid) else { return Some(vec![3]) };
                Some(match r.reply(acc) {
                    Ok(()) => vec![0],
                    Err(er) => [vec![2], err_code(&er)].concat(),
                })
            }
            25 => {
                let e = *a.first()? as usize;
                let rid = *a.get(1)? as usize;
                let ep = &mut self.eps[e];
                match ep.bindreqs.get_mut(rid) {
                    Some(s @ Some(_)) => {
                        *s = None;
                        Some(vec![0])
                    }
                    _ => Some(vec![3]),
                }
            }
            26 => {
                // DropMux e: the application lets go of the multiplexor (pending calls hold clones)
                let e = *a.first()? as usize;
                let ep = &mut self.eps[e];
                if ep.mux.is_none() {
                    return Some(vec![3]);
                }
                // futures created from the handle keep it alive: drop them too, as a program
                // that drops its Multiplexor has necessarily dropped the futures borrowing it
                for o in ep.opens.iter_mut() {
                    *o = None;
                }
                for b in ep.binds.iter_mut() {
                    *b = None;
                }
                ep.mux = None;
                Some(vec![0])
            }
            27 => {
                // Inject e kind [lp bytes]: the peer of e (harness) puts a message on the link towards e
                let e = *a.first()? as usize;
                let m = match *a.get(1)? {
                    0 => Message::Binary(Bytes::from(lp_at(a, 2)?)),
                    1 => Message::Ping,
                    2 => Message::Pong,
                    _ => Message::Close,
                };
                self.link[1 - e].push_back(m);
                Some(vec![0])
            }
            28 => {
                // End e cause: 0 source ends, 1 source error, 2 sink error
                let e = *a.first()? as usize;
                let mut s = self.eps[e].ws.lock().unwrap();
                match *a.get(1)? {
                    0 => s.rx_eof = true,
                    1 => s.rx_err = true,
                    _ => s.sink_err = true,
                }
                if let Some(w) = s.rx_waker.take() {
                    w.wake();
                }
                if let Some(w) = s.tx_waker.take() {
                    w.wake();
                }
                Some(vec![0])
            }
            29 => {
                // Permits e n: how many more messages the sink accepts (>= 999999: always ready)
                let e = *a.first()? as usize;
                let n = *a.get(1)?;
                let mut s = self.eps[e].ws.lock().unwrap();
                s.permits = if n >= 999_999 { None } else { Some(n as usize) };
                if let Some(w) = s.tx_waker.take() {
                    w.wake();
                }
                Some(vec![0])
            }
            30 => {
                // BridgeStart e sid: the stream moves into a bridge with a scripted local side
                let e = *a.first()? as usize;
                let sid = *a.get(1)? as usize;
                let ep = &mut self.eps[e];
                let Some(slot) = ep.streams.get_mut(sid) else { return Some(vec![3]) };
                let Some(stream) = slot.take() else { return Some(vec![3]) };
                let stream: MuxStream = *Pin::into_inner(stream);
                let local = Arc::new(Mutex::new(LocalState::default()));
                let side = LocalSide { st: local.clone(), cur: Vec::new() };
                let fut = stream.into_copy_bidirectional_with_buf(side);
                let k = self.bridges.len();
                self.bridges.push(BridgeInst { e, fut: Some(Box::pin(fut)), local, seen_written: 0 });
                Some(vec![0, k as u64])
            }
            31 => {
                let k = *a.first()? as usize;
                let Some(b) = self.bridges.get_mut(k) else { return Some(vec![3]) };
                let Some(fut) = b.fut.as_mut() else { return Some(vec![3]) };
                let e = b.e;
                let w = self.eps[e].waker(8, k);
                let mut cx = Context::from_waker(&w);
                let mut o = match fut.as_mut().poll(&mut cx) {
                    Poll::Pending => vec![1],
                    Poll::Ready(r) => {
                        b.fut = None;
                        match r {
                            Ok((r, w)) => vec![0, r as u64, w as u64],
                            Err(er) => vec![2, io_code(&er)],
                        }
                    }
                };
                let st = b.local.lock().unwrap();
                let newly = st.written[b.seen_written..].to_vec();
                b.seen_written = st.written.len();
                put_lp(&mut o, &newly);
                o.push(u64::from(st.shutdown_done));
                Some(o)
            }
            32 => {
                // LocalFeed k kind [arg]
                let k = *a.first()? as usize;
                let kind = *a.get(1)?;
                let Some(b) = self.bridges.get(k) else { return Some(vec![3]) };
                let mut st = b.local.lock().unwrap();
                match kind {
                    0 => {
                        let d = lp_at(a, 2)?;
                        st.rq.push_back((0, d));
                    }
                    1 => st.rq.push_back((1, vec![])),
                    2 => st.rq.push_back((2, vec![])),
                    3 => st.wq.push_back((0, *a.get(2)? as usize)),
                    4 => st.wq.push_back((1, 0)),
                    5 => st.wq.push_back((2, 0)),
                    6 => st.sq.push_back(1),
                    7 => st.sq.push_back(2),
                    _ => {}
                }
                // readiness changed: wake whoever waits on the local side
                if let Some(w) = st.waker.take() {
                    w.wake();
                }
                Some(vec![0])
            }
            _ => None,
        }
    }

    fn poll_open(&mut self, e: usize, k: usize) -> Vec<u64> {
        let ep = &mut self.eps[e];
        let w = ep.waker(K_OPEN, k);
        let Some(Some(fut)) = ep.opens.get_mut(k) else { return vec![3] };
        let mut cx = Context::from_waker(&w);
        match fut.as_mut().poll(&mut cx) {
            Poll::Pending => vec![1],
            Poll::Ready(r) => {
                ep.opens[k] = None;
                match r {
                    Ok(s) => {
                        let mut o = vec![0];
                        let host = s.dest_host.clone();
                        let port = s.dest_port;
                        let fid = flow_id_of(&s);
                        let sid = ep.add_stream(s);
                        o.push(sid as u64);
                        o.push(u64::from(port));
                        put_lp(&mut o, &host);
                        o.push(fid);
                        o
                    }
                    Err(er) => [vec![2], err_code(&er)].concat(),
                }
            }
        }
    }

    fn poll_bind(&mut self, e: usize, k: usize) -> Vec<u64> {
        let ep = &mut self.eps[e];
        let w = ep.waker(K_BIND, k);
        let Some(Some(fut)) = ep.binds.get_mut(k) else { return vec![3] };
        let mut cx = Context::from_waker(&w);
        match fut.as_mut().poll(&mut cx) {
            Poll::Pending => vec![1],
            Poll::Ready(r) => {
                ep.binds[k] = None;
                match r {
                    Ok(b) => vec![0, u64::from(b)],
                    Err(er) => [vec![2], err_code(&er)].concat(),
                }
            }
        }
    }
}

fn io_code(e: &std::io::Error) -> u64 {
    match e.kind() {
        std::io::ErrorKind::BrokenPipe => 1,
        std::io::ErrorKind::ConnectionReset => 7,
        _ => 99,
    }
}

/// length-prefixed byte string at position i of a
pub fn lp_at(a: &[u64], i: usize) -> Option<Vec<u8>> {
    let n = *a.get(i)? as usize;
    if i + 1 + n > a.len() {
        return None;
    }
    Some(a[i + 1..i + 1 + n].iter().map(|&x| x as u8).collect())
}
