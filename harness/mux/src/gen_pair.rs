//! Script generation for the pair world.  The generator runs the implementation as it
//! goes (so it can pick mostly-enabled labels); the emitted case line replays exactly.
use crate::pair::{Cfg, World};
use crate::util::*;

fn g_cfg(r: &mut Rng, mode: &str) -> (Cfg, Vec<u64>) {
    // mostly tiny windows (so that scripts of a few dozen labels fill them); now and then one beyond 8 and 16 bits
    let rwnd = if r.chance(1, 12) { r.pick(&[257u32, 258, 65_537, 65_538, 300]) } else { r.pick(&[1u32, 2, 2, 3, 3, 4, 8]) };
    let threshold = r.pick(&[1u32, 1, 2, 3, rwnd, rwnd + 1, 2 * rwnd, rwnd.saturating_sub(1).max(1)]);
    let accept_q = r.pick(&[1usize, 1, 2, 4]);
    let dgram_q = r.pick(&[1usize, 2, 3]);
    let bind_q = if mode.contains("bind") { r.pick(&[0usize, 1, 1, 2, 2]) } else { r.pick(&[0usize, 1, 2]) };
    let retries = r.pick(&[1usize, 2, 3]);
    // rng script: small ids so that collisions (with live flows, with the peer's choice, zero) happen
    let n = if mode.contains("collide") { 12 } else { r.below(6) as usize };
    let mut rng: Vec<u32> = (0..n).map(|_| r.pick(&[0u32, 1, 1, 2, 2, 3, 5, 7])).collect();
    if mode.contains("reuse") {
        // the same id drawn again and again: ids are reused right after they were released
        let x = r.pick(&[1u32, 2, 3]);
        for v in rng.iter_mut().take(4) {
            *v = x;
        }
    }
    let mut enc = vec![u64::from(rwnd), u64::from(threshold), accept_q as u64, dgram_q as u64, bind_q as u64, retries as u64, rng.len() as u64];
    enc.extend(rng.iter().map(|&x| u64::from(x)));
    (Cfg { rwnd, threshold, accept_q, dgram_q, bind_q, retries, rng }, enc)
}

fn g_data(r: &mut Rng, tag: u8) -> Vec<u8> {
    let n = r.pick(&[0usize, 1, 1, 2, 3, 5]);
    (0..n).map(|i| tag.wrapping_mul(16).wrapping_add(i as u8).wrapping_add((r.below(4) as u8) << 6)).collect()
}

fn lp(v: &mut Vec<u64>, b: &[u8]) {
    v.push(b.len() as u64);
    v.extend(b.iter().map(|&x| u64::from(x)));
}

pub fn one_script(r: &mut Rng, nlabels: usize, mode: &str, big_left: &mut u32) -> (Vec<u64>, Vec<u64>) {
    let (ca, ea) = g_cfg(r, mode);
    let (cb, eb) = g_cfg(r, mode);
    let bind_enabled = [ca.bind_q > 0, cb.bind_q > 0];
    let mut case = vec![30u64, 1];
    case.extend(ea);
    case.extend(eb);
    let mut w = World::new(&ca, &cb);
    let mut tag = 0u8;
    let inject = mode.contains("inject");
    let wd = if mode.contains("dgram") { 8 } else { 1 };
    let wb = if mode.contains("bind") { 6 } else { 1 };
    for _ in 0..nlabels {
        let mut cands: Vec<(u32, Vec<u64>)> = Vec::new();
        if inject {
            // the harness plays a misbehaving peer of endpoint 0: any opcode on live, stale,
            // unknown and zero flow ids; undecodable messages; control messages
            let mut ids: Vec<u64> = vec![0, 1, 2, 3, 0xdead_beef];
            ids.extend(w.fids(0).iter().copied());
            let id = r.pick(&ids);
            let idb = [(id >> 24) & 255, (id >> 16) & 255, (id >> 8) & 255, id & 255];
            let opc = r.below(7);
            let mut fr: Vec<u64> = vec![0x70 | opc];
            fr.extend(idb);
            match opc {
                0 => {
                    fr.extend([0, 0, 0, r.pick(&[0u64, 1, 2, 200])]);
                    fr.extend([0, 80]);
                    if r.chance(1, 2) {
                        fr.push(97);
                    }
                }
                1 => fr.extend([0, 0, r.pick(&[0u64, 0, 255]), r.pick(&[0u64, 1, 2, 255])]),
                2 | 3 => {}
                4 => {
                    let n = r.pick(&[0usize, 1, 1, 3]);
                    for i in 0..n {
                        fr.push(200 + i as u64);
                    }
                }
                5 => {
                    fr.extend([r.pick(&[1u64, 3, 1, 2]), 0, 22]);
                }
                _ => {
                    fr.extend([r.pick(&[0u64, 1, 1, 9]), 0, 53, 104]);
                    let n = r.below(4);
                    for i in 0..n {
                        fr.push(i);
                    }
                }
            }
            let mut l = vec![27, 0, 0];
            l.push(fr.len() as u64);
            l.extend(fr);
            cands.push((5, l));
            if r.chance(1, 25) {
                let n = r.below(5);
                let mut l = vec![27, 0, 0, n];
                for _ in 0..n {
                    l.push(r.pick(&[0u64, 0x70, 0x71, 0x79, 0x80, 0xff, 1]));
                }
                cands.push((1, l));
            }
            cands.push((1, vec![27, 0, r.pick(&[1u64, 2])]));
            if r.chance(1, 30) {
                cands.push((1, vec![27, 0, 3]));
            }
        }
        for d in 0..2 {
            if w.link_len(d) > 0 {
                cands.push((6 + 2 * w.link_len(d).min(4) as u32, vec![18, d as u64]));
            }
            if w.link_len(d) > 1 {
                // a burst: everything in flight arrives before the task runs again
                cands.push((if inject || mode.contains("end") { 4 } else { 2 }, vec![34, d as u64]));
            }
        }
        for e in 0..2usize {
            let eu = e as u64;
            if !w.mux_alive(e) && !r.chance(1, 8) {
                // after the handle is gone only stream handles and deliveries matter
            } else {
                let pending: Vec<usize> = (0..w.n_opens(e)).filter(|&k| w.open_pending(e, k)).collect();
                if pending.len() < 2 {
                    let mut l = vec![10, eu, r.pick(&[0u64, 80, 65535])];
                    let host: Vec<u8> = (0..r.pick(&[0usize, 1, 3, 3, 1, 255, 300])).map(|_| r.pick(b"abc.")).collect();
                    lp(&mut l, &host);
                    cands.push((if mode.contains("reuse") { 8 } else { 3 }, l));
                }
                for k in pending {
                    cands.push((3, vec![11, eu, k as u64]));
                }
                cands.push((3, vec![12, eu]));
                {
                    let mut l = vec![19, eu, r.pick(&[0u64, 1, 7, 0xffff_ffff]), r.pick(&[0u64, 53])];
                    let hl = r.pick(&[0usize, 1, 2, 255, 256]);
                    let host: Vec<u8> = (0..hl).map(|i| b'a' + (i % 26) as u8).collect();
                    lp(&mut l, &host);
                    let data = if r.chance(1, 80) && *big_left > 0 { *big_left -= 1; g_big(r, 9) } else { g_data(r, 9) };
                    lp(&mut l, &data);
                    cands.push((wd, l));
                }
                cands.push((wd, vec![20, eu]));
                let bpending: Vec<usize> = (0..w.n_binds(e)).filter(|&k| w.bind_pending(e, k)).collect();
                if bpending.len() < 2 {
                    let mut l = vec![21, eu, r.pick(&[1u64, 3]), r.pick(&[0u64, 8080])];
                    let host: Vec<u8> = (0..r.pick(&[0usize, 2])).map(|_| r.pick(b"xy")).collect();
                    lp(&mut l, &host);
                    cands.push((wb * if bind_enabled[1 - e] { 2 } else { 1 }, l));
                }
                for k in bpending {
                    cands.push((2 * wb, vec![22, eu, k as u64]));
                }
                cands.push((wb, vec![23, eu]));
                for k in 0..w.n_bindreqs(e) {
                    if w.bindreq_alive(e, k) {
                        cands.push((2 * wb, vec![24, eu, k as u64, r.below(2)]));
                        cands.push((wb, vec![25, eu, k as u64]));
                    }
                }
                if w.mux_alive(e) && mode.contains("drop") {
                    cands.push((1, vec![26, eu]));
                }
            }
            for sid in 0..w.n_streams(e) {
                if !w.stream_alive(e, sid) {
                    continue;
                }
                let su = sid as u64;
                tag = tag.wrapping_add(1);
                let mut l = vec![13, eu, su];
                let d = g_data(r, tag);
                lp(&mut l, &d);
                cands.push((4, l));
                let mut l = vec![14, eu, su];
                let n = r.below(4);
                l.push(n);
                for _ in 0..n {
                    tag = tag.wrapping_add(1);
                    let d = g_data(r, tag);
                    lp(&mut l, &d);
                }
                cands.push((1, l));
                cands.push((5, vec![15, eu, su, r.pick(&[1u64, 2, 8, 0])]));
                let wc = if mode.contains("reuse") { 4 } else { 1 };
                cands.push((wc, vec![16, eu, su]));
                cands.push((wc, vec![17, eu, su]));
                if w.link_len(1 - e) > 0 {
                    cands.push((1, vec![33, eu, su]));
                }
            }
            if mode.contains("end") {
                cands.push((1, vec![28, eu, r.below(3)]));
            }
            if mode.contains("permits") {
                cands.push((2, vec![29, eu, r.pick(&[0u64, 0, 1, 2, 999_999, 999_999])]));
            }
        }
        if cands.is_empty() {
            break;
        }
        let total: u32 = cands.iter().map(|c| c.0).sum();
        let mut pick = r.below(u64::from(total)) as u32;
        let mut chosen = cands[0].1.clone();
        for (wt, l) in cands {
            if pick < wt {
                chosen = l;
                break;
            }
            pick -= wt;
        }
        {
            let mut cur = crate::CURRENT.lock().unwrap();
            *cur = case.clone();
            cur.push(chosen.len() as u64);
            cur.extend(&chosen);
        }
        crate::PROGRESS.fetch_add(1, std::sync::atomic::Ordering::SeqCst);
        if !w.label(&chosen) {
            break;
        }
        case.push(chosen.len() as u64);
        case.extend(chosen);
    }
    (case, w.finish())
}

/// one established stream, then only reads / writes / shutdowns on it and deliveries
/// payloads of many sizes (one byte to beyond 64 KiB), so that anything size-dependent in the write / vectored-write /
/// framing / read path is exercised
fn g_big(r: &mut Rng, tag: u8) -> Vec<u8> {
    let n = r.pick(&[0usize, 1, 300, 5000, 40_000, 70_000, 66_000, 30_000]);
    (0..n).map(|i| (i as u32).wrapping_mul(7).wrapping_add(u32::from(tag)) as u8).collect()
}

pub fn single_script(r: &mut Rng, nlabels: usize, big: bool) -> (Vec<u64>, Vec<u64>) {
    let (ca, ea) = g_cfg(r, "single");
    let (cb, eb) = g_cfg(r, "single");
    let mut case = vec![30u64, 1];
    case.extend(ea);
    case.extend(eb);
    let mut w = World::new(&ca, &cb);
    let prologue: Vec<Vec<u64>> = vec![vec![10, 0, 80, 1, 104], vec![18, 0], vec![18, 1], vec![11, 0, 0], vec![12, 1]];
    for l in prologue {
        w.label(&l);
        case.push(l.len() as u64);
        case.extend(l);
    }
    let mut tag = 0u8;
    for _ in 0..nlabels {
        let mut cands: Vec<(u32, Vec<u64>)> = Vec::new();
        for d in 0..2 {
            if w.link_len(d) > 0 {
                cands.push((5 + 2 * w.link_len(d).min(4) as u32, vec![18, d as u64]));
            }
        }
        for e in 0..2u64 {
            tag = tag.wrapping_add(1);
            let mut l = vec![13, e, 0];
            let d = if big { g_big(r, tag) } else { g_data(r, tag) };
            lp(&mut l, &d);
            cands.push((6, l));
            let mut l = vec![14, e, 0];
            let n = r.below(4);
            l.push(n);
            for _ in 0..n {
                tag = tag.wrapping_add(1);
                let d = if big { g_big(r, tag) } else { g_data(r, tag) };
                lp(&mut l, &d);
            }
            cands.push((2, l));
            cands.push((7, vec![15, e, 0, if big { r.pick(&[1u64, 1000, 100_000, 200_000, 0]) } else { r.pick(&[1u64, 2, 8, 8, 0]) }]));
            cands.push((1, vec![16, e, 0]));
        }
        let total: u32 = cands.iter().map(|c| c.0).sum();
        let mut pick = r.below(u64::from(total)) as u32;
        let mut chosen = cands[0].1.clone();
        for (wt, l) in cands {
            if pick < wt {
                chosen = l;
                break;
            }
            pick -= wt;
        }
        w.label(&chosen);
        case.push(chosen.len() as u64);
        case.extend(chosen);
    }
    (case, w.finish())
}

/// one established stream bridged to a scripted local side at endpoint A (and sometimes at
/// B too); the peer is a plain application or another bridge
pub fn bridge_script(r: &mut Rng, nlabels: usize, big: bool) -> (Vec<u64>, Vec<u64>) {
    let (ca, ea) = g_cfg(r, "single");
    let (cb, eb) = g_cfg(r, "single");
    let mut case = vec![30u64, 1];
    case.extend(ea);
    case.extend(eb);
    let mut w = World::new(&ca, &cb);
    let both = r.chance(1, 4);
    let mut prologue: Vec<Vec<u64>> =
        vec![vec![10, 0, 80, 1, 104], vec![18, 0], vec![18, 1], vec![11, 0, 0], vec![12, 1], vec![30, 0, 0]];
    if both {
        prologue.push(vec![30, 1, 0]);
    }
    for l in prologue {
        w.label(&l);
        case.push(l.len() as u64);
        case.extend(l);
    }
    let nb = if both { 2 } else { 1 };
    let mut tag = 0u8;
    for _ in 0..nlabels {
        let mut cands: Vec<(u32, Vec<u64>)> = Vec::new();
        for d in 0..2 {
            if w.link_len(d) > 0 {
                cands.push((5 + 2 * w.link_len(d).min(4) as u32, vec![18, d as u64]));
            }
        }
        for k in 0..nb as u64 {
            if w.bridge_live(k as usize) {
                cands.push((10, vec![31, k]));
            }
            tag = tag.wrapping_add(1);
            let mut l = vec![32, k, 0];
            let d = if big { g_big(r, tag) } else { g_data(r, tag) };
            lp(&mut l, &d);
            cands.push((5, l));
            cands.push((1, vec![32, k, 1]));
            cands.push((1, vec![32, k, 2]));
            cands.push((2, vec![32, k, 3, r.pick(&[1u64, 1, 2, 3])]));
            cands.push((2, vec![32, k, 4]));
            cands.push((1, vec![32, k, 5]));
            cands.push((1, vec![32, k, 6]));
            cands.push((1, vec![32, k, 7]));
        }
        if !both && w.stream_alive(1, 0) {
            tag = tag.wrapping_add(1);
            let mut l = vec![13, 1, 0];
            let d = if big { g_big(r, tag) } else { g_data(r, tag) };
            lp(&mut l, &d);
            cands.push((6, l));
            cands.push((6, vec![15, 1, 0, if big { r.pick(&[1u64, 1000, 100_000, 200_000]) } else { r.pick(&[1u64, 2, 8, 8]) }]));
            cands.push((1, vec![16, 1, 0]));
            cands.push((1, vec![17, 1, 0]));
            if w.link_len(0) > 0 {
                cands.push((1, vec![33, 1, 0]));
            }
        }
        if r.chance(1, 60) {
            cands.push((1, vec![28, r.below(2), r.below(3)]));
        }
        let total: u32 = cands.iter().map(|c| c.0).sum();
        let mut pick = r.below(u64::from(total)) as u32;
        let mut chosen = cands[0].1.clone();
        for (wt, l) in cands {
            if pick < wt {
                chosen = l;
                break;
            }
            pick -= wt;
        }
        {
            let mut cur = crate::CURRENT.lock().unwrap();
            *cur = case.clone();
            cur.push(chosen.len() as u64);
            cur.extend(&chosen);
        }
        crate::PROGRESS.fetch_add(1, std::sync::atomic::Ordering::SeqCst);
        w.label(&chosen);
        case.push(chosen.len() as u64);
        case.extend(chosen);
    }
    (case, w.finish())
}

pub fn generate(a: &Args, out: &mut Out) {
    let mut r = Rng(a.seed ^ 0x30);
    if a.mode.contains("bridge") {
        for k in 0..a.n {
            // one script in forty-eight (a bounded number per run) feeds the bridge chunks of up to 70 kB
            let big = (k % 48 == 0 || k < 4) && k < 48 * 24;
            let (case, res) = bridge_script(&mut r, if big { 30 } else if k % 4 == 0 { 100 } else { 40 }, big);
            out.emit(&case, &res);
        }
        return;
    }
    if a.mode.contains("single") {
        for k in 0..a.n {
            // one script in sixty-four (and the first) moves big payloads
            let big = (k % 64 == 0 || k < 2) && k < 64 * 24;
            let (case, res) = single_script(&mut r, if big { 24 } else if k % 4 == 0 { 120 } else { 40 }, big);
            out.emit(&case, &res);
        }
        return;
    }
    // big datagram payloads: a bounded number per run (they make the traces long)
    let mut big_left = 40u32;
    for k in 0..a.n {
        let nl = if k % 5 == 0 { 80 } else { 30 };
        let (case, res) = one_script(&mut r, nl, &a.mode, &mut big_left);
        out.emit(&case, &res);
    }
}
