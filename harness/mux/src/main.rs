mod gen_pair;
mod pair;
mod util;
mod ws;
use util::*;

use std::sync::Mutex;
use std::sync::atomic::{AtomicU64, Ordering};
/// the case executed so far and a progress counter, for the hang watchdog
pub static CURRENT: Mutex<Vec<u64>> = Mutex::new(Vec::new());
pub static PROGRESS: AtomicU64 = AtomicU64::new(0);

/// A wedged endpoint (e.g. a self-deadlock inside the connection task) must not wedge the
/// check: report the labels executed so far with the HANG marker and stop.
fn start_watchdog() {
    std::thread::spawn(|| {
        let mut last = PROGRESS.load(Ordering::SeqCst);
        let mut idle = 0;
        loop {
            std::thread::sleep(std::time::Duration::from_millis(500));
            let now = PROGRESS.load(Ordering::SeqCst);
            if now == last {
                idle += 1;
            } else {
                idle = 0;
                last = now;
            }
            if idle >= 16 {
                let case = CURRENT.lock().map(|c| c.clone()).unwrap_or_default();
                let line: Vec<String> = case.iter().map(|x| x.to_string()).collect();
                println!("{}|2000004", line.join(" "));
                std::process::exit(0);
            }
        }
    });
}

/// case = 30 1 cfgA cfgB labels..; cfg = rwnd threshold accept_q dgram_q bind_q retries lp(rng);
/// label = len op args..
pub fn run_pair_case(c: &[u64]) -> Vec<u64> {
    let mut i = 0;
    let mut cfgs = Vec::new();
    for _ in 0..2 {
        if c.len() < i + 7 {
            return vec![pair::MALFORMED];
        }
        let n = c[i + 6] as usize;
        if c.len() < i + 7 + n {
            return vec![pair::MALFORMED];
        }
        cfgs.push(pair::Cfg {
            rwnd: c[i] as u32,
            threshold: c[i + 1] as u32,
            accept_q: c[i + 2] as usize,
            dgram_q: c[i + 3] as usize,
            bind_q: c[i + 4] as usize,
            retries: c[i + 5] as usize,
            rng: c[i + 7..i + 7 + n].iter().map(|&x| x as u32).collect(),
        });
        i += 7 + n;
    }
    let mut w = pair::World::new(&cfgs[0], &cfgs[1]);
    *CURRENT.lock().unwrap() = [&[30u64, 1][..], &c[..i]].concat();
    while i < c.len() {
        let n = c[i] as usize;
        if n == 0 || i + 1 + n > c.len() {
            return vec![pair::MALFORMED];
        }
        CURRENT.lock().unwrap().extend(&c[i..i + 1 + n]);
        PROGRESS.fetch_add(1, Ordering::SeqCst);
        if !w.label(&c[i + 1..i + 1 + n]) {
            return vec![pair::MALFORMED];
        }
        i += 1 + n;
    }
    w.finish()
}

fn main() {
    let args: Vec<String> = std::env::args().skip(1).collect();
    let which = args.first().cloned().unwrap_or_default();
    let a = parse_args(&args[1.min(args.len())..]);
    quiet_panics();
    start_watchdog();
    let mut out = Out::new();
    if let Some(path) = &a.replay {
        for c in read_cases(path) {
            let r = match (c.first(), c.get(1)) {
                (Some(30), Some(1)) => run_pair_case(&c[2..]),
                _ => vec![999_999],
            };
            out.emit(&c, &r);
        }
        out.finish();
        return;
    }
    match which.as_str() {
        "pair" => gen_pair::generate(&a, &mut out),
        _ => {
            eprintln!("usage: vh-mux <pair> [--seed S] [--n N] [--mode M] [--replay FILE]");
            std::process::exit(2);
        }
    }
    out.finish();
}
