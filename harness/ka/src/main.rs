//! C16 harness: one real endpoint under tokio's paused clock, scripted Pong history.
mod util;
mod ws;
use penguin_mux::config::Options;
use penguin_mux::timing::OptionalDuration;
use penguin_mux::ws::Message;
use penguin_mux::Multiplexor;
use rand::SeedableRng;
use std::future::Future;
use std::sync::{Arc, Mutex};
use std::task::{Context, Poll, Wake, Waker};
use std::time::Duration;
use util::*;
use ws::{FakeWs, WsState};

/// timestamps read from tokio's (paused) clock
#[derive(Clone, Copy)]
struct Ts(tokio::time::Instant);
impl penguin_mux::timing::TimestampProvider for Ts {
    fn now() -> Self {
        Ts(tokio::time::Instant::now())
    }
    fn duration_since(&self, earlier: Self) -> Duration {
        self.0.duration_since(earlier.0)
    }
}

struct Flag(std::sync::atomic::AtomicBool);
impl Wake for Flag {
    fn wake(self: Arc<Self>) {
        self.0.store(true, std::sync::atomic::Ordering::SeqCst);
    }
}

/// case: 16 1 order i_ms t_ms events..   order 0: interval then timeout; 1: timeout then interval
/// event: 0 ms  = advance the clock by ms and run the task;  1 = a Pong arrives;  2 = poll a pending get_datagram;
/// 3 ms = advance the clock by ms, a Pong arrives, and only then the task runs (tick and unread Pong in one poll);
/// 4 = the peer sends a Ping of its own
/// output per event: npings_emitted closed(0/1) done_code(0 none, 1 Ok, 100+e) [dgram result for event 2]
fn run_case(c: &[u64]) -> Vec<u64> {
    if c.len() < 3 {
        return vec![999_999];
    }
    let (order, i_ms, t_ms) = (c[0], c[1], c[2]);
    let rt = tokio::runtime::Builder::new_current_thread().enable_time().start_paused(true).build().unwrap();
    let events = c[3..].to_vec();
    rt.block_on(tokio::task::unconstrained(async move {
        let mut o = Vec::new();
        let i = OptionalDuration::from(Duration::from_millis(i_ms));
        let t = OptionalDuration::from(Duration::from_millis(t_ms));
        let opts = if order == 0 {
            Options::new().keepalive_interval(i).keepalive_timeout(t)
        } else {
            Options::new().keepalive_timeout(t).keepalive_interval(i)
        };
        let ws = Arc::new(Mutex::new(WsState::default()));
        let rng = rand::rngs::SmallRng::seed_from_u64(7);
        let (mux, taskdata) = Multiplexor::new_detailed::<_, Ts>(FakeWs(ws.clone()), opts, rng);
        let mut task: Option<std::pin::Pin<Box<dyn Future<Output = penguin_mux::Result<()>>>>> = Some(Box::pin(taskdata.into_task()));
        let flag = Arc::new(Flag(std::sync::atomic::AtomicBool::new(true)));
        let waker = Waker::from(flag.clone());
        let mut k = 0;
        let mut settle = |task: &mut Option<std::pin::Pin<Box<dyn Future<Output = penguin_mux::Result<()>>>>>, o: &mut Vec<u64>| {
            let mut done = 0u64;
            for _ in 0..32 {
                if !flag.0.swap(false, std::sync::atomic::Ordering::SeqCst) {
                    break;
                }
                if let Some(t) = task.as_mut() {
                    let mut cx = Context::from_waker(&waker);
                    if let Poll::Ready(r) = t.as_mut().poll(&mut cx) {
                        *task = None;
                        done = match r {
                            Ok(()) => 1,
                            Err(penguin_mux::Error::KeepaliveTimeout) => 106,
                            Err(_) => 199,
                        };
                    }
                }
            }
            let mut s = ws.lock().unwrap();
            let pings = s.outbox.iter().filter(|m| matches!(m, Message::Ping)).count() as u64;
            s.outbox.clear();
            let closed = u64::from(s.close_calls > 0);
            s.close_calls = 0;
            o.extend([pings, closed, done]);
        };
        // the first poll of the task (start-up)
        settle(&mut task, &mut o);
        while k < events.len() {
            match events[k] {
                0 => {
                    let ms = events.get(k + 1).copied().unwrap_or(0);
                    k += 2;
                    tokio::time::advance(Duration::from_millis(ms)).await;
                    flag.0.store(true, std::sync::atomic::Ordering::SeqCst);
                    settle(&mut task, &mut o);
                }
                1 => {
                    k += 1;
                    {
                        let mut s = ws.lock().unwrap();
                        s.inbox.push_back(Message::Pong);
                        if let Some(w) = s.rx_waker.take() {
                            w.wake();
                        }
                    }
                    flag.0.store(true, std::sync::atomic::Ordering::SeqCst);
                    settle(&mut task, &mut o);
                }
                4 => {
                    // the peer sends a Ping of its own (it proves nothing about our pings being answered)
                    k += 1;
                    {
                        let mut s = ws.lock().unwrap();
                        s.inbox.push_back(Message::Ping);
                        if let Some(w) = s.rx_waker.take() {
                            w.wake();
                        }
                    }
                    flag.0.store(true, std::sync::atomic::Ordering::SeqCst);
                    settle(&mut task, &mut o);
                }
                3 => {
                    // the clock reaches `ms` later AND a Pong has arrived before the task runs again:
                    // one poll of the task sees both the tick and the unread Pong
                    let ms = events.get(k + 1).copied().unwrap_or(0);
                    k += 2;
                    tokio::time::advance(Duration::from_millis(ms)).await;
                    {
                        let mut s = ws.lock().unwrap();
                        s.inbox.push_back(Message::Pong);
                        if let Some(w) = s.rx_waker.take() {
                            w.wake();
                        }
                    }
                    flag.0.store(true, std::sync::atomic::Ordering::SeqCst);
                    settle(&mut task, &mut o);
                }
                _ => {
                    k += 1;
                    // a pending API call must resolve once the connection has ended
                    let w = Waker::noop();
                    let mut cx = Context::from_waker(w);
                    let mut fut = std::pin::pin!(mux.get_datagram());
                    let r = match fut.as_mut().poll(&mut cx) {
                        Poll::Pending => 1,
                        Poll::Ready(Ok(_)) => 0,
                        Poll::Ready(Err(penguin_mux::Error::Closed)) => 2,
                        Poll::Ready(Err(_)) => 3,
                    };
                    o.push(r);
                }
            }
        }
        drop(mux);
        o
    }))
}

fn g_case(r: &mut Rng) -> Vec<u64> {
    let unit = 100u64;
    let i = r.pick(&[0u64, 1, 1, 2, 3, 5]) * unit;
    let t = r.pick(&[0u64, 1, 2, 3, 5, 7]) * unit;
    let order = if r.chance(1, 6) { 1 } else { 0 };
    let mut c = vec![16, 1, order, i, t];
    let style = r.below(5);
    let n = 6 + r.below(20);
    let mut silent_after = if style == 1 { r.below(n) } else if style == 2 { 0 } else { n + 1 };
    for _ in 0..n {
        // advance: exactly one interval, a fraction, or a late multiple
        let adv = match r.below(8) {
            0 => i / 2 + 1,
            1 => i + r.pick(&[0u64, 1, 4, 6, 50]),
            2 => 2 * i + 30,
            3 => r.pick(&[1u64, 10, 99, 100, 101]),
            _ => i.max(unit),
        };
        c.extend([0, adv]);
        if silent_after > 0 {
            silent_after -= 1;
            match style {
                3 => {
                    // answered late: an extra wait before the pong
                    if r.chance(1, 2) {
                        c.extend([0, r.pick(&[1u64, i / 2 + 1, t.saturating_sub(1), t, t + 1])]);
                    }
                    c.push(1);
                }
                _ if r.chance(1, 4) => {
                    // the answer arrives together with a later tick
                    c.extend([3, r.pick(&[i.max(unit), i / 2 + 1, t, t.saturating_sub(1), i + 1])]);
                }
                4 => {
                    if r.chance(2, 3) {
                        c.push(1);
                    }
                }
                _ => c.push(1),
            }
        }
        if r.chance(1, 5) {
            c.push(2);
        }
        if r.chance(1, 4) {
            // the peer's own keepalive: pings arrive whether or not it answers ours
            c.push(4);
        }
    }
    c.push(2);
    c
}

fn main() {
    let args: Vec<String> = std::env::args().skip(1).collect();
    let a = parse_args(&args[1.min(args.len())..]);
    quiet_panics();
    let mut out = Out::new();
    if let Some(path) = &a.replay {
        for c in read_cases(path) {
            let r = if c.len() > 2 && c[0] == 16 { run_case(&c[2..]) } else { vec![999_999] };
            out.emit(&c, &r);
        }
        out.finish();
        return;
    }
    let mut r = Rng(a.seed ^ 0x16);
    for _ in 0..a.n {
        let c = g_case(&mut r);
        let res = run_case(&c[2..]);
        out.emit(&c, &res);
    }
    out.finish();
}
