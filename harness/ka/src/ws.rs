//! In-memory WebSocket under the harness's control.
use penguin_mux::ws::{Message, WebSocket};
use std::collections::VecDeque;
use std::sync::{Arc, Mutex};
use std::task::{Context, Poll, Waker};

#[derive(Default)]
pub struct WsState {
    /// messages released to the endpoint (poll_next takes from here)
    pub inbox: VecDeque<Message>,
    /// the source ended (after the inbox drains)
    pub rx_eof: bool,
    /// the source fails (after the inbox drains), once
    pub rx_err: bool,
    /// send permits; None = unlimited
    pub permits: Option<usize>,
    /// poll_ready / start_send fail from now on
    pub sink_err: bool,
    pub outbox: Vec<Message>,
    /// poll_close was called
    pub closed: bool,
    pub close_calls: u32,
    pub rx_waker: Option<Waker>,
    pub tx_waker: Option<Waker>,
    /// messages handed to start_send after close (must not happen)
    pub sent_after_close: u32,
}

#[derive(Clone)]
pub struct FakeWs(pub Arc<Mutex<WsState>>);

#[derive(Debug)]
pub struct InjectedError(pub &'static str);
impl std::fmt::Display for InjectedError {
    fn fmt(&self, f: &mut std::fmt::Formatter<'_>) -> std::fmt::Result {
        write!(f, "injected {}", self.0)
    }
}
impl std::error::Error for InjectedError {}

fn werr(s: &'static str) -> penguin_mux::Error {
    penguin_mux::Error::WebSocket(Box::new(InjectedError(s)))
}

impl WebSocket for FakeWs {
    fn poll_ready_unpin(&mut self, cx: &mut Context<'_>) -> Poll<Result<(), penguin_mux::Error>> {
        let mut s = self.0.lock().unwrap();
        if s.sink_err {
            return Poll::Ready(Err(werr("sink")));
        }
        match s.permits {
            None => Poll::Ready(Ok(())),
            Some(0) => {
                s.tx_waker = Some(cx.waker().clone());
                Poll::Pending
            }
            Some(_) => Poll::Ready(Ok(())),
        }
    }
    fn start_send_unpin(&mut self, item: Message) -> Result<(), penguin_mux::Error> {
        let mut s = self.0.lock().unwrap();
        if s.sink_err {
            return Err(werr("sink"));
        }
        if s.closed {
            s.sent_after_close += 1;
        }
        if let Some(p) = s.permits.as_mut() {
            *p = p.saturating_sub(1);
        }
        s.outbox.push(item);
        Ok(())
    }
    fn poll_flush_unpin(&mut self, _cx: &mut Context<'_>) -> Poll<Result<(), penguin_mux::Error>> {
        let s = self.0.lock().unwrap();
        if s.sink_err { Poll::Ready(Err(werr("sink"))) } else { Poll::Ready(Ok(())) }
    }
    fn poll_close_unpin(&mut self, _cx: &mut Context<'_>) -> Poll<Result<(), penguin_mux::Error>> {
        let mut s = self.0.lock().unwrap();
        s.closed = true;
        s.close_calls += 1;
        if s.sink_err { Poll::Ready(Err(werr("sink"))) } else { Poll::Ready(Ok(())) }
    }
    fn poll_next_unpin(&mut self, cx: &mut Context<'_>) -> Poll<Option<Result<Message, penguin_mux::Error>>> {
        let mut s = self.0.lock().unwrap();
        if let Some(m) = s.inbox.pop_front() {
            return Poll::Ready(Some(Ok(m)));
        }
        if s.rx_err {
            s.rx_err = false;
            s.rx_eof = true;
            return Poll::Ready(Some(Err(werr("source"))));
        }
        if s.rx_eof {
            return Poll::Ready(None);
        }
        s.rx_waker = Some(cx.waker().clone());
        Poll::Pending
    }
}
