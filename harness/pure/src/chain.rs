//! C20 harness: LongChain / CowBytes through the public API.
use crate::util::*;
use bytes::{Buf, Bytes};
use cow_bytes::{CowBytes, LongChain};
use std::hash::{Hash, Hasher};

const MALFORMED: u64 = 999_999;

#[derive(Clone)]
enum Op {
    Push(u64, usize),
    Insert(u64, u64, usize),
    Pop,
    Remove(u64),
    SplitTo(u64),
    SplitOff(u64),
    Truncate(u64),
    Advance(u64),
    Clear,
}

fn parse_ops(c: &[u64]) -> Option<(Vec<Op>, Vec<Vec<u8>>)> {
    let mut ops = Vec::new();
    let mut bufs = Vec::new();
    let mut i = 0;
    let lp = |i: &mut usize, bufs: &mut Vec<Vec<u8>>| -> Option<usize> {
        let n = *c.get(*i)? as usize;
        *i += 1;
        if *i + n > c.len() {
            return None;
        }
        bufs.push(c[*i..*i + n].iter().map(|&x| x as u8).collect());
        *i += n;
        Some(bufs.len() - 1)
    };
    while i < c.len() {
        let k = c[i];
        i += 1;
        let mut arg = |i: &mut usize| -> Option<u64> {
            let v = *c.get(*i)?;
            *i += 1;
            Some(v)
        };
        ops.push(match k {
            0 => {
                let v = arg(&mut i)?;
                Op::Push(v, lp(&mut i, &mut bufs)?)
            }
            1 => {
                let v = arg(&mut i)?;
                let idx = arg(&mut i)?;
                Op::Insert(v, idx, lp(&mut i, &mut bufs)?)
            }
            2 => Op::Pop,
            3 => Op::Remove(arg(&mut i)?),
            4 => Op::SplitTo(arg(&mut i)?),
            5 => Op::SplitOff(arg(&mut i)?),
            6 => Op::Truncate(arg(&mut i)?),
            7 => Op::Advance(arg(&mut i)?),
            8 => Op::Clear,
            _ => return None,
        });
    }
    Some((ops, bufs))
}

fn put_chain(o: &mut Vec<u64>, ch: &LongChain<'_>) {
    // len() runs the debug invariant check; a panic there is an observation
    match catch(|| (ch.len(), ch.remaining(), ch.is_empty())) {
        Some((l, r, e)) => {
            o.push(l as u64);
            if r != l || e != (l == 0) {
                o.push(779);
            }
        }
        None => {
            o.push(2_000_002);
            return;
        }
    }
    let chunks: &[CowBytes<'_>] = ch.as_ref();
    o.push(chunks.len() as u64);
    for c in chunks {
        put_lp(o, c.as_ref());
    }
}

fn mk<'a>(v: u64, b: &'a [u8]) -> CowBytes<'a> {
    if v == 0 { CowBytes::Temporary(b) } else { CowBytes::Static(Bytes::copy_from_slice(b)) }
}

fn run_ops(c: &[u64]) -> Vec<u64> {
    let Some((ops, bufs)) = parse_ops(c) else { return vec![MALFORMED] };
    let mut ch: LongChain<'_> = LongChain::new();
    let mut o = Vec::new();
    for op in ops {
        let chr = &mut ch;
        let bufs = &bufs;
        let r: Option<Vec<u64>> = catch(move || match op {
            Op::Push(v, b) => {
                chr.push(mk(v, &bufs[b]));
                vec![0, 0]
            }
            Op::Insert(v, i, b) => {
                chr.insert(i as usize, mk(v, &bufs[b]));
                vec![0, 0]
            }
            Op::Pop => match chr.pop() {
                None => vec![0, 1],
                Some(x) => {
                    let mut o = vec![0, 2];
                    put_lp(&mut o, x.as_ref());
                    o
                }
            },
            Op::Remove(i) => {
                let x = chr.remove(i as usize);
                let mut o = vec![0, 2];
                put_lp(&mut o, x.as_ref());
                o
            }
            Op::SplitTo(n) => {
                let d = chr.split_to(n as usize);
                let mut o = vec![0, 3];
                put_chain(&mut o, &d);
                o
            }
            Op::SplitOff(n) => {
                let d = chr.split_off(n as usize);
                let mut o = vec![0, 3];
                put_chain(&mut o, &d);
                o
            }
            Op::Truncate(n) => {
                chr.truncate(n as usize);
                vec![0, 0]
            }
            Op::Advance(n) => {
                chr.advance(n as usize);
                vec![0, 0]
            }
            Op::Clear => {
                chr.clear();
                vec![0, 0]
            }
        });
        match r {
            Some(v) => o.extend(v),
            None => o.push(2),
        }
        put_chain(&mut o, &ch);
        match catch(|| ch.chunk().to_vec()) {
            Some(first) => put_lp(&mut o, &first),
            None => o.push(2_000_002),
        }
    }
    o
}

fn h<T: Hash + ?Sized>(t: &T) -> u64 {
    let mut s = std::collections::hash_map::DefaultHasher::new();
    t.hash(&mut s);
    s.finish()
}

/// every accessor / comparison / hash must give the same answer on both variants
fn variants_indistinguishable(b: &[u8], other: &[u8]) -> bool {
    let t = CowBytes::Temporary(b);
    let s = CowBytes::Static(Bytes::copy_from_slice(b));
    let ot = CowBytes::Temporary(other);
    let os = CowBytes::Static(Bytes::copy_from_slice(other));
    let ob = Bytes::copy_from_slice(other);
    let ov = other.to_vec();
    let borrow = |c: &CowBytes<'_>| -> Vec<u8> { <CowBytes<'_> as std::borrow::Borrow<[u8]>>::borrow(c).to_vec() };
    t.len() == s.len()
        && t.len() == b.len()
        && t.is_empty() == s.is_empty()
        && t.as_ref() == s.as_ref()
        && t.as_ref() == b
        && &*t == &*s
        && t.chunk() == s.chunk()
        && t.remaining() == s.remaining()
        && borrow(&t) == borrow(&s)
        && h(&t) == h(&s)
        && h(&t) == h(b)
        && format!("{t:x}") == format!("{s:x}")
        && format!("{t:X}") == format!("{s:X}")
        && t.clone().into_static() == s.clone().into_static()
        && (t == s)
        && (s == t)
        && (t == ot) == (s == os)
        && (t == os) == (s == ot)
        && (t == ot) == (b == other)
        && t.partial_cmp(&ot) == s.partial_cmp(&os)
        && t.partial_cmp(&os) == s.partial_cmp(&ot)
        && t.partial_cmp(&ot) == b.partial_cmp(other)
        && (t == *other) == (s == *other)
        && t.partial_cmp(other) == s.partial_cmp(other)
        && (t == ob) == (s == ob)
        && t.partial_cmp(&ob) == s.partial_cmp(&ob)
        && (t == ov) == (s == ov)
        && (t == ov) == (b == other)
}

fn run_cow(c: &[u64]) -> Vec<u64> {
    // v, lp bytes, k, n
    let Some(&v) = c.first() else { return vec![MALFORMED] };
    let Some(&l) = c.get(1) else { return vec![MALFORMED] };
    let l = l as usize;
    if c.len() != 2 + l + 2 {
        return vec![MALFORMED];
    }
    let b: Vec<u8> = c[2..2 + l].iter().map(|&x| x as u8).collect();
    let (k, n) = (c[2 + l], c[3 + l] as usize);
    let ind = variants_indistinguishable(&b, &b[..b.len().min(n)]);
    let r = catch(|| {
        let mut x = mk(v, &b);
        let piece: Vec<u8> = match k {
            0 => x.split_to(n).as_ref().to_vec(),
            1 => x.split_off(n).as_ref().to_vec(),
            2 => {
                x.truncate(n);
                vec![]
            }
            _ => {
                x.advance(n);
                vec![]
            }
        };
        let mut o = vec![0];
        put_lp(&mut o, x.as_ref());
        put_lp(&mut o, &piece);
        if x.len() != x.as_ref().len() || x.remaining() != x.len() || x.chunk() != x.as_ref() {
            o.push(779);
        }
        o
    });
    let mut o = r.unwrap_or_else(|| vec![2]);
    o.push(u64::from(ind));
    o
}

fn run_cmp(c: &[u64]) -> Vec<u64> {
    let mut i = 0;
    let mut lp = || -> Option<Vec<u8>> {
        let n = *c.get(i)? as usize;
        i += 1;
        if i + n > c.len() {
            return None;
        }
        let v = c[i..i + n].iter().map(|&x| x as u8).collect();
        i += n;
        Some(v)
    };
    let (Some(a), Some(b)) = (lp(), lp()) else { return vec![MALFORMED] };
    let ca = CowBytes::Temporary(&a);
    let cb = CowBytes::Static(Bytes::copy_from_slice(&b));
    let ord = match ca.partial_cmp(&cb) {
        Some(std::cmp::Ordering::Less) => 0,
        Some(std::cmp::Ordering::Equal) => 1,
        Some(std::cmp::Ordering::Greater) => 2,
        None => 3,
    };
    let consistent = (ca == cb) == (ord == 1) && variants_indistinguishable(&a, &b) && variants_indistinguishable(&b, &a);
    vec![ord, u64::from(consistent)]
}

pub fn run_case(c: &[u64]) -> Vec<u64> {
    match c.first() {
        Some(1) => run_ops(&c[1..]),
        Some(2) => run_cow(&c[1..]),
        Some(3) => run_cmp(&c[1..]),
        _ => vec![MALFORMED],
    }
}

// ---------------------------------------------------------------- generation

fn g_chunk(r: &mut Rng, c: &mut Vec<u64>, allow_empty: bool) -> usize {
    let mut n = r.pick(&[0usize, 1, 1, 2, 2, 3, 3, 4, 5]);
    if n == 0 && !allow_empty {
        n = 1;
    }
    c.push(n as u64);
    for _ in 0..n {
        c.push(r.below(256));
    }
    n
}

/// arguments at, inside and one past every boundary of the current shape
fn g_byte_arg(r: &mut Rng, sizes: &[usize]) -> u64 {
    let total: usize = sizes.iter().sum();
    let mut cands = vec![0usize, total, total + 1, total + 2, total.saturating_sub(1)];
    let mut acc = 0;
    for s in sizes {
        cands.push(acc);
        if *s > 1 {
            cands.push(acc + 1);
            cands.push(acc + s - 1);
        }
        acc += s;
    }
    if r.chance(1, 30) {
        return r.pick(&[(1u64 << 62) - 1, (1u64 << 62) - 2, 1 << 32, 1 << 20]);
    }
    r.pick(&cands) as u64
}

/// track an approximate shape (sizes of chunks) to aim arguments at boundaries; exact
/// tracking is not needed, the model decides what happens
fn g_ops(r: &mut Rng, nops: usize, c: &mut Vec<u64>) {
    let mut sizes: Vec<usize> = Vec::new();
    for _ in 0..nops {
        let total: usize = sizes.iter().sum();
        let k = r.pick(&[0u64, 0, 0, 1, 1, 2, 3, 4, 5, 6, 6, 7, 7, 8, 0, 1, 4, 5, 6, 7]);
        if k == 8 && !r.chance(1, 4) {
            continue;
        }
        c.push(k);
        match k {
            0 => {
                c.push(r.below(2));
                let e = r.chance(1, 8);
                let n = g_chunk(r, c, e);
                if n > 0 {
                    sizes.push(n);
                }
            }
            1 => {
                c.push(r.below(2));
                let idx = r.pick(&[0usize, sizes.len(), sizes.len() + 1, sizes.len() / 2, sizes.len().saturating_sub(1)]);
                c.push(idx as u64);
                let e = r.chance(1, 8);
                let n = g_chunk(r, c, e);
                if n > 0 && idx <= sizes.len() {
                    sizes.insert(idx, n);
                }
            }
            2 => {
                sizes.pop();
            }
            3 => {
                let idx = r.pick(&[0usize, sizes.len(), sizes.len().saturating_sub(1), sizes.len() / 2, sizes.len() + 1]);
                c.push(idx as u64);
                if idx < sizes.len() {
                    sizes.remove(idx);
                }
            }
            4 | 5 | 6 | 7 => {
                let n = g_byte_arg(r, &sizes) as usize;
                c.push(n as u64);
                if n <= total {
                    // recompute shape after split/truncate/advance
                    let keep_front = k == 5 || k == 6; // split_off / truncate keep the front
                    let mut acc = 0;
                    let mut ns = Vec::new();
                    for s in &sizes {
                        let (lo, hi) = (acc, acc + s);
                        acc = hi;
                        let (a, b) = if keep_front { (0, n) } else { (n, total) };
                        let l = lo.max(a);
                        let h2 = hi.min(b);
                        if h2 > l {
                            ns.push(h2 - l);
                        }
                    }
                    sizes = ns;
                }
            }
            _ => sizes.clear(),
        }
    }
}

/// bounded-exhaustive: all sequences of length <= depth over a small op alphabet
fn exhaustive(out: &mut Out, depth: usize) {
    // alphabet: push sizes {0,1,2,3}, insert at {0,1,2} size {0,1,2}, pop, remove {0,1,2},
    // split_to/split_off/truncate/advance with n in 0..=4, clear
    let mut alpha: Vec<Vec<u64>> = Vec::new();
    for n in 0..=3u64 {
        let mut v = vec![0, n % 2, n];
        v.extend((0..n).map(|i| 10 + i));
        alpha.push(v);
    }
    for idx in 0..=2u64 {
        for n in [0u64, 1, 2] {
            let mut v = vec![1, (idx + n) % 2, idx, n];
            v.extend((0..n).map(|i| 20 + i));
            alpha.push(v);
        }
    }
    alpha.push(vec![2]);
    for i in 0..=2u64 {
        alpha.push(vec![3, i]);
    }
    for k in 4..=7u64 {
        for n in 0..=4u64 {
            alpha.push(vec![k, n]);
        }
    }
    alpha.push(vec![8]);
    let a = alpha.len();
    for d in 1..=depth {
        let total = a.pow(d as u32);
        for mut k in 0..total {
            let mut c = vec![1u64];
            let mut pushes = 0;
            for _ in 0..d {
                let op = &alpha[k % a];
                if op[0] <= 1 {
                    pushes += 1;
                }
                c.extend(op);
                k /= a;
            }
            // sequences that never add data are all alike: keep only depth <= 2 of those
            if pushes == 0 && d > 2 {
                continue;
            }
            let res = run_case(&c);
            out.emit(&[&[20u64][..], &c[..]].concat(), &res);
        }
    }
}

pub fn generate(a: &Args, out: &mut Out) {
    let mut r = Rng(a.seed ^ 0xC20);
    if let Some(d) = a.mode.strip_prefix("exhaustive") {
        exhaustive(out, d.parse().unwrap_or(2));
    }
    for k in 0..a.n {
        let mut c: Vec<u64> = Vec::new();
        match k % 10 {
            0 => {
                c.push(2);
                c.push(r.below(2));
                let n = g_chunk(&mut r, &mut c, true);
                c.push(r.below(4));
                c.push(r.pick(&[0usize, n, n + 1, n / 2, n.saturating_sub(1), n + 7]) as u64);
            }
            1 => {
                c.push(3);
                let n = g_chunk(&mut r, &mut c, true);
                if r.chance(1, 3) {
                    // equal or prefix-related strings
                    let base: Vec<u64> = c[c.len() - n..].to_vec();
                    let m = r.below(n as u64 + 1) as usize;
                    c.push(m as u64);
                    c.extend(&base[..m]);
                } else {
                    g_chunk(&mut r, &mut c, true);
                }
            }
            _ => {
                c.push(1);
                let nops = if r.chance(1, 5) { 1 + r.below(40) as usize } else { 1 + r.below(10) as usize };
                g_ops(&mut r, nops, &mut c);
            }
        }
        let res = run_case(&c);
        out.emit(&[&[20u64][..], &c[..]].concat(), &res);
    }
}
