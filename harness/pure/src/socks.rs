//! C18 harness: penguin_socks::{v4, v5} over an in-memory duplex.
use crate::util::*;
use bytes::Bytes;
use penguin_socks::{Error, v4, v5};
use std::future::Future;
use std::net::{IpAddr, Ipv4Addr, Ipv6Addr, SocketAddr};
use std::pin::Pin;
use std::task::{Context, Poll};
use tokio::io::{AsyncBufRead, AsyncRead, AsyncWrite, ReadBuf};

const MALFORMED: u64 = 999_999;

/// input bytes + captured output; when `open`, running out of input is Pending, else EOF
struct Duplex {
    input: Vec<u8>,
    pos: usize,
    open: bool,
    written: Vec<u8>,
}
impl AsyncRead for Duplex {
    fn poll_read(mut self: Pin<&mut Self>, _cx: &mut Context<'_>, buf: &mut ReadBuf<'_>) -> Poll<std::io::Result<()>> {
        if self.pos >= self.input.len() {
            return if self.open { Poll::Pending } else { Poll::Ready(Ok(())) };
        }
        // hand out at most 3 bytes at a time: partial reads are part of the contract
        let n = buf.remaining().min(self.input.len() - self.pos).min(3);
        let p = self.pos;
        buf.put_slice(&self.input[p..p + n]);
        self.pos += n;
        Poll::Ready(Ok(()))
    }
}
impl AsyncBufRead for Duplex {
    fn poll_fill_buf(self: Pin<&mut Self>, _cx: &mut Context<'_>) -> Poll<std::io::Result<&[u8]>> {
        let this = self.get_mut();
        if this.pos >= this.input.len() {
            return if this.open { Poll::Pending } else { Poll::Ready(Ok(&[])) };
        }
        let n = (this.input.len() - this.pos).min(3);
        Poll::Ready(Ok(&this.input[this.pos..this.pos + n]))
    }
    fn consume(mut self: Pin<&mut Self>, amt: usize) {
        self.pos += amt;
    }
}
impl AsyncWrite for Duplex {
    fn poll_write(mut self: Pin<&mut Self>, _cx: &mut Context<'_>, buf: &[u8]) -> Poll<std::io::Result<usize>> {
        self.written.extend_from_slice(buf);
        Poll::Ready(Ok(buf.len()))
    }
    fn poll_flush(self: Pin<&mut Self>, _cx: &mut Context<'_>) -> Poll<std::io::Result<()>> {
        Poll::Ready(Ok(()))
    }
    fn poll_shutdown(self: Pin<&mut Self>, _cx: &mut Context<'_>) -> Poll<std::io::Result<()>> {
        Poll::Ready(Ok(()))
    }
}

fn poll_once<F: Future>(f: F) -> Option<F::Output> {
    let waker = std::task::Waker::noop();
    let mut cx = Context::from_waker(waker);
    let mut f = std::pin::pin!(f);
    // the in-memory duplex never returns Pending unless it ran out of input
    match f.as_mut().poll(&mut cx) {
        Poll::Ready(v) => Some(v),
        Poll::Pending => None,
    }
}

fn put_v4_text(o: &mut Vec<u64>, raw: &[u8]) {
    match std::str::from_utf8(raw).ok().and_then(|s| s.parse::<Ipv4Addr>().ok()) {
        Some(ip) => {
            o.push(1);
            o.extend(ip.octets().iter().map(|&b| u64::from(b)));
            put_lp(o, raw);
        }
        None => {
            o.push(9);
            put_lp(o, raw);
        }
    }
}
fn put_v6_text(o: &mut Vec<u64>, raw: &[u8]) {
    match std::str::from_utf8(raw).ok().and_then(|s| s.parse::<Ipv6Addr>().ok()) {
        Some(ip) => {
            o.push(4);
            o.extend(ip.octets().iter().map(|&b| u64::from(b)));
        }
        None => {
            o.push(9);
            put_lp(o, raw);
        }
    }
}
fn put_dom(o: &mut Vec<u64>, raw: &[u8]) {
    o.push(3);
    put_lp(o, raw);
}

fn put_err(o: &mut Vec<u64>, e: &Error, written: &[u8]) {
    match e {
        Error::ProcessSocksRequest(_, ioe) if ioe.kind() == std::io::ErrorKind::UnexpectedEof => {
            o.extend([1, 0]);
            if !written.is_empty() {
                o.push(780);
            }
        }
        Error::ProcessSocksRequest(_, _) => o.extend([1, 99]),
        Error::SocksVersion(v) => {
            o.extend([1, 1, u64::from(*v)]);
            put_lp(o, written);
        }
        Error::AddressType(t) => {
            o.extend([1, 2, u64::from(*t)]);
            put_lp(o, written);
        }
        Error::ParseAssociate => o.extend([1, 3, 0]),
        Error::FragmentedUdp => o.extend([1, 4, 0]),
        Error::UnknownAddressType(t) => o.extend([1, 5, u64::from(*t)]),
        Error::InvalidCommand(c) => o.extend([1, 6, u64::from(*c)]),
    }
}

/// which canonical form the returned host bytes should have, from the *input*
#[derive(Clone, Copy)]
enum Form {
    V4,
    V6,
    Dom,
}

fn put_req(o: &mut Vec<u64>, r: Option<Result<(u8, Vec<u8>, u16), Error>>, form: Form, d: &Duplex) {
    match r {
        None => {
            // Pending on an open input
            o.extend([1, 0]);
            if !d.written.is_empty() {
                o.push(780);
            }
        }
        Some(Ok((cmd, host, port))) => {
            o.extend([0, u64::from(cmd), u64::from(port)]);
            match form {
                Form::V4 => put_v4_text(o, &host),
                Form::V6 => put_v6_text(o, &host),
                Form::Dom => put_dom(o, &host),
            }
            o.push(d.pos as u64);
            if !d.written.is_empty() {
                o.push(780);
            }
        }
        Some(Err(e)) => put_err(o, &e, &d.written),
    }
}

fn bytes_of(c: &[u64]) -> Vec<u8> {
    c.iter().map(|&x| x as u8).collect()
}

fn parse_sockaddr(c: &[u64]) -> Option<(IpAddr, &[u64])> {
    match c.first()? {
        1 if c.len() >= 5 => Some((IpAddr::V4(Ipv4Addr::new(c[1] as u8, c[2] as u8, c[3] as u8, c[4] as u8)), &c[5..])),
        4 if c.len() >= 17 => {
            let mut o = [0u8; 16];
            for i in 0..16 {
                o[i] = c[1 + i] as u8;
            }
            Some((IpAddr::V6(Ipv6Addr::from(o)), &c[17..]))
        }
        _ => None,
    }
}

/// an independent RFC 1928 section 7 parser, as a conforming client would write it
fn client_parse(d: &[u8]) -> Option<(IpAddr, u16, Vec<u8>)> {
    if d.len() < 4 || d[2] != 0 {
        return None;
    }
    match d[3] {
        1 if d.len() >= 10 => Some((
            IpAddr::V4(Ipv4Addr::new(d[4], d[5], d[6], d[7])),
            u16::from_be_bytes([d[8], d[9]]),
            d[10..].to_vec(),
        )),
        4 if d.len() >= 22 => {
            let mut o = [0u8; 16];
            o.copy_from_slice(&d[4..20]);
            Some((IpAddr::V6(Ipv6Addr::from(o)), u16::from_be_bytes([d[20], d[21]]), d[22..].to_vec()))
        }
        _ => None,
    }
}

pub fn run_case(c: &[u64]) -> Vec<u64> {
    let mut o = Vec::new();
    match c.first() {
        Some(&k @ (1 | 2 | 3)) if c.len() >= 2 => {
            let open = c[1] == 1;
            let input = bytes_of(&c[2..]);
            let mut d = Duplex { input: input.clone(), pos: 0, open, written: Vec::new() };
            let r = catch(|| match k {
                1 => {
                    let form = if input.len() >= 7 && input[3] == 0 && input[4] == 0 && input[5] == 0 && input[6] != 0 {
                        Form::Dom
                    } else {
                        Form::V4
                    };
                    let r = poll_once(v4::read_request(&mut d));
                    let mut o = Vec::new();
                    put_req(&mut o, r, form, &d);
                    o
                }
                2 => {
                    let form = match input.get(3) {
                        Some(1) => Form::V4,
                        Some(4) => Form::V6,
                        _ => Form::Dom,
                    };
                    let r = poll_once(v5::read_request(&mut d));
                    let mut o = Vec::new();
                    put_req(&mut o, r, form, &d);
                    o
                }
                _ => {
                    let r = poll_once(v5::read_auth_methods(&mut d));
                    let mut o = Vec::new();
                    match r {
                        None => o.extend([1, 0]),
                        Some(Ok(ms)) => {
                            o.push(0);
                            put_lp(&mut o, &ms);
                            o.push(d.pos as u64);
                        }
                        Some(Err(e)) => put_err(&mut o, &e, &d.written),
                    }
                    o
                }
            });
            r.unwrap_or_else(|| vec![2])
        }
        Some(4) if c.len() >= 3 => {
            let mut d = Duplex { input: vec![], pos: 0, open: false, written: Vec::new() };
            let code = c[2] as u8;
            let ok = catch(|| match c[1] {
                0 if c.len() == 3 => poll_once(v4::write_response(&mut d, code)).map(|r| r.is_ok()),
                1 if c.len() == 3 => poll_once(v5::write_auth_method(&mut d, code)).map(|r| r.is_ok()),
                2 => {
                    let (ip, rest) = parse_sockaddr(&c[3..])?;
                    if rest.len() != 1 {
                        return None;
                    }
                    poll_once(v5::write_response(&mut d, code, SocketAddr::new(ip, rest[0] as u16))).map(|r| r.is_ok())
                }
                3 if c.len() == 3 => poll_once(v5::write_response_unspecified(&mut d, code)).map(|r| r.is_ok()),
                _ => None,
            });
            match ok {
                Some(Some(true)) => put_lp(&mut o, &d.written),
                Some(None) => o.push(MALFORMED),
                _ => o.push(2),
            }
            o
        }
        Some(5) => {
            let buf = bytes_of(&c[1..]);
            let form = match buf.get(3) {
                Some(1) => Form::V4,
                Some(4) => Form::V6,
                _ => Form::Dom,
            };
            match catch(|| v5::parse_udp_relay_header(Bytes::from(buf))) {
                None => o.push(2),
                Some(Ok((host, port, data))) => {
                    o.push(0);
                    match form {
                        Form::V4 => put_v4_text(&mut o, &host),
                        Form::V6 => put_v6_text(&mut o, &host),
                        Form::Dom => put_dom(&mut o, &host),
                    }
                    o.push(u64::from(port));
                    put_lp(&mut o, &data);
                }
                Some(Err(e)) => put_err(&mut o, &e, &[]),
            }
            o
        }
        Some(6) => {
            let Some((ip, rest)) = parse_sockaddr(&c[1..]) else { return vec![MALFORMED] };
            if rest.is_empty() {
                return vec![MALFORMED];
            }
            let port = rest[0] as u16;
            let data = bytes_of(&rest[1..]);
            match catch(|| v5::udp_relay_response(SocketAddr::new(ip, port), &data)) {
                None => vec![2],
                Some(b) => {
                    put_lp(&mut o, &b);
                    let ok = client_parse(&b) == Some((ip, port, data.clone()));
                    o.push(u64::from(ok));
                    o
                }
            }
        }
        _ => vec![MALFORMED],
    }
}

// ------------------------------------------------------------------- generation

fn g_name(r: &mut Rng, nul_free: bool) -> Vec<u8> {
    let n = r.pick(&[0usize, 0, 1, 2, 3, 5, 9, 15, 63, 254, 255]);
    (0..n)
        .map(|_| {
            let b = if r.chance(3, 4) { r.pick(b"abcxyz.-019") } else { r.next() as u8 };
            if nul_free && b == 0 { 1 } else { b }
        })
        .collect()
}
fn g_octet(r: &mut Rng) -> u8 {
    if r.chance(1, 2) { r.pick(&[0u8, 0, 1, 9, 10, 99, 100, 127, 192, 255]) } else { r.next() as u8 }
}

/// IPv6 addresses of every special class (unspecified, loopback, IPv4-mapped, IPv4-compatible,
/// NAT64, link-local, multicast) plus random ones
fn g_v6(r: &mut Rng) -> [u8; 16] {
    let mut o = [0u8; 16];
    match r.below(10) {
        0 => {}
        1 => o[15] = 1,
        2 | 3 => {
            o[10] = 0xff;
            o[11] = 0xff;
            for i in 12..16 {
                o[i] = g_octet(r);
            }
        }
        4 => {
            for i in 12..16 {
                o[i] = g_octet(r);
            }
        }
        5 => {
            o[0] = 0x00;
            o[1] = 0x64;
            o[2] = 0xff;
            o[3] = 0x9b;
            for i in 12..16 {
                o[i] = g_octet(r);
            }
        }
        6 => {
            o[0] = 0xfe;
            o[1] = 0x80;
            for i in 8..16 {
                o[i] = g_octet(r);
            }
        }
        7 => {
            o[0] = 0xff;
            o[1] = 0x02;
            o[15] = g_octet(r);
        }
        _ => {
            for i in 0..16 {
                o[i] = g_octet(r);
            }
        }
    }
    o
}

fn g_v5_request(r: &mut Rng) -> Vec<u8> {
    let mut b = vec![if r.chance(19, 20) { 5 } else { r.next() as u8 }, r.pick(&[1u8, 1, 2, 3, 0, 9, 255]), if r.chance(9, 10) { 0 } else { r.next() as u8 }];
    match r.below(10) {
        0..=2 => {
            b.push(1);
            for _ in 0..4 {
                b.push(g_octet(r));
            }
        }
        3..=5 => {
            b.push(3);
            let n = g_name(r, false);
            b.push(n.len() as u8);
            b.extend(n);
        }
        6..=8 => {
            b.push(4);
            b.extend(g_v6(r));
        }
        _ => b.push(r.pick(&[0u8, 2, 5, 6, 255, 128])),
    }
    b.extend(r.bytes(2));
    b
}

fn g_v4_request(r: &mut Rng) -> Vec<u8> {
    let mut b = vec![r.pick(&[1u8, 1, 2, 0, 255])];
    b.extend(r.bytes(2));
    let kind = r.below(6);
    match kind {
        0 | 1 => {
            // SOCKS4a
            b.extend([0, 0, 0, r.pick(&[1u8, 1, 2, 255])]);
        }
        2 => b.extend([0, 0, 0, 0]),
        3 => b.extend([0, g_octet(r), g_octet(r), g_octet(r)]),
        _ => {
            for _ in 0..4 {
                b.push(g_octet(r));
            }
        }
    }
    b.extend(g_name(r, true));
    b.push(0);
    if kind <= 1 || r.chance(1, 6) {
        b.extend(g_name(r, true));
        b.push(0);
    }
    b
}

fn emit(out: &mut Out, c: Vec<u64>) {
    let res = run_case(&c);
    out.emit(&[&[18u64][..], &c[..]].concat(), &res);
}

fn with_input(kind: u64, open: bool, input: &[u8]) -> Vec<u64> {
    let mut c = vec![kind, u64::from(open)];
    c.extend(input.iter().map(|&b| u64::from(b)));
    c
}

pub fn generate(a: &Args, out: &mut Out) {
    let mut r = Rng(a.seed ^ 0xC18);
    if a.mode.contains("exhaustive") {
        // all reply codes x writers; all atyp / version octets
        for code in 0..=255u64 {
            emit(out, vec![4, 0, code]);
            emit(out, vec![4, 1, code]);
            emit(out, vec![4, 3, code]);
            emit(out, vec![4, 2, code, 1, 127, 0, 0, 1, 8080]);
            let mut c = vec![4, 2, code, 4];
            c.extend((0..16).map(|i| (i * 17 + code) % 256));
            c.push(65535);
            emit(out, c);
            emit(out, with_input(2, false, &[code as u8, 1, 0, 1, 1, 2, 3, 4, 0, 80]));
            emit(out, with_input(2, false, &[5, 1, 0, code as u8, 1, 2, 3, 4, 0, 80, 1, 1, 1, 1, 1, 1, 1, 1, 1, 1, 1, 1, 1, 1]));
            emit(out, with_input(5, false, &[0, 0, 0, code as u8, 1, 2, 3, 4, 0, 80, 7, 7])[..].to_vec().split_off(0));
            emit(out, {
                let mut c = vec![5u64];
                c.extend([0, 0, code, 1, 1, 2, 3, 4, 0, 80, 7]);
                c
            });
        }
        // every domain length 0..255, exact and truncated by one
        for n in 0..=255usize {
            let mut b = vec![5u8, 1, 0, 3, n as u8];
            b.extend((0..n).map(|i| b'a' + (i % 26) as u8));
            b.extend([1, 187]);
            emit(out, with_input(2, false, &b));
            emit(out, with_input(2, false, &b[..b.len() - 1]));
            let mut u = vec![0u8, 0, 0, 3, n as u8];
            u.extend((0..n).map(|i| b'a' + (i % 26) as u8));
            u.extend([1, 187, 42]);
            emit(out, [&[5u64][..], &u.iter().map(|&x| u64::from(x)).collect::<Vec<_>>()[..]].concat());
            emit(out, [&[5u64][..], &u[..u.len() - 2].iter().map(|&x| u64::from(x)).collect::<Vec<_>>()[..]].concat());
        }
    }
    for k in 0..a.n {
        match k % 12 {
            0 | 1 | 2 => {
                // SOCKS5 request: full, with trailing bytes, and every truncation point (sampled)
                let b = g_v5_request(&mut r);
                let mut full = b.clone();
                if r.chance(1, 2) {
                    let t = r.below(5) as usize;
                    let tail = r.bytes(t);
                    full.extend(tail);
                }
                emit(out, with_input(2, r.chance(1, 4), &full));
                let cut = r.below(b.len() as u64) as usize;
                emit(out, with_input(2, r.chance(1, 2), &b[..cut]));
                if b.len() <= 24 {
                    for cut in 0..b.len() {
                        emit(out, with_input(2, cut % 2 == 0, &b[..cut]));
                    }
                }
            }
            3 | 4 | 5 => {
                let b = g_v4_request(&mut r);
                let mut full = b.clone();
                if r.chance(1, 2) {
                    let t = r.below(5) as usize;
                    let tail = r.bytes(t);
                    full.extend(tail);
                }
                emit(out, with_input(1, r.chance(1, 4), &full));
                let cut = r.below(b.len() as u64) as usize;
                emit(out, with_input(1, r.chance(1, 2), &b[..cut]));
                if b.len() <= 24 {
                    for cut in 0..b.len() {
                        emit(out, with_input(1, cut % 2 == 1, &b[..cut]));
                    }
                }
            }
            6 => {
                let n = r.pick(&[0usize, 1, 2, 3, 255]);
                let mut b = vec![n as u8];
                let avail = if r.chance(3, 4) { n } else { r.below(n as u64 + 1) as usize };
                b.extend(r.bytes(avail));
                if r.chance(1, 3) {
                    b.push(9);
                }
                emit(out, with_input(3, r.chance(1, 3), &b));
            }
            7 | 8 => {
                // UDP header parse: valid headers of all types, mutated / truncated / random
                let mut b = vec![r.pick(&[0u8, 0, 1, 255]), r.pick(&[0u8, 0, 7]), if r.chance(5, 6) { 0 } else { r.next() as u8 }];
                match r.below(7) {
                    0 | 1 => {
                        b.push(1);
                        for _ in 0..4 {
                            b.push(g_octet(&mut r));
                        }
                    }
                    2 | 3 => {
                        b.push(3);
                        let n = g_name(&mut r, false);
                        b.push(n.len() as u8);
                        b.extend(n);
                    }
                    4 | 5 => {
                        b.push(4);
                        b.extend(g_v6(&mut r));
                    }
                    _ => b.push(r.next() as u8),
                }
                b.extend(r.bytes(2));
                let pl = r.pick(&[0usize, 0, 1, 2, 5, 300]);
                b.extend(r.bytes(pl));
                if r.chance(1, 3) {
                    let cut = r.below(b.len() as u64 + 1) as usize;
                    b.truncate(cut);
                }
                let mut c = vec![5u64];
                c.extend(b.iter().map(|&x| u64::from(x)));
                emit(out, c);
            }
            9 | 10 => {
                // UDP relay response for any target and payload
                let mut c = vec![6u64];
                if r.chance(1, 2) {
                    c.push(1);
                    for _ in 0..4 {
                        c.push(u64::from(g_octet(&mut r)));
                    }
                } else {
                    c.push(4);
                    c.extend(g_v6(&mut r).iter().map(|&b| u64::from(b)));
                }
                c.push(r.pick(&[0u64, 1, 53, 255, 256, 65535]));
                let pl = r.pick(&[0usize, 0, 1, 2, 3, 4, 5, 100, 1500]);
                c.extend(r.bytes(pl).iter().map(|&b| u64::from(b)));
                emit(out, c);
            }
            _ => {
                let mut c = vec![4u64, 2, r.below(256)];
                if r.chance(1, 2) {
                    c.push(1);
                    for _ in 0..4 {
                        c.push(u64::from(g_octet(&mut r)));
                    }
                } else {
                    c.push(4);
                    c.extend(g_v6(&mut r).iter().map(|&b| u64::from(b)));
                }
                c.push(r.pick(&[0u64, 1, 80, 255, 256, 65535, 0x1234]));
                emit(out, c);
            }
        }
    }
}
