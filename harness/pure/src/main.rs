mod chain;
mod codec;
mod socks;
mod util;
use util::*;

fn main() {
    let args: Vec<String> = std::env::args().skip(1).collect();
    let which = args.first().cloned().unwrap_or_default();
    let a = parse_args(&args[1.min(args.len())..]);
    quiet_panics();
    let mut out = Out::new();
    if let Some(path) = &a.replay {
        for c in read_cases(path) {
            let r = match c.first() {
                Some(9) => codec::run_case(&c[1..]),
                Some(20) => chain::run_case(&c[1..]),
                Some(18) => socks::run_case(&c[1..]),
                _ => vec![999_999],
            };
            out.emit(&c, &r);
        }
        out.finish();
        return;
    }
    match which.as_str() {
        "codec" => codec::generate(&a, &mut out),
        "chain" => chain::generate(&a, &mut out),
        "socks" => socks::generate(&a, &mut out),
        _ => {
            eprintln!("usage: vh-pure <codec|chain|socks> [--seed S] [--n N] [--mode M] [--replay FILE]");
            std::process::exit(2);
        }
    }
    out.finish();
}
