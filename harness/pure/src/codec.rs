//! C09 harness: drive penguin_mux::frame through its public API.
use crate::util::*;
use bytes::Bytes;
use cow_bytes::CowBytes;
use penguin_mux::frame::{self, BindType, Frame, OpCode};

fn opnum(o: OpCode) -> u64 {
    u64::from((o as u8) & 0x0f)
}

fn payload_len_of(f: &Frame<'_>) -> u64 {
    // `payload` is crate-private; the Debug impl prints `payload.len`
    let s = format!("{f:?}");
    let i = s.find("payload.len: ").expect("debug format") + "payload.len: ".len();
    s[i..].trim_end_matches(|c: char| !c.is_ascii_digit()).trim().parse().expect("len")
}

fn put_err(e: frame::Error) -> Vec<u64> {
    match e {
        frame::Error::FrameTooShort => vec![1, 0, 0],
        frame::Error::FrameVersion(v) => vec![1, 1, u64::from(v)],
        frame::Error::InvalidOpCode(v) => vec![1, 2, u64::from(v)],
        frame::Error::InvalidBindType(v) => vec![1, 3, u64::from(v)],
    }
}

fn put_result(r: Result<Frame<'_>, frame::Error>) -> Vec<u64> {
    match r {
        Ok(f) => {
            let mut o = vec![0, opnum(f.opcode()), u64::from(f.id), payload_len_of(&f)];
            match catch(|| Vec::<u8>::from(&f)) {
                Some(e) => put_lp(&mut o, &e),
                None => o.push(2),
            }
            o
        }
        Err(e) => put_err(e),
    }
}

/// decode through the three public entry points; they must agree
fn decode_all(bs: &[u8]) -> Vec<u64> {
    let a = catch(|| put_result(Frame::try_from(bs))).unwrap_or_else(|| vec![2]);
    let b = catch(|| put_result(Frame::try_from(Bytes::copy_from_slice(bs)))).unwrap_or_else(|| vec![2]);
    let c = catch(|| put_result(Frame::try_from(bs.to_vec()))).unwrap_or_else(|| vec![2]);
    if a == b && b == c {
        a
    } else {
        let mut o = vec![777];
        o.extend(a);
        o.push(777);
        o.extend(b);
        o.push(777);
        o.extend(c);
        o
    }
}

struct P<'a> {
    c: &'a [u64],
    i: usize,
}
impl<'a> P<'a> {
    fn n(&mut self) -> Option<u64> {
        let v = *self.c.get(self.i)?;
        self.i += 1;
        Some(v)
    }
    fn lp(&mut self) -> Option<Vec<u8>> {
        let n = self.n()? as usize;
        if self.i + n > self.c.len() {
            return None;
        }
        let v = self.c[self.i..self.i + n].iter().map(|&x| x as u8).collect();
        self.i += n;
        Some(v)
    }
    fn done(&self) -> bool {
        self.i == self.c.len()
    }
}

enum Desc {
    Connect(u32, u32, u16, Vec<u8>),
    Ack(u32, u32),
    Reset(u32),
    Finish(u32),
    Push(u32, Vec<u8>),
    Bind(u32, u8, u16, Vec<u8>),
    Datagram(u32, u16, Vec<u8>, Vec<u8>),
}

fn parse_desc(p: &mut P<'_>) -> Option<Desc> {
    Some(match p.n()? {
        0 => Desc::Connect(p.n()? as u32, p.n()? as u32, p.n()? as u16, p.lp()?),
        1 => Desc::Ack(p.n()? as u32, p.n()? as u32),
        2 => Desc::Reset(p.n()? as u32),
        3 => Desc::Finish(p.n()? as u32),
        4 => Desc::Push(p.n()? as u32, p.lp()?),
        5 => Desc::Bind(p.n()? as u32, p.n()? as u8, p.n()? as u16, p.lp()?),
        6 => Desc::Datagram(p.n()? as u32, p.n()? as u16, p.lp()?, p.lp()?),
        _ => return None,
    })
}

/// Build the frame through the public constructors; `owned` picks the owned constructor
/// variants where they exist.
fn build<'a>(d: &'a Desc, owned: bool) -> Option<Frame<'a>> {
    Some(match d {
        Desc::Connect(id, rwnd, port, host) => Frame::new_connect(host, *port, *id, *rwnd),
        Desc::Ack(id, n) => Frame::new_acknowledge(*id, *n),
        Desc::Reset(id) => Frame::new_reset(*id),
        Desc::Finish(id) => Frame::new_finish(*id),
        Desc::Push(id, d) => {
            if owned { Frame::new_push_owned(*id, Bytes::copy_from_slice(d)) } else { Frame::new_push(*id, d) }
        }
        Desc::Bind(id, bt, port, host) => {
            let bt = BindType::try_from(*bt).ok()?;
            Frame::new_bind(*id, bt, host, *port)
        }
        Desc::Datagram(id, port, host, d) => {
            if owned {
                Frame::new_datagram_owned(*id, Bytes::copy_from_slice(host), *port, Bytes::copy_from_slice(d))
            } else {
                Frame::new_datagram(*id, host, *port, d)
            }
        }
    })
}

const MALFORMED: u64 = 999_999;

pub fn run_case(c: &[u64]) -> Vec<u64> {
    let mut p = P { c, i: 1 };
    match c.first() {
        Some(1) => {
            let Some(d) = parse_desc(&mut p) else { return vec![MALFORMED] };
            if !p.done() {
                return vec![MALFORMED];
            }
            let Some(f) = build(&d, false) else { return vec![MALFORMED] };
            let Some(fo) = build(&d, true) else { return vec![MALFORMED] };
            let Some(enc) = catch(|| Vec::<u8>::from(&f)) else { return vec![2] };
            let enc2 = catch(|| Bytes::from(&fo)).map(|b| b.to_vec());
            let mut o = Vec::new();
            if enc2.as_deref() != Some(&enc[..]) || f != fo {
                o.push(778);
            }
            put_lp(&mut o, &enc);
            o.extend(decode_all(&enc));
            // the property itself: decoding (borrowed or owned) yields an equal frame
            let e1 = catch(|| Frame::try_from(&enc[..]).map(|g| g == f).unwrap_or(false)).unwrap_or(false);
            let e2 = catch(|| Frame::try_from(Bytes::copy_from_slice(&enc)).map(|g| g == f).unwrap_or(false))
                .unwrap_or(false);
            let e3 = catch(|| Frame::try_from(enc.clone()).map(|g| g == fo).unwrap_or(false)).unwrap_or(false);
            o.extend([u64::from(e1), u64::from(e2), u64::from(e3)]);
            o
        }
        Some(2) => {
            let bs: Vec<u8> = c[1..].iter().map(|&x| x as u8).collect();
            decode_all(&bs)
        }
        Some(3) => {
            let Some(d) = parse_desc(&mut p) else { return vec![MALFORMED] };
            let Some(extra) = p.lp() else { return vec![MALFORMED] };
            if !p.done() {
                return vec![MALFORMED];
            }
            let Some(f) = build(&d, false) else { return vec![MALFORMED] };
            let Some(mut enc) = catch(|| Vec::<u8>::from(&f)) else { return vec![MALFORMED] };
            match catch(move || {
                frame::append_push_data(&mut enc, &extra);
                enc
            }) {
                Some(enc) => {
                    let mut o = vec![0];
                    put_lp(&mut o, &enc);
                    o.extend(decode_all(&enc));
                    o
                }
                None => vec![2],
            }
        }
        Some(4) => {
            let (Some(id), Some(n)) = (p.n(), p.n()) else { return vec![MALFORMED] };
            let mut chunks = Vec::new();
            for _ in 0..n {
                let Some(ch) = p.lp() else { return vec![MALFORMED] };
                chunks.push(ch);
            }
            if !p.done() {
                return vec![MALFORMED];
            }
            let whole: Vec<u8> = chunks.concat();
            // mix borrowed and owned chunks
            let cows: Vec<CowBytes<'_>> = chunks
                .iter()
                .enumerate()
                .map(|(i, ch)| {
                    if i % 2 == 0 { CowBytes::Temporary(&ch[..]) } else { CowBytes::Static(Bytes::copy_from_slice(ch)) }
                })
                .collect();
            let fv = Frame::new_push_vectored(id as u32, cows);
            let fs = Frame::new_push(id as u32, &whole);
            let Some(enc) = catch(|| Vec::<u8>::from(&fv)) else { return vec![2] };
            let mut o = Vec::new();
            put_lp(&mut o, &enc);
            o.extend(decode_all(&enc));
            let e1 = fv == fs && fs == fv;
            let e2 = catch(|| Frame::try_from(&enc[..]).map(|g| g == fv && fv == g).unwrap_or(false)).unwrap_or(false);
            o.extend([u64::from(e1), u64::from(e2)]);
            o
        }
        _ => vec![MALFORMED],
    }
}

const LENS: &[usize] = &[0, 0, 1, 1, 2, 3, 4, 5, 6, 7, 8, 9, 254, 255, 256, 257];
const U32S: &[u64] = &[0, 1, 2, 255, 256, 65535, 65536, 0x7fff_ffff, 0x8000_0000, 0xffff_fffe, 0xffff_ffff];
const U16S: &[u64] = &[0, 1, 80, 255, 256, 0x7fff, 0x8000, 0xfffe, 0xffff];

fn g_u32(r: &mut Rng) -> u64 {
    if r.chance(2, 3) { r.pick(U32S) } else { r.next() & 0xffff_ffff }
}
fn g_u16(r: &mut Rng) -> u64 {
    if r.chance(2, 3) { r.pick(U16S) } else { r.next() & 0xffff }
}
fn g_len(r: &mut Rng) -> usize {
    if r.chance(5, 6) { r.pick(LENS) } else { r.below(600) as usize }
}
fn g_blob(r: &mut Rng, out: &mut Vec<u64>, max: Option<usize>) {
    let mut n = g_len(r);
    if let Some(m) = max {
        if n > m && !r.chance(1, 20) {
            n = m - (n % 3).min(m);
        }
    }
    let style = r.below(4);
    out.push(n as u64);
    for i in 0..n {
        out.push(match style {
            0 => 0,
            1 => 255,
            2 => (i as u64 + 1) & 0xff,
            _ => r.below(256),
        });
    }
}

fn g_desc(r: &mut Rng, out: &mut Vec<u64>, op: u64) {
    out.push(op);
    out.push(g_u32(r));
    match op {
        0 => {
            out.push(g_u32(r));
            out.push(g_u16(r));
            g_blob(r, out, None);
        }
        1 => out.push(g_u32(r)),
        2 | 3 => {}
        4 => g_blob(r, out, None),
        5 => {
            out.push(if r.chance(1, 2) { 1 } else { 3 });
            out.push(g_u16(r));
            g_blob(r, out, None);
        }
        _ => {
            out.push(g_u16(r));
            g_blob(r, out, Some(255));
            g_blob(r, out, None);
        }
    }
}

fn encode_desc(c: &[u64]) -> Option<Vec<u8>> {
    let mut p = P { c, i: 0 };
    let d = parse_desc(&mut p)?;
    let f = build(&d, false)?;
    catch(|| Vec::<u8>::from(&f))
}

/// exhaustive short strings over the boundary alphabet (design §4 C09)
pub fn exhaustive_strings(out: &mut Out, valid_only_in_debug: bool) {
    if valid_only_in_debug {
        return;
    }
    let first: &[u8] = &[
        0x00, 0x01, 0x03, 0x04, 0x05, 0x06, 0x07, 0x08, 0x0f, 0x10, 0x16, 0x60, 0x70, 0x71, 0x72, 0x73, 0x74,
        0x75, 0x76, 0x77, 0x78, 0x7f, 0x80, 0xff,
    ];
    let rest: &[u8] = &[0x00, 0x01, 0x03, 0xff];
    // every first byte x every length 0..=16 (zero filled, then host-length-sensitive fills)
    for b0 in 0..=255u8 {
        for l in 0..=16usize {
            for fill in [0u8, 1, 2, 3, 4, 0xff] {
                if l == 0 && (b0 != 0 || fill != 0) {
                    continue;
                }
                let mut bs = vec![fill; l];
                if l > 0 {
                    bs[0] = b0;
                }
                emit_bytes(out, &bs);
            }
        }
    }
    // all strings of length <= 8 with first byte from `first`, id bytes fixed, tail over `rest`
    for &b0 in first {
        for l in 5..=9usize {
            let tail = l - 5;
            let total = rest.len().pow(tail as u32);
            for k in 0..total {
                let mut bs = vec![b0, 0, 0, 0, 1];
                let mut kk = k;
                for _ in 0..tail {
                    bs.push(rest[kk % rest.len()]);
                    kk /= rest.len();
                }
                emit_bytes(out, &bs);
            }
        }
    }
}

fn emit_bytes(out: &mut Out, bs: &[u8]) {
    let mut c = vec![2u64];
    c.extend(bs.iter().map(|&b| u64::from(b)));
    let r = run_case(&c);
    out.emit(&[&[9u64][..], &c[..]].concat(), &r);
}

pub fn generate(a: &Args, out: &mut Out) {
    let mut r = Rng(a.seed ^ 0xC09);
    let debug_build = cfg!(debug_assertions);
    if a.mode.contains("exhaustive") {
        exhaustive_strings(out, debug_build);
    }
    for k in 0..a.n {
        let mut c: Vec<u64> = Vec::new();
        let kind = if debug_build { [1u64, 1, 3, 4][(k % 4) as usize] } else { [1u64, 2, 2, 2, 3, 4, 2, 1][(k % 8) as usize] };
        c.push(kind);
        match kind {
            1 => {
                let op = r.below(7);
                g_desc(&mut r, &mut c, op);
            }
            2 => {
                // mutate a valid encoding (truncate / extend / flip a header or length byte) or random
                let style = r.below(8);
                let mut d = Vec::new();
                let op = r.below(7);
                g_desc(&mut r, &mut d, op);
                let mut bs = encode_desc(&d).unwrap_or_default();
                match style {
                    0 => {
                        let n = r.below(bs.len() as u64 + 1) as usize;
                        bs.truncate(n);
                    }
                    1 => {
                        let n = (bs.len()).min(12);
                        let cut = r.below(n as u64 + 1) as usize;
                        bs.truncate(cut);
                    }
                    2 => {
                        if !bs.is_empty() {
                            bs[0] = r.next() as u8;
                        }
                    }
                    3 => {
                        if !bs.is_empty() {
                            bs[0] = (bs[0] & 0x0f) | (r.pick(&[0u8, 0, 7, 1, 6, 8, 15]) << 4);
                        }
                    }
                    4 => {
                        if bs.len() > 5 {
                            bs[5] = r.pick(&[0u8, 1, 2, 3, 4, 5, 254, 255]);
                            let keep = r.below(14) as usize + 5;
                            if r.chance(1, 2) {
                                bs.truncate(keep);
                            }
                        }
                    }
                    5 => {
                        let extra = r.below(4) as usize;
                        let e = r.bytes(extra);
                        bs.extend(e);
                    }
                    6 => {
                        let n = r.below(24) as usize;
                        bs = r.bytes(n);
                        if !bs.is_empty() && r.chance(3, 4) {
                            bs[0] = 0x70 | (r.below(8) as u8);
                        }
                    }
                    _ => {}
                }
                c.extend(bs.iter().map(|&b| u64::from(b)));
            }
            3 => {
                let op = if r.chance(3, 4) { 4 } else { r.below(7) };
                g_desc(&mut r, &mut c, op);
                g_blob(&mut r, &mut c, None);
            }
            _ => {
                c.push(g_u32(&mut r));
                let n = r.below(4);
                c.push(n);
                for _ in 0..n {
                    let l = r.pick(&[0usize, 0, 1, 2, 3, 5, 255, 256]);
                    c.push(l as u64);
                    for _ in 0..l {
                        c.push(r.below(256));
                    }
                }
            }
        }
        let res = run_case(&c);
        out.emit(&[&[9u64][..], &c[..]].concat(), &res);
    }
}
