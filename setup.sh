#!/bin/sh
# Build the framework from files on disk only (offline): Coq development (full .vo),
# extracted model + OCaml driver, harness crates against /repo's working tree.
set -e
cd "$(dirname "$0")"
export CARGO_NET_OFFLINE=true
python3 - <<'PY'
import sys, os
sys.path.insert(0, os.getcwd())
from vlib import common as C
C.coq_make()
C.build_driver()
import importlib, json
m = json.load(open("MANIFEST.json"))
seen = set()
for c in m["checks"]:
    mod = importlib.import_module("vlib.props." + c["property_id"])
    if hasattr(mod, "setup"):
        mod.setup()
    elif hasattr(mod, "SPEC"):
        key = (mod.SPEC.crate, tuple(mod.SPEC.features() or ()))
        if key not in seen:
            seen.add(key)
            mod.SPEC.build("quick")
print("setup ok")
PY
