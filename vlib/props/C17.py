import os
from .. import pure, common as C

SC = {0: "server cert under the client's roots", 1: "server cert under another CA", 2: "self-signed server cert"}
CC = {0: "no client cert", 1: "client cert under the server's client CA", 2: "client cert under another CA"}


class C17(pure.Spec):
    prop = "C17"
    module = "Properties.C17"
    theorems = ["C17_reaches_iff", "C17_skip_accepts_any_certificate", "C17_verify_needs_chain_and_name",
                "C17_client_ca_requires_issued_cert", "C17_no_client_ca_never_asks", "C17_established_undisturbed",
                "C17_handshake_sees_latest", "C17_returning_sees_latest", "C17_fresh_sees_latest", "C17_admitted_iff", "C17_sni_overrides", "C17_hostname_overrides_url",
                "C17_url_host_by_default", "C17_name_case_iff"]
    crate = "app"
    binary = "vh-app"
    design_ref = "DESIGN.md §5 C17"
    rule = ("the whole configuration matrix of the property, exhaustively (3 server certificates x name matches/differs x "
            "skip-verify x 3 client certificates x client CA configured or not = 72 configurations, rcgen-generated chains; the root and client-CA files are bundles with the relevant certificate in the middle): "
            "the real tls_connect (make_client_config) connects over loopback to the real run_listener serving an identity "
            "built by make_tls_identity; observed: TLS up and an HTTP response received, and whether the server sent a "
            "CertificateRequest (probe client with a recording certificate resolver). Plus random identity-swap scripts "
            "(handshake / reload_tls_identity with good or unreadable files, with the client CA switched on or off or its file rewritten in place to hold another CA / new clients presenting no certificate, one under the first or one under the second CA / reuse of an established connection / a returning client, i.e. one persistent make_client_config configuration whose session cache survives its earlier connections, with or without the client certificate): "
            "certificate seen by each new handshake, result of each reload, established connections still answering. "
            "Name selection: the real client (client_main_inner -> ws_connect::handshake) for URL host {IP, name} x "
            "--hostname {none, the certificate's name, another} x --tls-server-name {same three} x skip-verify (36 "
            "configurations, exhaustively) against the TLS listener: reached iff a local connection through the tunnel is echoed. "
            "The operator's reload path: the real server_main with a client CA, files rewritten and SIGUSR1 sent to the process "
            "several times; before and after each reload the certificate seen, whether a client without certificate gets in and "
            "whether the server asks. Roots exactly as given: a CA file without any certificate (client: nobody is trusted; server: no identity), no CA "
            "file (the system store, which the harness points at root A through SSL_CERT_FILE), a client certificate under "
            "the system root but not under the client CA. Compared exactly with Tls/Model.v. Cells = configuration / script shape.")
    assumptions = ["rustls, webpki and aws-lc-rs decide chain validity, name matching and signatures; the model only says "
                   "which verifier is configured for which arguments",
                   "SIGUSR1 is sent to the harness process itself (it hosts server_main)"]

    def build(self, tier):
        C.cargo_build(os.path.join(C.VERIF, "harness", "app"), "release")

    def runs(self, tier, seed):
        n = 60 if tier == "quick" else 3000
        return [("matrix+reload", "release", ["tls", "--seed", str(seed), "--n", str(n)], None)]

    def cell(self, case, impl):
        t = case.split()
        if t[1] == "1":
            return "matrix/" + "/".join(t[2:7])
        if t[1] == "3":
            return "name/" + "/".join(t[2:6])
        if t[1] == "5":
            return "sigusr1-reload/" + "/".join(t[2:4])
        if t[1] == "4":
            return "blank-or-default-roots/" + "/".join(t[2:4])
        return "reload/" + "".join(x for x in t[4:24])

    def classify(self, case, impl, model):
        t = [int(x) for x in case.split()]
        i, m = impl.split(), model.split()
        if t[1] == 1:
            if i[:1] == ["1"] and m[:1] == ["0"]:
                return True, "reached-unauthenticated", "the client reaches the server although the configuration forbids it"
            if i[:1] == ["0"] and m[:1] == ["1"]:
                return True, "valid-peer-refused", "a correctly authenticated pair cannot connect"
            return True, "certificate-request", "the server asks / does not ask for a client certificate contrary to its configuration"
        if t[1] == 5:
            return True, "reload-changes-authentication", ("after replacing the identity at run time (SIGUSR1) the server shows the wrong certificate, stops asking for / "
                                                           "requiring the client certificate, or refuses the right one: per round [reached with cert, cert seen, reached without cert, asked] "
                                                           "implementation %s, expected %s" % (impl, model))
        if t[1] == 4:
            return True, "roots-not-as-given", ("with a CA file that holds no certificate (or none given) the peer is not authenticated against exactly the "
                                                "roots that were given: implementation %s, expected %s" % (impl, model))
        if t[1] == 3:
            if i[:1] == ["1"]:
                return True, "name-not-checked", "the client reaches a server whose certificate does not cover the requested name (--tls-server-name over --hostname over URL host)"
            return True, "right-name-refused", "the client refuses a server whose certificate covers the requested name"
        return True, "identity-swap", "a handshake after a reload sees the wrong identity, a failed reload changed it, or an established connection was disturbed"

    def describe(self, case):
        t = [int(x) for x in case.split()]
        if t[1] == 1:
            return "%s, name %s, skip-verify %s, %s, server client CA %s" % (
                SC.get(t[2]), "matches" if t[3] == 0 else "differs", bool(t[4]), CC.get(t[5]), bool(t[6]))
        if t[1] == 5:
            return "server_main with a client CA, initial certificate %d, %d reloads by SIGUSR1" % (t[2], t[3])
        if t[1] == 4:
            w = {0: "client given a --tls-ca file without any certificate", 1: "client given no --tls-ca (system store = root A)",
                 2: "server given a client-CA file without any certificate", 3: "client certificate under the system root, server client CA is another CA"}
            return "%s, skip-verify %s" % (w.get(t[2]), bool(t[3]))
        if t[1] == 3:
            nm = {0: "none", 1: "localhost (the certificate's name)", 2: "other.example"}
            return "URL host %s, --hostname %s, --tls-server-name %s, skip-verify %s" % (
                "127.0.0.1" if t[2] == 0 else "localhost", nm.get(t[3]), nm.get(t[4]), bool(t[5]))
        return "initial identity cert %d client-CA %d, events %s (0 handshake | 1 good cert ca reload | 2 k use)" % (t[2], t[3], t[4:])


SPEC = C17()
