from ._muxprops import make, COMMON_RULE

SPEC = make("C05", "Properties.C05", ['C05_eof_means_all', 'C05_eof_reachable', 'C05_write_after_close', 'C05_empty_write', 'C05_shutdown_projects', 'C05_finish_projects'],
            [("pair", "single", 0.5), ("pair", "drop", 0.25), ("pair", "end", 0.25)],
            COMMON_RULE + "For this property additionally: single-flow scripts (one established stream, then only reads / "
            "plain, vectored and empty writes / shutdowns and message-by-message deliveries, 40-120 labels) whose read and "
            "write results are also compared with the one-direction flow model Flow/Core.v on which the multi-step "
            "theorems are proved.", "DESIGN.md §5 C05", flow=True)
