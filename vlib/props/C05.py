from ._muxprops import make, COMMON_RULE
from . import C12

SPEC = make("C05", "Properties.C05", ['C05_eof_means_all', 'C05_eof_reachable', 'C05_write_after_close', 'C05_empty_write', 'C05_shutdown_projects', 'C05_finish_projects'],
            [("pair", "single", 0.5), ("pair", "drop", 0.25), ("pair", "end", 0.25)],
            COMMON_RULE + "For this property additionally: single-flow scripts (one established stream, then only reads / "
            "plain, vectored and empty writes / shutdowns and message-by-message deliveries, 40-120 labels) whose read and "
            "write results are also compared with the one-direction flow model Flow/Core.v on which the multi-step "
            "theorems are proved; and a writer parked for credit while the connection task closes the stream under it (peer abort, wind-down), on loom "
            "threads (the hook's programs with a close thread): in every C11 execution the writer is woken or sees the close, so that its "
            "write fails with BrokenPipe instead of staying parked; outcome sets compared with Atomic/Model.v.", "DESIGN.md §5 C05", flow=True)

_base = type(SPEC)


class C05(_base):
    def runs(self, tier, seed):
        return _base.runs(self, tier, seed) + [("loom:writer-vs-close", "release", lambda: C12.close_cases(), None)]

    def equal(self, case, impl, model):
        if case.startswith("12 "):
            return C12.decode_sets(impl) == C12.decode_sets(model)
        return _base.equal(self, case, impl, model)

    def cell(self, case, impl):
        if case.startswith("12 "):
            return "writer-vs-close/" + "/".join(case.split()[1:])
        return _base.cell(self, case, impl)

    def trace_violation(self, case, impl):
        if case.startswith("12 "):
            w = C12.close_violation(impl)
            return ("parked-writer-not-woken-on-close", w) if w else None
        return _base.trace_violation(self, case, impl)

    def classify(self, case, impl, model):
        if case.startswith("12 "):
            w = C12.close_violation(impl)
            if w:
                return True, "parked-writer-not-woken-on-close", w
            return False, "writer-vs-close-outcomes", "loom outcome set of a writer racing a close differs from the model's"
        return _base.classify(self, case, impl, model)

    def describe(self, case):
        if case.startswith("12 "):
            t = case.split()
            return "one writer (credit %s, %s polls) racing an acknowledge of %s and a close (%s) on loom threads, all executions" % tuple(t[1:5])
        return _base.describe(self, case)


C05.__name__ = "C05"
SPEC.__class__ = C05
