from ._muxprops import make, COMMON_RULE

SPEC = make("C02", "Properties.C02", ['C02_read_is_prefix', 'C02_data_equation', 'C02_reachable_inv', 'C02_clean_close_equal', 'C02_no_crosstalk_slots', 'C02_read_projects', 'C02_pair_simulated_by_flows', 'C02_pair_step_simulated'],
            [("pair", "single", 0.4), ("pair", "single-permits", 0.2), ("pair", "", 0.2), ("pair", "collide-drop-permits", 0.1), ("pair", "collide-reuse", 0.2)],
            COMMON_RULE + "For this property additionally: single-flow scripts (one established stream, then only reads / "
            "plain, vectored and empty writes / shutdowns and message-by-message deliveries, 40-120 labels) whose read and "
            "write results are also compared with the one-direction flow model Flow/Core.v on which the multi-step "
            "theorems are proved; a share of the scripts throttles the link (Permits labels: the sink refuses further messages until granted) so that link back-pressure is exercised.", "DESIGN.md §5 C02", flow=True)
