from ._muxprops import make, COMMON_RULE

SPEC = make("C15", "Properties.C15", ['C15_bind_request_sent', 'C15_bind_request_shown', 'C15_bind_disabled_reset', 'C15_bind_answer', 'C15_bind_poll_once', 'C15_answers_independent'],
            [("pair", "bind", 0.6), ("pair", "bind-collide-drop-end", 0.4)],
            COMMON_RULE + "Emphasis for this property: generator mode(s) bind.", "DESIGN.md §5 C15")
