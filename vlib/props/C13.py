from ._muxprops import make, COMMON_RULE

SPEC = make("C13", "Properties.C13",
            ["C13_poll_ok", "C13_counts_are_totals", "C13_completes_with_counts", "C13_env_write_contract"],
            [("pair", "bridge", 1.0)],
            "one established stream bridged (into_copy_bidirectional_with_buf) to a scripted local side at one or both "
            "endpoints: local reads deliver chunks of 0-5 bytes (in one script out of 48: up to 70 kB), end-of-stream or an error; local writes accept 1-3 bytes, "
            "everything, return Pending once or fail; shutdown completes, pends or fails; the peer is a plain application "
            "(writes, reads, shutdown, abort) or another bridge; windows 1-8, thresholds independent; transport ends at "
            "random points; every bridge poll's result, bytes written to the local side, shutdown flag, frames and wake-ups "
            "are compared with the model. Non-trivial = a script whose bridge relays bytes in at least one direction or "
            "returns an error; distinct by case hash.", "DESIGN.md §5 C13", per_quick=700, per_thorough=30000)

_base_cell = SPEC.cell.__func__ if hasattr(SPEC.cell, "__func__") else None


def _cell(case, impl):
    from ..mux import parse_case, parse_out
    try:
        _, labels = parse_case(case)
        outs = parse_out(impl)
    except Exception:
        return None
    feats = set()
    for l, o in zip(labels, outs):
        if l[0] == 31 and o[0]:
            r = o[0]
            if r[0] == 0 and (r[1] or r[2]):
                feats.add("completed")
            if r[0] == 2:
                feats.add("error%d" % r[1])
            if r[0] == 1 and len(r) > 2 and r[1] > 0:
                feats.add("relayed-to-local")
            if r[0] == 1 and (o[2] or o[3]):
                feats.add("relayed-to-peer")
    return "+".join(sorted(feats)) if feats else None


SPEC.cell = _cell
