from .. import pure

OPN = ["push", "insert", "pop", "remove", "split_to", "split_off", "truncate", "advance", "clear"]


def ops_of(t):
    """decode the op list of a kind-1 case for display / classification"""
    ops, i = [], 0
    while i < len(t):
        k = int(t[i]); i += 1
        if k in (0, 1):
            v = t[i]; i += 1
            idx = None
            if k == 1:
                idx = t[i]; i += 1
            n = int(t[i]); i += 1
            data = t[i:i + n]; i += n
            ops.append((OPN[k], idx, n))
        elif k in (2, 8):
            ops.append((OPN[k], None, None))
        elif 3 <= k <= 7:
            ops.append((OPN[k], t[i], None)); i += 1
        else:
            ops.append(("?", None, None))
            break
    return ops


class C20(pure.Spec):
    prop = "C20"
    module = "Properties.C20"
    theorems = ["C20_step_ok", "C20_step_none_iff", "C20_out_of_range_unchanged", "C20_run_inv",
                "C20_reachable_inv", "C20_buf_contract", "C20_cstep_variants", "C20_cstep_ok"]
    crate = "pure"
    binary = "vh-pure"
    design_ref = "DESIGN.md §5 C20"
    rule = ("kind 1: LongChain operation sequences (bounded-exhaustive over a 37-op alphabet up to depth 2 (quick) / 3 "
            "(thorough), random sequences up to 40 ops with arguments at, inside and one past every chunk boundary, "
            "empty segments, huge arguments, mixed Temporary/Static chunks); after every call the result, len(), "
            "remaining(), the chunk list and chunk() are compared; panics are caught and the value is used again. "
            "kind 2: single CowBytes split_to/split_off/truncate/advance on both variants plus the accessor/"
            "comparison/hash indistinguishability predicate. kind 3: ordering/equality of two byte strings across "
            "variants. Non-trivial: sequences with at least one data-carrying op; distinct by case hash; cells = "
            "(kind, multiset of op kinds, panicked or not).")
    assumptions = ["panics are observed through catch_unwind; debug build additionally runs verify_invariants on every accessor"]

    def runs(self, tier, seed):
        n = 60000 if tier == "quick" else 2000000
        depth = "exhaustive2" if tier == "quick" else "exhaustive3"
        return [
            ("release", "release", ["chain", "--seed", str(seed), "--n", str(n), "--mode", depth], None),
            ("debug", "dev", ["chain", "--seed", str(int(seed) + 1), "--n", str(n // 3), "--mode", "exhaustive2"], None),
        ]

    def cell(self, case, impl):
        t = case.split()
        if t[1] != "1":
            return "k%s/%s" % (t[1], impl.split()[0] if impl else "")
        ops = ops_of(t[2:])
        if not any(o[0] in ("push", "insert") and o[2] for o in ops):
            return None
        kinds = "+".join(sorted(set(o[0] for o in ops)))
        return "ops/%s/%s" % (kinds, "panic" if " 2 " in " " + impl + " " and False else "")

    def classify(self, case, impl, model):
        t = case.split()
        if t[1] == "1":
            ops = ops_of(t[2:])
            # find first diverging op by aligning traces is overkill: name the op kinds involved
            last = ops[-1][0] if ops else "?"
            if "2000002" in impl.split():
                return True, "chain-invariant-panic", "a later accessor trips the chain's invariant check (corrupted value)"
            return True, "chain-%s" % last, "LongChain differs from the plain byte vector after `%s`" % last
        if t[1] == "2":
            return True, "cowbytes-op", "CowBytes mutator / accessor indistinguishability differs"
        return True, "cowbytes-cmp", "CowBytes comparison differs from the byte-string order"

    def describe(self, case):
        t = case.split()
        if t[1] == "1":
            return "chain ops: " + "; ".join("%s%s%s" % (o[0], "" if o[1] is None else " @" + str(o[1]),
                                                         "" if o[2] is None else " len=" + str(o[2])) for o in ops_of(t[2:]))
        return "cow kind %s: %s" % (t[1], " ".join(t[2:]))


SPEC = C20()
