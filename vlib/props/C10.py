from ._muxprops import make, COMMON_RULE

SPEC = make("C10", "Properties.C10", ['C10_reset_never_answered', 'C10_unknown_flow_reset', 'C10_connect_rejected', 'C10_bind_disabled_reset', 'C10_overrun_closes_offender', 'C10_frame_rule_slots', 'C10_invalid_message_ends'],
            [("pair", "inject", 0.6), ("pair", "inject-collide-end", 0.4)],
            COMMON_RULE + "Emphasis for this property: generator mode(s) inject.", "DESIGN.md §5 C10")
