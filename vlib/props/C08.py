from ._muxprops import make, COMMON_RULE

SPEC = make("C08", "Properties.C08", ['C08_finish_task_spec', 'C08_close_local_stream', 'C08_wind_down_nowait', 'C08_invalid_message_ends'],
            [("pair", "end-drop", 0.5), ("pair", "collide-drop-end-inject", 0.5)],
            COMMON_RULE + "Emphasis for this property: generator mode(s) end.", "DESIGN.md §4 C08")
