from ._muxprops import make, COMMON_RULE

SPEC = make("C08", "Properties.C08", ['C08_finish_task_spec', 'C08_close_local_stream', 'C08_wind_down_nowait', 'C08_invalid_message_ends', 'C08_settle_conserves', 'C08_settle_drain', 'C08_burst_is_sequential', 'C08_drop_flush_refuted_witness'],
            [("pair", "end-drop", 0.35), ("pair", "permits-drop-end", 0.35), ("pair", "collide-drop-end-inject-permits", 0.3)],
            COMMON_RULE + "Emphasis for this property: generator mode(s) end. A black-box predicate of the last clause runs on every trace: the application dropped the Multiplexor while everything was healthy (no transport failure, no injected message, first drop) and the task has ended: every write it had accepted must have reached the wire.", "DESIGN.md §5 C08")
