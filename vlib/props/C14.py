import os
from .. import pure, common as C


class C14(pure.Spec):
    prop = "C14"
    module = "Properties.C14"
    theorems = ["C14_upgrade_iff", "C14_ws_fallback", "C14_obfs_hides", "C14_other_paths_fallback"]
    crate = "app"
    binary = "vh-app"
    design_ref = "DESIGN.md §5 C14"
    rule = ("State called in-process as a hyper Service with crafted requests (with and without the OnUpgrade extension): "
            "exhaustively, one deviation at a time from a valid upgrade request: method {GET,POST,HEAD,get,PUT} x path {/ws,/ws/,/x,"
            "/health,/version,/WS,/ws?x=1,/} x each of the six headers in 14 variants (exact, absent, upper-case value, near-miss, "
            "duplicate first bad / first good, empty, upper-case name, trailing space, leading zero, leading plus, trailing '.0', a trailing octet beyond ASCII, "
            "a letter replaced by a character that only Unicode case folding maps to it (Kelvin sign, long s)) x PSK configured or not x obfs x "
            "extension present; plus random combinations with presented PSK {equal, prefix, case variant, padded, empty, "
            "longer}; compared: response class, the four upgrade headers incl. the RFC 6455 accept hash (recomputed in the "
            "harness), body, and byte equality with the response of the same request on an unknown path. Cells = (config, "
            "method, path, outcome); distinct by case hash.")
    assumptions = ["every case runs three times: without a backend (fallback = the default 404), with a custom not-found response configured (every fallback answer must be exactly it), and with a backend that reports what it received "
                   "(x-seen-path = request target, x-seen = hash of method and sorted header lines, body = that dump: the fallback answer must be the proxied answer of the unaltered request; the Date header is ignored); hyper's HeaderMap::get = first value"]

    def build(self, tier):
        C.cargo_build(os.path.join(C.VERIF, "harness", "app"), "release")

    def runs(self, tier, seed):
        n = 6000 if tier == "quick" else 400000
        return [("release", "release", ["gate", "--seed", str(seed), "--n", str(n), "--mode", "exhaustive"], None)]

    def cell(self, case, impl):
        t = case.split()
        try:
            has_psk = t[1]
            i = 2
            n = int(t[i]); i += 1 + n
            obfs, ext = t[i], t[i + 1]; i += 2
            n = int(t[i]); method = "".join(chr(int(x)) for x in t[i + 1:i + 1 + n]); i += 1 + n
            n = int(t[i]); path = "".join(chr(int(x)) for x in t[i + 1:i + 1 + n])
        except Exception:
            return None
        return "psk%s/obfs%s/ext%s/%s/%s/%s" % (has_psk, obfs, ext, method, path, impl.split()[0] if impl else "")

    def classify(self, case, impl, model):
        i, m = impl.split(), model.split()
        if i[:1] == ["7"]:
            return True, "fallback-distinguishable-with-backend", ("with a backend configured the request is answered differently from the same request "
                                                                   "on an unknown path, or its class changes (class without backend %s, with %s, same-as-unknown %s)" % tuple(i[1:4]))
        if i[:1] == ["2"] and m[:1] != ["2"]:
            return True, "upgrade-without-valid-request", "101 Switching Protocols for a request that is not a valid, authenticated upgrade"
        if m[:1] == ["2"] and i[:1] != ["2"]:
            return True, "valid-upgrade-refused", "a fully valid upgrade request is not answered with 101"
        if i[:1] == ["2"]:
            return True, "upgrade-response-headers", "the 101 response lacks the accepted protocol / the RFC 6455 accept hash"
        if i[:1] == ["3"] and i[1:2] == ["0"]:
            return True, "fallback-distinguishable", "a refused /ws (or hidden /health, /version) request is answered differently from an unknown path"
        return True, "routing", "response class differs (model %s, implementation %s)" % (model, impl)

    def describe(self, case):
        t = [int(x) for x in case.split()]
        return "gate case " + " ".join(map(str, t[1:80]))


SPEC = C14()
