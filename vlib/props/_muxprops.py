from ..mux import MuxSpec, FlowSpec


def make(prop, module, theorems, modes, rule, design, per_quick=900, per_thorough=40000, flow=False):
    class S(FlowSpec if flow else MuxSpec):
        pass
    S.prop = prop
    S.module = module
    S.theorems = theorems
    S.modes = modes
    S.rule = rule
    S.design_ref = design
    S.per_quick = per_quick
    S.per_thorough = per_thorough
    return S()


COMMON_RULE = ("scripts of 30-80 labels over two real endpoints (open/accept/read/write/vectored and empty writes/shutdown/"
               "drop, datagrams, binds, message-by-message delivery, RNG scripts forcing id collisions, transport ends, handle "
               "drops), windows 1-8 and thresholds 1..2*window chosen independently per side, accept/datagram/bind queues of "
               "1-4; every label's result, woken wakers, frames put on the wire by each side and task completion are compared "
               "with the model. Non-trivial = reaches at least one of: blocked writer, end-of-stream read, suspended receive "
               "side, request retry, task end, datagram/bind traffic; distinct by case hash. ")
