"""C12: atomic-step model vs loom over the real functions (in-crate hook)."""
import os
import re
import time

from .. import common as C

PROP = "C12"
THEOREMS = ["C12_reachable_inv", "C12_credit_conservation", "C12_no_send_without_credit", "C12_no_lost_wakeup",
            "C12_pending_implies_registered_or_woken"]
RES = {"R": 0, "C": 1, "P": 2}


def loom_outcomes():
    """run the hook under loom; returns {(credit, polls, ack, close): set(outcome tuples)}"""
    env = dict(C.ENV, RUSTFLAGS="--cfg loom --cfg penguin_rs_verif", CARGO_TARGET_DIR=os.path.join(C.TARGET, "loom"),
               LOOM_MAX_PREEMPTIONS="")
    env.pop("LOOM_MAX_PREEMPTIONS")
    with C.Lock("cargo-loom"):
        p = C.sh(["cargo", "test", "-p", "penguin-mux", "--lib", "--no-default-features", "--features",
                  "std,tokio-io-util", "--offline", "verif_loom", "--", "--nocapture", "--test-threads", "1"],
                 cwd=C.REPO, env=env, timeout=3000)
    out = p.stdout + p.stderr
    if "VERIF-LOOM" not in out:
        raise C.Failure("the loom hook did not run (cfg(all(test, loom, penguin_rs_verif)) module missing or the build failed)",
                        out[-3000:])
    res = {}
    for m in re.finditer(r"VERIF-LOOM (\S+) credit=(\d+) polls=(\d+) ack=(\d+) close=(\d+) => \[(.*?)\]", out):
        key = (int(m.group(2)), int(m.group(3)), int(m.group(4)), int(m.group(5)))
        outs = set()
        for o in re.findall(r'"([^"]*)"', m.group(6)):
            rs, credit, fin, wakes = o.split()
            outs.add(tuple([len(rs)] + [RES[ch] for ch in rs] + [int(credit), int(fin), int(wakes)]))
        res[key] = (m.group(1), outs)
    panicked = "panicked" in out and "test result: ok" not in out
    return res, panicked, out


def two_writer_cases(out=None):
    """the two-writer programs of the hook -> (cases for model 13, implementation outcome sets in the model's encoding)"""
    if out is None:
        _, _, out = loom_outcomes()
    cases, impl = [], []
    for m in re.finditer(r"VERIF-LOOM2 (\S+) credit=(\d+) pa=(\d+) pb=(\d+) ack=(\d+) close=(\d+) => \[(.*?)\]", out):
        outs = set()
        for o in re.findall(r'"([^"]*)"', m.group(7)):
            rs, credit, fin = o.split()
            ra, rb = rs.split("|")
            outs.add(tuple([len(ra)] + [RES[ch] for ch in ra] + [len(rb)] + [RES[ch] for ch in rb] + [int(credit), int(fin)]))
        cases.append("13 %s %s %s %s %s" % m.group(2, 3, 4, 5, 6))
        impl.append(" ".join(str(x) for o in sorted(outs) for x in o))
    if not cases:
        raise C.Failure("the two-writer loom programs did not run (hook missing or build failed)", out[-2000:])
    return cases, impl


def close_cases(out=None, thread="D"):
    """the single-writer programs of the hook with a close thread ('D') / an acknowledge thread ('K') ->
    (cases for model 12, implementation outcome sets in the model's encoding)"""
    res, _, _ = loom_outcomes()
    cases, impl = [], []
    for key in sorted(res):
        name, outs = res[key]
        if thread not in name.split("|"):
            continue
        cases.append("12 %d %d %d %d" % key)
        impl.append(" ".join(str(x) for o in sorted(outs) for x in o))
    if not cases:
        raise C.Failure("the writer-versus-close loom programs did not run (hook missing or build failed)")
    return cases, impl


def close_violation(impl):
    for o in sorted(decode_sets(impl)):
        w = violates(o)
        if w:
            return w
    return None


def two_writer_violation(case, impl):
    """conservation on every final outcome of a two-writer program"""
    t = [int(x) for x in case.split()]
    credit, ack = t[1], t[4]
    v = [int(x) for x in impl.split()]
    i = 0
    while i < len(v):
        na = v[i]; ra = v[i + 1:i + 1 + na]; i += 1 + na
        nb = v[i]; rb = v[i + 1:i + 1 + nb]; i += 1 + nb
        fc, fin = v[i], v[i + 1]; i += 2
        taken = sum(1 for r in ra + rb if r == 0)
        if taken > credit + ack:
            return "two racing writers obtained %d permissions but only %d units of credit ever existed" % (taken, credit + ack)
        if fc != credit + ack - taken:
            return "credit not conserved with two racing writers: %d + %d - %d taken, final credit %d" % (credit, ack, taken, fc)
    return None


def decode_sets(line):
    t = [int(x) for x in line.split()]
    outs, i = set(), 0
    while i < len(t):
        n = t[i]
        outs.add(tuple(t[i:i + 1 + n + 3]))
        i += 1 + n + 3
    return outs


def violates(o, key=None, name=""):
    """the property on one final outcome: a Pending last poll with credit available or the
    stream closed and no wake-up delivered = lost wake-up; final credit different from
    initial + granted - units taken = credit not conserved"""
    n = o[0]
    results, credit, fin, wakes = o[1:1 + n], o[1 + n], o[2 + n], o[3 + n]
    if key is not None:
        granted = key[2] if "K" in name.split("|") else 0
        taken = sum(1 for r in results if r == 0)
        if taken > key[0] + granted:
            return "the writer obtained %d permissions but only %d units of credit ever existed" % (taken, key[0] + granted)
        if credit != key[0] + granted - taken:
            return ("credit not conserved: initial %d + granted %d - taken %d = %d, final credit %d"
                    % (key[0], granted, taken, key[0] + granted - taken, credit))
    if results and results[-1] == 2 and (credit > 0 or fin == 1) and wakes == 0:
        return "lost wake-up: the writer's last poll returned Pending, credit=%d closed=%d, and no wake-up was delivered" % (credit, fin)
    return None


def run(tier, seed, replay=None):
    t0 = time.time()
    res = C.Result(PROP)
    obligations = discharged = 0
    report = {}
    failure = None
    try:
        bad = C.audit_sources()
        if bad:
            raise C.Failure("forbidden construct in the Coq development: " + "; ".join(bad[:5]))
        obligations, discharged, report = C.check_theorems(PROP, "Properties.C12", THEOREMS)
        if discharged != obligations:
            raise C.Failure("property theorem(s) not discharged: %s" % report)
        if tier == "thorough":
            report["coqchk"] = "closed" if C.coqchk(PROP) else "?"
    except C.Failure as e:
        failure = e
    drv = C.build_driver()
    samples, programs, validated, disagreements = [], 0, 0, 0
    try:
        loom, panicked, raw = loom_outcomes()
        keys = sorted(loom)
        model = C.run_driver(drv, ["12 %d %d %d %d" % k for k in keys])
        for k, mline in zip(keys, model):
            name, impl = loom[k]
            mset = decode_sets(mline)
            programs += 1
            if len(samples) < 4:
                samples.append({"program": name, "credit": k[0], "polls": k[1], "ack": k[2], "close": k[3],
                                "loom_outcomes": sorted(map(list, impl)), "model_outcomes": sorted(map(list, mset))})
            if impl == mset:
                validated += 1
                continue
            disagreements += 1
            extra = sorted(impl - mset)
            viol = [(o, violates(o, k, name)) for o in extra if violates(o, k, name)]
            payload = {"property": PROP, "program": name, "credit": k[0], "polls": k[1], "ack": k[2], "close": k[3],
                       "outcomes_only_in_implementation": [list(o) for o in extra],
                       "outcomes_only_in_model": [list(o) for o in sorted(mset - impl)],
                       "encoding": "[npolls, results (0 Ready, 1 Closed, 2 Pending).., final credit, closed, wake-ups]",
                       "replay_cmd": "cd /repo && RUSTFLAGS='--cfg loom --cfg penguin_rs_verif' cargo test -p penguin-mux --lib "
                                     "--no-default-features --features std,tokio-io-util --offline verif_loom -- --nocapture",
                       "repo_head": C.repo_head()}
            if viol:
                payload["kind"] = "failing-schedule-class"
                payload["what"] = viol[0][1]
                res.violation(C.write_replay(PROP, seed, payload), "%s: %s" % (name, viol[0][1]))
            else:
                payload["kind"] = "correspondence-break"
                payload["what"] = "loom outcome set of the real functions differs from the model's"
                if not res.violations:
                    res.violation(C.write_replay(PROP, seed, payload), "outcome sets differ for %s %s" % (name, k), no_input=True)
        c2, i2 = two_writer_cases(raw)
        m2 = C.run_driver(drv, c2)
        for c, i, m in zip(c2, i2, m2):
            programs += 1
            if i == m:
                validated += 1
                continue
            disagreements += 1
            what = two_writer_violation(c, i)
            payload = {"property": PROP, "program": "two writers: " + c, "implementation_outcomes": i, "model_outcomes": m,
                       "encoding": "per outcome: nA resultsA.. nB resultsB.. final credit, closed", "repo_head": C.repo_head(),
                       "kind": "failing-schedule-class" if what else "correspondence-break", "what": what or "outcome sets differ"}
            res.violation(C.write_replay(PROP, seed, payload), what or "two-writer outcome sets differ for %s" % c, no_input=(what is None and bool(res.violations)) or (what is None))
        if panicked:
            res.violation(C.write_replay(PROP, seed, {"property": PROP, "kind": "loom-panic", "what": raw[-2000:]}),
                          "the loom run panicked", no_input=not res.violations)
    except C.Failure as e:
        failure = failure or e
    if failure is not None and not res.violations:
        res.violation(C.write_replay(PROP, seed, {"property": PROP, "kind": "proof-obligation-or-hook", "what": failure.what,
                                                  "detail": failure.detail}), failure.what, no_input=True)
    cov = {"obligations": max(obligations, len(THEOREMS)), "discharged": discharged,
           "checker_cmd": "make -C /verif/coq Properties/C12.vo && coqc Print Assumptions on: " + ", ".join(THEOREMS),
           "trusted_base": C.TRUSTED_BASE + ["loom 0.7 (exhaustive C11-style exploration of the real functions through the in-crate hook)",
                                             "the model's memory semantics is sequential consistency with a linearizable AtomicWaker (partial w.r.t. C11)"],
           "theorems": report, "programs": programs, "evaluations": programs, "distinct_nontrivial": programs,
           "traces_validated_against_impl": validated, "disagreements_checked": disagreements,
           "rule": "programs W|K, WW|K, W|K|D, W|D, WW|D x initial credit {0,1,2} x acknowledge amount {1,2}: the set of final "
                   "outcomes (poll results, final credit, closed flag, wake-ups delivered) explored exhaustively by loom on the "
                   "real poll_obtain_write_permission / acknowledge / disallow_write must equal the set computed by exhaustive "
                   "interleaving of the model; non-trivial = every program (each has >= 2 threads)",
           "samples": samples, "exhaustive": True, "repo_head": C.repo_head()}
    C.write_evidence(PROP, tier, seed, cov, time.time() - t0, len(res.violations),
                     ["sequentially consistent interleavings in the model; loom explores the real code's orderings"])
    rc = res.finish()
    print("%s %s: %d obligations/%d discharged, %d programs, %d outcome sets equal, %d differ, %.1fs"
          % (PROP, tier, cov["obligations"], discharged, programs, validated, disagreements, time.time() - t0))
    return rc


def setup():
    try:
        loom_outcomes()
    except Exception:
        pass
