import os
from .. import pure, common as C


class C16(pure.Spec):
    prop = "C16"
    module = "Properties.C16"
    theorems = ["C16_no_early_timeout", "C16_dead_peer_detected_in_window", "C16_dead_peer_is_detected",
                "C16_prompt_peer_never_times_out", "C16_disabled_is_silent", "C16_no_timeout_when_indefinite", "C16_clamp", "C16_pong_with_tick_counts", "C16_peer_ping_is_no_answer"]
    crate = "ka"
    binary = "vh-ka"
    design_ref = "DESIGN.md §5 C16"
    rule = ("a real endpoint under tokio's paused clock (timestamps read from that clock), in-memory transport; options "
            "(I, T) from {0,1,2,3,5}x{0,1,2,3,5,7} x 100 ms incl. T < I, T = I, disabled values, both setter orders; event "
            "histories of 6-25 rounds: advance by exactly one interval / a fraction / a late multiple / boundary offsets, "
            "pongs always / for k rounds then silent / never / late by up to T+1 / intermittently, polls of a pending "
            "get_datagram; after every event the pings sent, the sink close and the task result are compared with the "
            "model. Cells = (I class, T relation, history style outcome); distinct by case hash.")
    assumptions = ["tokio::time under a paused clock; the harness polls the task right after every clock advance"]

    def build(self, tier):
        C.cargo_build(os.path.join(C.VERIF, "harness", "ka"), "release")

    def runs(self, tier, seed):
        n = 2500 if tier == "quick" else 120000
        return [("release", "release", ["x", "--seed", str(seed), "--n", str(n)], None)]

    def cell(self, case, impl):
        t = [int(x) for x in case.split()]
        order, i, tt = t[2], t[3], t[4]
        rel = "I0" if i == 0 else ("T0" if tt == 0 else ("T<I" if tt < i else ("T=I" if tt == i else "T>I")))
        out = impl.split()
        res = "timeout" if "106" in out else "alive"
        return "%s/order%d/%s" % (rel, order, res)

    def trace_violation(self, case, impl):
        """clause B of the property, evaluated on what the implementation did: every ping answered
        within T (or still within its allowance when the connection was ended) and yet a timeout"""
        t = [int(x) for x in case.split()]
        order, i_ms, t_ms = t[2], t[3], t[4]
        ev = t[5:]
        out = [int(x) for x in impl.split()]
        if i_ms == 0 or t_ms == 0 or order != 0:
            if 106 in out and (i_ms == 0 or (t_ms == 0 and order == 0)):
                return ("timeout-while-disabled", "a keepalive timeout although keepalive (or its timeout) is disabled")
            return None
        T = max(t_ms, i_ms)
        now, k, pos = 0, 0, 0
        pings, pong_times = [], []
        timeout_at = None

        def take():
            nonlocal pos
            v = out[pos:pos + 3]
            pos += 3
            return v
        r = take()
        if r and r[0]:
            pings.append(0)
        deadline = i_ms          # ticks are on time as long as no advance overshoots a deadline
        while k < len(ev) and timeout_at is None:
            if ev[k] == 0:
                now += ev[k + 1]
                k += 2
                if now > deadline:
                    return None      # the task was polled late: the timing clauses speak of on-time ticks
                if now == deadline:
                    deadline += i_ms
                r = take()
            elif ev[k] == 1:
                k += 1
                pong_times.append(now)
                r = take()
            elif ev[k] == 3:
                # the clock advances and a Pong arrives before the task runs again
                now += ev[k + 1]
                k += 2
                if now > deadline:
                    return None
                pong_times.append(now)
                if now == deadline:
                    deadline += i_ms
                r = take()
            elif ev[k] == 4:
                # a Ping of the peer's own: the task is polled, no time passes
                k += 1
                r = take()
            else:
                k += 1
                pos += 1
                continue
            if len(r) < 3:
                break
            if r[0]:
                pings.append(now)
            if r[2] == 106:
                timeout_at = now
        if timeout_at is None:
            return None
        # the transport answers pings in order: the j-th pong answers the j-th ping
        slow = False
        for j, p in enumerate(pings):
            a = pong_times[j] if j < len(pong_times) else timeout_at
            if j < len(pong_times) and a < p:
                a = p
            if a - p > T:
                return None          # the premise fails: this peer did not answer within T
            if a - p > i_ms or (j >= len(pong_times) and timeout_at - p >= i_ms):
                slow = True
        if slow:
            return ("live-peer-answer-slower-than-interval",
                    "every ping was answered within T (or was still within T when the connection was ended) but an answer "
                    "took longer than the interval I, and the endpoint reported a keepalive timeout at %d ms" % timeout_at)
        return ("live-peer-timed-out", "every ping was answered before the next one and yet a keepalive timeout at %d ms" % timeout_at)

    def classify(self, case, impl, model):
        return True, "keepalive-trace", "pings / sink close / task result differ from the model"

    def describe(self, case):
        t = case.split()
        return "order=%s I=%sms T=%sms events=%s" % (t[2], t[3], t[4], " ".join(t[5:60]))


SPEC = C16()
