import os
import tempfile
from .. import pure, common as C

ENTRY = {0: "TCP remote", 1: "Unix-socket remote", 2: "SOCKS5 CONNECT", 3: "SOCKS4", 4: "SOCKS4a", 5: "HTTP CONNECT"}
SHAPE = {0: "local writes+half-closes, target answers after EOF", 1: "target writes+half-closes, local answers after EOF",
         2: "both write at once", 3: "target writes then closes", 4: "local writes then closes", 5: "target refuses", 6: "target answers, half-closes, then closes during the upload", 7: "slow half-closed target, 3 MB upload",
         8: "target answers+half-closes, local then sends and stays open until the target has it all",
         9: "local writes+half-closes, target then answers and stays open until the local client has it all",
         10: "local client gives up with its request in flight (the other connections must not notice)"}


class C01(pure.Spec):
    prop = "C01"
    module = "Properties.C01"
    theorems = ["C01_pipe_prefix", "C01_pipe_eof_complete", "C01_pipe_completes", "C01_reply_to_originator",
                "C01_distinct_clients_distinct_ids", "C01_reply_only_to_registered", "C01_add_client_inv",
                "C01_prune_inv", "C01_pruned_reply_dropped", "C01_udp_reply_header_strippable",
                "C01_bridge_is_relay", "C01_bridge_moves_are_pipe_moves", "C01_stream_is_relay"]
    crate = "app"
    binary = "vh-app"
    design_ref = "DESIGN.md §5 C01"
    rule = ("the real client_main_inner and the real server run_listener on loopback, local clients and scripted targets "
            "driven by the harness: every entry point (TCP remote, Unix-socket remote, SOCKS5 CONNECT with IPv4 and domain "
            "names, SOCKS4, SOCKS4a, HTTP CONNECT; for the proxy entries also an eager local client that sends its first payload bytes in the same write as the request; targets on the IPv4 and, where the machine has one, the IPv6 loopback: remote [::1]:port, SOCKS5 ATYP 4, CONNECT [::1]:port) x eleven connection shapes (half-close by either side first with the "
            "answer sent afterwards, both directions at once, close by the target, close by the local client, refusing "
            "target, target closing completely during an upload after having half-closed, a slow half-closed target receiving a 3 MB upload, the two half-close orders in which the late direction must be delivered while the connection stays open, and local clients that give up while their stream request is in flight beside connections in progress; the client reaches the server through a relay that adds 15 ms to the server-to-client direction), 1-5 concurrent connections, chunk sizes 0..200 kB (several windows); UDP remote and SOCKS5 UDP "
            "association (own or shared association, IPv4, IPv6 and domain-name headers, one client alternating between two targets), 1-4 concurrent clients, datagram sizes "
            "0..8 kB; and slow UDP clients whose datagrams are 3 s and 23 s apart (around and beyond the 10 s after which both ends forget an idle UDP client: active clients must stay registered, forgotten ones must be registered again), run beside the other cases, as does a long stream (5000 chunks of 2 KiB sent one by one) towards a local client with a small receive buffer that reads nothing for 6 s, so that the stream's receive window closes and back-pressure reaches the target, and the same through the Unix-socket remote with 512 KiB chunks (small fixed socket buffers: the bridge's writes towards the local client are accepted in part only); and reply bursts (the target answers one datagram with 300-600 replies back to back, more than the tunnel's reply queue holds: some may be dropped, the next exchange must work as before). Observed: bytes received at both ends compared byte by byte with the peer's stream, how each side "
            "saw the end (clean EOF / reset / still open after 6 s), per UDP client the replies that are its own, foreign "
            "or duplicate replies, the source address of replies, RFC 1928 header well-formedness, datagrams the target "
            "got. Compared exactly with what a direct connection shows (Tunnel/Direct.v); a UDP case whose only deviation is a "
            "missing reply is re-run up to twice (datagrams may be dropped under load, never blocked: C11). Cells = (entry, shape set).")
    assumptions = ["sampled scripts on loopback under the real runtime's interleavings; the kernel's TCP/UDP/Unix sockets are trusted",
                   "the per-relay specification used by the composition theorem (each relay forwards a prefix in order and passes "
                   "EOF on after draining) is proved of the bridge model (C01_bridge_is_relay) and of each direction of the "
                   "logical stream model Flow/Core.v (C01_stream_is_relay, abort-free runs); gluing the component pipelines into one "
                   "(the hop a bridge writes into IS the hop the stream reads from) is by construction of the statements, not a further theorem"]

    def build(self, tier):
        C.cargo_build(os.path.join(C.VERIF, "harness", "app"), "release")

    def runs(self, tier, seed):
        n = 120 if tier == "quick" else 2500
        return [("e2e", "release", ["e2e", "--seed", str(seed), "--n", str(n)], None)]

    def cell(self, case, impl):
        t = [int(x) for x in case.split()]
        if t[1] == 1:
            n, i, shapes = t[4], 5, []
            for _ in range(n):
                if i + 1 >= len(t):
                    break
                nl = t[i + 1]
                nt = t[i + 2 + nl] if i + 2 + nl < len(t) else 0
                shapes.append(str(t[i]))
                i += 3 + nl + nt
            return "tcp/entry%d.%d/%s" % (t[2], t[3], "".join(sorted(set(shapes))))
        if t[1] == 3:
            return "udp-slow/entry%d/n%d/gap%ds" % (t[2], t[3], t[4] // 1000)
        if t[1] == 4:
            return "udp-burst/entry%d/n%d" % (t[2], t[3])
        if t[1] == 5:
            return "tcp-stalled-reader/entry%d/n%d" % (t[2], t[3])
        return "udp/entry%d/shared%d/v%d/clients%d" % (t[2], t[3], t[4], t[5])

    def equal(self, case, impl, model):
        if impl == model:
            return True
        if impl.strip() == "999996":
            # an IPv6 variant on a machine without an IPv6 loopback: not run (its coverage cell is then absent)
            return True
        t = case.split()
        if t[1] in ("1", "5"):
            return False
        # UDP is allowed to lose a datagram under load (the tunnel drops rather than blocks, C11): a case whose only
        # deviation is a missing reply is re-run (up to twice); a systematic loss repeats, a transient one does not
        for attempt in range(3):
            i, m = [int(x) for x in impl.split()], [int(x) for x in model.split()]
            if len(i) != len(m):
                return False
            only_loss = all(a[1] == 0 and a[2] == 1 and a[3] == 1 and a[0] <= b[0] and a[4] <= b[4]
                            for a, b in ((i[k:k + 5], m[k:k + 5]) for k in range(0, len(m), 5)))
            if not only_loss:
                return False
            if i == m:
                return True
            if attempt == 2:
                return False
            with tempfile.NamedTemporaryFile("w", suffix=".cases", delete=False) as f:
                f.write(case + "\n")
            try:
                _, impls = C.run_harness([self.bin_path("release"), "x", "--replay", f.name])
                impl = impls[0]
            finally:
                os.unlink(f.name)
        return False

    def classify(self, case, impl, model):
        t = [int(x) for x in case.split()]
        i, m = [int(x) for x in impl.split()], [int(x) for x in model.split()]
        if t[1] in (1, 5):
            for k in range(0, min(len(i), len(m)), 6):
                a, b = i[k:k + 6], m[k:k + 6]
                if a == b:
                    continue
                if len(a) < 6 or len(b) < 6:
                    break
                if a[1] == 0 or a[4] == 0:
                    return True, "tcp-bytes-altered", "bytes arrived modified, reordered or beyond what the peer wrote (connection %d)" % (k // 6)
                if a[0] != b[0] or a[3] != b[3]:
                    return True, "tcp-bytes-missing", "bytes written by one end did not all arrive at the other (connection %d: got %s, direct connection %s)" % (k // 6, a, b)
                if (b[2] == 1 and a[2] == 0) or (b[5] == 1 and a[5] == 0):
                    return True, "tcp-close-not-propagated", "a close / half-close was not propagated: the other end is left hanging (connection %d)" % (k // 6)
                return True, "tcp-end-differs", "an end saw the connection finish differently from a direct connection (connection %d: %s vs %s)" % (k // 6, a, b)
            return True, "tcp-shape", "result has a different shape"
        for k in range(0, min(len(i), len(m)), 5):
            a, b = i[k:k + 5], m[k:k + 5]
            if a == b:
                continue
            if len(a) < 5 or len(b) < 5:
                break
            if a[1] != 0:
                return True, "udp-misdelivered", "a UDP client received a reply that is not its own (or a duplicate)"
            if a[2] == 0:
                return True, "udp-reply-source", "a reply came from another address than the one the client sent to"
            if a[3] == 0:
                return True, "udp-socks5-header", "a SOCKS5 UDP reply does not start with a well-formed RFC 1928 header"
            return True, "udp-lost", "a datagram or its reply did not arrive unmodified (client %d: %s, expected %s)" % (k // 5, a, b)
        return True, "udp-shape", "result has a different shape"

    def describe(self, case):
        t = [int(x) for x in case.split()]
        if t[1] == 1:
            return "TCP via %s (variant %d), %d connection(s): %s" % (ENTRY.get(t[2]), t[3], t[4], t[5:60])
        if t[1] == 5:
            return "TCP via %s: the target streams %d chunks of 2 KiB one by one to a local client that reads nothing for 6 s" % (ENTRY.get(t[2]), t[3])
        if t[1] == 4:
            return "UDP via %s: the target answers with a burst of %d replies, then one more exchange" % ("UDP remote" if t[2] == 0 else "SOCKS5 UDP association", t[3])
        if t[1] == 3:
            return "one slow UDP client via %s: %d datagrams %d ms apart" % ("UDP remote" if t[2] == 0 else "SOCKS5 UDP association", t[3], t[4])
        return "UDP via %s, shared association %d, header variant %d, %d client(s): %s" % (
            "UDP remote" if t[2] == 0 else "SOCKS5 UDP association", t[3], t[4], t[5], t[6:60])


SPEC = C01()
