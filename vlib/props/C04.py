from ._muxprops import make, COMMON_RULE

SPEC = make("C04", "Properties.C04", ['C04_blocked_writer_unblocks', 'C04_reachable_inv', 'C04_delivery_stays_enabled', 'C04_threshold_le_window', 'C04_endpoint_threshold', 'C04_dgram_never_blocks'],
            [("pair", "single", 0.5), ("pair", "dgram", 0.2), ("pair", "", 0.3)],
            COMMON_RULE + "For this property additionally: single-flow scripts (one established stream, then only reads / "
            "plain, vectored and empty writes / shutdowns and message-by-message deliveries, 40-120 labels) whose read and "
            "write results are also compared with the one-direction flow model Flow/Core.v on which the multi-step "
            "theorems are proved.", "DESIGN.md §5 C04", flow=True)
