from ._muxprops import make, COMMON_RULE
from . import C12

SPEC = make("C04", "Properties.C04", ['C04_blocked_writer_unblocks', 'C04_reachable_inv', 'C04_delivery_stays_enabled', 'C04_threshold_le_window', 'C04_endpoint_threshold', 'C04_dgram_never_blocks'],
            [("pair", "single", 0.5), ("pair", "dgram", 0.2), ("pair", "", 0.3)],
            COMMON_RULE + "For this property additionally: single-flow scripts (one established stream, then only reads / "
            "plain, vectored and empty writes / shutdowns and message-by-message deliveries, 40-120 labels) whose read and "
            "write results are also compared with the one-direction flow model Flow/Core.v on which the multi-step "
            "theorems are proved; and a writer parked for credit while the connection task processes an Acknowledge, on loom threads (the hook's "
            "programs with an acknowledge thread): in every C11 execution the writer either obtains the credit or is woken, it never stays "
            "parked with credit available; outcome sets compared with Atomic/Model.v.", "DESIGN.md §5 C04", flow=True)

_base = type(SPEC)


class C04(_base):
    def runs(self, tier, seed):
        return _base.runs(self, tier, seed) + [("loom:writer-vs-acknowledge", "release", lambda: C12.close_cases(thread="K"), None)]

    def equal(self, case, impl, model):
        if case.startswith("12 "):
            return C12.decode_sets(impl) == C12.decode_sets(model)
        return _base.equal(self, case, impl, model)

    def cell(self, case, impl):
        if case.startswith("12 "):
            return "writer-vs-acknowledge/" + "/".join(case.split()[1:])
        return _base.cell(self, case, impl)

    def trace_violation(self, case, impl):
        if case.startswith("12 "):
            w = C12.close_violation(impl)
            return ("parked-writer-not-woken-by-acknowledge", w) if w else None
        return _base.trace_violation(self, case, impl)

    def classify(self, case, impl, model):
        if case.startswith("12 "):
            w = C12.close_violation(impl)
            if w:
                return True, "parked-writer-not-woken-by-acknowledge", w
            return False, "writer-vs-acknowledge-outcomes", "loom outcome set of a writer racing an acknowledge differs from the model's"
        return _base.classify(self, case, impl, model)

    def describe(self, case):
        if case.startswith("12 "):
            t = case.split()
            return "one writer (credit %s, %s polls) racing an acknowledge of %s (close %s) on loom threads, all executions" % tuple(t[1:5])
        return _base.describe(self, case)


C04.__name__ = "C04"
SPEC.__class__ = C04
