from ._muxprops import make, COMMON_RULE

SPEC = make("C07", "Properties.C07", ['C07_alloc_id_nonzero_unused', 'C07_open_attempt_spec', 'C07_connect_rejected', 'C07_connect_accepted', 'C07_connect_acknowledged', 'C07_one_stream_per_request_refuted'],
            [("pair", "collide", 0.6), ("pair", "collide-drop", 0.2), ("pair", "collide-reuse", 0.3)],
            COMMON_RULE + "Emphasis for this property: generator mode(s) collide. A black-box predicate counts, on every trace, the streams handed to each accepting application against the requests the peer made; the corpus case id_reuse_stale_reset reproduces the open known finding on every run.", "DESIGN.md §5 C07")
