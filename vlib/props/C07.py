from ._muxprops import make, COMMON_RULE

SPEC = make("C07", "Properties.C07", ['C07_alloc_id_nonzero_unused', 'C07_open_attempt_spec', 'C07_connect_rejected', 'C07_connect_accepted', 'C07_connect_acknowledged'],
            [("pair", "collide", 0.6), ("pair", "collide-drop", 0.4)],
            COMMON_RULE + "Emphasis for this property: generator mode(s) collide.", "DESIGN.md §4 C07")
