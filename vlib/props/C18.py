import os
from .. import pure, common as C

KIND = {"1": "v4-request", "2": "v5-request", "3": "v5-methods", "4": "writers", "5": "udp-parse", "6": "udp-build",
        "7": "client-listener-dialog", "8": "client-connect-target"}


class C18(pure.Spec):
    prop = "C18"
    module = "Properties.C18"
    theorems = ["C18_v5_read_exact", "C18_v5_read_prefix", "C18_v5_bad_version", "C18_v5_bad_atyp",
                "C18_v4_read_exact", "C18_v4_read_prefix", "C18_v5_reply_bytes", "C18_v5_reply_unspecified",
                "C18_v4_reply_bytes", "C18_v5_method_reply", "C18_v5_methods_exact",
                "C18_udp_response_is_rfc", "C18_udp_client_roundtrip", "C18_udp_parse_exact",
                "C18_udp_parse_fragment", "C18_udp_parse_never_panics", "C18_client_selects_noauth", "C18_client_v4_rejects_other_commands",
                "C18_client_connect_target_v4a", "C18_client_connect_target_v5"]
    crate = "pure"
    binary = "vh-pure"
    design_ref = "DESIGN.md §5 C18"
    rule = ("SOCKS5 requests (all address types, every domain length 0..255, unknown versions/types/commands), SOCKS4 and "
            "SOCKS4a requests (0.0.0.x, 0.0.0.0, 0.a.b.c, user ids and domains of lengths 0..255), each complete (with and "
            "without trailing bytes), truncated at every byte (short ones) or at a random byte, over a closed input "
            "(UnexpectedEof) and an open one (Pending), delivered in reads of at most 3 bytes; every reply code through "
            "every writer with IPv4/IPv6 bound addresses; UDP relay headers of every address type, fragment octets, "
            "truncations, random; UDP relay responses for IPv4/IPv6 targets and payloads 0..1500 checked by an independent "
            "client-side parser. The tunnel client's own use of these functions: the real client_main_inner with a SOCKS listener "
            "(and no tunnel) is sent version 5 greetings with 'no authentication' at every position of lists of 1-5 methods and "
            "without it, followed by requests that need no tunnel (BIND, unknown commands; IPv4, domain, IPv6, unknown address types, a wrong request version; truncated), version 4 and 4a requests with other commands than CONNECT (user ids and domains of several lengths), and unknown version bytes, in two "
            "writes; the bytes it answers until it closes the connection are compared with Socks/Model.v client_dialog; and complete CONNECT requests (version 4, 4a, 5; domain names made of every octet value, valid UTF-8 or not) through a client whose tunnel ends in an in-process Multiplexor that records the host and port of each stream request: reply, host bytes and port compared with client_connect. "
            "Cells = (message kind, outcome class, input-length class); distinct by case hash.")
    assumptions = ["IPv6 (and IPv4) host strings are canonicalised by parsing them back with std::net (text form of "
                   "Ipv6Addr::to_string is not modelled); IPv4 text is additionally compared byte for byte",
                   "the io error context strings are not compared, only the error class"]

    def build(self, tier):
        super().build(tier)
        C.cargo_build(os.path.join(C.VERIF, "harness", "app"), "release")

    def _listener_dialog(self, tier, seed):
        n = 150 if tier == "quick" else 3000
        return C.run_harness([os.path.join(C.TARGET, "app", "release", "vh-app"), "socksd", "--seed", str(seed), "--n", str(n)])

    def runs(self, tier, seed):
        n = 12000 if tier == "quick" else 400000
        return [
            ("client-listener", "release", lambda: self._listener_dialog(tier, seed), None),
            ("release", "release", ["socks", "--seed", str(seed), "--n", str(n), "--mode", "exhaustive"], None),
            ("debug", "dev", ["socks", "--seed", str(int(seed) + 1), "--n", str(n // 4)], None),
        ]

    def cell(self, case, impl):
        t = case.split()
        r = impl.split()
        n = len(t) - 2
        lc = n if n < 12 else (12 if n < 64 else 13)
        sub = ""
        if t[1] == "2" and len(t) > 6:
            sub = "atyp%s" % (t[6] if t[6] in ("1", "3", "4") else "x")
        if t[1] == "4":
            sub = "w" + t[2]
        return "%s/%s/%s/len%d" % (KIND.get(t[1], t[1]), sub, " ".join(r[:2]) if r[:1] == ["1"] else r[0] if r else "", lc)

    def classify(self, case, impl, model):
        t = case.split()
        i, m = impl.split(), model.split()
        k = KIND.get(t[1], t[1])
        if i[:1] == ["2"]:
            return True, k + "-panic", "the implementation panics"
        if t[1] in ("1", "2", "3"):
            if i[:1] == ["0"] and m[:1] != ["0"]:
                return True, k + "-accepts-truncated-or-malformed", "reader succeeds on truncated/malformed input"
            if i[:1] != ["0"] and m[:1] == ["0"]:
                return True, k + "-rejects-wellformed", "reader fails / waits on a well-formed request"
            if i[:1] == ["0"]:
                return True, k + "-wrong-fields-or-consumption", "reader returns other fields or consumes other bytes than the RFC assigns"
            if i[:2] == ["1", "0"] or m[:2] == ["1", "0"]:
                return True, k + "-error-vs-wait", "reader fails where it must wait for input (or vice versa)"
            return False, k + "-error-kind", "reader fails with a different error / reply than modelled"
        if t[1] == "8":
            return True, "client-connect-target", "the target the tunnel server is asked for (or the reply) is not the one of the CONNECT request (implementation %s, expected %s)" % (" ".join(i[:40]), " ".join(m[:40]))
        if t[1] == "7":
            return True, "client-listener-dialog", "the client's SOCKS5 listener answers a greeting / request differently from RFC 1928 (implementation %s, expected %s)" % (" ".join(i[:14]), " ".join(m[:14]))
        if t[1] == "4":
            return True, "reply-bytes", "reply is not byte-exact per the RFC"
        if t[1] == "5":
            if i[:1] == ["1"] and m[:1] == ["1"]:
                return False, "udp-parse-error-kind", "UDP header parser fails with a different error"
            return True, "udp-parse", "UDP relay header parse differs from RFC 1928 section 7"
        return True, "udp-build", "UDP relay datagram does not parse back (as a conforming client parses it) to the same address, port and payload"

    def describe(self, case):
        t = case.split()
        return "%s: %s" % (KIND.get(t[1], t[1]), " ".join(t[2:]))


SPEC = C18()
