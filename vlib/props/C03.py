from ._muxprops import make, COMMON_RULE
from ..mux import FlowSpec
from . import C12

SPEC = make("C03", "Properties.C03", ['C03_no_overrun', 'C03_window_respected', 'C03_credit_equation', 'C03_one_write_one_credit', 'C03_write_refused_no_effect', 'C03_reachable_inv',
                                      'C03_racing_writers_conservation', 'C03_racing_writers_no_overdraw', 'C03_racing_writer_takes_one', 'C03_write_projects', 'C03_acknowledge_projects', 'C03_push_projects', 'C03_pair_flow_invariants'],
            [("pair", "single", 0.5), ("pair", "", 0.35), ("pair", "bridge", 0.15)],
            COMMON_RULE + "For this property additionally: single-flow scripts (one established stream, then only reads / "
            "plain, vectored and empty writes / shutdowns and message-by-message deliveries, 40-120 labels) whose read and "
            "write results are also compared with the one-direction flow model Flow/Core.v on which the multi-step "
            "theorems are proved; bridge scripts (the stream-to-socket bridge coalesces ready chunks into one frame: one credit per frame whatever the size, chunks of up to 70 kB); and two writers sharing one stream (legal: poll_write_push takes &self) racing for credit "
            "with each other, an acknowledge and a close on loom threads (programs Wa|Wb, Wa|Wb|K, Wa|Wb|D, credit 0..2): "
            "the set of final outcomes over every C11 execution must equal the set computed by Atomic/TwoWriters.v, and every "
            "outcome must conserve credit.", "DESIGN.md §5 C03", flow=True)

_base = type(SPEC)


class C03(_base):
    def runs(self, tier, seed):
        return _base.runs(self, tier, seed) + [("loom:two-writers", "release", lambda: C12.two_writer_cases(), None)]

    def cell(self, case, impl):
        if case.startswith("13 "):
            return "two-writers/" + "/".join(case.split()[1:])
        return _base.cell(self, case, impl)

    def trace_violation(self, case, impl):
        if case.startswith("13 "):
            w = C12.two_writer_violation(case, impl)
            return ("racing-writers-credit", w) if w else None
        return _base.trace_violation(self, case, impl)

    def classify(self, case, impl, model):
        if case.startswith("13 "):
            w = C12.two_writer_violation(case, impl)
            if w:
                return True, "racing-writers-credit", w
            return False, "two-writer-outcomes", "loom outcome set of two racing writers differs from the model's"
        return _base.classify(self, case, impl, model)

    def describe(self, case):
        if case.startswith("13 "):
            t = case.split()
            return "two writers on one stream: credit %s, polls %s and %s, acknowledge %s, close %s (loom, all executions)" % tuple(t[1:6])
        return _base.describe(self, case)


C03.__name__ = "C03"
SPEC.__class__ = C03
