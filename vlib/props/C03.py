from ._muxprops import make, COMMON_RULE

SPEC = make("C03", "Properties.C03", ['C03_no_overrun', 'C03_window_respected', 'C03_credit_equation', 'C03_one_write_one_credit', 'C03_write_refused_no_effect', 'C03_reachable_inv'],
            [("pair", "single", 0.6), ("pair", "", 0.4)],
            COMMON_RULE + "For this property additionally: single-flow scripts (one established stream, then only reads / "
            "plain, vectored and empty writes / shutdowns and message-by-message deliveries, 40-120 labels) whose read and "
            "write results are also compared with the one-direction flow model Flow/Core.v on which the multi-step "
            "theorems are proved.", "DESIGN.md §4 C03", flow=True)
