from ._muxprops import make, COMMON_RULE

SPEC = make("C06", "Properties.C06", ['C06_drop_releases', 'C06_reset_releases', 'C06_bystanders_slots', 'C06_bystanders_streams', 'C06_new_stream_clean', 'C06_abort_eof', 'C06_stale_push_kills_new_stream', 'C06_drop_projects', 'C06_reset_projects'],
            [("pair", "collide", 0.4), ("pair", "collide-drop", 0.3), ("pair", "single", 0.2), ("pair", "collide-reuse", 0.2)],
            COMMON_RULE + "For this property additionally: single-flow scripts (one established stream, then only reads / "
            "plain, vectored and empty writes / shutdowns and message-by-message deliveries, 40-120 labels) whose read and "
            "write results are also compared with the one-direction flow model Flow/Core.v on which the multi-step "
            "theorems are proved.", "DESIGN.md §5 C06", flow=True)
