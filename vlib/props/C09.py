from .. import pure

OPS = ["Connect", "Acknowledge", "Reset", "Finish", "Push", "Bind", "Datagram"]


class C09(pure.Spec):
    prop = "C09"
    module = "Properties.C09"
    theorems = ["C09_encode_is_layout", "C09_encode_len", "C09_encode_checked", "C09_decode_encode",
                "C09_decode_never_panics", "C09_decode_iff_valid", "C09_decode_succeeds_iff_valid",
                "C09_append_push"]
    crate = "pure"
    binary = "vh-pure"
    design_ref = "DESIGN.md §5 C09"
    rule = ("cases: (1) frames built through every public constructor over boundary field values and host/payload "
            "lengths {0..9,254..257,random<600}, encoded via Vec/Bytes and decoded via &[u8]/Bytes/Vec<u8>; "
            "(2) byte strings: every first byte x lengths 0..16 x 6 fills, all tails over {00,01,03,ff} up to length 9 "
            "for 24 header bytes, mutations of valid encodings (truncation at every point, version/opcode/length "
            "byte flips, trailing bytes), random; (3) append_push_data; (4) vectored Push with mixed "
            "borrowed/owned chunks.  A case is non-trivial/distinct by (kind, opcode or first byte class, "
            "outcome class, length class) cell + distinct case hash.")
    assumptions = ["release build = production behaviour for invalid input (debug_assert in check_remaining! is by design)",
                   "decoded fields are observed through opcode(), id, Debug payload.len and the re-encoding "
                   "(payload is crate-private), plus Rust-side == against the constructor-built frame"]

    def runs(self, tier, seed):
        n = 20000 if tier == "quick" else 1500000
        nd = 6000 if tier == "quick" else 200000
        return [
            ("release", "release", ["codec", "--seed", str(seed), "--n", str(n), "--mode", "exhaustive"], None),
            ("debug-valid", "dev", ["codec", "--seed", str(int(seed) + 1), "--n", str(nd)], None),
        ]

    def cell(self, case, impl):
        t = case.split()
        kind = t[1]
        r = impl.split()
        outcome = r[0] if kind == "2" else "enc"
        if kind == "2":
            b0 = int(t[2]) if len(t) > 2 else -1
            n = len(t) - 2
            lc = n if n < 12 else (12 if n < 255 else 13)
            op = "-" if b0 < 0 else (str(b0 % 16) if b0 % 16 < 7 else "bad")
            ver = "-" if b0 < 0 else (str(b0 // 16) if b0 // 16 in (0, 7) else "other")
            return "bytes/op%s/v%s/out%s%s/len%d" % (op, ver, outcome, r[1] if outcome == "1" else "", lc)
        n = len(t)
        lc = n if n < 14 else (14 if n < 260 else 15)
        return "k%s/op%s/len%d" % (kind, t[2] if kind in "13" else "push", lc)

    def classify(self, case, impl, model):
        i, m = impl.split(), model.split()
        t = case.split()
        kind = t[1]
        if kind == "2":
            if i[:1] == ["1"] and m[:1] == ["1"]:
                return False, "decode-error-kind", "decoder reports a different error than the first failing check"
            if i[:1] == ["2"] or i[:1] == ["777"]:
                return True, "decode-crash-or-entry-points-differ", "decoding panics or the three entry points disagree"
            op = int(t[2]) % 16 if len(t) > 2 else -1
            return True, "decode-op%d-%s" % (op, "rejects-valid" if m[:1] == ["0"] else "accepts-invalid-or-wrong-fields"), \
                "decode result differs from PROTOCOL.md layout (model: %s, impl: %s)" % (model[:80], impl[:80])
        if kind == "1":
            return True, "frame-%s-roundtrip-or-layout" % OPS[int(t[2])] if int(t[2]) < 7 else "frame", \
                "constructor-built frame: encoding differs from the layout or decode(encode f) != f"
        if kind == "3":
            return True, "append-push", "append_push_data result differs"
        return True, "vectored-push", "vectored Push encoding / equality differs"

    def describe(self, case):
        t = case.split()
        if t[1] == "2":
            return "decode bytes " + " ".join("%02x" % int(x) for x in t[2:])
        if t[1] == "1":
            return "frame %s %s" % (OPS[int(t[2])] if int(t[2]) < 7 else "?", " ".join(t[3:]))
        return "kind %s: %s" % (t[1], " ".join(t[2:]))


SPEC = C09()
