import os
import subprocess
import tempfile
from .. import pure, common as C

KINDS = {0: "healthy", 1: "close-in-handshake", 2: "abrupt-loss", 3: "orderly-close", 4: "http-404", 5: "stall",
         6: "bad-frame", 7: "no-answer-to-connect", 8: "refused", 9: "bad-frame-with-request-in-flight",
         10: "stall-in-tls-handshake", 11: "silent-server-keepalive-timeout", 12: "reset-in-handshake",
         13: "tls-garbage", 14: "wrong-accept-key"}


def _split(res):
    """result of a reconnect scenario -> (delays, rest)"""
    t = [int(x) for x in res.split()]
    if not t or t[0] + 1 > len(t):
        return None, t
    return t[1:1 + t[0]], t[1 + t[0]:]


def _close_enough(di, dm):
    # a timer never fires early; the connection attempt and the scheduler add a little
    return dm - 25 <= di <= dm + 150 + dm // 10


class C19(pure.Spec):
    prop = "C19"
    module = "Properties.C19"
    theorems = ["C19_advance_closed_form", "C19_fail_run_delays", "C19_gives_up_after_max_count",
                "C19_never_gives_up_when_zero", "C19_fatal_ends_at_once", "C19_reset_after_success",
                "C19_no_request_lost", "C19_good_connection_serves_all", "C19_client_never_panics"]
    crate = "app"
    binary = "vh-app"
    design_ref = "DESIGN.md §5 C19"
    rule = ("(1) penguin_mux::timing::Backoff driven directly: every (initial 0..4, max 0..9, mult 0..3, max_count 0..4) ns "
            "tuple x three advance/reset patterns exhaustively, plus random tuples up to Duration::MAX and u32::MAX "
            "(overflow panics included), results compared exactly with Client/Backoff.v. (2) the real client_main_inner "
            "against a scripted fake server on loopback (kinds: close during handshake, abrupt loss, orderly close, 404, "
            "other HTTP statuses, stalled handshake, stalled TLS handshake (such a script runs over wss://), garbage instead of a ServerHello, wrong Sec-WebSocket-Accept, TCP reset during the handshake, silent server (keepalive timeout; such a script runs with keepalive 150/300 ms), undecodable frame, never-answered Connect, refused connection = listener closed, healthy), local connections opened while the "
            "tunnel is down: the delays between the server failing attempt k and accepting attempt k+1 (real time, "
            "tolerance -25/+150 ms +10 %; a gap that is too long is re-run up to 4 times and the per-gap minimum counts), the final result, the "
            "number of attempts and which local connections got their bytes echoed are compared with the retry-loop "
            "model. Cells = (part, script shape, outcome).")
    assumptions = ["end-to-end part runs in real time on loopback: sampled scripts, timing compared with a tolerance",
                   "a refused connection (listener closed while the client makes the attempt) cannot be observed by the fake server: the measured gap spans it and the closed window is placed by the generator"]

    def build(self, tier):
        C.cargo_build(os.path.join(C.VERIF, "harness", "app"), "release")

    def runs(self, tier, seed):
        n1 = 3000 if tier == "quick" else 300000
        n2 = 12 if tier == "quick" else 240
        return [("backoff-exhaustive", "release", ["backoff", "--mode", "exhaustive"], None),
                ("backoff-random", "release", ["backoff", "--seed", str(seed), "--n", str(n1)], None),
                ("reconnect", "release", ["reconnect", "--seed", str(seed), "--n", str(n2)], None)]

    def cell(self, case, impl):
        t = case.split()
        if t[1] == "1":
            r = impl.split()
            kinds = "".join(sorted(set(x for x in (r[0::4] if False else [])))) if False else ""
            return "backoff/mc%s/mult%s/%s" % (min(int(t[9]), 3), min(int(t[8]), 3),
                                               "none" if "0" in _adv_kinds(impl) else "some")
        ks = t[6::3]
        return "reconnect/" + "-".join(ks) + "/" + "/".join(impl.split()[-3:][:1])

    def equal(self, case, impl, model):
        if impl == model:
            return True
        t = case.split()
        if t[1] != "2":
            return False
        # A timer never fires early, so a delay that is too SHORT is wrong at once.  A delay that is too
        # LONG may be the machine's load: the scenario is re-run (up to 4 more times) and for every gap the
        # minimum over the runs is taken; a wrong delay is wrong in every run, lateness is not.
        dm, rm = _split(model)
        best = None
        for attempt in range(5):
            di, ri = _split(impl)
            if di is None or dm is None or ri != rm or len(di) != len(dm):
                return False
            if any(a < b - 25 for a, b in zip(di, dm)):
                return False
            best = di if best is None else [min(x, y) for x, y in zip(best, di)]
            if all(_close_enough(a, b) for a, b in zip(best, dm)):
                return True
            if attempt == 4:
                return False
            with tempfile.NamedTemporaryFile("w", suffix=".cases", delete=False) as f:
                f.write(case + "\n")
            try:
                cases, impls = C.run_harness([self.bin_path("release"), "x", "--replay", f.name])
                impl = impls[0]
            finally:
                os.unlink(f.name)
        return False

    def classify(self, case, impl, model):
        t = case.split()
        if t[1] == "1":
            return True, "backoff-value", "Backoff::advance returns a different delay / None / panic than the closed form"
        di, ri = _split(impl)
        dm, rm = _split(model)
        if ri[:1] == [8]:
            return True, "client-hangs", "the client neither reconnects nor ends after the connection was lost"
        if ri[:2] != rm[:2]:
            return True, "final-result", "the client ends differently (0 Ok, 1 fatal, 2 MaxRetryCountReached, 3 running; attempts): implementation %s, model %s" % (ri[:2], rm[:2])
        if ri[2:] != rm[2:]:
            return True, "request-lost", "a local connection opened while the tunnel was down was not served by the next good connection"
        return True, "retry-delay", "reconnect delays differ: implementation %s ms, model %s ms" % (di, dm)

    def describe(self, case):
        t = [int(x) for x in case.split()]
        if t[1] == 1:
            big = lambda a: a[0] + (a[1] << 32) + (a[2] << 64)
            return "Backoff::new(%d ns, %d ns, %d, %d) ops %s" % (big(t[2:5]), big(t[5:8]), t[8], t[9], t[10:])
        return "max_retry_interval=%dms max_retry_count=%d handshake_timeout=%dms channel_timeout=%dms script=%s" % (
            t[2], t[3], t[4], t[5], [(KINDS.get(k, k), h, o) for k, h, o in zip(t[6::3], t[7::3], t[8::3])])


def _adv_kinds(impl):
    t = impl.split()
    out, i = [], 0
    while i < len(t):
        out.append(t[i])
        i += 4 if t[i] == "1" else 1
    return out


SPEC = C19()
