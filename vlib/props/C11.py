from ._muxprops import make, COMMON_RULE

SPEC = make("C11", "Properties.C11", ['C11_send_dgram_spec', 'C11_recv_dgram_spec', 'C11_get_dgram_fifo'],
            [("pair", "dgram", 0.7), ("pair", "dgram-end-drop", 0.3)],
            COMMON_RULE + "Emphasis for this property: generator mode(s) dgram.", "DESIGN.md §5 C11")
