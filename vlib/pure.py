"""Generic check flow for properties whose correspondence is 'one case line in, one
result line out' (number-list protocol of coq/Extract/Dispatch.v)."""
import collections
import hashlib
import os
import random
import time

from . import common as C


class Spec:
    prop = ""
    module = ""            # Coq module holding the property theorems
    theorems = []          # names of the property theorems (obligations)
    crate = ""             # harness crate directory name under /verif/harness
    binary = ""            # binary name
    design_ref = ""
    rule = ""
    assumptions = []

    def runs(self, tier, seed):
        """[(label, profile, [harness args], env or None)]"""
        raise NotImplementedError

    def build(self, tier):
        """build the harness binaries needed; default: release + dev of the crate"""
        C.cargo_build(os.path.join(C.VERIF, "harness", self.crate), "release", features=self.features())
        C.cargo_build(os.path.join(C.VERIF, "harness", self.crate), "dev", features=self.features())

    def features(self):
        return None

    def bin_path(self, profile):
        sub = "release" if profile == "release" else "debug"
        return os.path.join(C.TARGET, self.crate, sub, self.binary)

    def classify(self, case, impl, model):
        """-> (fails_property: bool, fingerprint: str, text: str) for a disagreeing case"""
        return True, "mismatch", "implementation and model disagree"

    def cell(self, case, impl):
        """class of a case for the distribution / non-triviality count; None = trivial"""
        return case.split()[1] if len(case.split()) > 1 else None

    def describe(self, case):
        return case

    def trace_violation(self, case, impl):
        """black-box property predicate on the implementation's trace: None, or (fingerprint, text)"""
        return None

    def equal(self, case, impl, model):
        """does the implementation's result agree with the model's? (exact by default)"""
        return impl == model

    def derived(self, label, cases, impl):
        """cases for a second model derived from the harness output: (cases, expected)"""
        return [], []


def _fingerprint_known(known, fp):
    for e in known:
        if e.get("status") == "open" and e.get("fingerprint") == fp:
            return e
    return None


def check(spec, tier, seed, replay=None):
    t0 = time.time()
    res = C.Result(spec.prop)
    proof_failure = None
    obligations = discharged = 0
    report = {}
    try:
        bad = C.audit_sources()
        if bad:
            raise C.Failure("forbidden construct in the Coq development: " + "; ".join(bad[:5]))
        obligations, discharged, report = C.check_theorems(spec.prop, spec.module, spec.theorems)
        if discharged != obligations:
            badn = [n for n, v in report.items() if not (v == "closed" or v.startswith("axioms:"))]
            raise C.Failure("property theorem(s) not discharged: " + ", ".join(badn))
        if tier == "thorough":
            report["coqchk"] = "closed" if C.coqchk(spec.prop) else "?"
    except C.Failure as e:
        proof_failure = e

    drv = C.build_driver() if proof_failure is None else None
    if drv is None:
        try:
            drv = C.build_driver()
        except C.Failure:
            drv = None
    spec.build(tier)

    stats = collections.Counter()
    cells = {}
    dist = collections.Counter()
    mismatches = []
    predicate_hits = []
    samples = []
    total = 0
    validated = 0
    sample_cases = []
    runs = spec.runs(tier, seed) if replay is None else [("replay", "release", ["x", "--replay", replay], None)]
    corpus_dir = os.path.join(C.CORPUS, spec.prop)
    if replay is None and os.path.isdir(corpus_dir):
        for f in sorted(os.listdir(corpus_dir)):
            if f.endswith(".cases"):
                runs.insert(0, ("corpus:" + f, "release", ["x", "--replay", os.path.join(corpus_dir, f)], None))
    rnd = random.Random(int(seed))
    for label, profile, args, env in runs:
        if callable(args):
            cases, impl = args()        # a source of (case, implementation result) pairs other than a harness binary
        else:
            cases, impl = C.run_harness([spec.bin_path(profile)] + args, env=env)
        total += len(cases)
        stats["run:" + label] = len(cases)
        if drv is None:
            continue
        model = C.run_driver(drv, cases)
        dcases, dimpl = spec.derived(label, cases, impl)
        if dcases:
            dmodel = C.run_driver(drv, dcases)
            cases, impl, model = cases + dcases, impl + dimpl, model + dmodel
            stats["derived:" + label] = len(dcases)
            total += len(dcases)
        for c, i, m in zip(cases, impl, model):
            cell = spec.cell(c, i)
            if cell is not None:
                dist[cell] += 1
                h = hashlib.md5(c.encode()).digest()[:8]
                cells.setdefault(cell, set()).add(h)
            if spec.equal(c, i, m):
                validated += 1
            else:
                mismatches.append((c, i, m, label))
            pv = spec.trace_violation(c, i)
            if pv is not None:
                predicate_hits.append((c, i, m, label, pv))
        if cases:
            for k in rnd.sample(range(len(cases)), min(3, len(cases))):
                if len(samples) < 8 and len(cases[k]) < 400:
                    samples.append({"run": label, "case": spec.describe(cases[k]), "impl": impl[k][:300], "model": model[k][:300]})
            for k in rnd.sample(range(len(cases)), min(40 if tier == "quick" else 300, len(cases))):
                if len(cases[k]) < 3000:
                    sample_cases.append((cases[k], model[k]))

    crosschecked = 0
    if drv is not None and sample_cases:
        try:
            crosschecked = C.cases_v_crosscheck([c for c, _ in sample_cases], [m for _, m in sample_cases], spec.prop)
        except C.Failure as e:
            proof_failure = proof_failure or e

    known = C.load_known(spec.prop)
    groups = {}
    for c, i, m, label in mismatches:
        fails, fp, text = spec.classify(c, i, m)
        g = groups.setdefault((fails, fp), [])
        g.append((c, i, m, label, text))
    for c, i, m, label, (fp, text) in predicate_hits:
        groups.setdefault((True, fp), []).append((c, i, m, label, text))
    unknown_fail = []
    for (fails, fp), g in sorted(groups.items(), key=lambda kv: (not kv[0][0], kv[0][1])):
        g.sort(key=lambda x: (len(x[0].split()), x[0]))
        c, i, m, label, text = g[0]
        e = _fingerprint_known(known, fp) if fails else None
        if e is not None:
            res.known.append("%s (%d cases, e.g. %s)" % (e.get("what", fp), len(g), spec.describe(c)[:160]))
            continue
        payload = {"property": spec.prop, "kind": "failing-input" if fails else "correspondence-break",
                   "fingerprint": fp, "what": text, "case": c, "case_readable": spec.describe(c),
                   "implementation": i, "model": m, "run": label, "n_cases_in_class": len(g),
                   "replay_cmd": "./check %s --replay <file with the case line>" % spec.prop,
                   "repo_head": C.repo_head()}
        path = C.write_replay(spec.prop, seed, payload)
        # keep the minimised failure as a corpus entry candidate next to the replay
        with open(path.replace(".json", ".cases"), "w") as f:
            f.write(c + "\n")
        if fails:
            unknown_fail.append(path)
            res.violation(path, "%s: %s" % (fp, text))
        else:
            groups.setdefault("_nofail", []).append((path, fp, text))
    nofail = groups.get("_nofail", [])
    if nofail and not unknown_fail:
        path, fp, text = nofail[0]
        res.violation(path, "correspondence %s no longer checks: %s" % (fp, text), no_input=True)
    if proof_failure is not None and not res.violations:
        payload = {"property": spec.prop, "kind": "proof-obligation", "what": proof_failure.what,
                   "detail": proof_failure.detail, "theorems": report, "repo_head": C.repo_head()}
        path = C.write_replay(spec.prop, seed, payload)
        res.violation(path, proof_failure.what, no_input=True)

    distinct = sum(len(v) for v in cells.values())
    cov = {
        "obligations": max(obligations, len(spec.theorems)),
        "discharged": discharged,
        "checker_cmd": "make -C /verif/coq Properties/%s.vo (full .vo) && coqc Print Assumptions on: %s"
                       % (spec.prop, ", ".join(spec.theorems)),
        "trusted_base": C.TRUSTED_BASE,
        "theorems": report,
        "evaluations": total,
        "distinct_nontrivial": distinct,
        "rule": spec.rule,
        "samples": samples,
        "distribution": dict(sorted(dist.items())),
        "runs": {k: v for k, v in stats.items()},
        "traces_validated_against_impl": validated,
        "disagreements_checked": len(mismatches),
        "predicate_hits": len(predicate_hits),
        "vm_compute_crosschecked": crosschecked,
        "known_findings_matched": len(res.known),
        "design_ref": spec.design_ref,
        "repo_head": C.repo_head(),
    }
    C.write_evidence(spec.prop, tier, seed, cov, time.time() - t0, len(res.violations), spec.assumptions)
    rc = res.finish()
    print("%s %s: %d obligations/%d discharged, %d cases, %d validated, %d disagreements, %.1fs"
          % (spec.prop, tier, cov["obligations"], discharged, total, validated, len(mismatches), time.time() - t0))
    return rc
