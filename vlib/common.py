"""Shared machinery of the checks: Coq build + assumption audit, harness builds,
model driver, correspondence runs, evidence, replays, known findings."""
import fcntl
import hashlib
import json
import os
import re
import subprocess
import sys
import time

VERIF = os.path.dirname(os.path.dirname(os.path.abspath(__file__)))
REPO = "/repo"
COQ = os.path.join(VERIF, "coq")
OCAML = os.path.join(VERIF, "ocaml")
BUILD = os.path.join(VERIF, "build")
TARGET = os.path.join(VERIF, "target")
EVID = os.path.join(VERIF, "evidence")
REPLAYS = os.path.join(VERIF, "replays")
CORPUS = os.path.join(VERIF, "corpus")
KNOWN = os.path.join(VERIF, "known_findings.jsonl")

AXIOM_ALLOW = {
    # standard-library axioms only; none is declared by this development
    "functional_extensionality_dep", "FunctionalExtensionality.functional_extensionality_dep",
    "proof_irrelevance", "ProofIrrelevance.proof_irrelevance",
    "classic", "Classical_Prop.classic",
    "JMeq_eq", "JMeq.JMeq_eq", "Eqdep.Eq_rect_eq.eq_rect_eq", "Eq_rect_eq.eq_rect_eq", "eq_rect_eq",
}

FORBIDDEN = re.compile(
    r"\b(Admitted|admit|Axiom|Axioms|Parameter|Parameters|Conjecture|Conjectures|"
    r"Unset\s+Guard\s+Checking|Unset\s+Positivity\s+Checking|Unset\s+Universe\s+Checking|"
    r"bypass_check|Admit\s+Obligations|type-in-type|impredicative-set)\b")

ENV = dict(os.environ, CARGO_NET_OFFLINE="true", PIP_NO_INDEX="1", GOPROXY="off")


class Lock:
    def __init__(self, name):
        os.makedirs(BUILD, exist_ok=True)
        self.path = os.path.join(BUILD, name + ".lock")

    def __enter__(self):
        self.f = open(self.path, "w")
        fcntl.flock(self.f, fcntl.LOCK_EX)

    def __exit__(self, *a):
        fcntl.flock(self.f, fcntl.LOCK_UN)
        self.f.close()


def sh(cmd, cwd=None, timeout=3600, env=None, input=None, check=False):
    p = subprocess.run(cmd, cwd=cwd, env=env or ENV, input=input, capture_output=True, text=True,
                       timeout=timeout, shell=isinstance(cmd, str))
    if check and p.returncode != 0:
        raise RuntimeError("command failed: %s\n%s\n%s" % (cmd, p.stdout[-4000:], p.stderr[-4000:]))
    return p


class Failure(Exception):
    """A proof obligation or build step that no longer checks."""

    def __init__(self, what, detail=""):
        super().__init__(what)
        self.what = what
        self.detail = detail


# ------------------------------------------------------------------ Coq

def strip_comments(src):
    out, depth, i = [], 0, 0
    while i < len(src):
        if src.startswith("(*", i):
            depth += 1
            i += 2
        elif src.startswith("*)", i) and depth:
            depth -= 1
            i += 2
        else:
            if not depth:
                out.append(src[i])
            i += 1
    return "".join(out)


def coq_sources():
    res = []
    for root, _, files in os.walk(COQ):
        for f in files:
            if f.endswith(".v"):
                res.append(os.path.join(root, f))
    return sorted(res)


def audit_sources():
    """No Admitted/admit/Axiom/... anywhere in the development (comments excluded);
    no Variable/Hypothesis outside a section."""
    bad = []
    for p in coq_sources():
        src = strip_comments(open(p).read())
        src = re.sub(r'"[^"]*"', '""', src)
        for m in FORBIDDEN.finditer(src):
            bad.append("%s: %s" % (os.path.relpath(p, COQ), m.group(0)))
        depth = 0
        for line in src.splitlines():
            s = line.strip()
            if re.match(r"Section\s+\w+", s):
                depth += 1
            elif re.match(r"End\s+\w+", s) and depth:
                depth -= 1
            elif depth == 0 and re.match(r"(Variable|Variables|Hypothesis|Hypotheses|Context)\b", s):
                bad.append("%s: section-less %s" % (os.path.relpath(p, COQ), s.split()[0]))
    return bad


def coq_make(targets=None, timeout=1500):
    """Full .vo build (never -vos) of the given targets, under a shell timeout."""
    with Lock("coq"):
        if not os.path.exists(os.path.join(COQ, "Makefile")) or \
                os.path.getmtime(os.path.join(COQ, "Makefile")) < os.path.getmtime(os.path.join(COQ, "_CoqProject")):
            sh("coq_makefile -f _CoqProject -o Makefile", cwd=COQ, check=True)
        cmd = ["timeout", str(timeout), "make", "-j16"] + (targets or [])
        p = sh(cmd, cwd=COQ, timeout=timeout + 30)
        if p.returncode != 0:
            m = re.search(r'File "([^"]+)", line (\d+).*?\n(Error:.*?)(?:\n\n|\Z)', p.stdout + p.stderr, re.S)
            what = "coq build failed"
            if m:
                what = "%s line %s: %s" % (m.group(1), m.group(2), " ".join(m.group(3).split())[:300])
            raise Failure(what, (p.stdout + p.stderr)[-3000:])
        return p.stdout


def build_driver():
    """Extracted model + OCaml driver; rebuilt when the extraction is newer."""
    coq_make(["Extract/Extract.vo"])
    with Lock("ocaml"):
        src = os.path.join(COQ, "model.ml")
        if not os.path.exists(src):
            os.remove(os.path.join(COQ, "Extract", "Extract.vo"))
            coq_make(["Extract/Extract.vo"])
        drv = os.path.join(OCAML, "driver")
        dst = os.path.join(OCAML, "model.ml")
        stale = (not os.path.exists(drv) or not os.path.exists(dst)
                 or open(src).read() != open(dst).read()
                 or os.path.getmtime(drv) < os.path.getmtime(os.path.join(OCAML, "driver.ml")))
        if stale:
            sh(["cp", src, os.path.join(COQ, "model.mli"), OCAML], check=True)
            sh("ocamlfind ocamlopt -O3 -w -a model.mli model.ml driver.ml -o driver", cwd=OCAML, check=True)
        return drv


def check_theorems(prop, module, names):
    """Compile a scratch file that imports the property module and prints the assumptions of
    each property theorem.  Returns (obligations, discharged, per-theorem report)."""
    coq_make(["Properties/%s.vo" % prop])
    os.makedirs(BUILD, exist_ok=True)
    path = os.path.join(BUILD, "Assumptions_%s.v" % prop)
    with open(path, "w") as f:
        f.write("From PV Require Import %s.\n" % module)
        for n in names:
            f.write('Check %s.\nPrint Assumptions %s.\n' % (n, n))
    p = sh(["timeout", "300", "coqc", "-Q", COQ, "PV", "-noglob", path], cwd=BUILD)
    if p.returncode != 0:
        m = re.search(r"Error:(.*)", p.stdout + p.stderr, re.S)
        raise Failure("property theorem missing or not checkable in %s: %s"
                      % (module, " ".join((m.group(1) if m else p.stderr).split())[:300]))
    out = p.stdout
    report = {}
    # split per theorem: the Check output starts with the name
    chunks = re.split(r"\n(?=%s\b)" % "|".join(re.escape(n) for n in names), "\n" + out)
    for n in names:
        body = next((c for c in chunks if c.startswith(n)), None)
        if body is None:
            report[n] = "missing"
            continue
        if "Closed under the global context" in body:
            report[n] = "closed"
        else:
            m = re.search(r"Axioms:\s*(.*)", body, re.S)
            axs = re.findall(r"^([A-Za-z_][\w.']*)\s*:", m.group(1) if m else "", re.M)
            badax = [a for a in axs if a not in AXIOM_ALLOW and a.split(".")[-1] not in AXIOM_ALLOW]
            report[n] = "axioms:" + ",".join(axs) if not badax else "FORBIDDEN-axioms:" + ",".join(badax)
    # the statements are pinned: a property theorem whose statement no longer is the committed one
    # is not the obligation any more (tools/pin_statements.py rewrites the pins, deliberately by hand)
    pins = load_pins()
    for n in names:
        body = next((c for c in chunks if c.startswith(n)), None)
        if body is None or not (report[n] == "closed" or report[n].startswith("axioms:")):
            continue
        stmt = statement_of(body)
        if n not in pins:
            report[n] = "not-pinned"
        elif pins[n] != stmt:
            report[n] = "statement-changed"
    discharged = sum(1 for v in report.values() if v == "closed" or v.startswith("axioms:"))
    return len(names), discharged, report


def coqchk(prop):
    """thorough tier: re-check the compiled property module and everything it depends on with the
    independent checker; returns its context summary (axioms etc.)"""
    p = sh(["timeout", "1500", "coqchk", "-silent", "-o", "-Q", COQ, "PV", "PV.Properties.%s" % prop], cwd=COQ)
    out = p.stdout + p.stderr
    if p.returncode != 0:
        raise Failure("coqchk rejects Properties/%s.vo" % prop, out[-2000:])
    summary = {}
    for key in ("Axioms", "Constants/Inductives relying on type-in-type", "Constants/Inductives relying on unsafe (co)fixpoints",
                "Inductives whose positivity is assumed"):
        m = re.search(r"\* %s:\s*(.*?)\n\s*\n" % re.escape(key), out + "\n\n", re.S)
        summary[key] = " ".join(m.group(1).split()) if m else "?"
    bad = {k: v for k, v in summary.items() if v != "<none>"}
    if bad:
        raise Failure("coqchk reports assumptions for Properties/%s.vo: %s" % (prop, bad))
    return summary


PINS = os.path.join(VERIF, "coq", "pinned_statements.json")


def statement_of(body):
    """the statement printed by [Check name.] (everything before the Print Assumptions answer), whitespace-normalised"""
    head = re.split(r"Closed under the global context|Axioms:", body)[0]
    return " ".join(head.split())


def load_pins():
    if os.path.exists(PINS):
        return json.load(open(PINS))
    return {}


def cases_v_crosscheck(cases, expected, label):
    """Evaluate [run] inside Coq's VM on a sample of cases and compare with the extracted driver."""
    if not cases:
        return 0
    os.makedirs(BUILD, exist_ok=True)
    path = os.path.join(BUILD, "cases_%s.v" % label)
    with open(path, "w") as f:
        f.write("From PV Require Import Extract.Dispatch.\nFrom Coq Require Import NArith List.\n"
                "Import ListNotations.\nOpen Scope N_scope.\nSet Printing Width 1000000.\nSet Printing Depth 1000000.\n")
        for c in cases:
            f.write("Eval vm_compute in (dispatch [%s]).\n" % "; ".join(c.split()))
    p = sh(["timeout", "600", "coqc", "-Q", COQ, "PV", "-noglob", path], cwd=BUILD)
    if p.returncode != 0:
        raise Failure("cases.v evaluation failed", (p.stdout + p.stderr)[-2000:])
    got = re.findall(r"=\s*\[(.*?)\]\s*:\s*list N", p.stdout, re.S)
    if len(got) != len(cases):
        raise Failure("cases.v: %d results for %d cases" % (len(got), len(cases)))
    for c, g, e in zip(cases, got, expected):
        g = " ".join(x.strip().replace("%N", "") for x in g.split(";") if x.strip())
        if g != e.strip():
            raise Failure("extracted driver and vm_compute disagree on case [%s]: %s vs %s" % (c, e, g))
    return len(cases)


# ------------------------------------------------------------------ Rust

def repo_head():
    return sh("git -C /repo rev-parse --short HEAD").stdout.strip()


def cargo_build(crate_dir, profile="release", features=None, rustflags=None, bins=None, timeout=3000):
    """(Re)build a harness crate against /repo's current working tree, offline."""
    with Lock("cargo-" + os.path.basename(crate_dir)):
        lock_src = os.path.join(REPO, "Cargo.lock")
        lock_dst = os.path.join(crate_dir, "Cargo.lock")
        if not os.path.exists(lock_dst):
            sh(["cp", lock_src, lock_dst], check=True)
        cmd = ["cargo", "build", "--offline"]
        if profile == "release":
            cmd.append("--release")
        if features:
            cmd += ["--features", ",".join(features)]
        for b in bins or []:
            cmd += ["--bin", b]
        env = dict(ENV)
        if rustflags:
            env["RUSTFLAGS"] = rustflags
        p = sh(cmd, cwd=crate_dir, env=env, timeout=timeout)
        if p.returncode != 0:
            # a stale lock file (dependency set changed): refresh from /repo and retry once
            sh(["cp", lock_src, lock_dst], check=True)
            p = sh(cmd, cwd=crate_dir, env=env, timeout=timeout)
        if p.returncode != 0:
            raise Failure("harness build failed (%s)" % os.path.basename(crate_dir), p.stderr[-3000:])


# ------------------------------------------------------------------ correspondence

def _big_stack():
    # the extracted model recurses structurally over lists: payloads of tens of kilobytes need more than the default 8 MB
    import resource
    try:
        resource.setrlimit(resource.RLIMIT_STACK, (resource.RLIM_INFINITY, resource.RLIM_INFINITY))
    except (ValueError, OSError):
        hard = resource.getrlimit(resource.RLIMIT_STACK)[1]
        resource.setrlimit(resource.RLIMIT_STACK, (hard, hard))


def run_driver(drv, case_lines):
    p = subprocess.run([drv], input="\n".join(case_lines) + "\n", capture_output=True, text=True, env=ENV, preexec_fn=_big_stack)
    if p.returncode != 0:
        raise Failure("model driver crashed", p.stderr[-2000:])
    out = p.stdout.split("\n")
    if out and out[-1] == "":
        out.pop()
    if len(out) != len(case_lines):
        raise Failure("model driver: %d results for %d cases" % (len(out), len(case_lines)))
    return out


def run_harness(cmd, timeout=3000, env=None):
    p = subprocess.run(cmd, capture_output=True, text=True, env=env or ENV, timeout=timeout)
    if p.returncode != 0:
        raise Failure("harness exited %d: %s" % (p.returncode, " ".join(cmd)), p.stderr[-3000:])
    cases, impl = [], []
    for line in p.stdout.split("\n"):
        if not line:
            continue
        c, _, r = line.partition("|")
        cases.append(c.strip())
        impl.append(r.strip())
    return cases, impl


# ------------------------------------------------------------------ findings, evidence

def load_known(prop):
    res = []
    if os.path.exists(KNOWN):
        for line in open(KNOWN):
            line = line.strip()
            if not line or line.startswith("#"):
                continue
            e = json.loads(line)
            if e.get("property") == prop:
                res.append(e)
    return res


def write_replay(prop, seed, payload):
    os.makedirs(REPLAYS, exist_ok=True)
    h = hashlib.sha1(json.dumps(payload, sort_keys=True).encode()).hexdigest()[:10]
    path = os.path.join(REPLAYS, "%s-%s-%s.json" % (prop, seed, h))
    with open(path, "w") as f:
        json.dump(payload, f, indent=1)
    return path


def write_evidence(prop, tier, seed, coverage, wall, violations, assumptions):
    os.makedirs(EVID, exist_ok=True)
    ev = {"property_id": prop, "tier": tier, "seed": int(seed), "level": "proof",
          "coverage": coverage, "assumptions": assumptions, "wall_s": round(wall, 2),
          "violations": int(violations)}
    with open(os.path.join(EVID, prop + ".json"), "w") as f:
        json.dump(ev, f, indent=1)


TRUSTED_BASE = [
    "Coq 8.16.1 kernel (coqc; vm_compute used for finite sweeps and witnesses; no native_compute)",
    "axioms: none beyond the allowlisted standard-library ones; Print Assumptions parsed on every run",
    "hand-written Gallina model tied to the code by the correspondence run reported in this file",
    "extraction with ExtrOcamlBasic only (Extract Inductive bool/option/unit/list/prod/sumbool/sumor, "
    "Extract Inlined Constant andb/orb), OCaml 4.13.1, ocaml/driver.ml int<->N conversion; "
    "cross-checked against vm_compute on a sample of the same cases",
    "Rust harness, case generators and canonicalisation (sampling, not proof)",
]


class Result:
    def __init__(self, prop):
        self.prop = prop
        self.violations = []   # (replay_path, no_input_found: bool, summary)
        self.known = []        # strings

    def violation(self, replay, summary, no_input=False):
        self.violations.append((replay, no_input, summary))

    def finish(self):
        for k in self.known:
            print("KNOWN-FINDING: property=%s %s" % (self.prop, k))
        for replay, no_input, summary in self.violations:
            print("VIOLATION property=%s replay=%s%s" % (self.prop, replay, " no-failing-input-found" if no_input else ""))
            sys.stderr.write("  %s\n" % summary)
        return 1 if self.violations else 0
