"""Shared parts of the multiplexor checks (C02-C08, C10, C11, C15): trace parsing,
black-box trace predicates used to decide whether a disagreement is a property failure,
and the Spec base class."""
from . import pure

NAMES = {10: 'Open', 11: 'OpenPoll', 12: 'Accept', 13: 'Write', 14: 'WriteV', 15: 'Read', 16: 'Shutdown',
         17: 'DropStream', 18: 'Deliver', 19: 'SendDgram', 20: 'GetDgram', 21: 'BindReq', 22: 'BindPoll',
         23: 'NextBind', 24: 'BindReply', 25: 'BindDrop', 26: 'DropMux', 27: 'Inject', 28: 'End', 29: 'Permits',
         30: 'BridgeStart', 31: 'BridgePoll', 32: 'LocalFeed', 33: 'DropDeliver', 34: 'DeliverAll'}
OPC = ['Connect', 'Acknowledge', 'Reset', 'Finish', 'Push', 'Bind', 'Datagram']


def parse_case(case):
    t = [int(x) for x in case.split()]
    i = 2
    cfgs = []
    for _ in range(2):
        n = t[i + 6]
        cfgs.append(t[i:i + 7 + n])
        i += 7 + n
    labels = []
    while i < len(t):
        n = t[i]
        labels.append(t[i + 1:i + 1 + n])
        i += 1 + n
    return cfgs, labels


def parse_out(out):
    t = [int(x) for x in out.split()]
    i = 0
    outs = []
    while i < len(t):
        secs = []
        for _ in range(5):
            if i >= len(t):
                secs.append(None)
                continue
            n = t[i]
            secs.append(t[i + 1:i + 1 + n])
            i += 1 + n
        outs.append(secs)
    return outs


def parse_msgs(sec):
    """emitted section -> list of ('frame', opcode, id, bytes) / ('ctl', code)"""
    res, i = [], 0
    while sec is not None and i < len(sec):
        k = sec[i]
        if k == 0:
            n = sec[i + 1]
            b = sec[i + 2:i + 2 + n]
            i += 2 + n
            if len(b) >= 5:
                res.append(('frame', b[0] & 15, (b[1] << 24) | (b[2] << 16) | (b[3] << 8) | b[4], b[5:]))
            else:
                res.append(('raw', b))
        else:
            res.append(('ctl', k))
            i += 1
    return res


def first_diff(case, impl, model):
    _, labels = parse_case(case)
    oi, om = parse_out(impl), parse_out(model)
    for k, l in enumerate(labels):
        a = oi[k] if k < len(oi) else None
        b = om[k] if k < len(om) else None
        if a != b:
            sec = "?"
            if a is not None and b is not None:
                # the most telling differing section of this label: what was answered or put on the wire
                # comes before which wakers fired
                diff = [nm for nm, x, y in zip(("result", "wakes", "wireA", "wireB", "done"), a, b) if x != y]
                for nm in ("result", "wireA", "wireB", "done", "wakes"):
                    if nm in diff:
                        sec = nm
                        break
            return k, l, sec, a, b
    return None


def lp(a, i):
    n = a[i]
    return a[i + 1:i + 1 + n], i + 1 + n


class Trace:
    """Replays the implementation's observable trace and evaluates the black-box predicates."""

    def __init__(self, case, out):
        self.cfgs, self.labels = parse_case(case)
        self.outs = parse_out(out)
        self.viol = {}      # property -> description of the first failure
        self.fp = {}        # property -> fingerprint of that failure (default "<prop>-predicate")
        self.run()

    def fail(self, prop, what, fp=None):
        if getattr(self, "_abstain", False):
            return
        if prop not in self.viol:
            self.viol[prop] = what
            if fp:
                self.fp[prop] = fp

    def run(self):
        rwnd = [self.cfgs[0][0], self.cfgs[1][0]]
        fid_of = {}            # (e, sid) -> (fid, inc)
        inc_count = {}         # (e, fid) -> count
        written = {}           # (fid, inc, sender e) -> bytes accepted
        readout = {}           # (fid, inc, reader e) -> bytes returned
        fin_by = {}            # (fid, inc, e) -> bytes written when e shut down
        closed_local = set()   # (e, sid) shut down locally
        got_end = set()        # (e, fid): Finish/Reset for fid delivered to e, or e ended
        ended = [False, False]
        link = [[], []]        # frames in flight per direction
        pushes = {}            # (fid, sender e) -> pushes on wire
        acked = {}             # (fid, sender e) -> credit returned by the peer's Acknowledge frames
        open_calls = [0, 0]    # stream requests made by the application of each endpoint
        accepted = [0, 0]      # streams handed to the accepting application of each endpoint
        connect_at = {}        # (e, fid) -> label at which e last sent Connect fid
        conn_seen = {}         # (e, fid) -> label at which e's task last took a Connect fid of the peer
        stale = [False, False] # endpoint e received a Reset/Acknowledge that belongs to an earlier incarnation of the id
        derived = set()        # (emitter, fid, label): frames emitted in answer to a frame of an earlier incarnation
        open_connect = {}      # (e, open index) -> label of the latest Connect emitted for that request
        open_seq = [0, 0]      # number of Open calls so far per endpoint (= index of the next request)
        acc_q = [[], []]       # per acceptor: (fid, label of the Connect) of accepted Connects not yet handed to the application
        stream_connect = {}    # (e, sid) -> label of the Connect that created this stream's incarnation
        adversarial = False    # the harness has played a misbehaving peer (Inject): the conformance predicates abstain from then on
        throttled = [False, False]  # the endpoint's sink has been throttled (Permits): frames may sit in its queue
        connects = {}          # fid -> number of Connect frames seen for it (either side)
        acc_writes = [0, 0]    # writes accepted from the application of each endpoint (each is one Push frame, sooner or later)
        pushes_out = [0, 0]    # Push frames each endpoint has put on the wire
        healthy = True         # no transport failure, no adversarial message, no bridge so far
        dropped_at = [None, None]  # label at which the application dropped the Multiplexor while everything was healthy
        reused = set()         # ids connected more than once: the per-stream predicates (C02, C03, C05) abstain there,
                               # because pairing the two ends' incarnations from the outside is not reliable; reuse is C06/C07's subject
        for k, l in enumerate(self.labels):
            if k >= len(self.outs) or self.outs[k][0] is None:
                break
            res, wakes, wa, wb, done = self.outs[k]
            op = l[0]
            emitted = [parse_msgs(wa), parse_msgs(wb)]
            if op == 27:
                adversarial = True
                self._abstain = True
            if op in (27, 28, 30, 31, 32):
                healthy = False
            if op == 29 and len(l) > 1 and l[1] in (0, 1):
                throttled[l[1]] = True
            if op == 27 and res == [0]:
                # a message put on the link towards endpoint l[1] by the harness (an adversarial peer)
                if l[2] == 0:
                    b, _ = lp(l, 3)
                    m = (('frame', b[0] & 15, (b[1] << 24) | (b[2] << 16) | (b[3] << 8) | b[4], b[5:]) if len(b) >= 5 else ('raw', b))
                else:
                    m = ('ctl', l[2])
                link[1 - l[1]].append((m, k))
            def delivered(m, sent_at, rx):
                """bookkeeping for one message taken by endpoint rx's task at label k"""
                if m[0] != 'frame':
                    return
                fid = m[2]
                if m[1] == 0 and any(x[0] == 'frame' and x[1] == 1 and x[2] == fid for x in emitted[rx]):
                    acc_q[rx].append((fid, sent_at))
                if m[1] in (2, 3):
                    got_end.add((rx, fid))
                # the frame belongs to an earlier incarnation of its id if the receiver has sent a new Connect
                # for that id since, or if it answers a frame its sender emitted before re-using the id
                old = sent_at < connect_at.get((rx, fid), -1) or (1 - rx, fid, sent_at) in derived
                # ... or if it is an Acknowledge / Reset that its sender emitted before it had seen the receiver's latest
                # Connect for that id (it speaks of the sender's own earlier flow of that id, not of the new request)
                if m[1] == 0:
                    conn_seen[(rx, fid)] = k
                elif m[1] in (1, 2) and (rx, fid) in connect_at:
                    seen = conn_seen.get((1 - rx, fid), -1)
                    if not (seen >= connect_at[(rx, fid)] and sent_at >= seen):
                        old = True
                # ... and whatever rx's task emits for this id while processing a frame that the SENDER emitted
                # before re-using the id is an answer to the earlier incarnation as well
                if m[1] != 0 and sent_at < connect_at.get((1 - rx, fid), -1):
                    derived.add((rx, fid, k))
                if old and m[1] in (1, 2):
                    stale[rx] = True
                if old and m[1] in (1, 2, 3, 4):
                    self.fail('C06', "label %d: a %s frame belonging to an earlier incarnation of flow %d (sent at label %d) is delivered to endpoint %d "
                              "after the id has been re-used: something of the old stream leaks into the stream that reuses its id"
                              % (k, OPC[m[1]], fid, sent_at, rx), "id-reuse-stale-frame")

            if op == 33:
                d = 1 - l[1]
                if res == [0, 0] and link[d]:
                    m, sent_at = link[d].pop(0)
                    delivered(m, sent_at, l[1])
            if op == 34 and res[:1] == [0] and len(res) == 2:
                d = l[1]
                for _ in range(min(res[1], len(link[d]))):
                    m, sent_at = link[d].pop(0)
                    delivered(m, sent_at, 1 - d)
            if op == 18:
                d = l[1]
                if res == [0] and link[d]:
                    m, sent_at = link[d].pop(0)
                    delivered(m, sent_at, 1 - d)
            for e in (0, 1):
                for em in emitted[e]:
                    if em[0] == 'frame':
                        if em[1] == 0:
                            connect_at[(e, em[2])] = k
                            if op == 10 and len(l) > 1 and l[1] == e:
                                open_connect[(e, open_seq[e])] = k
                            elif op == 11 and len(l) > 2 and l[1] == e:
                                open_connect[(e, l[2])] = k
                            connects[em[2]] = connects.get(em[2], 0) + 1
                            if connects[em[2]] > 1:
                                reused.add(em[2])
                            # a new incarnation of this id: restart its accounting
                            for key in [(em[2], 0), (em[2], 1)]:
                                pushes.pop(key, None)
                                acked.pop(key, None)
                        elif em[1] == 4:
                            key = (em[2], e)
                            pushes[key] = pushes.get(key, 0) + 1
                            if em[2] not in reused and pushes[key] - acked.get(key, 0) > rwnd[1 - e]:
                                self.fail('C03', "label %d: endpoint %d has %d unacknowledged Push frames on flow %d, the peer's window is %d"
                                          % (k, e, pushes[key] - acked.get(key, 0), em[2], rwnd[1 - e]))
                        elif em[1] == 1 and op in (15, 31):
                            # Acknowledge frames sent while reading (by the application or by a bridge's poll) return credit for consumed frames
                            key = (em[2], 1 - e)
                            n = (em[3][0] << 24 | em[3][1] << 16 | em[3][2] << 8 | em[3][3]) if len(em[3]) >= 4 else 0
                            acked[key] = acked.get(key, 0) + n
                            if em[2] not in reused and acked[key] > pushes.get(key, 0):
                                self.fail('C03', "label %d: endpoint %d has acknowledged %d frames on flow %d but only %d were sent to it"
                                          % (k, e, acked[key], em[2], pushes.get(key, 0)))
                    link[e].append((em, k))
            for ee in (0, 1):
                pushes_out[ee] += sum(1 for m in emitted[ee] if m[0] == 'frame' and m[1] == 4)
            if op in (13, 14) and res[:1] == [0] and len(l) > 1 and l[1] in (0, 1):
                acc_writes[l[1]] += 1
            if op == 26 and res == [0] and len(l) > 1 and l[1] in (0, 1):
                if healthy and dropped_at == [None, None] and not ended[0] and not ended[1]:
                    dropped_at[l[1]] = k
                else:
                    healthy = False     # a second drop, or a drop after something else went on: no verdict
            for i in range(0, len(done or []), 2):
                if done[i] in (0, 1):
                    ee = done[i]
                    # C08, last clause: the application dropped the Multiplexor while the transport was healthy, the task has
                    # ended: every write it had accepted before must have been put on the wire
                    if healthy and dropped_at[ee] is not None and not ended[ee] and acc_writes[ee] > pushes_out[ee]:
                        code = done[i + 1] if i + 1 < len(done) else -1
                        if code in (101, 102):
                            self.fail('C08', "label %d: the Multiplexor of endpoint %d was dropped (label %d) while the transport was healthy and while its "
                                      "task was handing an incoming stream or datagram over to the application; the hand-over fails, the task ends "
                                      "with that error (code %d) and %d frame(s) queued before the drop are never transmitted"
                                      % (k, ee, dropped_at[ee], code, acc_writes[ee] - pushes_out[ee]), "drop-during-handover-loses-queued-frames")
                        else:
                            self.fail('C08', "label %d: the Multiplexor of endpoint %d was dropped (label %d) while the transport was healthy, its task has "
                                      "ended (code %d), and %d frame(s) queued before the drop were never transmitted"
                                      % (k, ee, dropped_at[ee], code, acc_writes[ee] - pushes_out[ee]))
                    ended[done[i]] = True
            e = l[1] if len(l) > 1 else 0
            if op == 10 and res[:1] in ([0], [1]):
                open_calls[e] += 1
            if op == 12 and res[:1] == [0] and len(res) >= 4:
                accepted[e] += 1
                if accepted[e] > open_calls[1 - e]:
                    if stale[1 - e]:
                        self.fail('C07', "label %d: endpoint %d's application has been handed %d streams although the peer made only %d requests: "
                                  "the requester redrew a flow id whose earlier incarnation still had a Reset/Acknowledge in flight, took it for the "
                                  "answer to its new Connect, retried under a fresh id, and the acceptor accepted both" % (k, e, accepted[e], open_calls[1 - e]),
                                  "id-reuse-stale-answer")
                    else:
                        self.fail('C07', "label %d: endpoint %d's application has been handed %d streams although the peer made only %d requests"
                                  % (k, e, accepted[e], open_calls[1 - e]))
            if op == 10:
                open_seq[e] += 1
            if op in (11, 10, 12) and res[:1] == [0] and len(res) >= 4:
                sid, port = res[1], res[2]
                if op == 12:
                    if acc_q[e]:
                        stream_connect[(e, sid)] = ('acc', acc_q[e].pop(0)[1])
                else:
                    kk = l[2] if op == 11 else open_seq[e] - 1
                    if (e, kk) in open_connect:
                        stream_connect[(e, sid)] = ('req', open_connect[(e, kk)])
                host, j = lp(res, 3)
                fid = res[j] if j < len(res) else None
                if fid is not None:
                    inc = inc_count.get((e, fid), 0)
                    inc_count[(e, fid)] = inc + 1
                    fid_of[(e, sid)] = (fid, inc)
            elif op in (13, 14):
                sid = l[2]
                if op == 13:
                    data, _ = lp(l, 3)
                else:
                    n, j, data = l[3], 4, []
                    for _ in range(n):
                        c, j = lp(l, j)
                        data += c
                if res[:1] == [0]:
                    if (e, sid) in closed_local:
                        self.fail('C05', "label %d: write on endpoint %d stream %d succeeds after a local shutdown" % (k, e, sid))
                    if (e, sid) in fid_of:
                        fid, inc = fid_of[(e, sid)]
                        written.setdefault((fid, inc, e), []).extend(data)
                    np = [m for m in emitted[e] if m[0] == 'frame' and m[1] == 4]
                    if not throttled[e] and (len(np) != 1 or list(np[0][3]) != list(data)):
                        self.fail('C03', "label %d: a successful write put %d Push frames on the wire (expected exactly one carrying its bytes)" % (k, len(np)))
                elif res[:1] in ([1], [2]):
                    if any(m[0] == 'frame' and m[1] == 4 for m in emitted[e]):
                        self.fail('C05', "label %d: a write that did not succeed transmitted a Push frame" % k)
            elif op == 15:
                sid, n = l[2], l[3]
                if res[:1] == [0]:
                    got, _ = lp(res, 1)
                    if (e, sid) in fid_of:
                        fid, inc = fid_of[(e, sid)]
                        ro = readout.setdefault((fid, inc, e), [])
                        ro.extend(got)
                        wr = written.get((fid, inc, 1 - e), [])
                        if fid in reused:
                            pass
                        elif ro != wr[:len(ro)]:
                            self.fail('C02', "label %d: bytes read on endpoint %d stream %d (flow %d) are not a prefix of the bytes written by the peer"
                                      % (k, e, sid, fid))
                        if n > 0 and not got and fid not in reused:
                            # end-of-stream
                            if (e, fid) not in got_end and not ended[e]:
                                self.fail('C05', "label %d: read on endpoint %d stream %d returns end-of-stream although the peer neither finished nor aborted flow %d and the connection has not ended"
                                          % (k, e, sid, fid))
                            fb = fin_by.get((fid, inc, 1 - e))
                            if fb is not None and len(ro) < fb and not ended[e]:
                                self.fail('C05', "label %d: end-of-stream on endpoint %d stream %d before all %d bytes the peer wrote were returned (%d returned)"
                                          % (k, e, sid, fb, len(ro)))
            elif op in (17, 33) and res[:1] == [0] and len(l) > 2:
                sid = l[2]
                if (e, sid) in fid_of and (e, sid) in stream_connect:
                    fid = fid_of[(e, sid)][0]
                    kind, lab = stream_connect[(e, sid)]
                    newer = connect_at.get((e, fid) if kind == 'req' else (1 - e, fid), -1)
                    if newer > lab:
                        # the handle of an earlier incarnation is dropped after its id has been re-used: the task closes
                        # whatever holds that id NOW
                        stale[0] = stale[1] = True
                        derived.add((e, fid, k))
                        self.fail('C06', "label %d: endpoint %d drops the handle of an earlier incarnation of flow %d after the id has been re-used "
                                  "(its Connect went out at label %d, the newer one at label %d): the drop closes the stream that reuses the id"
                                  % (k, e, fid, lab, newer), "id-reuse-stale-frame")
            elif op == 16:
                sid = l[2]
                if res[:1] == [0]:
                    closed_local.add((e, sid))
                    if (e, sid) in fid_of:
                        fid, inc = fid_of[(e, sid)]
                        fin_by.setdefault((fid, inc, e), len(written.get((fid, inc, e), [])))


LABEL_SETS = {
    'C02': {13, 14, 15, 34},
    'C03': {13, 14, 15, 18, 34},
    'C04': {13, 14, 15, 18, 12, 34},
    'C05': {13, 14, 15, 16, 18, 34},
    'C06': {17, 18, 10, 11, 15, 13, 33, 34},
    'C07': {10, 11, 12, 18, 34},
    'C08': {26, 28, 29, 18, 11, 12, 13, 15, 20, 22, 23, 33, 34},
    'C10': {27, 18, 33, 34},
    'C11': {19, 20, 18, 34},
    'C15': {21, 22, 23, 24, 25, 18, 34},
    'C13': {30, 31, 32},
}


class MuxSpec(pure.Spec):
    crate = "mux"
    binary = "vh-mux"
    modes = [("pair", "", 1.0)]
    per_quick = 900
    per_thorough = 40000
    assumptions = ["the in-memory WebSocket of the harness replaces tungstenite; tokio mpsc/oneshot, parking_lot and "
                   "AtomicWaker are exercised for real but single-threaded (thread interleavings are C12's subject)",
                   "schedules are those the harness forces (one poll per label, tasks run to quiescence after each); "
                   "the theorems quantify over all label sequences of the model"]

    def features(self):
        return None

    def build(self, tier):
        import os
        from . import common as C
        C.cargo_build(os.path.join(C.VERIF, "harness", self.crate), "release")

    def runs(self, tier, seed):
        tot = self.per_quick if tier == "quick" else self.per_thorough
        res = []
        for gen, mode, frac in self.modes:
            n = max(20, int(tot * frac))
            res.append(("%s:%s" % (gen, mode or "plain"), "release",
                        [gen, "--seed", str(int(seed) + len(res)), "--n", str(n), "--mode", mode or "plain"], None))
        return res

    def cell(self, case, impl):
        try:
            _, labels = parse_case(case)
            outs = parse_out(impl)
        except Exception:
            return None
        feats = set()
        for l, o in zip(labels, outs):
            if o[0] is None:
                continue
            op = l[0]
            if op in (13, 14) and o[0] == [1]:
                feats.add("blocked-writer")
            if op == 15 and o[0] == [0, 0] and l[3] > 0:
                feats.add("eof")
            if op == 18 and o[0] == [1]:
                feats.add("suspended-or-ended")
            if op == 11 and o[0] == [1] and len(l) > 1 and l[1] in (0, 1) and o[2 + l[1]]:
                feats.add("retry")
            if o[4]:
                feats.add("task-end")
            if op in (19, 20):
                feats.add("dgram")
            if op in (21, 22, 23, 24, 25):
                feats.add("bind")
            if op == 27:
                feats.add("inject")
        if not feats:
            return None
        return "+".join(sorted(feats))

    def trace_violation(self, case, impl):
        """the black-box predicates of this property on the implementation's trace, whether or not the
        model agrees with it"""
        if not case.startswith("30 ") or impl.strip() == "2000004":
            return None
        try:
            tr = Trace(case, impl)
        except Exception:
            return None
        if self.prop in tr.viol:
            return tr.fp.get(self.prop, "%s-predicate" % self.prop), tr.viol[self.prop]
        return None

    def classify(self, case, impl, model):
        if impl.strip() == "2000004":
            try:
                _, labels = parse_case(case)
                last = labels[-1]
                what = "%s %s" % (NAMES.get(last[0], last[0]), last[1:8])
            except Exception:
                what = "?"
            return (self.prop in ("C04", "C08", "C10"), "hang",
                    "the endpoint wedges: no progress for 8 s while executing the last label (%s); "
                    "the connection task neither returns nor yields" % what)
        d = first_diff(case, impl, model)
        try:
            tr = Trace(case, impl)
            if self.prop in tr.viol:
                return True, tr.fp.get(self.prop, "%s-predicate" % self.prop), tr.viol[self.prop]
        except Exception as ex:  # a predicate that cannot be evaluated decides nothing
            pass
        if d is None:
            return False, "trace-length", "traces differ in length only"
        k, l, sec, a, b = d
        name = NAMES.get(l[0], str(l[0]))
        text = ("first difference at label %d (%s %s), section %s: implementation %s, model %s"
                % (k, name, l[1:8], sec, str(a)[:400], str(b)[:400]))
        if sec == "wakes" and a is not None and b is not None and set(b[1]) <= set(a[1]):
            return False, "extra-wake-%s" % name, text
        fails = l[0] in LABEL_SETS.get(self.prop, set())
        return fails, "%s-%s" % (name, sec), text

    def describe(self, case):
        try:
            cfgs, labels = parse_case(case)
        except Exception:
            return case[:200]
        return "cfgA=%s cfgB=%s " % (cfgs[0][:6], cfgs[1][:6]) + "; ".join(
            "%s%s" % (NAMES.get(l[0], l[0]), l[1:6]) for l in labels[:60])


PROLOGUE = [[10, 0, 80, 1, 104], [18, 0], [18, 1], [11, 0, 0], [12, 1]]


def derive_flow(case, impl):
    """single-flow pair case -> (flow-model case, expected result sections) or None"""
    try:
        cfgs, labels = parse_case(case)
        outs = parse_out(impl)
    except Exception:
        return None
    if labels[:5] != PROLOGUE or len(outs) < len(labels):
        return None
    fc = [31, cfgs[0][0], cfgs[0][1], cfgs[1][0], cfgs[1][1]]
    exp = []
    for l, o in zip(labels[5:], outs[5:]):
        if l[0] == 14:
            data, j = [], 4
            for _ in range(l[3]):
                c, j = lp(l, j)
                data += c
            l = [13, l[1], l[2], len(data)] + data
        elif l[0] not in (13, 15, 16, 18):
            return None
        fc += [len(l)] + l
        res = o[0]
        if l[0] == 15 and res[:1] == [0]:
            pass
        exp += [len(res)] + res
    return " ".join(map(str, fc)), " ".join(map(str, exp))


class FlowSpec(MuxSpec):
    """mux property whose multi-step theorems live on the one-direction flow model: the pair
    correspondence plus the flow model checked against the same real runs"""

    def derived(self, label, cases, impl):
        if "single" not in label:
            return [], []
        dc, di = [], []
        for c, i in zip(cases, impl):
            r = derive_flow(c, i)
            if r is not None:
                dc.append(r[0])
                di.append(r[1])
        return dc, di

    def cell(self, case, impl):
        if case.startswith("31 "):
            t = impl.split()
            feats = set()
            if " 1 1 " in " " + impl + " ":
                feats.add("pending")
            if " 2 0 0 " in " " + impl + " ":
                feats.add("eof")
            if " 2 2 1 " in " " + impl + " ":
                feats.add("brokenpipe")
            return "flow/" + "+".join(sorted(feats)) if feats else None
        return MuxSpec.cell(self, case, impl)

    def classify(self, case, impl, model):
        if case.startswith("31 "):
            a, b = impl.split(), model.split()
            k = next((i for i, (x, y) in enumerate(zip(a, b)) if x != y), min(len(a), len(b)))
            return True, "flow-model-result", ("the one-direction flow model (on which the theorems are proved) predicts a different "
                                              "read/write result than the real pair at output position %d" % k)
        return MuxSpec.classify(self, case, impl, model)

    def describe(self, case):
        if case.startswith("31 "):
            return "flow model case " + case[:300]
        return MuxSpec.describe(self, case)
