#!/usr/bin/env python3
"""tools/run_seeded.py [ids...] — apply every kept seeded change to /repo's working tree, run its property's quick
check, revert, and report whether the check raised a VIOLATION (it must).  /repo must be clean before."""
import json, os, subprocess, sys
V = os.path.dirname(os.path.dirname(os.path.abspath(__file__)))
want = [a for a in sys.argv[1:] if not a.startswith("--")]
harvest = "--harvest" in sys.argv   # copy the minimised failing cases of every caught change into corpus/<prop>/
st = subprocess.run(["git", "-C", "/repo", "status", "--short"], capture_output=True, text=True).stdout.strip()
assert not st, "/repo is not clean: " + st
rows = []
for d in sorted(os.listdir(os.path.join(V, "seeded"))):
    prop = d.split("-")[0]
    if want and prop not in want and d not in want:
        continue
    patch = os.path.join(V, "seeded", d, "patch.diff")
    if subprocess.run(["git", "-C", "/repo", "apply", patch]).returncode != 0:
        rows.append((d, "PATCH-DOES-NOT-APPLY", ""))
        continue
    import time
    t_start = time.time() - 1
    try:
        p = subprocess.run([os.path.join(V, "check"), prop, "--tier", "quick"], capture_output=True, text=True, cwd=V)
    finally:
        subprocess.run(["git", "-C", "/repo", "checkout", "--", "."])
    viol = [l for l in p.stdout.splitlines() if l.startswith("VIOLATION")]
    nf = sum(1 for l in viol if l.endswith("no-failing-input-found"))
    if harvest and viol:
        new = [f for f in sorted(os.listdir(os.path.join(V, "replays")))
               if f.endswith(".cases") and f.startswith(prop + "-") and os.path.getmtime(os.path.join(V, "replays", f)) >= t_start]
        new.sort(key=lambda f: os.path.getsize(os.path.join(V, "replays", f)))
        os.makedirs(os.path.join(V, "corpus", prop), exist_ok=True)
        for i, f in enumerate(new[:2]):
            data = open(os.path.join(V, "replays", f)).read()
            # cases of the flow model (31 ...) and of the two-writer model (13 ...) cannot be replayed through the harness
            if len(data) < 600000 and not data.startswith(("12 ", "13 ", "31 ", "18 7 ", "18 8 ")):
                open(os.path.join(V, "corpus", prop, "seed_%s_%d.cases" % (d.split("-", 1)[1], i)), "w").write(data)
    rows.append((d, "caught" if viol else "MISSED", "%d violation lines, %d without failing input, exit %d" % (len(viol), nf, p.returncode)))
    print(rows[-1], flush=True)
def _known_limit(d):
    try:
        return bool(json.load(open(os.path.join(V, "seeded", d, "meta.json"))).get("not_caught_known_limit"))
    except Exception:
        return False
for r in rows:
    if r[1] == "MISSED" and _known_limit(r[0]):
        print("(known limit of the machinery, see DESIGN.md section 7: %s)" % r[0])
missed = [r for r in rows if r[1] != "caught" and not _known_limit(r[0])]
print("seeded changes: %d, caught: %d, not caught: %s" % (len(rows), len(rows) - len(missed), [r[0] for r in missed]))
sys.exit(1 if missed else 0)
