#!/usr/bin/env python3
"""Show the first label at which implementation and model traces differ (pair world)."""
import sys
sys.path.insert(0, '/verif')
from vlib import common as C

NAMES = {10: 'Open', 11: 'OpenPoll', 12: 'Accept', 13: 'Write', 14: 'WriteV', 15: 'Read', 16: 'Shutdown', 17: 'DropStream',
         18: 'Deliver', 19: 'SendDgram', 20: 'GetDgram', 21: 'BindReq', 22: 'BindPoll', 23: 'NextBind', 24: 'BindReply',
         25: 'BindDrop', 26: 'DropMux', 27: 'Inject', 28: 'End', 30: 'BridgeStart', 31: 'BridgePoll', 32: 'LocalFeed'}


def parse_case(t):
    t = [int(x) for x in t]
    i = 2
    cfgs = []
    for _ in range(2):
        n = t[i + 6]
        cfgs.append(t[i:i + 7 + n])
        i += 7 + n
    labels = []
    while i < len(t):
        n = t[i]
        labels.append(t[i + 1:i + 1 + n])
        i += 1 + n
    return cfgs, labels


def parse_out(t):
    t = [int(x) for x in t]
    i = 0
    outs = []
    while i < len(t):
        secs = []
        for _ in range(5):
            if i >= len(t):
                secs.append(None)
                continue
            n = t[i]
            secs.append(t[i + 1:i + 1 + n])
            i += 1 + n
        outs.append(secs)
    return outs


def show(case, impl, model, ctx=6):
    cfgs, labels = parse_case(case.split())
    oi, om = parse_out(impl.split()), parse_out(model.split())
    print("cfgA", cfgs[0], "cfgB", cfgs[1])
    for k, l in enumerate(labels):
        a = oi[k] if k < len(oi) else None
        b = om[k] if k < len(om) else None
        if a != b:
            for j in range(max(0, k - ctx), k):
                print("  %3d %-10s %s -> %s" % (j, NAMES.get(labels[j][0], '?'), labels[j][1:], oi[j]))
            print("! %3d %-10s %s" % (k, NAMES.get(l[0], '?'), l[1:]))
            print("      impl : res=%s wakes=%s A=%s B=%s done=%s" % tuple(a or [None] * 5))
            print("      model: res=%s wakes=%s A=%s B=%s done=%s" % tuple(b or [None] * 5))
            return
    print("no per-label difference (lengths %d %d %d)" % (len(labels), len(oi), len(om)))


if __name__ == '__main__':
    lines = open(sys.argv[1]).read().split('\n')[:-1]
    cases = [l.split('|')[0] for l in lines]
    impl = [l.split('|')[1] for l in lines]
    model = C.run_driver(C.build_driver(), cases)
    bad = [(c, i, m) for c, i, m in zip(cases, impl, model) if i.strip() != m.strip()]
    print(len(bad), "of", len(cases), "differ")
    bad.sort(key=lambda x: len(x[0]))
    for c, i, m in bad[:int(sys.argv[2]) if len(sys.argv) > 2 else 3]:
        show(c, i, m)
        print()
