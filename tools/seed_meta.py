#!/usr/bin/env python3
"""tools/seed_meta.py <dir> <property> <needs> <caught_by> <result> — write meta.json for a kept seeded change"""
import json, sys, os
d, prop, needs, caught, result = sys.argv[1:6]
meta = {"property": prop, "needs_to_manifest": needs,
        "ran": ["git -C /repo apply /verif/%s/patch.diff" % d, "./check %s --tier quick" % prop, "git -C /repo checkout -- ."],
        "confirmed": "sub-agent verified in its scratch worktree: existing tests of the affected crate pass with the change; demo fails with it and passes without (see README.md)",
        "caught_by": caught, "check_result": result}
json.dump(meta, open(os.path.join("/verif", d, "meta.json"), "w"), indent=1)
