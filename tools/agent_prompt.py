import json,sys
pid=sys.argv[1]
props={json.loads(l)['id']:json.loads(l) for l in open('/verif/properties.jsonl')}
p=props[pid]
anch="; ".join("%s (%s)"%(m['name'],m['where']) for m in p['anchors']['mechanism'])
print(f"""You are helping test a verification framework by writing a realistic *bug injection* for a Rust project. Work ONLY inside the git worktree /tmp/wt_{pid} (a checkout of the repository myzhang1029/penguin-rs: a TCP/UDP tunnel over WebSocket with its own multiplexing protocol penguin-v7; crates: penguin-mux, cow-bytes, penguin-socks, penguin). Do NOT read or touch /verif or /repo. No network is available: always pass `--offline` to cargo and set `CARGO_TARGET_DIR=/tmp/wt_{pid}/target`. Build/test only the crates you need (`cargo test -p penguin-mux --offline`); a full workspace build is slow (the `penguin` crate takes many minutes; avoid it unless the property is about it).

Here is a semantic property of the code base that currently HOLDS:

---
Property {pid}: {p['title']}

Statement: {p['statement']}

Quantifier: {p['quantifier']['text']}

Anchors: files {', '.join(p['anchors']['files'])}; mechanisms: {anch}
---

Your task: produce ONE small source change (a patch to non-test source code under /tmp/wt_{pid}, typically 1-10 lines) that BREAKS this property while (a) the project still compiles, and (b) the existing test suite of the affected crate(s) still passes unchanged (e.g. `cargo test -p penguin-mux --offline`; do not edit or delete existing tests; run it twice to make sure it is not flaky). The change should look like a plausible programming mistake or careless refactoring, and it should need something *specific* to manifest — a particular interleaving, a multi-step sequence of operations, an unusual input or configuration, a fault at a particular point, or two cooperating sites that each look fine alone — not something any ordinary use would expose at once.

Deliverables, all written under /tmp/wt_{pid}/seed/:
1. `patch.diff` — output of `git diff` for your source change (source files only, not the demo).
2. A demonstration: a small Rust test (an integration test under the crate's tests/ directory, or a #[cfg(test)] test added in a NEW file, your choice — include exact instructions) that FAILS (or hangs past a timeout you enforce) with your change applied and PASSES on the unmodified tree. Verify both directions yourself (flip the source change with `git apply -R seed/patch.diff` and `git apply seed/patch.diff`; do NOT use `git stash`: the stash is shared between worktrees). Copy the demo file into /tmp/wt_{pid}/seed/ as well.
3. `README.md` — which clause of the property breaks, what specific condition is needed to manifest it, the exact commands you ran and their outcomes (existing tests pass with the change; demo fails with the change and passes without).

Leave the worktree with your source change APPLIED (uncommitted) and the demo files present. Report back a short summary (what you changed, the triggering condition, file paths). Keep it concise.""")
