#!/usr/bin/env python3
"""Regenerate the record setters of `ep` in coq/Mux/Sys.v from its field list."""
import re, sys
p = '/verif/coq/Mux/Sys.v'
s = open(p).read()
m = re.search(r"Record ep := mkEp \{(.*?)\}\.", s, re.S)
body = re.sub(r"\(\*.*?\*\)", "", m.group(1), flags=re.S)
fields = []
for decl in body.split(";"):
    decl = decl.strip()
    if not decl:
        continue
    names = decl.split(":")[0].split()
    fields += names
# setters wanted: name -> list of fields it sets
wanted = [("set_streams", ["e_streams"]), ("set_handles", ["e_handles"]), ("set_slots", ["e_slots"]),
          ("set_opens", ["e_opens"]), ("set_binds", ["e_binds"]), ("set_bindreqs", ["e_bindreqs"]),
          ("set_accept_q", ["e_accept_q"]), ("set_dgram_q", ["e_dgram_q"]), ("set_bind_q", ["e_bind_q"]),
          ("set_blocked", ["e_blocked"]), ("set_parks", ["e_accept_park", "e_dgram_park", "e_nextbind_park"]),
          ("set_mux_alive", ["e_mux_alive"]), ("set_phase", ["e_phase"]), ("set_tx_closed", ["e_tx_closed"]),
          ("set_rng", ["e_rng", "e_fallback"]), ("set_txq", ["e_txq"]), ("set_permits", ["e_permits"])]
out = []
for name, fs in wanted:
    if not all(f in fields for f in fs):
        continue
    args = " ".join("v%d" % i for i in range(len(fs)))
    vals = []
    for f in fields:
        vals.append("v%d" % fs.index(f) if f in fs else "(%s e)" % f)
    out.append("Definition %s e %s := mkEp %s." % (name, args, " ".join(vals)))
start = s.index("Definition set_streams e")
end_ = s.index("Definition nth_opt")
s = s[:start] + "\n".join(out) + "\n\n" + s[end_:]
open(p, 'w').write(s)
print(len(fields), "fields;", len(out), "setters")
