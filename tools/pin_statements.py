#!/usr/bin/env python3
"""tools/pin_statements.py — (re)write coq/pinned_statements.json from the statements of the property
theorems as they are now.  Run by hand after a deliberate change of a property theorem; the checks compare
every run's `Check name.` output with these pins, so a silently weakened theorem is reported."""
import importlib, json, os, re, sys
sys.path.insert(0, os.path.dirname(os.path.dirname(os.path.abspath(__file__))))
from vlib import common as C

pins = {}
for f in sorted(os.listdir(os.path.join(C.VERIF, "vlib", "props"))):
    m = re.match(r"(C\d\d)\.py$", f)
    if not m:
        continue
    prop = m.group(1)
    mod = importlib.import_module("vlib.props." + prop)
    spec = getattr(mod, "SPEC", None)
    names = spec.theorems if spec is not None else getattr(mod, "THEOREMS")
    module = spec.module if spec is not None else "Properties." + prop
    C.coq_make(["Properties/%s.vo" % prop])
    os.makedirs(C.BUILD, exist_ok=True)
    path = os.path.join(C.BUILD, "Pin_%s.v" % prop)
    with open(path, "w") as fh:
        fh.write("From PV Require Import %s.\n" % module)
        for n in names:
            fh.write("Check %s.\nPrint Assumptions %s.\n" % (n, n))
    p = C.sh(["timeout", "300", "coqc", "-Q", C.COQ, "PV", "-noglob", path], cwd=C.BUILD)
    assert p.returncode == 0, p.stderr
    chunks = re.split(r"\n(?=%s\b)" % "|".join(re.escape(n) for n in names), "\n" + p.stdout)
    for n in names:
        body = next(c for c in chunks if c.startswith(n))
        pins[n] = C.statement_of(body)
json.dump(pins, open(C.PINS, "w"), indent=1, sort_keys=True)
print("pinned", len(pins), "statements")
