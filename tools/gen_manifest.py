#!/usr/bin/env python3
"""Regenerate MANIFEST.json from the table below (one place to edit)."""
import json, os, subprocess
V = os.path.dirname(os.path.dirname(os.path.abspath(__file__)))
props = [json.loads(l) for l in open(os.path.join(V, "properties.jsonl"))]

CLAIMED = {
 "C09": dict(
   text="Coq theorems over all frames and all byte strings (encode = PROTOCOL.md layout, decode∘encode = id, decoder total, decode succeeds iff valid and yields the layout's fields, append) about a hand-written Gallina transcription of frame.rs; tied to the code by a differential run of the real codec against the extracted model (exhaustive short strings + boundary/random cases, release and debug builds).",
   note="Trusts: Coq kernel; the hand model's correspondence is sampled (reported in evidence); extraction (ExtrOcamlBasic) + OCaml driver, cross-checked with vm_compute; PROTOCOL.md transcription in Frame/Spec.v.",
   technique="Coq proof (round-trip, totality, iff-valid) + model/implementation correspondence check", engine="pure-harness"),
 "C20": dict(
   text="Coq theorems for every operation and every operation sequence (panicking calls included): invariant (reported length = contents, no empty chunk), refinement of each operation to the plain byte vector, exact characterisation of which calls panic and that they leave the value unchanged, Buf contract, variant indistinguishability of the single-value mutators; about a Gallina transcription of pbuf.rs/lib.rs; tied to the code by differential runs (bounded-exhaustive + random op sequences, release and debug).",
   note="Trusts: Coq kernel; sampled correspondence (evidence); extraction + driver; chunk variants are not part of the model (the harness mixes them so a dependence shows as a disagreement).",
   technique="Coq proof (invariant by induction over operations + refinement to list) + correspondence check", engine="pure-harness"),
 "C18": dict(
   text="Coq theorems for all well-formed SOCKS5, SOCKS4 and SOCKS4a requests (every address type, field length and value): the readers return exactly the RFC's fields and consume exactly the request's bytes; every strict prefix makes them wait/EOF, never succeed; unknown version / address type are refused; replies and the UDP relay header are byte-exact, a conforming client parses the relay datagram back, the relay's parser is total. About a Gallina transcription of v4.rs/v5.rs; tied to the code by differential runs over an in-memory duplex (closed and open input, 3-byte reads).",
   note="Trusts: Coq kernel; sampled correspondence; extraction + driver; RFC 1928 / SOCKS4a field tables transcribed in Socks/Spec.v; std::net text parsing used to canonicalise IPv6 host strings.",
   technique="Coq proof (parser exactness, prefix starvation, byte-exact writers, round trip) + correspondence check", engine="pure-harness"),
}
ENGINES = [
 {"name": "coq", "path": "coq/", "kind_free_text": "Coq 8.16 development: executable Gallina models, specifications, proofs, property theorem files, extraction (ExtrOcamlBasic) to ocaml/driver"},
 {"name": "pure-harness", "path": "harness/pure", "kind_free_text": "Rust harness driving the public APIs of penguin_mux::frame, cow-bytes, penguin-socks; output compared line by line with the extracted model"},
]
HOOK_COMMITS = []
import sys
sys.path.insert(0, os.path.dirname(os.path.abspath(__file__)))
try:
    from manifest_extra import CLAIMED as C2, ENGINES as E2, HOOK_COMMITS as H2, NOT_APPLICABLE as NA
    CLAIMED.update(C2); ENGINES += E2; HOOK_COMMITS += H2
except ImportError:
    NA = {}

m = {"version": 1, "setup_cmd": "./setup.sh",
     "hooks": {"guard": "penguin_rs_verif",
               "enable": "RUSTFLAGS=\"--cfg loom --cfg penguin_rs_verif\" for the penguin-mux test target (C12); every other check uses the public API only",
               "baseline_off_cmd": "cd /repo && cargo test --workspace --no-fail-fast --offline",
               "source_commits": HOOK_COMMITS, "add_only": True},
     "engines": [], "checks": [],
     "notes": "See DESIGN.md. Repairs of genuine defects made in /repo are listed in known_findings.jsonl (status fixed).",
     "not_applicable": []}
for e in ENGINES:
    e = dict(e)
    e["serves_properties"] = sorted(k for k, v in CLAIMED.items() if v.get("engine") == e["name"] or e["name"] == "coq")
    m["engines"].append(e)
for p in props:
    i = p["id"]
    if i in CLAIMED:
        c = CLAIMED[i]
        m["checks"].append({"property_id": i, "quick_cmd": "./check %s --tier quick" % i,
                            "thorough_cmd": "./check %s --tier thorough" % i,
                            "evidence_file": "evidence/%s.json" % i,
                            "replay_cmd_template": "./check %s --replay {path}" % i,
                            "engine": c.get("engine", "coq"),
                            "level_claimed": {"category": "proof", "text": c["text"], "design_ref": "DESIGN.md §5 " + i},
                            "level_note": c["note"], "technique": c["technique"]})
    else:
        m["not_applicable"].append({"property_id": i, "reason": NA.get(i, "check not built yet at this commit (work in progress; DESIGN.md §9 build order)")})
json.dump(m, open(os.path.join(V, "MANIFEST.json"), "w"), indent=1, ensure_ascii=False)
print("claimed:", sorted(CLAIMED))
