(* Tie of the one-direction flow model to the real pair: a single-flow script of the pair
   world (prologue: Open at A, deliver Connect, deliver Acknowledge, OpenPoll, Accept; then
   only Write / WriteV / Read / Shutdown / DropStream on that stream and deliveries) is
   translated into the labels of the two directions; the results of the stream calls are
   printed in the format of the pair harness (result section only). *)
From PV Require Import Common.Wire Flow.Core Frame.Model.

(* messages in flight on one link, tagged with what they mean for the two directions:
   d = 0: A -> B data direction, d = 1: B -> A data direction *)
Inductive lmsg :=
| LData (d : N)       (* Push / Finish / Reset of direction d's sender: DelSR of direction d *)
| LAck (d : N)        (* Acknowledge for direction d's data: DelRS of direction d *)
| LRstBoth            (* a Reset: ends both directions (DelSR of the sender's, abort of the other) *)
| LOther.

Record fsys := mkF {
  f0 : st;  (* data A -> B *)
  f1 : st;  (* data B -> A *)
  la : list lmsg;  (* link A -> B *)
  lb : list lmsg;
  a_alive : bool; b_alive : bool   (* handles *)
}.

Definition out_res (o : out) : list N :=
  match o with
  | ONone => [0]
  | OPending => [1]
  | OWritten n => [0; n]
  | OBroken => [2; 1]
  | OData d => 0 :: len d :: d
  | OEof => [0; 0]
  end.

(* how many Acknowledge frames the read added *)
Definition new_acks (s s' : st) : nat := length (wrs s') - length (wrs s).

(* the labels of a single-flow script *)
Inductive flab :=
| FWrite (e : N) (d : list N)
| FRead (e n : N)
| FShut (e : N)
| FDel (d : N).

Definition parse_flab (l : list N) : option flab :=
  match l with
  | 13 :: e :: _sid :: r => match parse_lp r with Some (d, []) => Some (FWrite e d) | _ => None end
  | [15; e; _sid; n] => Some (FRead e n)
  | [16; e; _sid] => Some (FShut e)
  | [18; d] => Some (FDel d)
  | _ => None
  end.

Definition fstep_l (s : fsys) (l : flab) : fsys * list N :=
  match l with
  | FWrite e d =>
      if e =? 0 then
        if a_alive s then
          let '(s', o) := step (f0 s) (Write d) in
          (mkF s' (f1 s) (la s ++ match o with OWritten _ => [LData 0] | _ => [] end) (lb s) (a_alive s) (b_alive s), out_res o)
        else (s, [3])
      else
        if b_alive s then
          let '(s', o) := step (f1 s) (Write d) in
          (mkF (f0 s) s' (la s) (lb s ++ match o with OWritten _ => [LData 1] | _ => [] end) (a_alive s) (b_alive s), out_res o)
        else (s, [3])
  | FRead e n =>
      if e =? 0 then
        if a_alive s then
          let '(s', o) := step (f1 s) (Read n) in
          (mkF (f0 s) s' (la s ++ repeat (LAck 1) (new_acks (f1 s) s')) (lb s) (a_alive s) (b_alive s), out_res o)
        else (s, [3])
      else
        if b_alive s then
          let '(s', o) := step (f0 s) (Read n) in
          (mkF s' (f1 s) (la s) (lb s ++ repeat (LAck 0) (new_acks (f0 s) s')) (a_alive s) (b_alive s), out_res o)
        else (s, [3])
  | FShut e =>
      if e =? 0 then
        if a_alive s then
          let was := fin (f0 s) in
          let '(s', _) := step (f0 s) Shutdown in
          (mkF s' (f1 s) (la s ++ (if was then [] else [LData 0])) (lb s) (a_alive s) (b_alive s), [0])
        else (s, [3])
      else
        if b_alive s then
          let was := fin (f1 s) in
          let '(s', _) := step (f1 s) Shutdown in
          (mkF (f0 s) s' (la s) (lb s ++ (if was then [] else [LData 1])) (a_alive s) (b_alive s), [0])
        else (s, [3])
  | FDel d =>
      match (if d =? 0 then la s else lb s) with
      | [] => (s, [3])
      | m :: rest =>
          let s := if d =? 0 then mkF (f0 s) (f1 s) rest (lb s) (a_alive s) (b_alive s)
                   else mkF (f0 s) (f1 s) (la s) rest (a_alive s) (b_alive s) in
          match m with
          | LData k => (if k =? 0 then mkF (fst (step (f0 s) DelSR)) (f1 s) (la s) (lb s) (a_alive s) (b_alive s)
                        else mkF (f0 s) (fst (step (f1 s) DelSR)) (la s) (lb s) (a_alive s) (b_alive s), [0])
          | LAck k => (if k =? 0 then mkF (fst (step (f0 s) DelRS)) (f1 s) (la s) (lb s) (a_alive s) (b_alive s)
                       else mkF (f0 s) (fst (step (f1 s) DelRS)) (la s) (lb s) (a_alive s) (b_alive s), [0])
          | _ => (s, [0])
          end
      end
  end.

Definition fstep (s : fsys) (l : list N) : fsys * list N :=
  match parse_flab l with
  | Some x => fstep_l s x
  | None => (s, MALFORMED)
  end.

Fixpoint fsteps (fuel : nat) (s : fsys) (l : list N) : list N :=
  match fuel with
  | O => []
  | S f =>
      match l with
      | [] => []
      | _ =>
          match parse_lp l with
          | Some (lab, r) => let '(s', o) := fstep s lab in put_lp o ++ fsteps f s' r
          | None => MALFORMED
          end
      end
  end.

(* case: wA tA wB tB labels.. (the labels after the fixed prologue) *)
Definition run_flow (c : list N) : list N :=
  match c with
  | wa :: ta :: wb :: tb :: r =>
      (* direction 0: receiver is B (window wB, threshold tB); direction 1: receiver is A *)
      fsteps (length r) (mkF (init wb tb) (init wa ta) [] [] true true) r
  | _ => MALFORMED
  end.
