(* One direction of a logical stream (Flow/Core.v) IS a two-hop instance of the relay pipeline of
   Tunnel/Pipe.v: hop 0 = the Push payloads in flight on the wire, hop 1 = what the receiving
   endpoint holds (reader's buffer, then the channel queue).  Every step of the flow model that
   is not an abort maps to zero or one pipeline event, so the pipeline theorems of C01 apply to
   the stream hops exactly as they apply to the bridge hops (Tunnel/BridgeRelay.v). *)
From PV Require Import Flow.Core Flow.Proofs Tunnel.Pipe.
From Coq Require Import ZifyBool ZifyN ZifyNat.

Definition pipe_of (s : st) (eof : bool) : pipe :=
  mkP (written s) (fin s) [(pdata (wsr s), fin s); (buf s ++ concat (rxq s), negb (txopen s))] (readout s) eof.

(* the pipeline events a flow step amounts to *)
Definition evs (s : st) (l : label) (o : out) : list pev :=
  match l, o with
  | Write d, OWritten _ => [PWrite d]
  | Shutdown, _ => if fin s then [] else [PShut]
  | DelSR, _ => match wsr s with
                | FPush d :: _ => [PMove 0 (length d)]
                | FFin :: _ => [PMoveEof 0]
                | _ => []
                end
  | Read _, OData got => [PRead (length got)]
  | Read _, OEof => [PReadEof]
  | _, _ => []
  end.

Definition norst (l : list sframe) : Prop := forall f, In f l -> f <> FRst.
Definition no_abort (l : label) : Prop := match l with AbortS | AbortR | KillS => False | _ => True end.

(* the part of the state the conforming, abort-free case lives in *)
Record Live (s : st) : Prop := {
  lv_inv : Inv s; lv_alive : ralive s = true; lv_noov : overrun s = false; lv_norst : norst (wsr s) }.

Lemma firstn_app_le (A : Type) (a b : list A) k : (k <= length a)%nat -> firstn k (a ++ b) = firstn k a.
Proof. intros H. rewrite firstn_app. replace (k - length a)%nat with 0%nat by lia. cbn [firstn]. apply app_nil_r. Qed.
Lemma skipn_app_le (A : Type) (a b : list A) k : (k <= length a)%nat -> skipn k (a ++ b) = skipn k a ++ b.
Proof. intros H. rewrite skipn_app. replace (k - length a)%nat with 0%nat by lia. reflexivity. Qed.

Lemma take_last2 k a b : take_last k [a; b] = ([a; (skipn k (fst b), snd b)], firstn k (fst b)).
Proof. reflexivity. Qed.

Ltac simp := cbn [evs fold_left pstep pipe_of p_written p_shut p_delivered p_hops p_eof written fin readout wsr buf rxq
                  txopen upd_read on_first fst snd move move_eof negb orb andb pdata app concat last_done overrun].
Ltac fin_all := repeat split; auto; try discriminate; try (intros; discriminate); try reflexivity.

Theorem flow_step_is_pipe s l s' o e :
  Live s -> no_abort l -> step s l = (s', o) -> overrun s' = false ->
  let p' := fold_left pstep (evs s l o) (pipe_of s e) in
  p_written p' = written s' /\ p_shut p' = fin s' /\ p_delivered p' = readout s' /\
  p_hops p' = p_hops (pipe_of s' e) /\
  (o = OEof -> p_eof p' = true).
Proof.
  intros [HI Ha Ho Hr] Hl E Ho'. pose proof HI as [_ _ _ _ _ _ _ He1 He2 He3 _ _ _ _ _ _ _].
  cbv zeta. destruct l; try contradiction; cbn [step] in E.
  - (* Write *)
    destruct (fin s) eqn:Ef.
    { inversion E; subst. simp. rewrite ?Ef. simp. rewrite ?Ef. fin_all. }
    destruct (c s =? 0).
    { inversion E; subst. simp. rewrite ?Ef. simp. rewrite ?Ef. fin_all. }
    inversion E; subst. simp. rewrite ?Ef. simp. rewrite pdata_app. simp. rewrite app_nil_r. fin_all.
  - (* Shutdown *)
    destruct (fin s) eqn:Ef; inversion E; subst; simp; rewrite ?Ef; simp; rewrite ?Ef.
    + rewrite ?Ef. fin_all.
    + rewrite pdata_app. simp. rewrite app_nil_r. fin_all.
  - (* DelSR *)
    destruct (wsr s) as [|f r] eqn:Ew.
    { inversion E; subst. simp. rewrite ?Ew. simp. rewrite ?Ew. simp. fin_all. }
    destruct f as [d| |].
    + assert (Tx : txopen s = true).
      { destruct (txopen s) eqn:T; auto. destruct (He3 eq_refl Ha Ho) as (N0 & _). try rewrite Ew in N0. cbn [npush] in N0. lia. }
      rewrite Tx, Ha in E. cbn [negb orb] in E.
      destruct (len (rxq s) <? W s) eqn:Full; inversion E; subst; cbn [overrun] in Ho'; [|discriminate].
      simp. rewrite ?Ew, ?Tx. simp. rewrite ?Ew, ?Tx. simp.
      rewrite skipn_app, Nat.sub_diag, skipn_all, firstn_app, Nat.sub_diag, firstn_all.
      cbn [skipn firstn app]. rewrite ?app_nil_r, concat_app. cbn [concat]. rewrite ?app_nil_r, ?app_assoc. fin_all.
    + assert (Rn : r = []) by (try rewrite Ew in He1; eapply end_last_head_end; eauto).
      subst r. assert (Fs : fin s = true) by (apply He2; try rewrite Ew; reflexivity).
      inversion E; subst. simp. rewrite ?Ew, ?Fs. simp. rewrite ?Ew, ?Fs. simp. fin_all.
    + exfalso. apply (Hr FRst); [try rewrite Ew; left; reflexivity|reflexivity].
  - (* Read *)
    rewrite Ha in E. cbn [negb] in E.
    destruct (buf s) as [|b0 bs] eqn:Eb.
    + destruct (fill (rxq s) (u s) (th s) (wrs s)) as [[[q' b] u'] acks'] eqn:Ef.
      destruct (fill_spec _ _ _ _ _ _ _ _ Ef) as (Fc & Fe & _).
      destruct b as [|x b].
      * specialize (Fe eq_refl). subst q'. cbn [app concat] in Fc.
        destruct (txopen s) eqn:Tx; inversion E; subst; simp; rewrite ?Eb, ?Fc, ?Tx; simp.
        -- fin_all.
        -- rewrite ?Bool.orb_true_r. fin_all.
      * inversion E; subst. simp. rewrite take_last2. simp. rewrite ?Eb, ?Fc. simp.
        set (k := N.to_nat (N.min (len (x :: b)) n)).
        assert (Kl : (k <= length (x :: b))%nat) by (unfold k, len; lia).
        assert (Lg : length (firstn k (x :: b)) = k) by (rewrite firstn_length; lia).
        rewrite Lg. change (x :: b ++ concat q') with ((x :: b) ++ concat q').
        rewrite firstn_app_le, skipn_app_le by exact Kl. fin_all.
    + inversion E; subst. simp. rewrite take_last2. simp. rewrite ?Eb. simp.
      set (k := N.to_nat (N.min (len (b0 :: bs)) n)).
      assert (Kl : (k <= length (b0 :: bs))%nat) by (unfold k, len; lia).
      assert (Lg : length (firstn k (b0 :: bs)) = k) by (rewrite firstn_length; lia).
      rewrite Lg. change (b0 :: bs ++ concat (rxq s)) with ((b0 :: bs) ++ concat (rxq s)).
      rewrite firstn_app_le, skipn_app_le by exact Kl. fin_all.
  - (* DelRS *)
    destruct (wrs s) as [|a r]; inversion E; subst; simp; fin_all.
Qed.

(* ---- the whole run ---- *)
Lemma wsr_step s l : no_abort l ->
  let s' := fst (step s l) in
  (exists x, x <> FRst /\ wsr s' = wsr s ++ [x]) \/ wsr s' = wsr s \/ wsr s' = tl (wsr s).
Proof.
  intros Hl. cbv zeta. destruct l; try contradiction; cbn [step].
  - destruct (fin s); [auto|]. destruct (c s =? 0); [auto|]. left. exists (FPush d). split; [discriminate|reflexivity].
  - destruct (fin s); [auto|]. left. exists FFin. split; [discriminate|reflexivity].
  - destruct (wsr s) as [|[d| |] r] eqn:Ew; [auto|..].
    + destruct (negb (txopen s) || negb (ralive s)); [|destruct (len (rxq s) <? W s)]; cbn [fst wsr tl]; auto.
    + cbn [fst wsr tl]. auto.
    + cbn [fst wsr tl]. auto.
  - destruct (negb (ralive s)); [auto|]. destruct (buf s); [|cbn [fst upd_read wsr]; auto].
    destruct (fill (rxq s) (u s) (th s) (wrs s)) as [[[q' b] u'] acks']. destruct b; [destruct (txopen s)|]; cbn [fst upd_read wsr]; auto.
  - destruct (wrs s); cbn [fst wsr]; auto.
Qed.

Lemma ralive_step s l : no_abort l -> ralive (fst (step s l)) = ralive s.
Proof.
  intros Hl. destruct l; try contradiction; cbn [step].
  - destruct (fin s); [auto|]. destruct (c s =? 0); auto.
  - destruct (fin s); auto.
  - destruct (wsr s) as [|[d| |] r]; auto.
    destruct (negb (txopen s) || negb (ralive s)); [|destruct (len (rxq s) <? W s)]; auto.
  - destruct (negb (ralive s)); [auto|]. destruct (buf s); [|auto].
    destruct (fill (rxq s) (u s) (th s) (wrs s)) as [[[q' b] u'] acks']. destruct b; [destruct (txopen s)|]; auto.
  - destruct (wrs s); auto.
Qed.

Lemma live_step s l : Live s -> no_abort l -> overrun (fst (step s l)) = false -> Live (fst (step s l)).
Proof.
  intros [HI Ha Ho Hr] Hl Ho'. constructor; [apply step_inv; exact HI| |exact Ho'|].
  - rewrite ralive_step; auto.
  - unfold norst in *. destruct (wsr_step s l Hl) as [(x & Hx & E)|[E|E]]; rewrite E.
    + intros f Hf. apply in_app_or in Hf. destruct Hf as [Hf|[<-|[]]]; [apply Hr, Hf|exact Hx].
    + exact Hr.
    + intros f Hf. apply Hr. destruct (wsr s); [destruct Hf|right; exact Hf].
Qed.

Fixpoint all_evs (s : st) (ls : list label) : list pev :=
  match ls with
  | [] => []
  | l :: r => let '(s', o) := step s l in evs s l o ++ all_evs s' r
  end.

Definition same_pipe (p : pipe) (s : st) : Prop :=
  p_written p = written s /\ p_shut p = fin s /\ p_delivered p = readout s /\ p_hops p = p_hops (pipe_of s false).

Lemma run_pipe : forall ls s p, Live s -> Forall no_abort ls -> same_pipe p s ->
  (forall pre, overrun (run s pre) = false) ->
  same_pipe (fold_left pstep (all_evs s ls) p) (run s ls).
Proof.
  induction ls as [|l ls IH]; intros s p HL Hn Hs Hov; cbn [all_evs run fold_left]; [exact Hs|].
  inversion Hn as [|? ? Hl Hn']; subst.
  destruct (step s l) as [s' o] eqn:E. rewrite fold_left_app.
  assert (Ho' : overrun s' = false) by (specialize (Hov [l]); cbn [run] in Hov; rewrite E in Hov; exact Hov).
  destruct Hs as (A & B & C & D).
  assert (Ep : p = pipe_of s (p_eof p)) by (destruct p; cbn in *; subst; reflexivity).
  rewrite Ep. destruct (flow_step_is_pipe s l s' o (p_eof p) HL Hl E Ho') as (A' & B' & C' & D' & _).
  cbn [fst]. replace (fst (step s l)) with s' by (rewrite E; reflexivity).
  apply IH; auto.
  - replace s' with (fst (step s l)) by (rewrite E; reflexivity). apply live_step; auto. rewrite E. exact Ho'.
  - repeat split; auto.
  - intros pre. specialize (Hov (l :: pre)). cbn [run] in Hov. rewrite E in Hov. exact Hov.
Qed.

(* One direction of a stream between conforming endpoints, for every window and threshold and
   every abort-free label sequence: its bytes written / in flight / held by the receiver / read
   are those of a two-hop relay pipeline driven by the events the labels amount to. *)
Theorem flow_is_pipe w t ls : 1 <= t -> 1 <= w < 4294967296 -> Forall no_abort ls ->
  same_pipe (fold_left pstep (all_evs (init w t) ls) (pinit 1)) (run (init w t) ls).
Proof.
  intros Ht Hw Hn. apply run_pipe; auto.
  - constructor; [apply inv_init; auto|reflexivity|reflexivity|intros f []].
  - repeat split.
  - intros pre. apply no_overrun; auto.
Qed.
