From PV Require Import Flow.Core.
From Coq Require Import ZifyBool ZifyN ZifyNat.

Fixpoint npush (l : list sframe) : N :=
  match l with [] => 0 | FPush _ :: r => 1 + npush r | _ :: r => npush r end.
Fixpoint pdata (l : list sframe) : list N :=
  match l with [] => [] | FPush d :: r => d ++ pdata r | _ :: r => pdata r end.
Fixpoint has_end (l : list sframe) : bool :=
  match l with [] => false | FPush _ :: r => has_end r | _ :: _ => true end.
(* an end marker (Finish / Reset) is the last frame of its direction *)
Fixpoint end_last (l : list sframe) : bool :=
  match l with [] => true | FPush _ :: r => end_last r | _ :: r => match r with [] => true | _ => false end end.

Lemma npush_app a b : npush (a ++ b) = npush a + npush b.
Proof. induction a as [|[d| |] a IH]; cbn [app npush]; lia. Qed.
Lemma pdata_app a b : pdata (a ++ b) = pdata a ++ pdata b.
Proof. induction a as [|[d| |] a IH]; cbn [app pdata]; auto. now rewrite IH, app_assoc. Qed.
Lemma has_end_app a b : has_end (a ++ b) = has_end a || has_end b.
Proof. induction a as [|[d| |] a IH]; cbn [app has_end]; auto. Qed.
Lemma end_last_app_push a d : has_end a = false -> end_last (a ++ [FPush d]) = true.
Proof. induction a as [|[x| |] a IH]; cbn [app has_end end_last]; auto; discriminate. Qed.
Lemma end_last_app_end a f : has_end a = false -> end_last (a ++ [f]) = true.
Proof. induction a as [|[x| |] a IH]; cbn [app has_end end_last]; auto; try discriminate. destruct f; reflexivity. Qed.
Lemma end_last_noend a : has_end a = false -> end_last a = true.
Proof. induction a as [|[x| |] a IH]; cbn [has_end end_last]; auto; discriminate. Qed.
Lemma sumN_app a b : sumN (a ++ b) = sumN a + sumN b.
Proof. unfold sumN. induction a as [|x a IH]; cbn [app fold_right]; [lia|]. fold (sumN (a ++ b)) (sumN a) in *. unfold sumN in *. lia. Qed.
Lemma sumN_cons x a : sumN (x :: a) = x + sumN a.
Proof. reflexivity. Qed.

(* ---- the reader's loop ---- *)
Lemma fill_spec q : forall u0 t acks q' b u' acks',
  fill q u0 t acks = (q', b, u', acks') ->
  concat q = b ++ concat q' /\
  (b = [] -> q' = []) /\
  u' + sumN acks' = u0 + (len q - len q') + sumN acks /\
  len q' <= len q /\ sumN acks <= sumN acks' /\
  (b <> [] -> len q' < len q) /\
  (1 <= t -> u0 < t -> u' < t) /\
  (q = [] -> u' = u0 /\ acks' = acks).
Proof.
  induction q as [|d r IH]; intros u0 t acks q' b u' acks' E; cbn [fill] in E.
  - inversion E; subst. cbn. repeat split; auto; try lia. congruence.
  - destruct (N.leb_spec t (u0 + 1)) as [H|H].
    + destruct d as [|x d].
      * destruct (IH _ _ _ _ _ _ _ E) as (A & B & C & D & F & G & I & _).
        rewrite sumN_app in *. cbn [sumN fold_right] in *. rewrite !len_cons.
        repeat split; auto; try lia; try discriminate.
      * inversion E; subst. rewrite sumN_app. cbn [sumN fold_right concat]. rewrite !len_cons.
        repeat split; auto; try lia; try discriminate.
    + destruct d as [|x d].
      * destruct (IH _ _ _ _ _ _ _ E) as (A & B & C & D & F & G & I & _).
        rewrite !len_cons. repeat split; auto; try lia; try discriminate.
      * inversion E; subst. cbn [concat]. rewrite !len_cons.
        repeat split; auto; try lia; try discriminate.
Qed.

(* ---- the invariant ---- *)
Definition cond (s : st) : Prop := txopen s = true \/ npush (wsr s) = 0.

Record Inv (s : st) : Prop := {
  i_W : 1 <= W s < 4294967296;
  i_th : 1 <= th s <= W s;
  i_u : u s < th s;
  i_le : ralive s = true -> overrun s = false -> cond s ->
         c s + npush (wsr s) + len (rxq s) + u s + sumN (wrs s) <= W s;
  i_eq : ralive s = true -> overrun s = false -> cond s -> sgone s = false ->
         c s + npush (wsr s) + len (rxq s) + u s + sumN (wrs s) = W s;
  i_data : ralive s = true -> overrun s = false -> cond s ->
           written s = readout s ++ buf s ++ concat (rxq s) ++ pdata (wsr s);
  i_prefix : exists rest, written s = readout s ++ rest;
  i_end1 : end_last (wsr s) = true;
  i_end2 : has_end (wsr s) = true -> fin s = true;
  i_end3 : txopen s = false -> ralive s = true -> overrun s = false ->
           npush (wsr s) = 0 /\ has_end (wsr s) = false /\ fin s = true;
  i_sgone : sgone s = true -> fin s = true;
  (* ghost accounting *)
  g_sent : sgone s = false -> c s + nsent s = W s + nret s;
  g_ack : nack s + u s = npop s;
  g_ret : nret s + sumN (wrs s) <= nack s;
  g_pop : npop s + len (rxq s) + npush (wsr s) <= nsent s;
  i_pre2 : ralive s = true -> exists rest, written s = readout s ++ buf s ++ concat (rxq s) ++ rest;
  i_ov : overrun s = true -> txopen s = false
}.

Lemma inv_init w t : 1 <= t -> 1 <= w < 4294967296 -> Inv (init w t).
Proof.
  intros Ht Hw. unfold init. constructor; cbn; try lia; auto; try discriminate.
  - exists []. reflexivity.
  - intros _. exists []. reflexivity.
Qed.

Ltac inv_split := constructor; unfold cond; cbn [W th c fin wsr rxq txopen ralive buf u wrs sgone overrun written readout nsent nret npop nack upd_read].

Lemma end_last_tail f r : end_last (f :: r) = true -> end_last r = true.
Proof. destruct f; cbn [end_last]; auto; destruct r; auto; discriminate. Qed.
Lemma end_last_head_end f r : end_last (f :: r) = true -> (f = FFin \/ f = FRst) -> r = [].
Proof. intros H [->| ->]; cbn [end_last] in H; destruct r; auto; discriminate. Qed.

Lemma inv_write s d : Inv s -> Inv (fst (step s (Write d))).
Proof.
  intros HI. cbn [step]. destruct (fin s) eqn:Ef; [exact HI|].
  destruct (N.eqb_spec (c s) 0) as [Ec|Ec]; [exact HI|]. cbn [fst].
  pose proof HI as [HW Hth Hu Hle Heq Hd Hp He1 He2 He3 Hsg G1 G2 G3 G4 Hp2 Hov].
  assert (Hne : has_end (wsr s) = false).
  { destruct (has_end (wsr s)) eqn:E; auto. specialize (He2 eq_refl). congruence. }
  assert (Hng : sgone s = false).
  { destruct (sgone s) eqn:E; auto. specialize (Hsg eq_refl). congruence. }
  unfold cond in *.
  inv_split; auto.
  - intros Ha Ho Hc. rewrite npush_app. cbn [npush].
    assert (Hc' : txopen s = true \/ npush (wsr s) = 0).
    { destruct Hc as [Hc|Hc]; auto. rewrite npush_app in Hc. cbn [npush] in Hc. lia. }
    specialize (Heq Ha Ho Hc' Hng). lia.
  - intros Ha Ho Hc _. rewrite npush_app. cbn [npush].
    assert (Hc' : txopen s = true \/ npush (wsr s) = 0).
    { destruct Hc as [Hc|Hc]; auto. rewrite npush_app in Hc. cbn [npush] in Hc. lia. }
    specialize (Heq Ha Ho Hc' Hng). lia.
  - intros Ha Ho Hc. rewrite pdata_app. cbn [pdata]. rewrite app_nil_r.
    assert (Hc' : txopen s = true \/ npush (wsr s) = 0).
    { destruct Hc as [Hc|Hc]; auto. rewrite npush_app in Hc. cbn [npush] in Hc. lia. }
    rewrite (Hd Ha Ho Hc'). now rewrite <- !app_assoc.
  - destruct Hp as [rest ->]. exists (rest ++ d). now rewrite app_assoc.
  - now apply end_last_app_push.
  - rewrite has_end_app. cbn [has_end]. rewrite Hne. discriminate.
  - intros Ht Ha Ho. destruct (He3 Ht Ha Ho) as (_ & _ & F). congruence.
  - intros; congruence.
  - intros _. specialize (G1 Hng). lia.
  - rewrite npush_app. cbn [npush]. lia.
  - intros Ha. destruct (Hp2 Ha) as [rest ->]. exists (rest ++ d). now rewrite <- !app_assoc.
Qed.

Lemma inv_shutdown s : Inv s -> Inv (fst (step s Shutdown)).
Proof.
  intros HI. cbn [step]. destruct (fin s) eqn:Ef; [exact HI|]. cbn [fst].
  pose proof HI as [HW Hth Hu Hle Heq Hd Hp He1 He2 He3 Hsg G1 G2 G3 G4 Hp2 Hov].
  assert (Hne : has_end (wsr s) = false).
  { destruct (has_end (wsr s)) eqn:E; auto. specialize (He2 eq_refl). congruence. }
  assert (NP : npush (wsr s ++ [FFin]) = npush (wsr s)) by (rewrite npush_app; cbn [npush]; lia).
  assert (PD : pdata (wsr s ++ [FFin]) = pdata (wsr s)) by (rewrite pdata_app; cbn [pdata]; now rewrite app_nil_r).
  unfold cond in *.
  inv_split; auto; rewrite ?NP, ?PD; auto.
  - now apply end_last_app_end.
  - intros Ht Ha Ho. destruct (He3 Ht Ha Ho) as (_ & _ & F). congruence.
Qed.

Lemma inv_aborts s : Inv s -> Inv (fst (step s AbortS)).
Proof.
  intros HI. cbn [step fst].
  pose proof HI as [HW Hth Hu Hle Heq Hd Hp He1 He2 He3 Hsg G1 G2 G3 G4 Hp2 Hov].
  destruct (fin s) eqn:Ef.
  - unfold cond in *. inv_split; auto; try (intros; discriminate).
  - assert (Hne : has_end (wsr s) = false).
    { destruct (has_end (wsr s)) eqn:E; auto. specialize (He2 eq_refl). congruence. }
    assert (NP : npush (wsr s ++ [FRst]) = npush (wsr s)) by (rewrite npush_app; cbn [npush]; lia).
    assert (PD : pdata (wsr s ++ [FRst]) = pdata (wsr s)) by (rewrite pdata_app; cbn [pdata]; now rewrite app_nil_r).
    unfold cond in *.
    inv_split; auto; rewrite ?NP, ?PD; auto; try (intros; discriminate).
    + now apply end_last_app_end.
    + intros Ht Ha Ho. destruct (He3 Ht Ha Ho) as (_ & _ & F). congruence.
Qed.

Lemma inv_abortr s : Inv s -> Inv (fst (step s AbortR)).
Proof.
  intros HI. cbn [step fst].
  pose proof HI as [HW Hth Hu Hle Heq Hd Hp He1 He2 He3 Hsg G1 G2 G3 G4 Hp2 Hov].
  inv_split; auto; try discriminate.
Qed.

Lemma inv_delrs s : Inv s -> Inv (fst (step s DelRS)).
Proof.
  intros HI. cbn [step]. destruct (wrs s) as [|n r] eqn:Ew; [exact HI|]. cbn [fst].
  pose proof HI as [HW Hth Hu Hle Heq Hd Hp He1 He2 He3 Hsg G1 G2 G3 G4 Hp2 Hov].
  rewrite Ew in *. rewrite sumN_cons in *. unfold cond in *.
  destruct (sgone s) eqn:Es.
  - inv_split; auto; try discriminate.
    + intros Ha Ho Hc. specialize (Hle Ha Ho Hc). lia.
    + lia.
  - (* no wrap: c + n <= W < 2^32 whenever the equation is available; in general bounded by the ghost equation *)
    assert (B : c s + n <= W s + nret s + n) by (specialize (G1 eq_refl); lia).
    assert (NW : ralive s = true -> overrun s = false -> (txopen s = true \/ npush (wsr s) = 0) ->
                 (c s + n) mod 4294967296 = c s + n).
    { intros Ha Ho Hc. specialize (Heq Ha Ho Hc eq_refl). apply N.mod_small. lia. }
    inv_split; auto.
    + intros Ha Ho Hc. rewrite (NW Ha Ho Hc). specialize (Heq Ha Ho Hc eq_refl). lia.
    + intros Ha Ho Hc _. rewrite (NW Ha Ho Hc). specialize (Heq Ha Ho Hc eq_refl). lia.
    + intros _.
      (* the ghost equation needs the absence of wrap-around in general: c + nsent = W + nret
         gives c + n = W + nret + n - nsent; bounded by W through g_ret/g_pop *)
      specialize (G1 eq_refl).
      assert (c s + n <= W s) by lia.
      rewrite N.mod_small by lia. lia.
    + lia.
Qed.

Lemma inv_delsr s : Inv s -> Inv (fst (step s DelSR)).
Proof.
  intros HI. cbn [step]. destruct (wsr s) as [|f r] eqn:Ew; [exact HI|].
  pose proof HI as [HW Hth Hu Hle Heq Hd Hp He1 He2 He3 Hsg G1 G2 G3 G4 Hp2 Hov].
  rewrite Ew in *. unfold cond in *. rewrite Ew in *.
  pose proof (end_last_tail _ _ He1) as He1'.
  destruct f as [d| |].
  - (* Push *)
    cbn [npush pdata has_end] in *.
    destruct (negb (txopen s) || negb (ralive s)) eqn:Eg; cbn [fst].
    + (* refused / ignored: the receiver no longer takes data *)
      apply orb_true_iff in Eg.
      inv_split; auto.
      * intros Ha Ho Hc. destruct Eg as [Eg|Eg]; [|rewrite Ha in Eg; discriminate].
        apply negb_true_iff in Eg. destruct (He3 Eg Ha Ho) as (N0 & _). lia.
      * intros Ha Ho Hc _. destruct Eg as [Eg|Eg]; [|rewrite Ha in Eg; discriminate].
        apply negb_true_iff in Eg. destruct (He3 Eg Ha Ho) as (N0 & _). lia.
      * intros Ha Ho Hc. destruct Eg as [Eg|Eg]; [|rewrite Ha in Eg; discriminate].
        apply negb_true_iff in Eg. destruct (He3 Eg Ha Ho) as (N0 & _). lia.
      * intros Ht Ha Ho. destruct (He3 Ht Ha Ho) as (N0 & _). lia.
      * lia.
    + apply orb_false_iff in Eg as [Et Ea]. apply negb_false_iff in Et, Ea.
      destruct (N.ltb_spec (len (rxq s)) (W s)) as [Hl|Hl]; cbn [fst].
      * (* accepted into the channel *)
        inv_split; auto.
        -- intros _ Ho _. specialize (Hle Ea Ho (or_introl Et)). rewrite len_app, len_cons. change (len (@nil (list N))) with 0. lia.
        -- intros _ Ho _ Hs. specialize (Heq Ea Ho (or_introl Et) Hs). rewrite len_app, len_cons. change (len (@nil (list N))) with 0. lia.
        -- intros _ Ho _. rewrite (Hd Ea Ho (or_introl Et)). rewrite concat_app. cbn [concat]. rewrite app_nil_r.
           now rewrite <- !app_assoc.
        -- intros; discriminate.
        -- rewrite len_app, len_cons. change (len (@nil (list N))) with 0. lia.
        -- intros _. assert (Ho : overrun s = false).
           { destruct (overrun s) eqn:Eo; auto. rewrite (Hov eq_refl) in Et. discriminate. }
           rewrite (Hd Ea Ho (or_introl Et)). exists (pdata r). rewrite concat_app. cbn [concat]. rewrite app_nil_r.
           now rewrite <- !app_assoc.
        -- intros Ho. rewrite (Hov Ho) in Et. discriminate.
      * (* overrun *)
        inv_split; auto; try (intros; discriminate). lia.
  - (* Finish *)
    assert (Er : r = []) by (eapply end_last_head_end; eauto).
    subst r. cbn [npush pdata has_end fst] in *.
    inv_split; auto; try (intros; discriminate);
      try (intros Ha Ho; intros; destruct (txopen s) eqn:Et;
           [solve [auto] | destruct (He3 eq_refl Ha Ho) as (_ & E & _); discriminate]);
      try (intros _ Ha Ho; repeat split; solve [auto]).
  - (* Reset *)
    assert (Er : r = []) by (eapply end_last_head_end; eauto).
    subst r. cbn [npush pdata has_end fst] in *.
    inv_split; auto; try (intros; discriminate);
      try (intros Ha Ho; intros; destruct (txopen s) eqn:Et;
           [solve [auto] | destruct (He3 eq_refl Ha Ho) as (_ & E & _); discriminate]);
      try (intros _ Ha Ho; repeat split; solve [auto]).
Qed.

Lemma inv_read s n : Inv s -> Inv (fst (step s (Read n))).
Proof.
  intros HI. cbn [step]. destruct (ralive s) eqn:Ea; cbn [negb]; [|exact HI].
  pose proof HI as [HW Hth Hu Hle Heq Hd Hp He1 He2 He3 Hsg G1 G2 G3 G4 Hp2 Hov].
  unfold cond in *.
  destruct (buf s) as [|b0 bs] eqn:Eb.
  - (* take frames from the channel *)
    destruct (fill (rxq s) (u s) (th s) (wrs s)) as [[[q' b] u'] acks'] eqn:Ef.
    destruct (fill_spec _ _ _ _ _ _ _ _ Ef) as (Fc & Fe & Fn & Fl & Fs & Fb & Fu & _).
    assert (Hu' : u' < th s) by (apply Fu; lia).
    assert (Key : forall (b' : list N) (ro' : list N),
              readout s ++ b = ro' ++ b' ->
              Inv (upd_read s q' b' u' acks' ro')).
    { intros b' ro' Hro. unfold upd_read. inv_split; auto.
      - intros _ Ho Hc. specialize (Hle Ea Ho Hc). lia.
      - intros _ Ho Hc Hs. specialize (Heq Ea Ho Hc Hs). lia.
      - intros _ Ho Hc. rewrite (Hd Ea Ho Hc). cbn [app]. rewrite Fc.
        rewrite !app_assoc. f_equal. f_equal. exact Hro.
      - destruct (Hp2 Ea) as [rest Hr]. cbn [app] in Hr. rewrite Fc in Hr.
        exists (b' ++ concat q' ++ rest). rewrite Hr. rewrite !app_assoc. f_equal. f_equal. exact Hro.
      - lia.
      - lia.
      - lia.
      - intros _. destruct (Hp2 Ea) as [rest Hr]. cbn [app] in Hr. rewrite Fc in Hr.
        exists rest. rewrite Hr. rewrite !app_assoc. f_equal. f_equal. exact Hro. }
    destruct b as [|x b].
    + destruct (txopen s); cbn [fst]; apply Key; reflexivity.
    + cbn [fst]. apply Key. rewrite <- app_assoc. f_equal. symmetry. apply firstn_skipn.
  - (* bytes left in the buffer *)
    cbn [fst]. unfold upd_read. rewrite !N.sub_diag, !N.add_0_r.
    set (k := N.to_nat (N.min (len (b0 :: bs)) n)).
    assert (Hro : forall X : list N, readout s ++ (b0 :: bs) ++ X =
              (readout s ++ firstn k (b0 :: bs)) ++ skipn k (b0 :: bs) ++ X).
    { intros X. rewrite <- !app_assoc. f_equal. rewrite app_assoc. f_equal. symmetry. apply firstn_skipn. }
    inv_split; auto.
    + intros _ Ho Hc. rewrite (Hd Ea Ho Hc). apply Hro.
    + destruct (Hp2 Ea) as [rest Hr]. eexists. rewrite Hr, Hro. rewrite <- !app_assoc. reflexivity.
    + intros _. destruct (Hp2 Ea) as [rest Hr]. exists rest. rewrite Hr. apply Hro.
Qed.

Lemma inv_kills s : Inv s -> Inv (fst (step s KillS)).
Proof.
  intros HI. cbn [step fst].
  pose proof HI as [HW Hth Hu Hle Heq Hd Hp He1 He2 He3 Hsg G1 G2 G3 G4 Hp2 Hov].
  unfold cond in *. inv_split; auto; try (intros; discriminate).
  intros Ht Ha Ho. destruct (He3 Ht Ha Ho) as (A & B & _). auto.
Qed.

Theorem step_inv s l : Inv s -> Inv (fst (step s l)).
Proof.
  destruct l; [apply inv_write|apply inv_shutdown|apply inv_aborts|apply inv_delsr|apply inv_read
              |apply inv_abortr|apply inv_delrs|apply inv_kills].
Qed.

Theorem run_inv ls : forall s, Inv s -> Inv (run s ls).
Proof. induction ls as [|l ls IH]; intros s H; cbn [run]; auto. apply IH, step_inv, H. Qed.

(* ---------------------------------------------------------------- C03 *)

Lemma step_no_overrun s l : Inv s -> overrun s = false -> overrun (fst (step s l)) = false.
Proof.
  intros HI Ho. destruct l; cbn [step].
  - destruct (fin s); [auto|]. destruct (c s =? 0); auto.
  - destruct (fin s); auto.
  - auto.
  - destruct (wsr s) as [|f r] eqn:Ew; [auto|]. destruct f as [d| |]; cbn [fst overrun]; auto.
    destruct (negb (txopen s) || negb (ralive s)) eqn:Eg; cbn [fst overrun]; auto.
    apply orb_false_iff in Eg as [Et Ea]. apply negb_false_iff in Et, Ea.
    destruct (N.ltb_spec (len (rxq s)) (W s)) as [Hl|Hl]; cbn [fst overrun]; auto.
    exfalso. pose proof (i_le s HI Ea Ho (or_introl Et)) as H. rewrite Ew in H. cbn [npush] in H. lia.
  - destruct (ralive s); cbn [negb]; [|auto]. destruct (buf s).
    + destruct (fill _ _ _ _) as [[[q' b] u'] acks']. destruct b; [destruct (txopen s)|]; auto.
    + auto.
  - auto.
  - destruct (wrs s); auto.
  - auto.
Qed.

(* between conforming endpoints the receive window is never overrun *)
Theorem no_overrun w t ls : 1 <= t -> 1 <= w < 4294967296 -> overrun (run (init w t) ls) = false.
Proof.
  intros Ht Hw. assert (G : forall ls s, Inv s -> overrun s = false -> overrun (run s ls) = false).
  { induction ls0 as [|l ls0 IH]; intros s HI Ho; cbn [run]; auto.
    apply IH; [now apply step_inv|now apply step_no_overrun]. }
  apply G; [now apply inv_init|reflexivity].
Qed.

(* Push frames put on the wire minus credit returned never exceed the advertised window;
   acknowledged frames = consumed frames minus the pending count (never more, never twice) *)
Theorem window_respected s : Inv s -> sgone s = false ->
  nsent s <= W s + nret s /\ nack s + u s = npop s /\ nret s <= nack s /\ npop s <= nsent s.
Proof.
  intros HI Hs. pose proof (g_sent s HI Hs). pose proof (g_ack s HI). pose proof (g_ret s HI).
  pose proof (g_pop s HI). repeat split; lia.
Qed.

Theorem one_write_one_credit s d s' n : step s (Write d) = (s', OWritten n) ->
  c s = c s' + 1 /\ nsent s' = nsent s + 1 /\ wsr s' = wsr s ++ [FPush d] /\ n = len d /\
  written s' = written s ++ d.
Proof.
  cbn [step]. destruct (fin s); [discriminate|]. destruct (N.eqb_spec (c s) 0); [discriminate|].
  intros E; inversion E; subst; cbn. repeat split; auto. lia.
Qed.

(* a write that is not accepted transmits nothing and leaves everything as it was *)
Theorem write_refused_no_effect s d s' o : step s (Write d) = (s', o) ->
  (o = OBroken \/ o = OPending) -> s' = s.
Proof.
  cbn [step]. destruct (fin s); [intros E; now inversion E|].
  destruct (c s =? 0); [intros E; now inversion E|].
  intros E [H|H]; inversion E; subst; discriminate.
Qed.

(* ---------------------------------------------------------------- C02 *)

Theorem read_is_prefix w t ls : 1 <= t -> 1 <= w < 4294967296 ->
  exists rest, written (run (init w t) ls) = readout (run (init w t) ls) ++ rest.
Proof. intros Ht Hw. apply i_prefix, run_inv, inv_init; auto. Qed.

Lemma npush_0_pdata l : npush l = 0 -> pdata l = [].
Proof. induction l as [|[d| |] l IH]; cbn [npush pdata]; auto. lia. Qed.

(* ---------------------------------------------------------------- C05 *)

(* end-of-stream is reported only after the peer finished or aborted, and only after every
   byte it wrote has been returned *)
Theorem eof_means_all s n s' : Inv s -> overrun s = false ->
  step s (Read n) = (s', OEof) -> fin s = true /\ readout s' = written s' /\ written s' = written s.
Proof.
  intros HI Ho. cbn [step]. destruct (ralive s) eqn:Ea; cbn [negb]; [|discriminate].
  destruct (buf s) as [|b0 bs] eqn:Eb; [|discriminate].
  destruct (fill (rxq s) (u s) (th s) (wrs s)) as [[[q' b] u'] acks'] eqn:Ef.
  destruct (fill_spec _ _ _ _ _ _ _ _ Ef) as (Fc & Fe & _).
  destruct b as [|x b]; [|discriminate]. destruct (txopen s) eqn:Et; [discriminate|].
  intros E; inversion E; subst; clear E. cbn [readout written upd_read].
  destruct (i_end3 s HI Et Ea Ho) as (N0 & _ & F). split; [exact F|]. split; [|reflexivity].
  rewrite (i_data s HI Ea Ho (or_intror N0)), Eb, Fc, (Fe eq_refl), (npush_0_pdata _ N0). cbn. now rewrite !app_nil_r.
Qed.

Theorem write_after_close_is_broken_pipe s d : fin s = true -> step s (Write d) = (s, OBroken).
Proof. intros H. cbn [step]. now rewrite H. Qed.

(* reachable form *)
Theorem eof_reachable w t ls n s' : 1 <= t -> 1 <= w < 4294967296 ->
  step (run (init w t) ls) (Read n) = (s', OEof) ->
  fin (run (init w t) ls) = true /\ readout s' = written s'.
Proof.
  intros Ht Hw E. destruct (eof_means_all _ _ _ (run_inv ls _ (inv_init w t Ht Hw)) (no_overrun w t ls Ht Hw) E) as (A & B & _).
  auto.
Qed.

Lemma skipn_N_all_local {A} n (l : list A) : len l <= n -> skipn (N.to_nat n) l = [].
Proof. intros. apply skipn_all2. unfold len in *. lia. Qed.

(* ---------------------------------------------------------------- C04: progress *)

Definition flags_ok (s : st) : Prop :=
  ralive s = true /\ txopen s = true /\ overrun s = false /\ sgone s = false /\ has_end (wsr s) = false.

Lemma delsr_flags s : Inv s -> flags_ok s ->
  let s' := fst (step s DelSR) in
  flags_ok s' /\ wsr s' = tl (wsr s) /\ written s' = written s /\ wrs s' = wrs s /\ c s' = c s /\ W s' = W s.
Proof.
  intros HI (Ha & Ht & Ho & Hs & He). cbn [step].
  destruct (wsr s) as [|f r] eqn:Ew; [cbn [fst tl]; unfold flags_ok; rewrite ?Ew; auto 10|].
  destruct f as [d| |]; cbn [has_end] in He; try discriminate.
  rewrite Ht, Ha. cbn [negb orb].
  destruct (N.ltb_spec (len (rxq s)) (W s)) as [Hl|Hl]; cbn [fst].
  - unfold flags_ok. cbn. auto 10.
  - exfalso. pose proof (i_le s HI Ha Ho (or_introl Ht)) as H. rewrite Ew in H. cbn [npush] in H. lia.
Qed.

Lemma run_delsr s : forall k, Inv s -> flags_ok s -> k = length (wsr s) ->
  let s' := run s (repeat DelSR k) in
  Inv s' /\ flags_ok s' /\ wsr s' = [] /\ written s' = written s /\ wrs s' = wrs s /\ c s' = c s /\ W s' = W s.
Proof.
  intros k. revert s. induction k as [|k IH]; intros s HI HF Hk; cbn [repeat run].
  - destruct (wsr s) eqn:Ew; [|discriminate]. split; [exact HI|]. split; [exact HF|]. auto 10.
  - destruct (delsr_flags s HI HF) as (F' & Ew & Ewr & Eac & Ec & EW). cbn zeta in *.
    assert (Hk' : k = length (wsr (fst (step s DelSR)))) by (rewrite Ew; destruct (wsr s); cbn in *; lia).
    destruct (IH _ (step_inv s DelSR HI) F' Hk') as (A & B & C & D & E & F & G). cbn zeta in *.
    split; [exact A|]. split; [exact B|]. split; [exact C|]. repeat split; congruence.
Qed.

Lemma fill_suffix q : forall u0 t acks q' b u' acks',
  fill q u0 t acks = (q', b, u', acks') ->
  (exists pre, q = pre ++ q') /\ (b <> [] -> In b q).
Proof.
  induction q as [|d r IH]; intros u0 t acks q' b u' acks' E; cbn [fill] in E.
  - inversion E; subst. split; [exists []; reflexivity|congruence].
  - destruct (t <=? u0 + 1); destruct d as [|x d].
    + destruct (IH _ _ _ _ _ _ _ E) as [[pre ->] Hb]. split; [exists ([] :: pre); reflexivity|]. intros H; right; auto.
    + inversion E; subst. split; [exists [x :: d]; reflexivity|]. intros _; left; reflexivity.
    + destruct (IH _ _ _ _ _ _ _ E) as [[pre ->] Hb]. split; [exists ([] :: pre); reflexivity|]. intros H; right; auto.
    + inversion E; subst. split; [exists [x :: d]; reflexivity|]. intros _; left; reflexivity.
Qed.

Definition small (M : N) (s : st) : Prop := len (buf s) <= M /\ Forall (fun d => len d <= M) (rxq s).

(* a read with a large enough buffer empties the read buffer; when it was empty it takes at
   least one frame off a non-empty queue *)
Lemma read_big s M : flags_ok s -> wsr s = [] -> small M s ->
  let s' := fst (step s (Read M)) in
  flags_ok s' /\ wsr s' = [] /\ small M s' /\ buf s' = [] /\ written s' = written s /\
  c s' = c s /\ W s' = W s /\
  len (rxq s') <= len (rxq s) /\ (buf s = [] -> rxq s <> [] -> len (rxq s') < len (rxq s)).
Proof.
  intros (Ha & Ht & Ho & Hs & He) Ew (Sb & Sq). cbn [step]. rewrite Ha. cbn [negb].
  destruct (buf s) as [|b0 bs] eqn:Eb.
  - destruct (fill (rxq s) (u s) (th s) (wrs s)) as [[[q' b] u'] acks'] eqn:Ef.
    destruct (fill_spec _ _ _ _ _ _ _ _ Ef) as (Fc & Fe & Fn & Fl & Fs & Fb & Fu & _).
    destruct (fill_suffix _ _ _ _ _ _ _ _ Ef) as ([pre Epre] & Hin).
    assert (Sq' : Forall (fun d => len d <= M) q') by (rewrite Epre in Sq; now apply Forall_app in Sq).
    destruct b as [|x b].
    + assert (q' = []) by auto. subst q'. rewrite Ht. cbn [fst]. unfold flags_ok, small, upd_read. cbn.
      repeat split; auto; try lia. intros _ Hne. destruct (rxq s); [congruence|]. rewrite len_cons. change (len (@nil (list N))) with 0. lia.
    + assert (Lb : len (x :: b) <= M).
      { assert (I : In (x :: b) (rxq s)) by (apply Hin; discriminate).
        rewrite Forall_forall in Sq. now apply Sq. }
      cbn [fst]. unfold flags_ok, small, upd_read. cbn [ralive txopen overrun sgone wsr buf rxq written c W].
      replace (N.min (len (x :: b)) M) with (len (x :: b)) by lia.
      rewrite skipn_N_all_local by lia.
      repeat split; auto; try lia.
      intros _ _. apply Fb. discriminate.
  - cbn [fst]. unfold flags_ok, small, upd_read. cbn [ralive txopen overrun sgone wsr buf rxq written c W].
    replace (N.min (len (b0 :: bs)) M) with (len (b0 :: bs)) by lia.
    rewrite skipn_N_all_local by lia.
    repeat split; auto; try lia; try discriminate.
    change (len (@nil N)) with 0. lia.
Qed.

Lemma run_app s a b : run s (a ++ b) = run (run s a) b.
Proof. revert s. induction a as [|l a IH]; intros s; cbn [app run]; auto. Qed.

Lemma run_reads M : forall k s, flags_ok s -> wsr s = [] -> small M s -> buf s = [] ->
  (length (rxq s) <= k)%nat ->
  let s' := run s (repeat (Read M) k) in
  flags_ok s' /\ wsr s' = [] /\ rxq s' = [] /\ buf s' = [] /\ written s' = written s /\ c s' = c s /\ W s' = W s.
Proof.
  induction k as [|k IH]; intros s HF Ew Sm Eb Hk; cbn [repeat run].
  - destruct (rxq s) eqn:Eq; [|cbn in Hk; lia]. auto 10.
  - destruct (read_big s M HF Ew Sm) as (F' & Ew' & Sm' & Eb' & Ewr & Ec & EW & Hle & Hlt). cbn zeta in *.
    assert (Hk' : (length (rxq (fst (step s (Read M)))) <= k)%nat).
    { destruct (rxq s) as [|d q] eqn:Eq.
      - change (len (@nil (list N))) with 0 in Hle. unfold len in Hle. lia.
      - assert (L : len (rxq (fst (step s (Read M)))) < len (d :: q)) by (apply Hlt; [exact Eb|discriminate]).
        unfold len in L. cbn [length] in *. lia. }
    destruct (IH _ F' Ew' Sm' Eb' Hk') as (A & B & C & D & E & F & G). cbn zeta in *.
    repeat split; auto; try congruence; apply A.
Qed.

Lemma delrs_keeps s :
  let s' := fst (step s DelRS) in
  flags_ok s -> flags_ok s' /\ wsr s' = wsr s /\ rxq s' = rxq s /\ buf s' = buf s /\ wrs s' = tl (wrs s).
Proof.
  cbn [step]. destruct (wrs s) as [|n r] eqn:E; cbn [fst]; intros HF; [rewrite E; auto 10|].
  unfold flags_ok in *. cbn. auto 10.
Qed.

Lemma run_delrs : forall k s, flags_ok s -> k = length (wrs s) ->
  let s' := run s (repeat DelRS k) in
  flags_ok s' /\ wsr s' = wsr s /\ rxq s' = rxq s /\ buf s' = buf s /\ wrs s' = [].
Proof.
  induction k as [|k IH]; intros s HF Hk; cbn [repeat run].
  - destruct (wrs s); [|discriminate]. auto 10.
  - destruct (delrs_keeps s HF) as (F' & A & B & C & D). cbn zeta in *.
    assert (Hk' : k = length (wrs (fst (step s DelRS)))) by (rewrite D; destruct (wrs s); cbn in *; lia).
    destruct (IH _ F' Hk') as (A' & B' & C' & D' & E'). cbn zeta in *.
    repeat split; try congruence; apply A'.
Qed.

Lemma len_in_concat (q : list (list N)) d : In d q -> len d <= len (concat q).
Proof.
  induction q as [|x q IH]; intros H; [contradiction|]. cbn [concat]. rewrite len_app.
  destruct H as [->|H]; [lia|]. specialize (IH H). lia.
Qed.

(* the explicit schedule that unblocks a writer: deliver everything in flight to the
   receiver, let the receiving application read until its queue is empty, deliver the
   acknowledgements.  Only deliveries and reads by the receiving application. *)
Definition unblock (s : st) : list label :=
  let p1 := repeat DelSR (length (wsr s)) in
  let s1 := run s p1 in
  let M := len (written s) + 1 in
  let p2 := Read M :: repeat (Read M) (length (rxq s1)) in
  let s2 := run s1 p2 in
  p1 ++ p2 ++ repeat DelRS (length (wrs s2)).

Theorem blocked_writer_unblocks s : Inv s -> flags_ok s -> 0 < c (run s (unblock s)).
Proof.
  intros HI HF. unfold unblock.
  set (p1 := repeat DelSR (length (wsr s))). set (s1 := run s p1).
  set (M := len (written s) + 1).
  destruct (run_delsr s _ HI HF eq_refl) as (I1 & F1 & W1 & Wr1 & _ & _ & _). fold p1 s1 in I1, F1, W1, Wr1.
  (* everything the receiver holds is part of what was written: bounded by M *)
  assert (Sm1 : small M s1).
  { destruct F1 as (Ha & Ht & Ho & _). pose proof (i_data s1 I1 Ha Ho (or_introl Ht)) as D.
    rewrite W1 in D. cbn [pdata] in D. rewrite app_nil_r in D.
    assert (L : len (written s1) = len (readout s1) + len (buf s1) + len (concat (rxq s1)))
      by (rewrite D, !len_app; lia).
    rewrite Wr1 in L. split; [unfold M; lia|].
    apply Forall_forall. intros d Hd. pose proof (len_in_concat _ _ Hd). unfold M. lia. }
  destruct (read_big s1 M F1 W1 Sm1) as (F2 & W2 & Sm2 & B2 & Wr2 & _ & _ & L2 & _). cbn zeta in *.
  set (s1' := fst (step s1 (Read M))) in *.
  assert (Hk : (length (rxq s1') <= length (rxq s1))%nat) by (unfold len in L2; lia).
  destruct (run_reads M _ s1' F2 W2 Sm2 B2 Hk) as (F3 & W3 & Q3 & B3 & _).
  set (s2 := run s1' (repeat (Read M) (length (rxq s1)))) in *.
  assert (E2 : run s1 (Read M :: repeat (Read M) (length (rxq s1))) = s2) by reflexivity.
  rewrite !run_app. fold s1. rewrite E2.
  destruct (run_delrs _ s2 F3 eq_refl) as (F4 & W4 & Q4 & B4 & A4).
  set (s3 := run s2 (repeat DelRS (length (wrs s2)))) in *.
  assert (I3 : Inv s3).
  { unfold s3, s2, s1'. apply run_inv, run_inv. apply step_inv. exact I1. }
  destruct F4 as (Ha & Ht & Ho & Hs & _).
  pose proof (i_eq s3 I3 Ha Ho (or_introl Ht) Hs) as E.
  rewrite W4, W3, Q4, Q3, A4 in E. cbn [npush sumN fold_right] in E. change (len (@nil (list N))) with 0 in E.
  pose proof (i_u s3 I3). pose proof (i_th s3 I3). lia.
Qed.

(* enabledness is persistent: no step of anybody else disables a delivery or a read *)
Theorem delivery_stays_enabled s l : wsr s <> [] -> l <> DelSR -> wsr (fst (step s l)) <> [].
Proof.
  intros H Hl.
  assert (A : forall (x : list sframe) f, x ++ [f] <> []) by (intros x f E; apply app_eq_nil in E as [_ E]; discriminate).
  destruct l; cbn [step]; try congruence.
  - destruct (fin s); [auto|]. destruct (c s =? 0); cbn [fst wsr]; auto.
  - destruct (fin s); cbn [fst wsr]; auto.
  - cbn [fst wsr]. destruct (fin s); auto.
  - destruct (ralive s); cbn [negb]; auto. destruct (buf s); [|auto].
    destruct (fill _ _ _ _) as [[[q' b] u'] acks']. destruct b; [destruct (txopen s)|]; auto.
  - auto.
  - destruct (wrs s); auto.
  - auto.
Qed.

(* the threshold in use never exceeds the window granted, whatever the options are *)
Theorem threshold_le_window w t : th (init w t) <= W (init w t).
Proof. cbn. lia. Qed.

(* without that bound the stream deadlocks: the witness of the pinned tree *)
Example stuck_without_bound :
  let s := mkSt 4 8 4 false [] [] true true [] 0 [] false false [] [] 0 0 0 0 in
  let s' := run s [Write [1]; Write [2]; Write [3]; Write [4]; DelSR; DelSR; DelSR; DelSR;
                   Read 9; Read 9; Read 9; Read 9; Read 9; DelRS] in
  c s' = 0 /\ wsr s' = [] /\ rxq s' = [] /\ wrs s' = [].
Proof. vm_compute. auto. Qed.
