(* One direction of one incarnation of a logical stream between two conforming endpoints:
   sender S (credit, finish_sent), the frames in flight S->R, receiver R (channel queue,
   buffer, acknowledgement counter), the acknowledgements in flight R->S; ghost histories of
   the bytes accepted by successful writes and returned by reads.  The step functions are
   the ones of Mux/Sys.v (do_write, do_read, do_shutdown, process_frame on Push / Finish /
   Reset / Acknowledge, close_flow) restricted to this flow; the harness checks this model
   against the real pair on single-flow scripts as well. *)
From PV Require Export Common.Bytes.

Inductive sframe := FPush (d : list N) | FFin | FRst.

Record st := mkSt {
  W : N;                    (* window advertised by R *)
  th : N;                   (* R's acknowledgement threshold *)
  c : N;                    (* S's credit *)
  fin : bool;               (* S: finish_sent *)
  wsr : list sframe;        (* in flight S -> R, oldest first *)
  rxq : list (list N);      (* R's channel *)
  txopen : bool;            (* R's slot still feeds the channel *)
  ralive : bool;            (* R's handle not dropped *)
  buf : list N;
  u : N;                    (* psh_recvd_since *)
  wrs : list N;             (* Acknowledge values in flight R -> S *)
  sgone : bool;             (* S's slot is gone (aborted): late acknowledgements are refused *)
  overrun : bool;           (* a Push arrived with the channel full *)
  written : list N;         (* ghost: bytes accepted by successful writes *)
  readout : list N;         (* ghost: bytes returned by reads *)
  nsent : N;                (* ghost: Push frames S has put on the wire *)
  nret : N;                 (* ghost: credit returned to S by Acknowledge frames *)
  npop : N;                 (* ghost: frames R's reader has taken from the channel *)
  nack : N                  (* ghost: total of the Acknowledge values R has sent *)
}.

Inductive label :=
| Write (d : list N)        (* plain or vectored write of the bytes d *)
| Shutdown
| AbortS                    (* S drops the stream *)
| DelSR                     (* the head frame S->R is processed by R's task *)
| Read (n : N)
| AbortR                    (* R drops the stream *)
| DelRS                     (* the head Acknowledge R->S is processed by S's task *)
| KillS.                    (* S's task closes the flow on a Reset from the peer: nothing is sent *)

Inductive out := ONone | OPending | OWritten (n : N) | OBroken | OData (d : list N) | OEof.

Definition init (w t : N) : st :=
  mkSt w (N.min t w) w false [] [] true true [] 0 [] false false [] [] 0 0 0 0.

Definition sumN (l : list N) : N := fold_right N.add 0 l.

(* the reader's update: frames taken = shrinkage of the queue, acknowledged = growth of wrs *)
Definition upd_read s rxq' buf' u' wrs' ro' :=
  mkSt (W s) (th s) (c s) (fin s) (wsr s) rxq' (txopen s) (ralive s) buf' u' wrs' (sgone s) (overrun s) (written s) ro'
       (nsent s) (nret s) (npop s + (len (rxq s) - len rxq')) (nack s + (sumN wrs' - sumN (wrs s))).

(* poll_for_push's loop: take frames, counting each, until a non-empty one *)
Fixpoint fill (q : list (list N)) (u0 t : N) (acks : list N) : list (list N) * list N * N * list N :=
  match q with
  | [] => ([], [], u0, acks)
  | d :: r =>
      let n := u0 + 1 in
      let '(u1, acks1) := if t <=? n then (0, acks ++ [n]) else (n, acks) in
      match d with
      | [] => fill r u1 t acks1
      | _ => (r, d, u1, acks1)
      end
  end.

Definition step (s : st) (l : label) : st * out :=
  match l with
  | Write d =>
      if fin s then (s, OBroken)
      else if c s =? 0 then (s, OPending)
      else (mkSt (W s) (th s) (c s - 1) false (wsr s ++ [FPush d]) (rxq s) (txopen s) (ralive s) (buf s) (u s)
                 (wrs s) (sgone s) (overrun s) (written s ++ d) (readout s) (nsent s + 1) (nret s) (npop s) (nack s), OWritten (len d))
  | Shutdown =>
      if fin s then (s, ONone)
      else (mkSt (W s) (th s) (c s) true (wsr s ++ [FFin]) (rxq s) (txopen s) (ralive s) (buf s) (u s)
                 (wrs s) (sgone s) (overrun s) (written s) (readout s) (nsent s) (nret s) (npop s) (nack s), ONone)
  | AbortS =>
      (mkSt (W s) (th s) (c s) true (if fin s then wsr s else wsr s ++ [FRst]) (rxq s) (txopen s) (ralive s)
            (buf s) (u s) (wrs s) true (overrun s) (written s) (readout s) (nsent s) (nret s) (npop s) (nack s), ONone)
  | DelSR =>
      match wsr s with
      | [] => (s, ONone)
      | f :: r =>
          match f with
          | FPush d =>
              if negb (txopen s) || negb (ralive s) then
                (mkSt (W s) (th s) (c s) (fin s) r (rxq s) (txopen s) (ralive s) (buf s) (u s) (wrs s) (sgone s)
                      (overrun s) (written s) (readout s) (nsent s) (nret s) (npop s) (nack s), ONone)
              else if len (rxq s) <? W s then
                (mkSt (W s) (th s) (c s) (fin s) r (rxq s ++ [d]) true (ralive s) (buf s) (u s) (wrs s) (sgone s)
                      (overrun s) (written s) (readout s) (nsent s) (nret s) (npop s) (nack s), ONone)
              else
                (mkSt (W s) (th s) (c s) (fin s) r (rxq s) false (ralive s) (buf s) (u s) (wrs s) (sgone s)
                      true (written s) (readout s) (nsent s) (nret s) (npop s) (nack s), ONone)
          | FFin | FRst =>
              (mkSt (W s) (th s) (c s) (fin s) r (rxq s) false (ralive s) (buf s) (u s) (wrs s) (sgone s)
                    (overrun s) (written s) (readout s) (nsent s) (nret s) (npop s) (nack s), ONone)
          end
      end
  | Read n =>
      if negb (ralive s) then (s, ONone) else
      match buf s with
      | _ :: _ =>
          let got := firstn (N.to_nat (N.min (len (buf s)) n)) (buf s) in
          (upd_read s (rxq s) (skipn (N.to_nat (N.min (len (buf s)) n)) (buf s)) (u s) (wrs s) (readout s ++ got),
           OData got)
      | [] =>
          let '(q', b, u', acks') := fill (rxq s) (u s) (th s) (wrs s) in
          match b with
          | [] =>
              (* the queue ran empty *)
              if txopen s then (upd_read s q' [] u' acks' (readout s), OPending)
              else (upd_read s q' [] u' acks' (readout s), OEof)
          | _ =>
              let got := firstn (N.to_nat (N.min (len b) n)) b in
              (upd_read s q' (skipn (N.to_nat (N.min (len b) n)) b) u' acks' (readout s ++ got), OData got)
          end
      end
  | AbortR =>
      (mkSt (W s) (th s) (c s) (fin s) (wsr s) (rxq s) false false (buf s) (u s) (wrs s) (sgone s)
            (overrun s) (written s) (readout s) (nsent s) (nret s) (npop s) (nack s), ONone)
  | DelRS =>
      match wrs s with
      | [] => (s, ONone)
      | n :: r =>
          (mkSt (W s) (th s) (if sgone s then c s else (c s + n) mod 4294967296) (fin s) (wsr s) (rxq s) (txopen s)
                (ralive s) (buf s) (u s) r (sgone s) (overrun s) (written s) (readout s)
                (nsent s) (if sgone s then nret s else nret s + n) (npop s) (nack s), ONone)
      end
  | KillS =>
      (mkSt (W s) (th s) (c s) true (wsr s) (rxq s) (txopen s) (ralive s)
            (buf s) (u s) (wrs s) true (overrun s) (written s) (readout s) (nsent s) (nret s) (npop s) (nack s), ONone)
  end.

Fixpoint run (s : st) (ls : list label) : st :=
  match ls with [] => s | l :: r => run (fst (step s l)) r end.
