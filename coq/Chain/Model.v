(* Executable model of cow-bytes/src/pbuf.rs (LongChain) and the CowBytes mutators of
   cow-bytes/src/lib.rs.  A chunk is a byte list (the Temporary/Static variant is not part
   of the model: the harness mixes variants, so any variant dependence is a disagreement).
   [None] = the Rust panics; in that case the value is left as it was. *)
From PV Require Export Common.Bytes.

Notation chunk := (list N) (only parsing).

Record chain := { chunks : list chunk; cached : N }.

Definition empty_chain : chain := {| chunks := []; cached := 0 |}.

Inductive op :=
| Push (c : chunk)
| Insert (i : N) (c : chunk)
| Pop
| Remove (i : N)
| SplitTo (n : N)
| SplitOff (n : N)
| Truncate (n : N)
| Advance (n : N)
| Clear.

Inductive out :=
| OUnit
| OChunk (c : option chunk)
| OChain (c : chain).

Definition isnil {A} (l : list A) : bool := match l with [] => true | _ => false end.

Definition sub_checked (a b : N) : option N := if a <? b then None else Some (a - b).

(* the scanning loop shared in shape by split_off: returns (chunks passed, remaining, rest) *)
Fixpoint scan (cs : list chunk) (rem : N) : list chunk * N * list chunk :=
  match cs with
  | [] => ([], rem, [])
  | c :: rest =>
      if rem <? len c then ([], rem, cs)
      else let '(p, r, s) := scan rest (rem - len c) in (c :: p, r, s)
  end.

(* LongChain::split_off: (self afterwards, returned chain) *)
Definition split_off (c : chain) (at_ : N) : option (chain * chain) :=
  let '(pre, rem, suf) := scan (chunks c) at_ in
  let halves :=
    if rem =? 0 then Some (pre, suf)
    else match suf with
         | [] => None                        (* self.data[split_index]: index out of bounds *)
         | x :: rest => Some (pre ++ [firstn (N.to_nat rem) x], skipn (N.to_nat rem) x :: rest)
         end in
  match halves with
  | None => None
  | Some (a, b) =>
      match sub_checked (cached c) at_ with
      | None => None
      | Some nl => Some ({| chunks := a; cached := at_ |}, {| chunks := b; cached := nl |})
      end
  end.

(* LongChain::truncate's loop over the chunk vector *)
Fixpoint trunc (cs : list chunk) (rem : N) : list chunk :=
  match cs with
  | [] => []
  | c :: rest =>
      if rem =? 0 then []
      else if rem <? len c then [firstn (N.to_nat rem) c]
      else c :: trunc rest (rem - len c)
  end.

(* Buf::advance's loop; [None] = the unreachable!() arm *)
Fixpoint adv (cs : list chunk) (cnt : N) : option (list chunk) :=
  if cnt =? 0 then Some cs else
  match cs with
  | [] => None
  | c :: rest =>
      let by_ := N.min (len c) cnt in
      let c' := skipn (N.to_nat by_) c in
      if isnil c' then adv rest (cnt - by_)
      else Some (c' :: rest)     (* by_ = cnt here, so the loop ends *)
  end.

Definition insert_at {A} (i : N) (x : A) (l : list A) : list A :=
  firstn (N.to_nat i) l ++ x :: skipn (N.to_nat i) l.

Definition remove_at {A} (i : N) (l : list A) : list A :=
  firstn (N.to_nat i) l ++ skipn (S (N.to_nat i)) l.

Definition step (c : chain) (o : op) : option (chain * out) :=
  match o with
  | Push x =>
      if isnil x then Some (c, OUnit)
      else Some ({| chunks := chunks c ++ [x]; cached := cached c + len x |}, OUnit)
  | Insert i x =>
      if isnil x then Some (c, OUnit)
      else if len (chunks c) <? i then None                       (* Vec::insert panics *)
      else Some ({| chunks := insert_at i x (chunks c); cached := cached c + len x |}, OUnit)
  | Pop =>
      match rev (chunks c) with
      | [] => Some (c, OChunk None)
      | x :: r =>
          match sub_checked (cached c) (len x) with
          | None => None
          | Some n => Some ({| chunks := rev r; cached := n |}, OChunk (Some x))
          end
      end
  | Remove i =>
      match nth_error (chunks c) (N.to_nat i) with
      | None => None                                               (* Vec::remove panics *)
      | Some x =>
          match sub_checked (cached c) (len x) with
          | None => None
          | Some n => Some ({| chunks := remove_at i (chunks c); cached := n |}, OChunk (Some x))
          end
      end
  | SplitOff n =>
      match split_off c n with
      | None => None
      | Some (self, other) => Some (self, OChain other)
      end
  | SplitTo n =>
      (* let mut other = self.split_off(at); swap(self, &mut other); other *)
      match split_off c n with
      | None => None
      | Some (self, other) => Some (other, OChain self)
      end
  | Truncate n =>
      Some ({| chunks := trunc (chunks c) n; cached := N.min (cached c) n |}, OUnit)
  | Advance n =>
      if cached c <? n then None                                   (* assert!(cnt <= total) *)
      else match adv (chunks c) n with
           | None => None
           | Some cs => Some ({| chunks := cs; cached := cached c - n |}, OUnit)
           end
  | Clear => Some (empty_chain, OUnit)
  end.

(* a panicking call leaves the value as it was *)
Definition step_total (c : chain) (o : op) : chain * option out :=
  match step c o with
  | Some (c', r) => (c', Some r)
  | None => (c, None)
  end.

Fixpoint run (c : chain) (ops : list op) : chain :=
  match ops with
  | [] => c
  | o :: r => run (fst (step_total c o)) r
  end.

(* observations through the public accessors *)
Definition abs (c : chain) : list N := concat (chunks c).
Definition first_chunk (c : chain) : chunk := match chunks c with [] => [] | x :: _ => x end.

(* ---- single CowBytes values: variant-specific behaviour of the out-of-range cases ---- *)
Inductive variant := Temporary | Static.

Inductive cop := CSplitTo (n : N) | CSplitOff (n : N) | CTruncate (n : N) | CAdvance (n : N).

(* result: (self afterwards, returned piece) *)
Definition cstep (v : variant) (b : list N) (o : cop) : option (list N * list N) :=
  match o with
  | CSplitTo n => if len b <? n then None else Some (skipn (N.to_nat n) b, firstn (N.to_nat n) b)
  | CSplitOff n => if len b <? n then None else Some (firstn (N.to_nat n) b, skipn (N.to_nat n) b)
  | CTruncate n =>
      if len b <? n then match v with Temporary => None | Static => Some (b, []) end
      else Some (firstn (N.to_nat n) b, [])
  | CAdvance n => if len b <? n then None else Some (skipn (N.to_nat n) b, [])
  end.
