(* Correspondence glue for LongChain / CowBytes. *)
From PV Require Import Common.Wire Chain.Model.

Fixpoint parse_ops (fuel : nat) (l : list N) : option (list op) :=
  match fuel with
  | O => match l with [] => Some [] | _ => None end
  | S f =>
    match l with
    | [] => Some []
    | 0 :: _v :: r => match parse_lp r with
                      | Some (x, r') => option_map (cons (Push x)) (parse_ops f r') | None => None end
    | 1 :: _v :: i :: r => match parse_lp r with
                           | Some (x, r') => option_map (cons (Insert i x)) (parse_ops f r') | None => None end
    | 2 :: r => option_map (cons Pop) (parse_ops f r)
    | 3 :: i :: r => option_map (cons (Remove i)) (parse_ops f r)
    | 4 :: n :: r => option_map (cons (SplitTo n)) (parse_ops f r)
    | 5 :: n :: r => option_map (cons (SplitOff n)) (parse_ops f r)
    | 6 :: n :: r => option_map (cons (Truncate n)) (parse_ops f r)
    | 7 :: n :: r => option_map (cons (Advance n)) (parse_ops f r)
    | 8 :: r => option_map (cons Clear) (parse_ops f r)
    | _ => None
    end
  end.

Definition put_chain (c : chain) : list N :=
  cached c :: len (chunks c) :: flat_map put_lp (chunks c).

Definition put_out (r : option out) : list N :=
  match r with
  | None => [2]
  | Some OUnit => [0; 0]
  | Some (OChunk None) => [0; 1]
  | Some (OChunk (Some x)) => [0; 2] ++ put_lp x
  | Some (OChain d) => [0; 3] ++ put_chain d
  end.

(* after every call: result, then len(), the chunk list (as_ref) and chunk() *)
Fixpoint trace (c : chain) (ops : list op) : list N :=
  match ops with
  | [] => []
  | o :: r =>
      let '(c', res) := step_total c o in
      put_out res ++ put_chain c' ++ put_lp (first_chunk c') ++ trace c' r
  end.

Fixpoint cmp_bytes (a b : list N) : N :=   (* 0 Less, 1 Equal, 2 Greater *)
  match a, b with
  | [], [] => 1
  | [], _ => 0
  | _, [] => 2
  | x :: a', y :: b' => if x <? y then 0 else if y <? x then 2 else cmp_bytes a' b'
  end.

Definition run_chain (c : list N) : list N :=
  match c with
  | 1 :: r =>
      match parse_ops (length r) r with
      | Some ops => trace empty_chain ops
      | None => MALFORMED
      end
  | 2 :: v :: r =>
      match parse_lp r with
      | Some (b, [k; n]) =>
          let o := match k with 0 => CSplitTo n | 1 => CSplitOff n | 2 => CTruncate n | _ => CAdvance n end in
          match cstep (if v =? 0 then Temporary else Static) b o with
          | None => [2; 1]
          | Some (s, piece) => [0] ++ put_lp s ++ put_lp piece ++ [1]
          end
      | _ => MALFORMED
      end
  | 3 :: r =>
      match parse_lp r with
      | Some (a, r') =>
          match parse_lp r' with
          | Some (b, []) => [cmp_bytes a b; 1]
          | _ => MALFORMED
          end
      | None => MALFORMED
      end
  | _ => MALFORMED
  end.
