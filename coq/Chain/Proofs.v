From PV Require Import Chain.Model.
From Coq Require Import ZifyBool ZifyN ZifyNat.

Definition nonempty (k : chunk) : Prop := k <> [].
Definition Inv (c : chain) : Prop := cached c = len (abs c) /\ Forall nonempty (chunks c).

Lemma len_firstn {A} n (l : list A) : len (firstn (N.to_nat n) l) = N.min n (len l).
Proof. unfold len. rewrite firstn_length. lia. Qed.
Lemma len_skipn {A} n (l : list A) : len (skipn (N.to_nat n) l) = len l - n.
Proof. unfold len. rewrite skipn_length. lia. Qed.
Lemma len_0_nil {A} (l : list A) : len l = 0 -> l = [].
Proof. destruct l; [auto|rewrite len_cons; lia]. Qed.
Lemma nonempty_len k : nonempty k <-> 0 < len k.
Proof.
  unfold nonempty. destruct k as [|x k]; split; intros H.
  - exfalso; apply H; reflexivity.
  - exfalso. change (len (@nil N)) with 0 in H. lia.
  - rewrite len_cons. lia.
  - discriminate.
Qed.
Lemma isnil_spec {A} (l : list A) : isnil l = true <-> l = [].
Proof. destruct l; cbn; split; congruence. Qed.
Lemma len_concat_app (a b : list chunk) : len (concat (a ++ b)) = len (concat a) + len (concat b).
Proof. now rewrite concat_app, len_app. Qed.

Lemma firstn_N_app {A} n (a b : list A) :
  firstn (N.to_nat n) (a ++ b) = firstn (N.to_nat n) a ++ firstn (N.to_nat (n - len a)) b.
Proof. rewrite firstn_app. f_equal. f_equal. unfold len. lia. Qed.
Lemma skipn_N_app {A} n (a b : list A) :
  skipn (N.to_nat n) (a ++ b) = skipn (N.to_nat n) a ++ skipn (N.to_nat (n - len a)) b.
Proof. rewrite skipn_app. f_equal. f_equal. unfold len. lia. Qed.
Lemma firstn_N_all {A} n (l : list A) : len l <= n -> firstn (N.to_nat n) l = l.
Proof. intros. apply firstn_all2. unfold len in *. lia. Qed.
Lemma skipn_N_all {A} n (l : list A) : len l <= n -> skipn (N.to_nat n) l = [].
Proof. intros. apply skipn_all2. unfold len in *. lia. Qed.

(* ---- scan ---- *)
Lemma scan_spec cs rem p r s : scan cs rem = (p, r, s) ->
  cs = p ++ s /\ rem = len (concat p) + r /\ match s with [] => True | x :: _ => r < len x end.
Proof.
  revert rem p r s. induction cs as [|c rest IH]; intros rem p r s E; cbn [scan] in E.
  - inversion E; subst. cbn. repeat split; auto.
  - destruct (N.ltb_spec rem (len c)) as [H|H].
    + inversion E; subst. cbn [app concat]. change (len (@nil N)) with 0. repeat split; auto.
    + destruct (scan rest (rem - len c)) as [[p' r'] s'] eqn:E'. inversion E; subst.
      destruct (IH _ _ _ _ E') as (-> & Hr & Hs).
      cbn [app concat]. rewrite len_app. repeat split; auto. lia.
Qed.

(* ---- trunc ---- *)
Lemma trunc_spec cs n : Forall nonempty cs ->
  concat (trunc cs n) = firstn (N.to_nat n) (concat cs) /\ Forall nonempty (trunc cs n).
Proof.
  revert n. induction cs as [|c rest IH]; intros n Hne; cbn [trunc concat].
  - rewrite firstn_nil. auto.
  - apply Forall_cons_iff in Hne as [Hc Hr]. apply nonempty_len in Hc.
    destruct (N.eqb_spec n 0) as [->|Hn0]; [cbn; auto|].
    destruct (N.ltb_spec n (len c)) as [H|H].
    + cbn [concat]. rewrite app_nil_r, firstn_N_app.
      replace (n - len c) with 0 by lia. cbn [N.to_nat firstn]. rewrite app_nil_r. split; auto.
      repeat constructor. apply nonempty_len. rewrite len_firstn. lia.
    + destruct (IH (n - len c) Hr) as [E F]. cbn [concat]. rewrite E, firstn_N_app.
      rewrite (firstn_N_all n c) by lia. split; auto. constructor; auto. apply nonempty_len; lia.
Qed.

(* ---- adv ---- *)
Lemma adv_spec cs n : Forall nonempty cs -> n <= len (concat cs) ->
  exists cs', adv cs n = Some cs' /\ concat cs' = skipn (N.to_nat n) (concat cs) /\ Forall nonempty cs'.
Proof.
  revert n. induction cs as [|c rest IH]; intros n Hne Hn.
  - cbn [concat] in Hn. change (len (@nil N)) with 0 in Hn. assert (n = 0) by lia; subst. exists []. cbn. auto.
  - apply Forall_cons_iff in Hne as [Hc Hr]. pose proof Hc as Hc'. apply nonempty_len in Hc'.
    cbn [adv]. destruct (N.eqb_spec n 0) as [->|Hn0].
    { exists (c :: rest). cbn. auto. }
    cbn [concat] in *. rewrite len_app in Hn.
    destruct (isnil (skipn (N.to_nat (N.min (len c) n)) c)) eqn:Ei.
    + apply isnil_spec in Ei.
      assert (Hle : len c <= n).
      { assert (L : len (skipn (N.to_nat (N.min (len c) n)) c) = 0) by (rewrite Ei; reflexivity).
        rewrite len_skipn in L. lia. }
      replace (N.min (len c) n) with (len c) by lia.
      destruct (IH (n - len c) Hr) as (cs' & E & F & G); [lia|].
      exists cs'. split; [exact E|]. split; [|exact G].
      rewrite F, skipn_N_app, (skipn_N_all n c) by lia. reflexivity.
    + assert (Hlt : n < len c).
      { destruct (N.ltb_spec n (len c)); auto. exfalso.
        rewrite skipn_N_all in Ei by lia. discriminate. }
      replace (N.min (len c) n) with n by lia.
      eexists. split; [reflexivity|]. split.
      * cbn [concat]. rewrite skipn_N_app. replace (n - len c) with 0 by lia. reflexivity.
      * constructor; auto. apply nonempty_len. rewrite len_skipn. lia.
Qed.

Lemma Forall_nonempty_app a b : Forall nonempty (a ++ b) <-> Forall nonempty a /\ Forall nonempty b.
Proof. apply Forall_app. Qed.

(* ---- split_off ---- *)
Lemma split_off_spec c n a b : Inv c -> split_off c n = Some (a, b) ->
  n <= len (abs c) /\ Inv a /\ Inv b /\
  abs a = firstn (N.to_nat n) (abs c) /\ abs b = skipn (N.to_nat n) (abs c).
Proof.
  intros [Hc Hne] E. unfold split_off in E.
  destruct (scan (chunks c) n) as [[pre rem] suf] eqn:Es.
  destruct (scan_spec _ _ _ _ _ Es) as (Ecs & Hn & Hs).
  unfold abs in *. rewrite Ecs in *. apply Forall_nonempty_app in Hne as [Hp Hsf].
  destruct (N.eqb_spec rem 0) as [->|Hr0].
  - unfold sub_checked in E. destruct (N.ltb_spec (cached c) n) as [H|H]; [discriminate|].
    inversion E; subst; clear E. cbn [chunks cached] in *.
    rewrite len_concat_app in *. rewrite concat_app.
    rewrite firstn_N_app, skipn_N_app, N.add_0_r, N.sub_diag.
    rewrite (firstn_N_all _ (concat pre)), (skipn_N_all _ (concat pre)) by lia. cbn [N.to_nat firstn skipn].
    rewrite app_nil_r. unfold Inv, abs; cbn [chunks cached]. repeat split; auto; lia.
  - destruct suf as [|x rest]; [discriminate|].
    unfold sub_checked in E. destruct (N.ltb_spec (cached c) n) as [H|H]; [discriminate|].
    inversion E; subst; clear E. cbn [chunks cached] in *.
    apply Forall_cons_iff in Hsf as [Hx Hrest].
    rewrite len_concat_app in *. cbn [concat] in *. rewrite len_app in *.
    repeat rewrite concat_app. cbn [concat]. rewrite app_nil_r.
    rewrite firstn_N_app, skipn_N_app.
    replace (len (concat pre) + rem - len (concat pre)) with rem by lia.
    rewrite (firstn_N_all _ (concat pre)), (skipn_N_all _ (concat pre)) by lia.
    rewrite firstn_N_app, skipn_N_app. replace (rem - len x) with 0 by lia.
    cbn [N.to_nat firstn skipn]. rewrite app_nil_r.
    unfold Inv, abs; cbn [chunks cached].
    rewrite !len_concat_app. cbn [concat]. rewrite !len_app, !len_nil, len_firstn, len_skipn.
    repeat split; auto; try lia.
    + apply Forall_nonempty_app. split; auto. repeat constructor.
      apply nonempty_len. rewrite len_firstn. lia.
    + constructor; auto. apply nonempty_len. rewrite len_skipn. lia.
Qed.

Lemma split_off_none c n : Inv c -> (split_off c n = None <-> len (abs c) < n).
Proof.
  intros [Hc Hne]. unfold split_off.
  destruct (scan (chunks c) n) as [[pre rem] suf] eqn:Es.
  destruct (scan_spec _ _ _ _ _ Es) as (Ecs & Hn & Hs).
  unfold abs in *. rewrite Ecs in *. rewrite len_concat_app in *.
  unfold sub_checked.
  destruct (N.eqb_spec rem 0) as [->|Hr0].
  - destruct (N.ltb_spec (cached c) n); split; try discriminate; try lia; auto.
  - destruct suf as [|x rest].
    + cbn [concat] in *. rewrite len_nil in *. split; auto. lia.
    + cbn [concat] in *. rewrite len_app in *.
      destruct (N.ltb_spec (cached c) n); split; try discriminate; try lia; auto.
Qed.

(* ---- reference semantics on the plain byte vector ---- *)
Definition offset (cs : list chunk) (i : N) : N := len (concat (firstn (N.to_nat i) cs)).
Definition last_chunk (cs : list chunk) : chunk := last cs [].
Definition nth_chunk (cs : list chunk) (i : N) : chunk := nth (N.to_nat i) cs [].

Definition ref_abs (c : chain) (o : op) : list N :=
  let v := abs c in
  let cs := chunks c in
  match o with
  | Push x => v ++ x
  | Insert i x => firstn (N.to_nat (offset cs i)) v ++ x ++ skipn (N.to_nat (offset cs i)) v
  | Pop => firstn (N.to_nat (len v - len (last_chunk cs))) v
  | Remove i => firstn (N.to_nat (offset cs i)) v ++ skipn (N.to_nat (offset cs i + len (nth_chunk cs i))) v
  | SplitTo n => skipn (N.to_nat n) v
  | SplitOff n => firstn (N.to_nat n) v
  | Truncate n => firstn (N.to_nat n) v
  | Advance n => skipn (N.to_nat n) v
  | Clear => []
  end.

(* the bytes handed back to the caller *)
Definition ref_out (c : chain) (o : op) : option (list N) :=
  let v := abs c in
  let cs := chunks c in
  match o with
  | Pop => match cs with [] => None | _ => Some (last_chunk cs) end
  | Remove i => Some (nth_chunk cs i)
  | SplitTo n => Some (firstn (N.to_nat n) v)
  | SplitOff n => Some (skipn (N.to_nat n) v)
  | _ => None
  end.

Definition out_bytes (r : out) : option (list N) :=
  match r with OUnit => None | OChunk x => x | OChain d => Some (abs d) end.

Definition out_inv (r : out) : Prop :=
  match r with OUnit => True | OChunk None => True | OChunk (Some x) => nonempty x | OChain d => Inv d end.

Definition out_of_range (c : chain) (o : op) : Prop :=
  match o with
  | Insert i x => x <> [] /\ len (chunks c) < i
  | Remove i => len (chunks c) <= i
  | SplitTo n | SplitOff n | Advance n => len (abs c) < n
  | _ => False
  end.

Lemma inv_empty : Inv empty_chain.
Proof. split; [reflexivity|constructor]. Qed.

Lemma concat_firstn_skipn (cs : list chunk) i :
  concat cs = concat (firstn (N.to_nat i) cs) ++ concat (skipn (N.to_nat i) cs).
Proof. now rewrite <- concat_app, firstn_skipn. Qed.

Lemma firstn_offset cs i : firstn (N.to_nat (offset cs i)) (concat cs) = concat (firstn (N.to_nat i) cs).
Proof.
  unfold offset. rewrite (concat_firstn_skipn cs i) at 1.
  rewrite firstn_N_app, N.sub_diag. cbn [N.to_nat firstn]. rewrite app_nil_r.
  apply firstn_N_all. lia.
Qed.
Lemma skipn_offset cs i : skipn (N.to_nat (offset cs i)) (concat cs) = concat (skipn (N.to_nat i) cs).
Proof.
  unfold offset. rewrite (concat_firstn_skipn cs i) at 1.
  rewrite skipn_N_app, N.sub_diag. cbn [N.to_nat skipn].
  rewrite skipn_N_all by lia. reflexivity.
Qed.

Lemma Forall_firstn {A} (P : A -> Prop) n l : Forall P l -> Forall P (firstn n l).
Proof. revert l; induction n; intros [|x l] H; cbn; auto. inversion H; subst; auto. Qed.
Lemma Forall_skipn {A} (P : A -> Prop) n l : Forall P l -> Forall P (skipn n l).
Proof. revert l; induction n; intros [|x l] H; cbn; auto. inversion H; subst; auto. Qed.

Lemma rev_cons_last {A} (l : list A) x r d : rev l = x :: r -> l = rev r ++ [x] /\ last l d = x.
Proof.
  intros E. assert (L : l = rev r ++ [x]) by (rewrite <- (rev_involutive l), E; reflexivity).
  split; auto. rewrite L. apply last_last.
Qed.

Lemma nth_error_split_N (cs : list chunk) i x : nth_error cs (N.to_nat i) = Some x ->
  cs = firstn (N.to_nat i) cs ++ x :: skipn (S (N.to_nat i)) cs /\ nth_chunk cs i = x /\ i < len cs.
Proof.
  intros E. unfold nth_chunk. split; [|split].
  - rewrite <- (firstn_skipn (N.to_nat i) cs) at 1. f_equal.
    revert E. generalize (N.to_nat i). intros n. revert cs.
    induction n; intros [|y cs] E; cbn in *; try discriminate.
    + now inversion E.
    + now apply IHn.
  - now apply nth_error_nth.
  - assert (H : (N.to_nat i < length cs)%nat) by (apply nth_error_Some; congruence).
    unfold len. lia.
Qed.

Theorem step_ok c o c' r : Inv c -> step c o = Some (c', r) ->
  Inv c' /\ abs c' = ref_abs c o /\ out_bytes r = ref_out c o /\ out_inv r.
Proof.
  intros HI E. pose proof HI as [Hc Hne]. destruct o; cbn [step] in E; unfold ref_abs, ref_out.
  - (* push *)
    destruct (isnil c0) eqn:En.
    + apply isnil_spec in En; subst. injection E as <- <-. rewrite app_nil_r. cbn. auto.
    + injection E as <- <-. unfold Inv, abs; cbn [chunks cached out_bytes out_inv].
      rewrite concat_app. cbn [concat]. rewrite app_nil_r, len_app. repeat split; auto.
      * unfold abs in Hc. lia.
      * apply Forall_nonempty_app. split; auto. repeat constructor.
        intros ->. discriminate.
  - (* insert *)
    destruct (isnil c0) eqn:En.
    + apply isnil_spec in En; subst. injection E as <- <-. cbn [app out_bytes out_inv].
      unfold abs. rewrite firstn_skipn. auto.
    + destruct (N.ltb_spec (len (chunks c)) i) as [H|H]; [discriminate|].
      injection E as <- <-. unfold Inv, abs, insert_at; cbn [chunks cached out_bytes out_inv].
      rewrite concat_app. cbn [concat]. rewrite firstn_offset, skipn_offset. repeat split; auto.
      * rewrite !len_app. unfold abs in Hc. rewrite Hc.
        rewrite (concat_firstn_skipn (chunks c) i) at 1. rewrite len_app. lia.
      * apply Forall_nonempty_app. split; [now apply Forall_firstn|].
        constructor; [intros ->; discriminate|now apply Forall_skipn].
  - (* pop *)
    destruct (rev (chunks c)) as [|x rr] eqn:Er.
    + injection E as <- <-. assert (chunks c = []) by (rewrite <- (rev_involutive (chunks c)), Er; reflexivity).
      unfold abs, last_chunk. rewrite H. cbn. auto.
    + destruct (rev_cons_last _ _ _ [] Er) as [El Elast].
      unfold sub_checked in E. destruct (N.ltb_spec (cached c) (len x)) as [H|H]; [discriminate|].
      injection E as <- <-. unfold Inv, abs, last_chunk in *; cbn [chunks cached out_bytes out_inv].
      rewrite Elast. rewrite El in *. rewrite concat_app in *. cbn [concat] in *. rewrite app_nil_r in *.
      rewrite len_app in *. apply Forall_nonempty_app in Hne as [Hr Hx].
      replace (len (concat (rev rr)) + len x - len x) with (len (concat (rev rr))) by lia.
      rewrite firstn_N_app, N.sub_diag. cbn [N.to_nat firstn]. rewrite app_nil_r, firstn_N_all by lia.
      repeat split; auto; try lia.
      * destruct (rev rr ++ [x]) eqn:Ed; [destruct (rev rr); discriminate|reflexivity].
      * now inversion Hx.
  - (* remove *)
    destruct (nth_error (chunks c) (N.to_nat i)) as [x|] eqn:En; [|discriminate].
    destruct (nth_error_split_N _ _ _ En) as (Ecs & Enth & Hi).
    unfold sub_checked in E. destruct (N.ltb_spec (cached c) (len x)) as [H|H]; [discriminate|].
    injection E as <- <-. unfold Inv, abs, remove_at in *; cbn [chunks cached out_bytes out_inv].
    rewrite Enth.
    assert (Hx : nonempty x).
    { rewrite Ecs in Hne. apply Forall_nonempty_app in Hne as [_ Hne]. now inversion Hne. }
    assert (Esk : skipn (N.to_nat (offset (chunks c) i + len x)) (concat (chunks c)) =
                  concat (skipn (S (N.to_nat i)) (chunks c))).
    { rewrite Ecs at 2. rewrite concat_app. cbn [concat].
      unfold offset. rewrite skipn_N_app, skipn_N_all by lia. cbn [app].
      replace (len (concat (firstn (N.to_nat i) (chunks c))) + len x - len (concat (firstn (N.to_nat i) (chunks c))))
        with (len x) by lia.
      rewrite skipn_N_app, N.sub_diag, skipn_N_all by lia. reflexivity. }
    rewrite concat_app, firstn_offset, Esk. repeat split; auto.
    + rewrite len_app. rewrite Hc. rewrite Ecs at 1. rewrite concat_app. cbn [concat]. rewrite !len_app. lia.
    + apply Forall_nonempty_app. split; [now apply Forall_firstn|now apply Forall_skipn].
  - (* split_to *)
    destruct (split_off c n) as [[a b]|] eqn:Es; [|discriminate]. injection E as <- <-.
    destruct (split_off_spec _ _ _ _ HI Es) as (Hn & Ia & Ib & Ea & Eb).
    cbn [out_bytes out_inv]. rewrite Ea, Eb. auto.
  - (* split_off *)
    destruct (split_off c n) as [[a b]|] eqn:Es; [|discriminate]. injection E as <- <-.
    destruct (split_off_spec _ _ _ _ HI Es) as (Hn & Ia & Ib & Ea & Eb).
    cbn [out_bytes out_inv]. rewrite Ea, Eb. auto.
  - (* truncate *)
    injection E as <- <-. destruct (trunc_spec (chunks c) n Hne) as [Et Ft].
    unfold Inv, abs in *; cbn [chunks cached out_bytes out_inv]. rewrite Et, len_firstn.
    repeat split; auto. lia.
  - (* advance *)
    destruct (N.ltb_spec (cached c) n) as [H|H]; [discriminate|].
    unfold abs in *. destruct (adv_spec (chunks c) n Hne) as (cs' & Ea & Fa & Ga); [lia|].
    rewrite Ea in E. injection E as <- <-.
    unfold Inv, abs; cbn [chunks cached out_bytes out_inv]. rewrite Fa, len_skipn. repeat split; auto. lia.
  - (* clear *)
    injection E as <- <-. cbn. repeat split; auto. constructor.
Qed.

Theorem step_none_iff c o : Inv c -> (step c o = None <-> out_of_range c o).
Proof.
  intros HI. pose proof HI as [Hc Hne]. destruct o; cbn [step out_of_range].
  - destruct (isnil c0); split; try discriminate; tauto.
  - destruct (isnil c0) eqn:En.
    + apply isnil_spec in En. split; [discriminate|]. tauto.
    + assert (c0 <> []) by (intros ->; discriminate).
      destruct (N.ltb_spec (len (chunks c)) i); split; try discriminate; auto; intros [_ ?]; lia.
  - destruct (rev (chunks c)) as [|x rr] eqn:Er; [split; [discriminate|tauto]|].
    destruct (rev_cons_last _ _ _ [] Er) as [El _].
    unfold sub_checked. destruct (N.ltb_spec (cached c) (len x)) as [H|H]; [|split; [discriminate|tauto]].
    exfalso. unfold abs in Hc. rewrite El, concat_app, len_app in Hc. cbn [concat] in Hc.
    rewrite app_nil_r in Hc. lia.
  - destruct (nth_error (chunks c) (N.to_nat i)) as [x|] eqn:En.
    + destruct (nth_error_split_N _ _ _ En) as (Ecs & _ & Hi).
      unfold sub_checked. destruct (N.ltb_spec (cached c) (len x)) as [H|H]; [|split; [discriminate|lia]].
      exfalso. unfold abs in Hc. rewrite Ecs, concat_app, len_app in Hc. cbn [concat] in Hc.
      rewrite len_app in Hc. lia.
    + apply nth_error_None in En. unfold len. split; auto. lia.
  - rewrite <- (split_off_none c n HI). destruct (split_off c n) as [[? ?]|]; split; congruence.
  - rewrite <- (split_off_none c n HI). destruct (split_off c n) as [[? ?]|]; split; congruence.
  - split; [discriminate|tauto].
  - destruct (N.ltb_spec (cached c) n) as [H|H]; [split; auto; lia|].
    destruct (adv_spec (chunks c) n Hne) as (cs' & Ea & _); [unfold abs in Hc; lia|].
    rewrite Ea. split; [discriminate|]. unfold abs in *. lia.
  - split; [discriminate|tauto].
Qed.

Lemma step_total_inv c o : Inv c -> Inv (fst (step_total c o)).
Proof.
  intros HI. unfold step_total. destruct (step c o) as [[c' r]|] eqn:E; cbn [fst]; auto.
  now destruct (step_ok _ _ _ _ HI E).
Qed.

Theorem run_inv ops : forall c, Inv c -> Inv (run c ops).
Proof. induction ops as [|o ops IH]; intros c HI; cbn [run]; auto. apply IH, step_total_inv, HI. Qed.

(* the Buf contract: reported length = real length, no empty chunk while bytes remain *)
Theorem buf_contract c : Inv c ->
  cached c = len (abs c) /\ (abs c <> [] -> first_chunk c <> []) /\
  exists rest, abs c = first_chunk c ++ rest.
Proof.
  intros [Hc Hne]. split; auto. unfold abs, first_chunk in *.
  destruct (chunks c) as [|x cs]; cbn [concat].
  - split; [congruence|]. exists []. reflexivity.
  - split; [|eauto]. intros _. now inversion Hne.
Qed.

(* an out-of-range call panics and leaves the value as it was *)
Theorem out_of_range_unchanged c o : Inv c -> out_of_range c o -> step_total c o = (c, None).
Proof. intros HI Ho. unfold step_total. now rewrite (proj2 (step_none_iff c o HI) Ho). Qed.

(* single CowBytes values: both variants behave like the byte list; they differ only in
   whether an out-of-range truncate panics (Temporary) or is a no-op (Static) *)
Theorem cstep_variants b o : cstep Temporary b o = cstep Static b o \/
  (exists n, o = CTruncate n /\ len b < n /\ cstep Temporary b o = None /\ cstep Static b o = Some (b, [])).
Proof.
  destruct o; cbn [cstep]; auto.
  destruct (N.ltb_spec (len b) n); auto. right. exists n. auto.
Qed.

Theorem cstep_ok v b o s r : cstep v b o = Some (s, r) ->
  match o with
  | CSplitTo n => n <= len b /\ r ++ s = b /\ len r = n
  | CSplitOff n => n <= len b /\ s ++ r = b /\ len s = n
  | CTruncate n => s = firstn (N.to_nat n) b /\ r = []
  | CAdvance n => n <= len b /\ s = skipn (N.to_nat n) b
  end.
Proof.
  destruct o; cbn [cstep]; destruct (N.ltb_spec (len b) n) as [H|H]; try discriminate.
  - intros E; inversion E; subst. rewrite firstn_skipn, len_firstn. repeat split; auto; lia.
  - intros E; inversion E; subst. rewrite firstn_skipn, len_firstn. repeat split; auto; lia.
  - destruct v; [discriminate|]. intros E; inversion E; subst. rewrite firstn_N_all by lia. auto.
  - intros E; inversion E; subst. auto.
  - intros E; inversion E; subst. auto.
Qed.
