(* The pair model restricted to one established flow is simulated by the two one-direction flow
   models joined by two tagged links (Flow/Dispatch.v): for every single-flow script (writes, reads,
   shutdowns by either end, message-by-message deliveries in either direction) the results of the
   pair model's [step] are those of [fstep_l], and the two stay related: each endpoint's stream
   object is the sender half of one flow state and the receiver half of the other, and each link of
   the pair, read as frames, is the interleaving of one direction's data frames in flight with the
   other direction's acknowledgements in flight.  Hence the theorems proved on the flow model
   (Flow/Proofs.v) are theorems about the pair model for such scripts. *)
From PV Require Import Mux.Sys Mux.SysProofs Mux.Project Frame.Proofs.
From PV Require Flow.Core Flow.Proofs Flow.Dispatch.
From Coq Require Import ZifyBool ZifyN ZifyNat.
Module FP := PV.Flow.Proofs.
Module FD := PV.Flow.Dispatch.

(* ---------------------------------------------------------------- only the stream table changes *)
Definition ctl_eq (e e' : ep) : Prop := e' = set_streams e (e_streams e').

Lemma ctl_refl e : ctl_eq e e.
Proof. unfold ctl_eq. destruct e; reflexivity. Qed.
Lemma ctl_trans e1 e2 e3 : ctl_eq e1 e2 -> ctl_eq e2 e3 -> ctl_eq e1 e3.
Proof. unfold ctl_eq. intros A B. rewrite B, A. destruct e1; reflexivity. Qed.
Lemma ctl_put e oid s : ctl_eq e (put_stream e oid s).
Proof. unfold ctl_eq, put_stream. destruct e; reflexivity. Qed.

Lemma ctl_fields e e' : ctl_eq e e' ->
  e_phase e' = e_phase e /\ e_blocked e' = e_blocked e /\ e_tx_closed e' = e_tx_closed e /\
  e_permits e' = e_permits e /\ e_txq e' = e_txq e /\ e_handles e' = e_handles e /\
  e_slots e' = e_slots e /\ e_rwnd e' = e_rwnd e /\ e_mux_alive e' = e_mux_alive e.
Proof. unfold ctl_eq. intros ->. destruct e; cbn. repeat split; reflexivity. Qed.

Lemma wake_writer_ctl' f oid : ctl_eq (f_ep f) (f_ep (wake_writer f oid)).
Proof.
  unfold wake_writer. destruct (get_stream (f_ep f) oid) as [s|]; [|apply ctl_refl].
  destruct (st_wpark s); [|apply ctl_refl].
  destruct (sid_of _ oid); cbn [f_ep with_ep wake]; apply ctl_put.
Qed.
Lemma wake_reader_ctl' f oid : ctl_eq (f_ep f) (f_ep (wake_reader f oid)).
Proof.
  unfold wake_reader. destruct (get_stream (f_ep f) oid) as [s|]; [|apply ctl_refl].
  destruct (st_rpark s); [|apply ctl_refl].
  destruct (sid_of _ oid); cbn [f_ep with_ep wake]; apply ctl_put.
Qed.
Lemma emit_ctl f fr : ctl_eq (f_ep f) (f_ep (emit f fr)).
Proof. rewrite emit_ep. apply ctl_refl. Qed.

Lemma do_write_ctl f sid d : ctl_eq (f_ep f) (f_ep (fst (do_write f sid d))).
Proof.
  unfold do_write. destruct (live_stream (f_ep f) sid) as [[oid s]|]; [|apply ctl_refl].
  destruct (st_fin s); [apply ctl_refl|]. destruct (st_credit s =? 0); cbn [fst f_ep with_ep]; [apply ctl_put|].
  destruct (emit_ok _); cbn [fst]; [rewrite emit_ep|]; cbn [f_ep with_ep]; apply ctl_put.
Qed.
Lemma do_shutdown_ctl f sid : ctl_eq (f_ep f) (f_ep (fst (do_shutdown f sid))).
Proof.
  unfold do_shutdown. destruct (live_stream (f_ep f) sid) as [[oid s]|]; [|apply ctl_refl].
  destruct (st_fin s); cbn [fst]; [apply ctl_refl|]. rewrite emit_ep. cbn [f_ep with_ep]. apply ctl_put.
Qed.
Lemma count_frame_ctl f oid : ctl_eq (f_ep f) (f_ep (count_frame f oid)).
Proof.
  unfold count_frame. destruct (get_stream (f_ep f) oid) as [s|]; [|apply ctl_refl].
  destruct (st_th s <=? st_since s + 1); [rewrite emit_ep|]; cbn [f_ep with_ep]; apply ctl_put.
Qed.
Lemma fill_buf_ctl : forall fuel f oid, ctl_eq (f_ep f) (f_ep (fst (fill_buf fuel f oid))).
Proof.
  induction fuel as [|fuel IH]; intros f oid; cbn [fill_buf]; [apply ctl_refl|].
  destruct (get_stream (f_ep f) oid) as [s|]; [|apply ctl_refl].
  destruct (st_rxq s) as [|d r].
  - destruct (st_txopen s); cbn [fst f_ep with_ep]; [apply ctl_put|apply ctl_refl].
  - set (f1 := with_ep f (put_stream (f_ep f) oid (st_set_rxq s r))).
    assert (A : ctl_eq (f_ep f) (f_ep (count_frame f1 oid))).
    { eapply ctl_trans; [|apply count_frame_ctl]. apply ctl_put. }
    destruct (isnil_b d).
    + eapply ctl_trans; [exact A|apply IH].
    + destruct (get_stream (f_ep (count_frame f1 oid)) oid); cbn [fst f_ep with_ep]; [|exact A].
      eapply ctl_trans; [exact A|apply ctl_put].
Qed.
Lemma do_read_ctl f sid n : ctl_eq (f_ep f) (f_ep (fst (do_read f sid n))).
Proof.
  unfold do_read. destruct (live_stream (f_ep f) sid) as [[oid s]|]; [|apply ctl_refl].
  destruct (isnil_b (st_buf s)).
  - destruct (fill_buf (S (length (st_rxq s))) f oid) as [f1 ready] eqn:E.
    assert (A : ctl_eq (f_ep f) (f_ep f1)) by (replace f1 with (fst (fill_buf (S (length (st_rxq s))) f oid)) by (now rewrite E); apply fill_buf_ctl).
    destruct ready; cbn [fst]; [|exact A].
    destruct (get_stream (f_ep f1) oid); cbn [fst f_ep with_ep]; [|exact A].
    eapply ctl_trans; [exact A|apply ctl_put].
  - destruct (get_stream (f_ep f) oid); cbn [fst f_ep with_ep]; [apply ctl_put|apply ctl_refl].
Qed.

(* ---------------------------------------------------------------- the end of a label, the relation *)
Lemma settle_idle f : e_phase (f_ep f) = Running -> e_txq (f_ep f) = [] -> e_permits (f_ep f) = None ->
  settle f = f.
Proof.
  intros P Q M. unfold settle. rewrite P, Q, M. cbn [app].
  unfold len. rewrite Nat2N.id, firstn_all, skipn_all.
  destruct f as [e o w c d]. cbn [f_ep f_out f_wakes f_closed f_done] in *.
  destruct e. cbn in *. subst. reflexivity.
Qed.

(* one endpoint with its one established stream *)
Record ep_ok (e : ep) (id oid : N) (s : stream) : Prop := {
  k_phase : e_phase e = Running; k_blocked : e_blocked e = BlNone; k_tx : e_tx_closed e = false;
  k_permits : e_permits e = None; k_txq : e_txq e = [];
  k_handle : nth_opt (e_handles e) 0 = Some oid;
  k_stream : get_stream e oid = Some s; k_alive : st_alive s = true; k_id : st_id s = id;
  k_slot : slot_get (e_slots e) id = Some (SEstablished oid) }.

Definition sframe_ok (fr : F.sframe) : Prop :=
  match fr with F.FPush d => bytes_ok d | F.FFin => True | F.FRst => False end.

(* a link of the pair, read as frames: data frames of direction [dd] and acknowledgements of direction [ad], in
   the order of the tagged link of the flow pair *)
Inductive link_ok (id dd ad : N) : list FD.lmsg -> list F.sframe -> list N -> list msg -> Prop :=
| lk_nil : link_ok id dd ad [] [] [] []
| lk_data la fr w a m : sframe_ok fr -> link_ok id dd ad la w a m ->
    link_ok id dd ad (FD.LData dd :: la) (fr :: w) a (wire id fr :: m)
| lk_ack la n w a m : n < 4294967296 -> link_ok id dd ad la w a m ->
    link_ok id dd ad (FD.LAck ad :: la) w (n :: a) (ackwire id n :: m).

Lemma link_snoc_data id dd ad la w a m fr : sframe_ok fr -> link_ok id dd ad la w a m ->
  link_ok id dd ad (la ++ [FD.LData dd]) (w ++ [fr]) a (m ++ [wire id fr]).
Proof.
  intros K H. induction H; cbn [app].
  - apply lk_data; [exact K|constructor].
  - apply lk_data; assumption.
  - apply lk_ack; assumption.
Qed.
Lemma link_snoc_acks id dd ad added : forall la w a m, Forall (fun n => n < 4294967296) added ->
  link_ok id dd ad la w a m ->
  link_ok id dd ad (la ++ repeat (FD.LAck ad) (length added)) w (a ++ added) (m ++ map (ackwire id) added).
Proof.
  induction added as [|n added IH]; intros la w a m K H; cbn [length repeat map].
  - rewrite !app_nil_r. exact H.
  - inversion K as [|? ? Kn Ka]; subst.
    assert (H1 : link_ok id dd ad (la ++ [FD.LAck ad]) w (a ++ [n]) (m ++ [ackwire id n])).
    { clear IH K Ka. induction H; cbn [app].
      - apply lk_ack; [exact Kn|constructor].
      - apply lk_data; assumption.
      - apply lk_ack; assumption. }
    specialize (IH _ _ _ _ Ka H1). rewrite <- !app_assoc in IH. exact IH.
Qed.

Record Rel (id : N) (s : sys) (fs : FD.fsys) : Prop := {
  r_id : id < 4294967296;
  r_a : exists oa sa, ep_ok (s_a s) id oa sa /\ S_view (FD.f0 fs) sa /\ R_view (FD.f1 fs) (e_rwnd (s_a s)) sa;
  r_b : exists ob sb, ep_ok (s_b s) id ob sb /\ S_view (FD.f1 fs) sb /\ R_view (FD.f0 fs) (e_rwnd (s_b s)) sb;
  r_la : link_ok id 0 1 (FD.la fs) (F.wsr (FD.f0 fs)) (F.wrs (FD.f1 fs)) (s_la s);
  r_lb : link_ok id 1 0 (FD.lb fs) (F.wsr (FD.f1 fs)) (F.wrs (FD.f0 fs)) (s_lb s);
  r_i0 : FP.Inv (FD.f0 fs); r_i1 : FP.Inv (FD.f1 fs);
  r_o0 : F.overrun (FD.f0 fs) = false; r_o1 : F.overrun (FD.f1 fs) = false;
  r_g0 : F.sgone (FD.f0 fs) = false; r_g1 : F.sgone (FD.f1 fs) = false;
  r_al : FD.a_alive fs = true /\ FD.b_alive fs = true }.

Definition lab_ok (l : FD.flab) : Prop :=
  match l with FD.FWrite _ d => bytes_ok d | _ => True end.
Definition to_sys (l : FD.flab) : label :=
  match l with
  | FD.FWrite e d => LWrite e 0 d
  | FD.FRead e n => LRead e 0 n
  | FD.FShut e => LShutdown e 0
  | FD.FDel d => LDeliver d
  end.

(* ---------------------------------------------------------------- what a flow label leaves alone *)
Definition S_same (x x' : F.st) : Prop := F.c x' = F.c x /\ F.fin x' = F.fin x.
Definition R_same (x x' : F.st) : Prop :=
  F.W x' = F.W x /\ F.th x' = F.th x /\ F.rxq x' = F.rxq x /\ F.txopen x' = F.txopen x /\
  F.ralive x' = F.ralive x /\ F.buf x' = F.buf x /\ F.u x' = F.u x.

Lemma S_view_S_same x x' s : S_view x s -> S_same x x' -> S_view x' s.
Proof. unfold S_view, S_same. intros (A & B) (C & D). split; congruence. Qed.
Lemma R_view_R_same x x' w s : R_view x w s -> R_same x x' -> R_view x' w s.
Proof. unfold R_view, R_same. intros (A & B & C & D & E & G & H) (A' & B' & C' & D' & E' & G' & H'). repeat split; congruence. Qed.

Lemma write_frame x d : R_same x (fst (F.step x (F.Write d))) /\ F.wrs (fst (F.step x (F.Write d))) = F.wrs x /\
  F.sgone (fst (F.step x (F.Write d))) = F.sgone x.
Proof. cbn [F.step]. destruct (F.fin x); [|destruct (F.c x =? 0)]; cbn; repeat split; reflexivity. Qed.
Lemma shutdown_frame x : R_same x (fst (F.step x F.Shutdown)) /\ F.wrs (fst (F.step x F.Shutdown)) = F.wrs x /\
  F.sgone (fst (F.step x F.Shutdown)) = F.sgone x.
Proof. cbn [F.step]. destruct (F.fin x); cbn; repeat split; reflexivity. Qed.
Lemma read_frame x n : S_same x (fst (F.step x (F.Read n))) /\ F.wsr (fst (F.step x (F.Read n))) = F.wsr x /\
  F.sgone (fst (F.step x (F.Read n))) = F.sgone x.
Proof.
  cbn [F.step]. destruct (negb (F.ralive x)); [cbn; repeat split; reflexivity|].
  destruct (F.buf x); [|cbn; repeat split; reflexivity].
  destruct (F.fill _ _ _ _) as [[[q' b] u'] acks']. destruct b; [destruct (F.txopen x)|]; cbn; repeat split; reflexivity.
Qed.
Lemma delsr_frame x : S_same x (fst (F.step x F.DelSR)) /\ F.wrs (fst (F.step x F.DelSR)) = F.wrs x /\
  F.sgone (fst (F.step x F.DelSR)) = F.sgone x.
Proof.
  cbn [F.step]. destruct (F.wsr x) as [|[d| |] r]; [cbn; repeat split; reflexivity|..].
  - destruct (negb (F.txopen x) || negb (F.ralive x)); [|destruct (len (F.rxq x) <? F.W x)]; cbn; repeat split; reflexivity.
  - cbn; repeat split; reflexivity.
  - cbn; repeat split; reflexivity.
Qed.
Lemma delrs_frame x : R_same x (fst (F.step x F.DelRS)) /\ F.wsr (fst (F.step x F.DelRS)) = F.wsr x /\
  F.sgone (fst (F.step x F.DelRS)) = F.sgone x /\ F.fin (fst (F.step x F.DelRS)) = F.fin x.
Proof. cbn [F.step]. destruct (F.wrs x); cbn; repeat split; reflexivity. Qed.

(* ---------------------------------------------------------------- one endpoint *)
Lemma enc_out_eq o : enc_out o = FD.out_res o.
Proof. destruct o; reflexivity. Qed.

Lemma ep_ok_live e id oid s : ep_ok e id oid s -> live_stream e 0 = Some (oid, s).
Proof. intros K. unfold live_stream. rewrite (k_handle _ _ _ _ K), (k_stream _ _ _ _ K), (k_alive _ _ _ _ K). reflexivity. Qed.

Lemma ep_ok_update e e' id oid s s' : ep_ok e id oid s -> ctl_eq e e' ->
  get_stream e' oid = Some s' -> st_alive s' = true -> st_id s' = id -> ep_ok e' id oid s'.
Proof.
  intros K C G A I. destruct (ctl_fields _ _ C) as (P1 & P2 & P3 & P4 & P5 & P6 & P7 & P8 & P9).
  destruct K. constructor; try congruence.
Qed.

Lemma ep_settle e id oid s f : ep_ok e id oid s -> ctl_eq e (f_ep f) -> settle f = f.
Proof.
  intros K C. destruct (ctl_fields _ _ C) as (P1 & P2 & P3 & P4 & P5 & _). destruct K.
  apply settle_idle; congruence.
Qed.

Lemma start_out e : f_out (start e) = []. Proof. reflexivity. Qed.
Lemma start_ep e : f_ep (start e) = e. Proof. reflexivity. Qed.

Lemma app_eq_self {A} (l x : list A) : l = l ++ x -> x = [].
Proof. intros H. rewrite <- (app_nil_r l) in H at 1. apply app_inv_head in H. auto. Qed.

(* a write by the application of this endpoint *)
Lemma ep_write e id oid s y d f' res y' o :
  ep_ok e id oid s -> S_view y s ->
  do_write (start e) 0 d = (f', res) -> F.step y (F.Write d) = (y', o) ->
  let added := match o with F.OWritten _ => [F.FPush d] | _ => [] end in
  res = FD.out_res o /\ settle f' = f' /\ e_rwnd (f_ep f') = e_rwnd e /\
  f_out f' = map (wire id) added /\ F.wsr y' = F.wsr y ++ added /\
  exists s', ep_ok (f_ep f') id oid s' /\ S_view y' s' /\ same_R s s'.
Proof.
  intros K V W Fs. cbv zeta.
  pose proof (ep_ok_live _ _ _ _ K) as L.
  destruct (write_projects (start e) 0 d oid s y f' res y' o L (k_tx _ _ _ _ K) V W Fs)
    as (R & s' & G & V' & SR & I & added & Ew & Eo).
  assert (C : ctl_eq e (f_ep f')).
  { replace f' with (fst (do_write (start e) 0 d)) by (now rewrite W). apply (do_write_ctl (start e)). }
  assert (K' : ep_ok (f_ep f') id oid s').
  { eapply ep_ok_update; eauto. - destruct SR as (_ & _ & _ & A & _). rewrite A. apply (k_alive _ _ _ _ K).
    - rewrite I. apply (k_id _ _ _ _ K). }
  rewrite (k_id _ _ _ _ K) in Eo. rewrite start_out in Eo. cbn [app] in Eo.
  assert (Ea : added = match o with F.OWritten _ => [F.FPush d] | _ => [] end).
  { destruct o; try (assert (Y : y' = y) by (eapply FP.write_refused_no_effect; eauto); subst y'; now apply app_eq_self in Ew).
    - cbn [F.step] in Fs. destruct (F.fin y); [inversion Fs|]. destruct (F.c y =? 0); inversion Fs.
    - destruct (FP.one_write_one_credit _ _ _ _ Fs) as (_ & _ & E & _). rewrite E in Ew. now apply app_inv_head in Ew.
    - cbn [F.step] in Fs. destruct (F.fin y); [inversion Fs|]. destruct (F.c y =? 0); inversion Fs.
    - cbn [F.step] in Fs. destruct (F.fin y); [inversion Fs|]. destruct (F.c y =? 0); inversion Fs. }
  subst added.
  split; [rewrite R; apply enc_out_eq|]. split; [exact (ep_settle e id oid s f' K C)|].
  split; [destruct (ctl_fields _ _ C) as (_ & _ & _ & _ & _ & _ & _ & Rw & _); exact Rw|].
  split; [exact Eo|]. split; [exact Ew|]. exists s'. auto.
Qed.

Lemma ep_shutdown e id oid s y f' res y' o :
  ep_ok e id oid s -> S_view y s ->
  do_shutdown (start e) 0 = (f', res) -> F.step y F.Shutdown = (y', o) ->
  let added := if F.fin y then [] else [F.FFin] in
  res = [0] /\ settle f' = f' /\ e_rwnd (f_ep f') = e_rwnd e /\
  f_out f' = map (wire id) added /\ F.wsr y' = F.wsr y ++ added /\
  exists s', ep_ok (f_ep f') id oid s' /\ S_view y' s' /\ same_R s s'.
Proof.
  intros K V W Fs. cbv zeta.
  pose proof (ep_ok_live _ _ _ _ K) as L.
  destruct (shutdown_projects (start e) 0 oid s y f' res y' o L (k_tx _ _ _ _ K) V W Fs)
    as (R & s' & G & V' & SR & I & added & Ew & Eo).
  assert (C : ctl_eq e (f_ep f')).
  { replace f' with (fst (do_shutdown (start e) 0)) by (now rewrite W). apply (do_shutdown_ctl (start e)). }
  assert (K' : ep_ok (f_ep f') id oid s').
  { eapply ep_ok_update; eauto. - destruct SR as (_ & _ & _ & A & _). rewrite A. apply (k_alive _ _ _ _ K).
    - rewrite I. apply (k_id _ _ _ _ K). }
  rewrite (k_id _ _ _ _ K) in Eo. rewrite start_out in Eo. cbn [app] in Eo.
  assert (Ea : added = (if F.fin y then [] else [F.FFin]) /\ o = F.ONone).
  { cbn [F.step] in Fs. destruct (F.fin y); inversion Fs; subst; cbn [F.wsr] in Ew.
    - split; [now apply app_eq_self in Ew|reflexivity].
    - split; [now apply app_inv_head in Ew|reflexivity]. }
  destruct Ea as (-> & ->).
  split; [exact R|]. split; [exact (ep_settle e id oid s f' K C)|].
  split; [destruct (ctl_fields _ _ C) as (_ & _ & _ & _ & _ & _ & _ & Rw & _); exact Rw|].
  split; [exact Eo|]. split; [exact Ew|]. exists s'. auto.
Qed.

Lemma in_le_sumN n l : In n l -> n <= F.sumN l.
Proof.
  induction l as [|x l IH]; intros H; [contradiction|]. rewrite FP.sumN_cons.
  destruct H as [->|H]; [lia|]. specialize (IH H). lia.
Qed.

(* the acknowledgements in flight are bounded by the window *)
Lemma acks_small x : FP.Inv x -> F.ralive x = true -> F.overrun x = false ->
  Forall (fun n => n < 4294967296) (F.wrs x).
Proof.
  intros HI Ha Ho. apply Forall_forall. intros n Hn. pose proof (in_le_sumN _ _ Hn) as B.
  pose proof (FP.i_W x HI) as W.
  assert (C : FP.cond x).
  { unfold FP.cond. destruct (F.txopen x) eqn:T; [left; reflexivity|right].
    destruct (FP.i_end3 x HI T Ha Ho) as (Z & _). exact Z. }
  pose proof (FP.i_le x HI Ha Ho C). lia.
Qed.

Lemma ep_read e id oid s x n f' res x' o :
  ep_ok e id oid s -> R_view x (e_rwnd e) s -> FP.Inv x -> F.overrun x = false ->
  do_read (start e) 0 n = (f', res) -> F.step x (F.Read n) = (x', o) ->
  res = FD.out_res o /\ settle f' = f' /\ e_rwnd (f_ep f') = e_rwnd e /\
  exists added, F.wrs x' = F.wrs x ++ added /\ f_out f' = map (ackwire id) added /\
    FD.new_acks x x' = length added /\ Forall (fun n => n < 4294967296) added /\
  exists s', ep_ok (f_ep f') id oid s' /\ R_view x' (e_rwnd e) s' /\ same_S s s'.
Proof.
  intros K V HI Ho Rd Fs.
  pose proof (ep_ok_live _ _ _ _ K) as L.
  destruct (read_projects (start e) 0 n oid s x (e_rwnd e) f' res x' o L (k_tx _ _ _ _ K) V Rd Fs)
    as (R & s' & G & V' & SS & I & added & Ew & Eo).
  assert (C : ctl_eq e (f_ep f')).
  { replace f' with (fst (do_read (start e) 0 n)) by (now rewrite Rd). apply (do_read_ctl (start e)). }
  assert (Al : st_alive s' = true).
  { destruct V' as (_ & _ & _ & _ & A & _). destruct V as (_ & _ & _ & _ & A0 & _).
    assert (E : F.ralive x' = F.ralive x).
    { replace x' with (fst (F.step x (F.Read n))) by (now rewrite Fs). cbn [F.step].
      destruct (negb (F.ralive x)); [reflexivity|]. destruct (F.buf x); [|reflexivity].
      destruct (F.fill _ _ _ _) as [[[q' b] u'] acks']. destruct b; [destruct (F.txopen x)|]; reflexivity. }
    rewrite <- A, E, A0. apply (k_alive _ _ _ _ K). }
  assert (K' : ep_ok (f_ep f') id oid s').
  { eapply ep_ok_update; eauto. rewrite I. apply (k_id _ _ _ _ K). }
  rewrite (k_id _ _ _ _ K) in Eo. rewrite start_out in Eo. cbn [app] in Eo.
  split; [rewrite R; apply enc_out_eq|]. split; [exact (ep_settle e id oid s f' K C)|].
  split; [destruct (ctl_fields _ _ C) as (_ & _ & _ & _ & _ & _ & _ & Rw & _); exact Rw|].
  exists added. split; [exact Ew|]. split; [exact Eo|].
  split; [unfold FD.new_acks; rewrite Ew, app_length; lia|].
  split.
  { assert (HI' : FP.Inv x') by (replace x' with (fst (F.step x (F.Read n))) by (now rewrite Fs); apply FP.step_inv, HI).
    assert (Ho' : F.overrun x' = false) by (replace x' with (fst (F.step x (F.Read n))) by (now rewrite Fs); apply FP.step_no_overrun; assumption).
    assert (Ha' : F.ralive x' = true).
    { destruct V' as (_ & _ & _ & _ & A & _). rewrite A. exact Al. }
    pose proof (acks_small x' HI' Ha' Ho') as B. rewrite Ew in B. apply Forall_app in B. apply B. }
  exists s'. auto.
Qed.

(* ---------------------------------------------------------------- deliveries to one endpoint *)
Lemma deliver_frame e fr f' : e_phase e = Running -> e_blocked e = BlNone -> wf fr ->
  process_frame (start e) fr false = (f', RxContinue) ->
  deliver (start e) (MBin (encode fr)) = (f', true).
Proof.
  intros P B Wf H. unfold deliver. rewrite start_ep, P, B. cbn [process_message].
  rewrite (decode_encode fr Wf), H. reflexivity.
Qed.

Lemma push_ctl f id d wd oid s : slot_get (e_slots (f_ep f)) id = Some (SEstablished oid) ->
  get_stream (f_ep f) oid = Some s -> st_txopen s = true -> st_alive s = true ->
  (len (st_rxq s) <? e_rwnd (f_ep f)) = true ->
  ctl_eq (f_ep f) (f_ep (fst (process_frame f (Push id d) wd))).
Proof.
  intros Sl G T A L. unfold process_frame. rewrite Sl, G, T, A, L. cbn [negb fst].
  eapply ctl_trans; [|apply wake_reader_ctl']. cbn [f_ep with_ep]. apply ctl_put.
Qed.
Lemma finish_ctl f id wd oid : slot_get (e_slots (f_ep f)) id = Some (SEstablished oid) ->
  ctl_eq (f_ep f) (f_ep (fst (process_frame f (Finish id) wd))).
Proof.
  intros Sl. unfold process_frame. rewrite Sl. cbn [fst]. unfold disallow_read.
  destruct (get_stream (f_ep f) oid) as [s|]; [|apply ctl_refl]. destruct (st_txopen s); [|apply ctl_refl].
  eapply ctl_trans; [|apply wake_reader_ctl']. cbn [f_ep with_ep]. apply ctl_put.
Qed.
Lemma ack_ctl f id n wd oid : slot_get (e_slots (f_ep f)) id = Some (SEstablished oid) ->
  ctl_eq (f_ep f) (f_ep (fst (process_frame f (Acknowledge id n) wd))).
Proof.
  intros Sl. unfold process_frame. rewrite Sl.
  destruct (get_stream (f_ep f) oid) as [s|]; cbn [fst]; [|apply ctl_refl].
  eapply ctl_trans; [|apply wake_writer_ctl']. cbn [f_ep with_ep]. apply ctl_put.
Qed.

Lemma ep_deliver_data e id oid s x y fr r :
  ep_ok e id oid s -> id < 4294967296 -> R_view x (e_rwnd e) s -> S_view y s ->
  FP.Inv x -> F.overrun x = false -> F.wsr x = fr :: r -> sframe_ok fr ->
  exists f', deliver (start e) (wire id fr) = (f', true) /\ settle f' = f' /\ f_out f' = [] /\
    e_rwnd (f_ep f') = e_rwnd e /\ F.wsr (fst (F.step x F.DelSR)) = r /\
    exists s', ep_ok (f_ep f') id oid s' /\ R_view (fst (F.step x F.DelSR)) (e_rwnd e) s' /\ same_S s s'.
Proof.
  intros K Hid V Vy HI Ho Wx Ok.
  pose proof V as (VW & Vt & Vq & Vo & Va & Vb & Vu).
  assert (Ha : F.ralive x = true) by (rewrite Va; apply (k_alive _ _ _ _ K)).
  destruct fr as [d| |]; [| |contradiction]; cbn [sframe_ok] in Ok.
  - (* Push *)
    assert (Tx : F.txopen x = true).
    { destruct (F.txopen x) eqn:T; auto. destruct (FP.i_end3 x HI T Ha Ho) as (Z & _).
      rewrite Wx in Z. cbn [FP.npush] in Z. lia. }
    assert (Lt : (len (st_rxq s) <? e_rwnd e) = true).
    { pose proof (FP.i_le x HI Ha Ho (or_introl Tx)) as B. rewrite Wx in B. cbn [FP.npush] in B.
      rewrite <- Vq, <- VW. apply N.ltb_lt. lia. }
    destruct (process_frame (start e) (Push id d) false) as [f' rr] eqn:P.
    destruct (push_projects (start e) id d false oid s x y r f' rr (k_slot _ _ _ _ K) (k_stream _ _ _ _ K)
                (k_tx _ _ _ _ K) V Vy Wx P) as (Rr & Wr & s' & G & V' & I & Br).
    rewrite <- Vo in Br. rewrite Tx in Br. rewrite (k_alive _ _ _ _ K) in Br. rewrite start_ep in Br.
    rewrite Lt in Br. cbn [andb negb] in Br. destruct Br as (SS & Sl & Eo).
    subst rr. exists f'.
    assert (C : ctl_eq e (f_ep f')).
    { replace f' with (fst (process_frame (start e) (Push id d) false)) by (now rewrite P).
      apply (push_ctl (start e) id d false oid s (k_slot _ _ _ _ K) (k_stream _ _ _ _ K)); auto.
      - rewrite <- Vo. exact Tx. - apply (k_alive _ _ _ _ K). }
    split; [apply deliver_frame; auto; [apply (k_phase _ _ _ _ K)|apply (k_blocked _ _ _ _ K)|split; [exact Hid|exact Ok]]|].
    split; [exact (ep_settle e id oid s f' K C)|].
    split; [rewrite Eo, start_out; reflexivity|].
    split; [destruct (ctl_fields _ _ C) as (_ & _ & _ & _ & _ & _ & _ & Rw & _); exact Rw|].
    split; [exact Wr|]. exists s'. split; [|split; [exact V'|exact SS]].
    eapply ep_ok_update; eauto.
    + destruct V' as (_ & _ & _ & _ & A & _). rewrite <- A.
      cbn [F.step]. rewrite Wx, Tx, Ha. cbn [negb orb].
      rewrite Vq, VW, Lt. reflexivity.
    + rewrite I. apply (k_id _ _ _ _ K).
  - (* Finish *)
    destruct (process_frame (start e) (Finish id) false) as [f' rr] eqn:P.
    destruct (finish_projects (start e) id false oid s x r f' rr (k_slot _ _ _ _ K) (k_stream _ _ _ _ K) V Wx P)
      as (Rr & Wr & s' & G & V' & SS & I & Sl & Eo).
    subst rr. exists f'.
    assert (C : ctl_eq e (f_ep f')).
    { replace f' with (fst (process_frame (start e) (Finish id) false)) by (now rewrite P).
      apply (finish_ctl (start e) id false oid (k_slot _ _ _ _ K)). }
    split; [apply deliver_frame; auto; [apply (k_phase _ _ _ _ K)|apply (k_blocked _ _ _ _ K)|split; [exact Hid|exact Logic.I]]|].
    split; [exact (ep_settle e id oid s f' K C)|].
    split; [rewrite Eo, start_out; reflexivity|].
    split; [destruct (ctl_fields _ _ C) as (_ & _ & _ & _ & _ & _ & _ & Rw & _); exact Rw|].
    split; [exact Wr|]. exists s'. split; [|split; [exact V'|exact SS]].
    eapply ep_ok_update; eauto.
    + destruct V' as (_ & _ & _ & _ & A & _). rewrite <- A. cbn [F.step]. rewrite Wx. cbn. exact Ha.
    + rewrite I. apply (k_id _ _ _ _ K).
Qed.

Lemma ep_deliver_ack e id oid s y n r :
  ep_ok e id oid s -> id < 4294967296 -> n < 4294967296 -> S_view y s ->
  F.sgone y = false -> F.wrs y = n :: r ->
  exists f', deliver (start e) (ackwire id n) = (f', true) /\ settle f' = f' /\ f_out f' = [] /\
    e_rwnd (f_ep f') = e_rwnd e /\ F.wrs (fst (F.step y F.DelRS)) = r /\
    exists s', ep_ok (f_ep f') id oid s' /\ S_view (fst (F.step y F.DelRS)) s' /\ same_R s s'.
Proof.
  intros K Hid Hn V Sg Wy.
  destruct (process_frame (start e) (Acknowledge id n) false) as [f' rr] eqn:P.
  destruct (acknowledge_projects (start e) id n false oid s y r f' rr (k_slot _ _ _ _ K) (k_stream _ _ _ _ K) V Sg Wy P)
    as (Rr & Wr & s' & G & V' & SR & I & Sl & Eo).
  subst rr. exists f'.
  assert (C : ctl_eq e (f_ep f')).
  { replace f' with (fst (process_frame (start e) (Acknowledge id n) false)) by (now rewrite P).
    apply (ack_ctl (start e) id n false oid (k_slot _ _ _ _ K)). }
  split; [apply deliver_frame; auto; [apply (k_phase _ _ _ _ K)|apply (k_blocked _ _ _ _ K)|split; [exact Hid|exact Hn]]|].
  split; [exact (ep_settle e id oid s f' K C)|].
  split; [rewrite Eo, start_out; reflexivity|].
  split; [destruct (ctl_fields _ _ C) as (_ & _ & _ & _ & _ & _ & _ & Rw & _); exact Rw|].
  split; [exact Wr|]. exists s'. split; [|split; [exact V'|exact SR]].
  eapply ep_ok_update; eauto.
  - destruct SR as (_ & _ & _ & A & _). rewrite A. apply (k_alive _ _ _ _ K).
  - rewrite I. apply (k_id _ _ _ _ K).
Qed.

(* ---------------------------------------------------------------- the pair *)
Lemma R_view_rwnd x w w' s : R_view x w s -> w' = w -> F.W x = w' /\ R_view x w s.
Proof. intros V ->. split; [apply V|exact V]. Qed.

Lemma sim_write_a id s fs e d : Rel id s fs -> bytes_ok d -> (e =? 0) = true ->
  o_res (snd (step s (LWrite e 0 d))) = snd (FD.fstep_l fs (FD.FWrite e d)) /\
  Rel id (fst (step s (LWrite e 0 d))) (fst (FD.fstep_l fs (FD.FWrite e d))).
Proof.
  intros [Hid (oa & sa & Ka & VSa & VRa) (ob & sb & Kb & VSb & VRb) La Lb I0 I1 O0 O1 G0 G1 (Aa & Ab)] Hd E0.
  cbn [step FD.fstep_l]. unfold on_ep, get_ep. rewrite E0, Aa.
  destruct (do_write (start (s_a s)) 0 d) as [f' res] eqn:W.
  destruct (F.step (FD.f0 fs) (F.Write d)) as [y' o] eqn:Fs.
  destruct (ep_write _ _ _ _ _ _ _ _ _ _ Ka VSa W Fs) as (R & St & Rw & Eo & Ew & s' & K' & V' & SR).
  rewrite St. cbn [fst snd o_res FD.f0 FD.f1 FD.la FD.lb FD.a_alive FD.b_alive].
  split; [exact R|].
  pose proof (write_frame (FD.f0 fs) d) as (RS & Wrs & Sg). rewrite Fs in RS, Wrs, Sg. cbn [fst] in RS, Wrs, Sg.
  assert (I0' : FP.Inv y') by (replace y' with (fst (F.step (FD.f0 fs) (F.Write d))) by (now rewrite Fs); apply FP.step_inv, I0).
  assert (O0' : F.overrun y' = false) by (replace y' with (fst (F.step (FD.f0 fs) (F.Write d))) by (now rewrite Fs); apply FP.step_no_overrun; assumption).
  constructor; cbn [s_a s_b s_la s_lb FD.f0 FD.f1 FD.la FD.lb FD.a_alive FD.b_alive]; auto.
  - exists oa, s'. split; [exact K'|]. split; [exact V'|]. rewrite Rw. eapply R_view_same; eauto.
  - exists ob, sb. split; [exact Kb|]. split; [exact VSb|]. eapply R_view_R_same; eauto.
  - rewrite Eo, Ew. destruct o; cbn [map]; rewrite ?app_nil_r; auto.
    apply link_snoc_data; [exact Hd|exact La].
  - rewrite Wrs. exact Lb.
  - congruence.
Qed.

Lemma sim_write_b id s fs e d : Rel id s fs -> bytes_ok d -> (e =? 0) = false ->
  o_res (snd (step s (LWrite e 0 d))) = snd (FD.fstep_l fs (FD.FWrite e d)) /\
  Rel id (fst (step s (LWrite e 0 d))) (fst (FD.fstep_l fs (FD.FWrite e d))).
Proof.
  intros [Hid (oa & sa & Ka & VSa & VRa) (ob & sb & Kb & VSb & VRb) La Lb I0 I1 O0 O1 G0 G1 (Aa & Ab)] Hd E0.
  cbn [step FD.fstep_l]. unfold on_ep, get_ep. rewrite E0, Ab.
  destruct (do_write (start (s_b s)) 0 d) as [f' res] eqn:W.
  destruct (F.step (FD.f1 fs) (F.Write d)) as [y' o] eqn:Fs.
  destruct (ep_write _ _ _ _ _ _ _ _ _ _ Kb VSb W Fs) as (R & St & Rw & Eo & Ew & s' & K' & V' & SR).
  rewrite St. cbn [fst snd o_res FD.f0 FD.f1 FD.la FD.lb FD.a_alive FD.b_alive].
  split; [exact R|].
  pose proof (write_frame (FD.f1 fs) d) as (RS & Wrs & Sg). rewrite Fs in RS, Wrs, Sg. cbn [fst] in RS, Wrs, Sg.
  assert (I1' : FP.Inv y') by (replace y' with (fst (F.step (FD.f1 fs) (F.Write d))) by (now rewrite Fs); apply FP.step_inv, I1).
  assert (O1' : F.overrun y' = false) by (replace y' with (fst (F.step (FD.f1 fs) (F.Write d))) by (now rewrite Fs); apply FP.step_no_overrun; assumption).
  constructor; cbn [s_a s_b s_la s_lb FD.f0 FD.f1 FD.la FD.lb FD.a_alive FD.b_alive]; auto.
  - exists oa, sa. split; [exact Ka|]. split; [exact VSa|]. eapply R_view_R_same; eauto.
  - exists ob, s'. split; [exact K'|]. split; [exact V'|]. rewrite Rw. eapply R_view_same; eauto.
  - rewrite Wrs. exact La.
  - rewrite Eo, Ew. destruct o; cbn [map]; rewrite ?app_nil_r; auto.
    apply link_snoc_data; [exact Hd|exact Lb].
  - congruence.
Qed.

Lemma sim_shut_a id s fs e : Rel id s fs -> (e =? 0) = true ->
  o_res (snd (step s (LShutdown e 0))) = snd (FD.fstep_l fs (FD.FShut e)) /\
  Rel id (fst (step s (LShutdown e 0))) (fst (FD.fstep_l fs (FD.FShut e))).
Proof.
  intros [Hid (oa & sa & Ka & VSa & VRa) (ob & sb & Kb & VSb & VRb) La Lb I0 I1 O0 O1 G0 G1 (Aa & Ab)] E0.
  cbn [step FD.fstep_l]. unfold on_ep, get_ep. rewrite E0, Aa.
  destruct (do_shutdown (start (s_a s)) 0) as [f' res] eqn:W.
  destruct (F.step (FD.f0 fs) F.Shutdown) as [y' o] eqn:Fs.
  destruct (ep_shutdown _ _ _ _ _ _ _ _ _ Ka VSa W Fs) as (R & St & Rw & Eo & Ew & s' & K' & V' & SR).
  rewrite St. cbn [fst snd o_res FD.f0 FD.f1 FD.la FD.lb FD.a_alive FD.b_alive].
  split; [exact R|].
  pose proof (shutdown_frame (FD.f0 fs)) as (RS & Wrs & Sg). rewrite Fs in RS, Wrs, Sg. cbn [fst] in RS, Wrs, Sg.
  assert (I0' : FP.Inv y') by (replace y' with (fst (F.step (FD.f0 fs) F.Shutdown)) by (now rewrite Fs); apply FP.step_inv, I0).
  assert (O0' : F.overrun y' = false) by (replace y' with (fst (F.step (FD.f0 fs) F.Shutdown)) by (now rewrite Fs); apply FP.step_no_overrun; assumption).
  constructor; cbn [s_a s_b s_la s_lb FD.f0 FD.f1 FD.la FD.lb FD.a_alive FD.b_alive]; auto.
  - exists oa, s'. split; [exact K'|]. split; [exact V'|]. rewrite Rw. eapply R_view_same; eauto.
  - exists ob, sb. split; [exact Kb|]. split; [exact VSb|]. eapply R_view_R_same; eauto.
  - rewrite Eo, Ew. destruct (F.fin (FD.f0 fs)); cbn [map]; rewrite ?app_nil_r; auto.
    apply link_snoc_data; [exact Logic.I|exact La].
  - rewrite Wrs. exact Lb.
  - congruence.
Qed.

Lemma sim_shut_b id s fs e : Rel id s fs -> (e =? 0) = false ->
  o_res (snd (step s (LShutdown e 0))) = snd (FD.fstep_l fs (FD.FShut e)) /\
  Rel id (fst (step s (LShutdown e 0))) (fst (FD.fstep_l fs (FD.FShut e))).
Proof.
  intros [Hid (oa & sa & Ka & VSa & VRa) (ob & sb & Kb & VSb & VRb) La Lb I0 I1 O0 O1 G0 G1 (Aa & Ab)] E0.
  cbn [step FD.fstep_l]. unfold on_ep, get_ep. rewrite E0, Ab.
  destruct (do_shutdown (start (s_b s)) 0) as [f' res] eqn:W.
  destruct (F.step (FD.f1 fs) F.Shutdown) as [y' o] eqn:Fs.
  destruct (ep_shutdown _ _ _ _ _ _ _ _ _ Kb VSb W Fs) as (R & St & Rw & Eo & Ew & s' & K' & V' & SR).
  rewrite St. cbn [fst snd o_res FD.f0 FD.f1 FD.la FD.lb FD.a_alive FD.b_alive].
  split; [exact R|].
  pose proof (shutdown_frame (FD.f1 fs)) as (RS & Wrs & Sg). rewrite Fs in RS, Wrs, Sg. cbn [fst] in RS, Wrs, Sg.
  assert (I1' : FP.Inv y') by (replace y' with (fst (F.step (FD.f1 fs) F.Shutdown)) by (now rewrite Fs); apply FP.step_inv, I1).
  assert (O1' : F.overrun y' = false) by (replace y' with (fst (F.step (FD.f1 fs) F.Shutdown)) by (now rewrite Fs); apply FP.step_no_overrun; assumption).
  constructor; cbn [s_a s_b s_la s_lb FD.f0 FD.f1 FD.la FD.lb FD.a_alive FD.b_alive]; auto.
  - exists oa, sa. split; [exact Ka|]. split; [exact VSa|]. eapply R_view_R_same; eauto.
  - exists ob, s'. split; [exact K'|]. split; [exact V'|]. rewrite Rw. eapply R_view_same; eauto.
  - rewrite Wrs. exact La.
  - rewrite Eo, Ew. destruct (F.fin (FD.f1 fs)); cbn [map]; rewrite ?app_nil_r; auto.
    apply link_snoc_data; [exact Logic.I|exact Lb].
  - congruence.
Qed.

Lemma sim_read_a id s fs e n : Rel id s fs -> (e =? 0) = true ->
  o_res (snd (step s (LRead e 0 n))) = snd (FD.fstep_l fs (FD.FRead e n)) /\
  Rel id (fst (step s (LRead e 0 n))) (fst (FD.fstep_l fs (FD.FRead e n))).
Proof.
  intros [Hid (oa & sa & Ka & VSa & VRa) (ob & sb & Kb & VSb & VRb) La Lb I0 I1 O0 O1 G0 G1 (Aa & Ab)] E0.
  cbn [step FD.fstep_l]. unfold on_ep, get_ep. rewrite E0, Aa.
  destruct (do_read (start (s_a s)) 0 n) as [f' res] eqn:W.
  destruct (F.step (FD.f1 fs) (F.Read n)) as [x' o] eqn:Fs.
  destruct (ep_read _ _ _ _ _ _ _ _ _ _ Ka VRa I1 O1 W Fs) as (R & St & Rw & added & Ew & Eo & Na & Sm & s' & K' & V' & SS).
  rewrite St. cbn [fst snd o_res FD.f0 FD.f1 FD.la FD.lb FD.a_alive FD.b_alive].
  split; [exact R|].
  pose proof (read_frame (FD.f1 fs) n) as (SSf & Wsr & Sg). rewrite Fs in SSf, Wsr, Sg. cbn [fst] in SSf, Wsr, Sg.
  assert (I1' : FP.Inv x') by (replace x' with (fst (F.step (FD.f1 fs) (F.Read n))) by (now rewrite Fs); apply FP.step_inv, I1).
  assert (O1' : F.overrun x' = false) by (replace x' with (fst (F.step (FD.f1 fs) (F.Read n))) by (now rewrite Fs); apply FP.step_no_overrun; assumption).
  constructor; cbn [s_a s_b s_la s_lb FD.f0 FD.f1 FD.la FD.lb FD.a_alive FD.b_alive]; auto.
  - exists oa, s'. split; [exact K'|]. split; [eapply S_view_same; eauto|]. rewrite Rw. exact V'.
  - exists ob, sb. split; [exact Kb|]. split; [eapply S_view_S_same; eauto|exact VRb].
  - rewrite Eo, Ew, Na. apply link_snoc_acks; assumption.
  - rewrite Wsr. exact Lb.
  - congruence.
Qed.

Lemma sim_read_b id s fs e n : Rel id s fs -> (e =? 0) = false ->
  o_res (snd (step s (LRead e 0 n))) = snd (FD.fstep_l fs (FD.FRead e n)) /\
  Rel id (fst (step s (LRead e 0 n))) (fst (FD.fstep_l fs (FD.FRead e n))).
Proof.
  intros [Hid (oa & sa & Ka & VSa & VRa) (ob & sb & Kb & VSb & VRb) La Lb I0 I1 O0 O1 G0 G1 (Aa & Ab)] E0.
  cbn [step FD.fstep_l]. unfold on_ep, get_ep. rewrite E0, Ab.
  destruct (do_read (start (s_b s)) 0 n) as [f' res] eqn:W.
  destruct (F.step (FD.f0 fs) (F.Read n)) as [x' o] eqn:Fs.
  destruct (ep_read _ _ _ _ _ _ _ _ _ _ Kb VRb I0 O0 W Fs) as (R & St & Rw & added & Ew & Eo & Na & Sm & s' & K' & V' & SS).
  rewrite St. cbn [fst snd o_res FD.f0 FD.f1 FD.la FD.lb FD.a_alive FD.b_alive].
  split; [exact R|].
  pose proof (read_frame (FD.f0 fs) n) as (SSf & Wsr & Sg). rewrite Fs in SSf, Wsr, Sg. cbn [fst] in SSf, Wsr, Sg.
  assert (I0' : FP.Inv x') by (replace x' with (fst (F.step (FD.f0 fs) (F.Read n))) by (now rewrite Fs); apply FP.step_inv, I0).
  assert (O0' : F.overrun x' = false) by (replace x' with (fst (F.step (FD.f0 fs) (F.Read n))) by (now rewrite Fs); apply FP.step_no_overrun; assumption).
  constructor; cbn [s_a s_b s_la s_lb FD.f0 FD.f1 FD.la FD.lb FD.a_alive FD.b_alive]; auto.
  - exists oa, sa. split; [exact Ka|]. split; [eapply S_view_S_same; eauto|exact VRa].
  - exists ob, s'. split; [exact K'|]. split; [eapply S_view_same; eauto|]. rewrite Rw. exact V'.
  - rewrite Wsr. exact La.
  - rewrite Eo, Ew, Na. apply link_snoc_acks; assumption.
  - congruence.
Qed.

Lemma sim_del_0 id s fs d : Rel id s fs -> (d =? 0) = true ->
  o_res (snd (step s (LDeliver d))) = snd (FD.fstep_l fs (FD.FDel d)) /\
  Rel id (fst (step s (LDeliver d))) (fst (FD.fstep_l fs (FD.FDel d))).
Proof.
  intros HR E0. pose proof HR as [Hid (oa & sa & Ka & VSa & VRa) (ob & sb & Kb & VSb & VRb) La Lb I0 I1 O0 O1 G0 G1 (Aa & Ab)].
  cbn [step FD.fstep_l]. unfold get_ep. rewrite E0. change (1 =? 0) with false. change (0 =? 0) with true. cbv iota.
  inversion La as [E1 E2 E3 E4 | la' fr w a m Ok La' E1 E2 E3 E4 | la' n w a m Hn La' E1 E2 E3 E4].
  - (* nothing in flight *)
    cbn [fst snd o_res]. split; [reflexivity|exact HR].
  - (* a data frame of direction 0 reaches B *)
    symmetry in E2.
    destruct (ep_deliver_data _ _ _ _ _ _ _ _ Kb Hid VRb VSb I0 O0 E2 Ok)
      as (f' & Dl & St & Eo & Rw & Wr & s' & K' & V' & SS).
    rewrite Dl, St, Eo, app_nil_r. change (0 =? 0) with true. cbv iota.
    cbn [fst snd o_res FD.f0 FD.f1 FD.la FD.lb FD.a_alive FD.b_alive].
    split; [reflexivity|].
    pose proof (delsr_frame (FD.f0 fs)) as (SSf & Wrs & Sg).
    constructor; cbn [s_a s_b s_la s_lb FD.f0 FD.f1 FD.la FD.lb FD.a_alive FD.b_alive]; auto.
    + exists oa, sa. split; [exact Ka|]. split; [eapply S_view_S_same; eauto|exact VRa].
    + exists ob, s'. split; [exact K'|]. split; [eapply S_view_same; eauto|]. rewrite Rw. exact V'.
    + rewrite Wr. exact La'.
    + rewrite Wrs. exact Lb.
    + apply FP.step_inv, I0.
    + apply FP.step_no_overrun; assumption.
    + congruence.
  - (* an acknowledgement for direction 1 reaches B *)
    symmetry in E3.
    destruct (ep_deliver_ack _ _ _ _ _ _ _ Kb Hid Hn VSb G1 E3)
      as (f' & Dl & St & Eo & Rw & Wr & s' & K' & V' & SR).
    rewrite Dl, St, Eo, app_nil_r. change (1 =? 0) with false. cbv iota.
    cbn [fst snd o_res FD.f0 FD.f1 FD.la FD.lb FD.a_alive FD.b_alive].
    split; [reflexivity|].
    pose proof (delrs_frame (FD.f1 fs)) as (RSf & Wsr & Sg & Fn).
    constructor; cbn [s_a s_b s_la s_lb FD.f0 FD.f1 FD.la FD.lb FD.a_alive FD.b_alive]; auto.
    + exists oa, sa. split; [exact Ka|]. split; [exact VSa|eapply R_view_R_same; eauto].
    + exists ob, s'. split; [exact K'|]. split; [exact V'|]. rewrite Rw. eapply R_view_same; eauto.
    + rewrite Wr. exact La'.
    + rewrite Wsr. exact Lb.
    + apply FP.step_inv, I1.
    + apply FP.step_no_overrun; assumption.
    + congruence.
Qed.

Lemma sim_del_1 id s fs d : Rel id s fs -> (d =? 0) = false ->
  o_res (snd (step s (LDeliver d))) = snd (FD.fstep_l fs (FD.FDel d)) /\
  Rel id (fst (step s (LDeliver d))) (fst (FD.fstep_l fs (FD.FDel d))).
Proof.
  intros HR E0. pose proof HR as [Hid (oa & sa & Ka & VSa & VRa) (ob & sb & Kb & VSb & VRb) La Lb I0 I1 O0 O1 G0 G1 (Aa & Ab)].
  cbn [step FD.fstep_l]. unfold get_ep. rewrite E0. change (1 =? 0) with false. change (0 =? 0) with true. cbv iota.
  inversion Lb as [E1 E2 E3 E4 | lb' fr w a m Ok Lb' E1 E2 E3 E4 | lb' n w a m Hn Lb' E1 E2 E3 E4].
  - cbn [fst snd o_res]. split; [reflexivity|exact HR].
  - (* a data frame of direction 1 reaches A *)
    symmetry in E2.
    destruct (ep_deliver_data _ _ _ _ _ _ _ _ Ka Hid VRa VSa I1 O1 E2 Ok)
      as (f' & Dl & St & Eo & Rw & Wr & s' & K' & V' & SS).
    rewrite Dl, St, Eo, app_nil_r. change (1 =? 0) with false. cbv iota.
    cbn [fst snd o_res FD.f0 FD.f1 FD.la FD.lb FD.a_alive FD.b_alive].
    split; [reflexivity|].
    pose proof (delsr_frame (FD.f1 fs)) as (SSf & Wrs & Sg).
    constructor; cbn [s_a s_b s_la s_lb FD.f0 FD.f1 FD.la FD.lb FD.a_alive FD.b_alive]; auto.
    + exists oa, s'. split; [exact K'|]. split; [eapply S_view_same; eauto|]. rewrite Rw. exact V'.
    + exists ob, sb. split; [exact Kb|]. split; [eapply S_view_S_same; eauto|exact VRb].
    + rewrite Wrs. exact La.
    + rewrite Wr. exact Lb'.
    + apply FP.step_inv, I1.
    + apply FP.step_no_overrun; assumption.
    + congruence.
  - (* an acknowledgement for direction 0 reaches A *)
    symmetry in E3.
    destruct (ep_deliver_ack _ _ _ _ _ _ _ Ka Hid Hn VSa G0 E3)
      as (f' & Dl & St & Eo & Rw & Wr & s' & K' & V' & SR).
    rewrite Dl, St, Eo, app_nil_r. change (0 =? 0) with true. cbv iota.
    cbn [fst snd o_res FD.f0 FD.f1 FD.la FD.lb FD.a_alive FD.b_alive].
    split; [reflexivity|].
    pose proof (delrs_frame (FD.f0 fs)) as (RSf & Wsr & Sg & Fn).
    constructor; cbn [s_a s_b s_la s_lb FD.f0 FD.f1 FD.la FD.lb FD.a_alive FD.b_alive]; auto.
    + exists oa, s'. split; [exact K'|]. split; [exact V'|]. rewrite Rw. eapply R_view_same; eauto.
    + exists ob, sb. split; [exact Kb|]. split; [exact VSb|eapply R_view_R_same; eauto].
    + rewrite Wsr. exact La.
    + rewrite Wr. exact Lb'.
    + apply FP.step_inv, I0.
    + apply FP.step_no_overrun; assumption.
    + congruence.
Qed.

(* ---------------------------------------------------------------- the simulation *)
Theorem sim_step id s fs l : Rel id s fs -> lab_ok l ->
  o_res (snd (step s (to_sys l))) = snd (FD.fstep_l fs l) /\
  Rel id (fst (step s (to_sys l))) (fst (FD.fstep_l fs l)).
Proof.
  intros HR Hl. destruct l as [e d|e n|e|d]; cbn [to_sys lab_ok] in *.
  - destruct (e =? 0) eqn:E; [apply sim_write_a|apply sim_write_b]; assumption.
  - destruct (e =? 0) eqn:E; [apply sim_read_a|apply sim_read_b]; assumption.
  - destruct (e =? 0) eqn:E; [apply sim_shut_a|apply sim_shut_b]; assumption.
  - destruct (d =? 0) eqn:E; [apply sim_del_0|apply sim_del_1]; assumption.
Qed.

Fixpoint pair_results (s : sys) (ls : list FD.flab) : list (list N) * sys :=
  match ls with
  | [] => ([], s)
  | l :: r => let '(s', o) := step s (to_sys l) in let '(rs, s2) := pair_results s' r in (o_res o :: rs, s2)
  end.
Fixpoint flow_results (fs : FD.fsys) (ls : list FD.flab) : list (list N) * FD.fsys :=
  match ls with
  | [] => ([], fs)
  | l :: r => let '(fs', o) := FD.fstep_l fs l in let '(rs, f2) := flow_results fs' r in (o :: rs, f2)
  end.

(* every single-flow script: the pair model gives the results of the two flow models, and they stay related *)
Theorem sim_run id : forall ls s fs, Rel id s fs -> Forall lab_ok ls ->
  fst (pair_results s ls) = fst (flow_results fs ls) /\
  Rel id (snd (pair_results s ls)) (snd (flow_results fs ls)).
Proof.
  induction ls as [|l ls IH]; intros s fs HR Hl; cbn [pair_results flow_results].
  - split; [reflexivity|exact HR].
  - inversion Hl as [|? ? Hl1 Hl2]; subst.
    destruct (sim_step id s fs l HR Hl1) as (R & HR').
    destruct (step s (to_sys l)) as [s' o]. destruct (FD.fstep_l fs l) as [fs' r]. cbn [fst snd] in *.
    destruct (IH s' fs' HR' Hl2) as (A & B).
    destruct (pair_results s' ls) as [rs s2]. destruct (flow_results fs' ls) as [rs' f2]. cbn [fst snd] in *.
    split; [congruence|exact B].
Qed.

(* consequences on the pair model: whatever the script, in the state it reaches
   - no Push ever met a full queue (the window was never overrun) in either direction,
   - what the reader of each direction has been given is a prefix of what the writer of that direction was
     allowed to write (ghost histories of the related flow states),
   - the credit equation of each direction holds *)
Corollary pair_flow_invariants id ls s fs : Rel id s fs -> Forall lab_ok ls ->
  let fs' := snd (flow_results fs ls) in
  Rel id (snd (pair_results s ls)) fs' /\
  FP.Inv (FD.f0 fs') /\ FP.Inv (FD.f1 fs') /\
  F.overrun (FD.f0 fs') = false /\ F.overrun (FD.f1 fs') = false /\
  (exists rest, F.written (FD.f0 fs') = F.readout (FD.f0 fs') ++ rest) /\
  (exists rest, F.written (FD.f1 fs') = F.readout (FD.f1 fs') ++ rest).
Proof.
  intros HR Hl. cbv zeta. destruct (sim_run id ls s fs HR Hl) as (_ & R).
  split; [exact R|]. destruct R.
  split; [assumption|]. split; [assumption|]. split; [assumption|]. split; [assumption|].
  split; apply FP.i_prefix; assumption.
Qed.

(* ---------------------------------------------------------------- the relation is established by the opening handshake *)
Definition prologue (port : N) (host : list N) : list label :=
  [LOpen 0 port host; LDeliver 0; LDeliver 1; LOpenPoll 0 0; LAccept 1].

(* non-vacuity: two fresh endpoints (windows 4 and 3, thresholds 2 and 5, flow id 7 drawn by A), after the opening
   handshake, are related to the two initial flow states; the threshold of direction 0 is clamped to its window *)
Example established :
  let s0 := mkSys (init_ep 0 4 2 2 2 0 3 [7]) (init_ep 1 3 5 2 2 0 3 []) [] [] in
  Rel 7 (fst (run s0 (prologue 80 [1; 2]))) (FD.mkF (F.init 3 5) (F.init 4 2) [] [] true true).
Proof.
  cbv zeta. constructor.
  - reflexivity.
  - eexists. eexists. split; [|split].
    + constructor; vm_compute; reflexivity.
    + split; vm_compute; reflexivity.
    + repeat split; vm_compute; reflexivity.
  - eexists. eexists. split; [|split].
    + constructor; vm_compute; reflexivity.
    + split; vm_compute; reflexivity.
    + repeat split; vm_compute; reflexivity.
  - vm_compute. constructor.
  - vm_compute. constructor.
  - apply FP.inv_init; lia.
  - apply FP.inv_init; lia.
  - reflexivity.
  - reflexivity.
  - reflexivity.
  - reflexivity.
  - split; reflexivity.
Qed.

(* and a script run from there (both ends write, deliveries, reads, a shutdown): the pair model's results are the
   flow models' results *)
Example established_script :
  let s0 := mkSys (init_ep 0 4 2 2 2 0 3 [7]) (init_ep 1 3 5 2 2 0 3 []) [] [] in
  let ls := [FD.FWrite 0 [10; 11]; FD.FWrite 1 [20]; FD.FDel 0; FD.FRead 1 1; FD.FRead 1 5; FD.FDel 1; FD.FRead 0 9;
             FD.FShut 0; FD.FDel 0; FD.FDel 1; FD.FRead 1 9; FD.FWrite 0 [1]] in
  fst (pair_results (fst (run s0 (prologue 80 [1; 2]))) ls) =
  [[0; 2]; [0; 1]; [0]; [0; 1; 10]; [0; 1; 11]; [0]; [0; 1; 20]; [0]; [0]; [3]; [0; 0]; [2; 1]].
Proof. vm_compute. reflexivity. Qed.
