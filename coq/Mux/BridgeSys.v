(* The bridge (Bridge/Model.v) instantiated with a stream of the pair model and a scripted
   local side, as the harness runs it. *)
From PV Require Import Mux.Sys Bridge.Model.

Inductive ritem := RData (d : list N) | REof | RErr.
Inductive witem := WAccept (k : N) | WPend | WErr.
Inductive sitem := SPend | SErr.

Record local := mkLocal {
  l_rq : list ritem; l_cur : list N; l_wq : list witem; l_sq : list sitem;
  l_new : list N;          (* bytes written to the local side during the current poll *)
  l_shut : bool;
  l_wait : bool            (* the bridge's waker is registered on the local side *)
}.

Definition local_init : local := mkLocal [] [] [] [] [] false false.

Record binst := mkBi { bi_e : N; bi_sid : N; bi_st : bstate; bi_local : local; bi_live : bool }.

Record bsys := mkBsys { bs_sys : sys; bs_br : list binst }.

(* environment of one poll: the endpoint under construction, the stream's object, the local side *)
Record benv := mkEnv { v_f : eff; v_oid : N; v_l : local }.

Definition IO_RESET : N := 7.

Fixpoint pull (fuel : nat) (l : local) : ans (list N) * local :=
  match l_cur l with
  | _ :: _ => (Ready (l_cur l), l)
  | [] =>
      match l_rq l with
      | [] => (Pend, mkLocal [] [] (l_wq l) (l_sq l) (l_new l) (l_shut l) true)
      | RData d :: r =>
          let l' := mkLocal r d (l_wq l) (l_sq l) (l_new l) (l_shut l) (l_wait l) in
          match d with
          | [] => match fuel with O => (Pend, l') | S f => pull f l' end
          | _ => (Ready d, l')
          end
      | REof :: _ => (Ready [], l)
      | RErr :: r => (Fail IO_RESET, mkLocal r [] (l_wq l) (l_sq l) (l_new l) (l_shut l) (l_wait l))
      end
  end.

Definition env_ops : ops benv :=
  mkOps
    (* mux_fill *)
    (fun v =>
       match get_stream (f_ep (v_f v)) (v_oid v) with
       | Some s =>
           match st_buf s with
           | _ :: _ => (Ready (st_buf s), v)
           | [] =>
               let '(f, ready) := fill_buf (S (length (st_rxq s))) (v_f v) (v_oid v) in
               if ready then
                 match get_stream (f_ep f) (v_oid v) with
                 | Some s' => (Ready (st_buf s'), mkEnv f (v_oid v) (v_l v))
                 | None => (Ready [], mkEnv f (v_oid v) (v_l v))
                 end
               else (Pend, mkEnv f (v_oid v) (v_l v))
           end
       | None => (Ready [], v)
       end)
    (* mux_consume *)
    (fun k v =>
       match get_stream (f_ep (v_f v)) (v_oid v) with
       | Some s => mkEnv (with_ep (v_f v) (put_stream (f_ep (v_f v)) (v_oid v)
                            (st_set_buf s (skipn (N.to_nat k) (st_buf s))))) (v_oid v) (v_l v)
       | None => v
       end)
    (* mux_permit *)
    (fun v =>
       match get_stream (f_ep (v_f v)) (v_oid v) with
       | Some s =>
           if st_fin s then (Ready false, v)
           else if st_credit s =? 0 then
             (Pend, mkEnv (with_ep (v_f v) (put_stream (f_ep (v_f v)) (v_oid v) (st_set_wpark s true))) (v_oid v) (v_l v))
           else
             (Ready true, mkEnv (with_ep (v_f v) (put_stream (f_ep (v_f v)) (v_oid v)
                                   (st_set_credit s (st_credit s - 1)))) (v_oid v) (v_l v))
       | None => (Ready false, v)
       end)
    (* mux_send *)
    (fun payload v =>
       match get_stream (f_ep (v_f v)) (v_oid v) with
       | Some s =>
           if emit_ok (v_f v) then (true, mkEnv (emit (v_f v) (Push (st_id s) payload)) (v_oid v) (v_l v))
           else (false, v)
       | None => (false, v)
       end)
    (* mux_shutdown *)
    (fun v =>
       match get_stream (f_ep (v_f v)) (v_oid v) with
       | Some s =>
           if st_fin s then v
           else mkEnv (emit (with_ep (v_f v) (put_stream (f_ep (v_f v)) (v_oid v) (st_set_fin s true)))
                            (Finish (st_id s))) (v_oid v) (v_l v)
       | None => v
       end)
    (* loc_fill *)
    (fun v => let '(a, l) := pull (length (l_rq (v_l v))) (v_l v) in (a, mkEnv (v_f v) (v_oid v) l))
    (* loc_consume *)
    (fun k v =>
       let l := v_l v in
       mkEnv (v_f v) (v_oid v)
             (mkLocal (l_rq l) (skipn (N.to_nat k) (l_cur l)) (l_wq l) (l_sq l) (l_new l) (l_shut l) (l_wait l)))
    (* loc_write *)
    (fun buf v =>
       let l := v_l v in
       match l_wq l with
       | [] => (Ready (len buf),
                mkEnv (v_f v) (v_oid v) (mkLocal (l_rq l) (l_cur l) [] (l_sq l) (l_new l ++ buf) (l_shut l) (l_wait l)))
       | WAccept k :: r =>
           let k := N.min (N.max k 1) (len buf) in
           (Ready k, mkEnv (v_f v) (v_oid v)
                           (mkLocal (l_rq l) (l_cur l) r (l_sq l) (l_new l ++ firstn (N.to_nat k) buf) (l_shut l) (l_wait l)))
       | WPend :: r => (Pend, mkEnv (v_f v) (v_oid v) (mkLocal (l_rq l) (l_cur l) r (l_sq l) (l_new l) (l_shut l) true))
       | WErr :: r => (Fail IO_RESET, mkEnv (v_f v) (v_oid v) (mkLocal (l_rq l) (l_cur l) r (l_sq l) (l_new l) (l_shut l) (l_wait l)))
       end)
    (* loc_flush *)
    (fun v => (Ready tt, v))
    (* loc_shutdown *)
    (fun v =>
       let l := v_l v in
       match l_sq l with
       | [] => (Ready tt, mkEnv (v_f v) (v_oid v) (mkLocal (l_rq l) (l_cur l) (l_wq l) [] (l_new l) true (l_wait l)))
       | SPend :: r => (Pend, mkEnv (v_f v) (v_oid v) (mkLocal (l_rq l) (l_cur l) (l_wq l) r (l_new l) (l_shut l) true))
       | SErr :: r => (Fail IO_RESET, mkEnv (v_f v) (v_oid v) (mkLocal (l_rq l) (l_cur l) (l_wq l) r (l_new l) (l_shut l) (l_wait l)))
       end).

Inductive blabel :=
| BL (l : label)
| BStart (e sid : N)
| BPoll (k : N)
| BFeed (k : N) (kind : N) (arg : list N).

Definition K_BRIDGE : N := 8.

(* wake-ups of a bridged stream's reader / writer reach the bridge's waker *)
Fixpoint owner (br : list binst) (i : N) (e sid : N) : option N :=
  match br with
  | [] => None
  | b :: r => if bi_live b && (bi_e b =? e) && (bi_sid b =? sid) then Some i else owner r (i + 1) e sid
  end.

Definition remap_wake (br : list binst) (w : N) : N :=
  let e := w / 1000000 in
  let kind := (w mod 1000000) / 10000 in
  let i := w mod 10000 in
  if (kind =? K_READ) || (kind =? K_WRITE) then
    match owner br 0 e i with
    | Some k => e * 1000000 + K_BRIDGE * 10000 + k
    | None => w
    end
  else w.

Fixpoint dedup (l : list N) : list N :=
  match l with
  | a :: ((b :: _) as r) => if a =? b then dedup r else a :: dedup r
  | _ => l
  end.

Definition remap_out (br : list binst) (o : lout) : lout :=
  mkLout (o_res o) (dedup (sort (map (remap_wake br) (o_wakes o)))) (o_a o) (o_a_closed o) (o_b o) (o_b_closed o) (o_done o).

Definition set_ep (s : sys) (e : N) (x : ep) (out : list msg) : sys :=
  if e =? 0 then mkSys x (s_b s) (s_la s ++ out) (s_lb s) else mkSys (s_a s) x (s_la s) (s_lb s ++ out).

Definition upd_br (br : list binst) (k : N) (b : binst) : list binst := upd br k b.

Definition bstep (s : bsys) (l : blabel) : bsys * lout :=
  match l with
  | BL l0 =>
      let '(s', o) := step (bs_sys s) l0 in
      (mkBsys s' (bs_br s), remap_out (bs_br s) o)
  | BStart e sid =>
      match live_stream (get_ep (bs_sys s) e) sid with
      | Some _ =>
          (mkBsys (bs_sys s) (bs_br s ++ [mkBi e sid binit local_init true]),
           mkLout [0; len (bs_br s)] [] [] false [] false [])
      | None => (s, mkLout R_NA [] [] false [] false [])
      end
  | BPoll k =>
      match nth_opt (bs_br s) k with
      | Some b =>
          if negb (bi_live b) then (s, mkLout R_NA [] [] false [] false []) else
          let e0 := get_ep (bs_sys s) (bi_e b) in
          match nth_opt (e_handles e0) (bi_sid b) with
          | Some oid =>
              let l0 := bi_local b in
              let env := mkEnv (start e0) oid
                           (mkLocal (l_rq l0) (l_cur l0) (l_wq l0) (l_sq l0) [] (l_shut l0) (l_wait l0)) in
              let '(st', res, env', _) := poll benv env_ops 2000 (bi_st b) env in
              let f := v_f env' in
              let lo := v_l env' in
              let tail := put_lp (l_new lo) ++ [if l_shut lo then 1 else 0] in
              (* a finished bridge is dropped, and its stream with it *)
              let finished := match res with BReady _ _ | BErr _ => true | _ => false end in
              let f := if finished then fst (do_drop_stream f (bi_sid b)) else f in
              let f := settle f in
              let r := match res with
                       | BReady n m => [0; n; m]
                       | BPending => [1]
                       | BErr x => [2; x]
                       | BFuel => [2000005]
                       end in
              let br' := upd_br (bs_br s) k (mkBi (bi_e b) (bi_sid b) st' lo (negb finished)) in
              let o := mkLout (r ++ tail) (sort (f_wakes f))
                         (if bi_e b =? 0 then f_out f else []) (if bi_e b =? 0 then f_closed f else false)
                         (if bi_e b =? 0 then [] else f_out f) (if bi_e b =? 0 then false else f_closed f)
                         (f_done f) in
              (mkBsys (set_ep (bs_sys s) (bi_e b) (f_ep f) (f_out f)) br', remap_out (bs_br s) o)
          | None => (s, mkLout R_NA [] [] false [] false [])
          end
      | None => (s, mkLout R_NA [] [] false [] false [])
      end
  | BFeed k kind arg =>
      match nth_opt (bs_br s) k with
      | Some b =>
          let l0 := bi_local b in
          let l1 :=
            match kind with
            | 0 => mkLocal (l_rq l0 ++ [RData arg]) (l_cur l0) (l_wq l0) (l_sq l0) (l_new l0) (l_shut l0) false
            | 1 => mkLocal (l_rq l0 ++ [REof]) (l_cur l0) (l_wq l0) (l_sq l0) (l_new l0) (l_shut l0) false
            | 2 => mkLocal (l_rq l0 ++ [RErr]) (l_cur l0) (l_wq l0) (l_sq l0) (l_new l0) (l_shut l0) false
            | 3 => mkLocal (l_rq l0) (l_cur l0) (l_wq l0 ++ [WAccept (hd 0 arg)]) (l_sq l0) (l_new l0) (l_shut l0) false
            | 4 => mkLocal (l_rq l0) (l_cur l0) (l_wq l0 ++ [WPend]) (l_sq l0) (l_new l0) (l_shut l0) false
            | 5 => mkLocal (l_rq l0) (l_cur l0) (l_wq l0 ++ [WErr]) (l_sq l0) (l_new l0) (l_shut l0) false
            | 6 => mkLocal (l_rq l0) (l_cur l0) (l_wq l0) (l_sq l0 ++ [SPend]) (l_new l0) (l_shut l0) false
            | 7 => mkLocal (l_rq l0) (l_cur l0) (l_wq l0) (l_sq l0 ++ [SErr]) (l_new l0) (l_shut l0) false
            | _ => mkLocal (l_rq l0) (l_cur l0) (l_wq l0) (l_sq l0) (l_new l0) (l_shut l0) false
            end in
          let wakes := if l_wait l0 then [bi_e b * 1000000 + K_BRIDGE * 10000 + k] else [] in
          (mkBsys (bs_sys s) (upd_br (bs_br s) k (mkBi (bi_e b) (bi_sid b) (bi_st b) l1 (bi_live b))),
           mkLout [0] wakes [] false [] false [])
      | None => (s, mkLout R_NA [] [] false [] false [])
      end
  end.

Fixpoint brun (s : bsys) (ls : list blabel) : bsys * list lout :=
  match ls with
  | [] => (s, [])
  | l :: r => let '(s1, o) := bstep s l in let '(s2, os) := brun s1 r in (s2, o :: os)
  end.
