(* Executable model of one penguin-mux endpoint (lib.rs, task.rs, stream.rs) and of a pair of
   endpoints joined by two FIFO links, at the granularity the harness drives the real code:
   one label = one call (one poll) into the real code followed by running the connection
   tasks to quiescence with an always-ready sink.  The model describes the repaired code
   (DESIGN.md section 5).  Frames cross the links in encoded form (Frame.Model). *)
From PV Require Export Common.Bytes Frame.Model.

(* ------------------------------------------------------------------ state *)

Record stream := mkStream {
  st_id : N;                  (* flow id *)
  st_credit : N;              (* psh_send_remaining (shared with the slot) *)
  st_fin : bool;              (* finish_sent (shared with the slot) *)
  st_rxq : list (list N);     (* channel between the task and the handle *)
  st_txopen : bool;           (* the slot still holds the channel's Sender *)
  st_buf : list N;
  st_since : N;               (* psh_recvd_since *)
  st_th : N;                  (* rwnd_threshold *)
  st_alive : bool;            (* handle not dropped *)
  st_host : list N;
  st_port : N;
  st_rpark : bool;            (* reader's waker registered *)
  st_wpark : bool             (* writer's waker registered *)
}.

Inductive slot := SRequested (k : N) | SEstablished (oid : N) | SBind (k : N).

Inductive ostate := OWaiting | OGot (oid : N) | ORejected | OGone | ODone.
Record openp := mkOpen {
  op_host : list N; op_port : N; op_retries : N; op_state : ostate; op_park : bool;
  op_rx_dropped : bool        (* the future (oneshot receiver) was dropped *)
}.

Inductive bstate := BWaiting | BGot (b : bool) | BGone | BDone.
Record bindp := mkBindp { bp_state : bstate; bp_park : bool; bp_rx_dropped : bool }.

Record bindreq := mkBindreq { br_id : N; br_type : N; br_port : N; br_host : list N; br_alive : bool }.

Record dgram := mkDgram { dg_id : N; dg_port : N; dg_host : list N; dg_data : list N }.

Inductive blocked := BlNone | BlStream (oid : N) | BlBind (r : bindreq).

(* Running; in wind-down waiting for the source to end (result code kept); ended *)
(* RunPendingEnd: running, receive side suspended, the source has ended/failed meanwhile *)
(* WindDown4: wind-down after a handle drop, flushing the queued messages (sink not ready yet) *)
Inductive phase := Running | RunPendingEnd (cause : N) | WindDown4 (code : N) (src_ended : bool) | WindDown6 (code : N) | Ended.

Inductive msg := MBin (b : list N) | MPing | MPong | MClose.

Record ep := mkEp {
  e_idx : N;
  e_rwnd : N; e_th : N; e_accept_cap : N; e_dgram_cap : N; e_bind_cap : N; e_retries : N;
  e_rng : list N; e_fallback : N;
  e_streams : list stream;
  e_handles : list N;               (* application index -> object *)
  e_slots : list (N * slot);
  e_opens : list openp;
  e_binds : list bindp;
  e_bindreqs : list bindreq;        (* requests handed to the application *)
  e_accept_q : list N;
  e_dgram_q : list dgram;
  e_bind_q : list bindreq;
  e_blocked : blocked;
  e_accept_park : bool; e_dgram_park : bool; e_nextbind_park : bool;
  e_mux_alive : bool;
  e_phase : phase;
  e_tx_closed : bool;               (* the outbound queue has been closed *)
  e_txq : list msg;                 (* messages queued for the sink *)
  e_permits : option N              (* how many messages the sink still accepts; None = always ready *)
}.

(* what a label produces besides the new state *)
Record eff := mkEff {
  f_ep : ep;
  f_out : list msg;        (* messages put on the wire, in order *)
  f_wakes : list N;        (* pollable ids woken *)
  f_closed : bool;         (* poll_close was called *)
  f_done : list N          (* [idx; code] when the task future resolved *)
}.

(* ------------------------------------------------------------------ helpers *)

Definition set_streams e v0 := mkEp (e_idx e) (e_rwnd e) (e_th e) (e_accept_cap e) (e_dgram_cap e) (e_bind_cap e) (e_retries e) (e_rng e) (e_fallback e) v0 (e_handles e) (e_slots e) (e_opens e) (e_binds e) (e_bindreqs e) (e_accept_q e) (e_dgram_q e) (e_bind_q e) (e_blocked e) (e_accept_park e) (e_dgram_park e) (e_nextbind_park e) (e_mux_alive e) (e_phase e) (e_tx_closed e) (e_txq e) (e_permits e).
Definition set_handles e v0 := mkEp (e_idx e) (e_rwnd e) (e_th e) (e_accept_cap e) (e_dgram_cap e) (e_bind_cap e) (e_retries e) (e_rng e) (e_fallback e) (e_streams e) v0 (e_slots e) (e_opens e) (e_binds e) (e_bindreqs e) (e_accept_q e) (e_dgram_q e) (e_bind_q e) (e_blocked e) (e_accept_park e) (e_dgram_park e) (e_nextbind_park e) (e_mux_alive e) (e_phase e) (e_tx_closed e) (e_txq e) (e_permits e).
Definition set_slots e v0 := mkEp (e_idx e) (e_rwnd e) (e_th e) (e_accept_cap e) (e_dgram_cap e) (e_bind_cap e) (e_retries e) (e_rng e) (e_fallback e) (e_streams e) (e_handles e) v0 (e_opens e) (e_binds e) (e_bindreqs e) (e_accept_q e) (e_dgram_q e) (e_bind_q e) (e_blocked e) (e_accept_park e) (e_dgram_park e) (e_nextbind_park e) (e_mux_alive e) (e_phase e) (e_tx_closed e) (e_txq e) (e_permits e).
Definition set_opens e v0 := mkEp (e_idx e) (e_rwnd e) (e_th e) (e_accept_cap e) (e_dgram_cap e) (e_bind_cap e) (e_retries e) (e_rng e) (e_fallback e) (e_streams e) (e_handles e) (e_slots e) v0 (e_binds e) (e_bindreqs e) (e_accept_q e) (e_dgram_q e) (e_bind_q e) (e_blocked e) (e_accept_park e) (e_dgram_park e) (e_nextbind_park e) (e_mux_alive e) (e_phase e) (e_tx_closed e) (e_txq e) (e_permits e).
Definition set_binds e v0 := mkEp (e_idx e) (e_rwnd e) (e_th e) (e_accept_cap e) (e_dgram_cap e) (e_bind_cap e) (e_retries e) (e_rng e) (e_fallback e) (e_streams e) (e_handles e) (e_slots e) (e_opens e) v0 (e_bindreqs e) (e_accept_q e) (e_dgram_q e) (e_bind_q e) (e_blocked e) (e_accept_park e) (e_dgram_park e) (e_nextbind_park e) (e_mux_alive e) (e_phase e) (e_tx_closed e) (e_txq e) (e_permits e).
Definition set_bindreqs e v0 := mkEp (e_idx e) (e_rwnd e) (e_th e) (e_accept_cap e) (e_dgram_cap e) (e_bind_cap e) (e_retries e) (e_rng e) (e_fallback e) (e_streams e) (e_handles e) (e_slots e) (e_opens e) (e_binds e) v0 (e_accept_q e) (e_dgram_q e) (e_bind_q e) (e_blocked e) (e_accept_park e) (e_dgram_park e) (e_nextbind_park e) (e_mux_alive e) (e_phase e) (e_tx_closed e) (e_txq e) (e_permits e).
Definition set_accept_q e v0 := mkEp (e_idx e) (e_rwnd e) (e_th e) (e_accept_cap e) (e_dgram_cap e) (e_bind_cap e) (e_retries e) (e_rng e) (e_fallback e) (e_streams e) (e_handles e) (e_slots e) (e_opens e) (e_binds e) (e_bindreqs e) v0 (e_dgram_q e) (e_bind_q e) (e_blocked e) (e_accept_park e) (e_dgram_park e) (e_nextbind_park e) (e_mux_alive e) (e_phase e) (e_tx_closed e) (e_txq e) (e_permits e).
Definition set_dgram_q e v0 := mkEp (e_idx e) (e_rwnd e) (e_th e) (e_accept_cap e) (e_dgram_cap e) (e_bind_cap e) (e_retries e) (e_rng e) (e_fallback e) (e_streams e) (e_handles e) (e_slots e) (e_opens e) (e_binds e) (e_bindreqs e) (e_accept_q e) v0 (e_bind_q e) (e_blocked e) (e_accept_park e) (e_dgram_park e) (e_nextbind_park e) (e_mux_alive e) (e_phase e) (e_tx_closed e) (e_txq e) (e_permits e).
Definition set_bind_q e v0 := mkEp (e_idx e) (e_rwnd e) (e_th e) (e_accept_cap e) (e_dgram_cap e) (e_bind_cap e) (e_retries e) (e_rng e) (e_fallback e) (e_streams e) (e_handles e) (e_slots e) (e_opens e) (e_binds e) (e_bindreqs e) (e_accept_q e) (e_dgram_q e) v0 (e_blocked e) (e_accept_park e) (e_dgram_park e) (e_nextbind_park e) (e_mux_alive e) (e_phase e) (e_tx_closed e) (e_txq e) (e_permits e).
Definition set_blocked e v0 := mkEp (e_idx e) (e_rwnd e) (e_th e) (e_accept_cap e) (e_dgram_cap e) (e_bind_cap e) (e_retries e) (e_rng e) (e_fallback e) (e_streams e) (e_handles e) (e_slots e) (e_opens e) (e_binds e) (e_bindreqs e) (e_accept_q e) (e_dgram_q e) (e_bind_q e) v0 (e_accept_park e) (e_dgram_park e) (e_nextbind_park e) (e_mux_alive e) (e_phase e) (e_tx_closed e) (e_txq e) (e_permits e).
Definition set_parks e v0 v1 v2 := mkEp (e_idx e) (e_rwnd e) (e_th e) (e_accept_cap e) (e_dgram_cap e) (e_bind_cap e) (e_retries e) (e_rng e) (e_fallback e) (e_streams e) (e_handles e) (e_slots e) (e_opens e) (e_binds e) (e_bindreqs e) (e_accept_q e) (e_dgram_q e) (e_bind_q e) (e_blocked e) v0 v1 v2 (e_mux_alive e) (e_phase e) (e_tx_closed e) (e_txq e) (e_permits e).
Definition set_mux_alive e v0 := mkEp (e_idx e) (e_rwnd e) (e_th e) (e_accept_cap e) (e_dgram_cap e) (e_bind_cap e) (e_retries e) (e_rng e) (e_fallback e) (e_streams e) (e_handles e) (e_slots e) (e_opens e) (e_binds e) (e_bindreqs e) (e_accept_q e) (e_dgram_q e) (e_bind_q e) (e_blocked e) (e_accept_park e) (e_dgram_park e) (e_nextbind_park e) v0 (e_phase e) (e_tx_closed e) (e_txq e) (e_permits e).
Definition set_phase e v0 := mkEp (e_idx e) (e_rwnd e) (e_th e) (e_accept_cap e) (e_dgram_cap e) (e_bind_cap e) (e_retries e) (e_rng e) (e_fallback e) (e_streams e) (e_handles e) (e_slots e) (e_opens e) (e_binds e) (e_bindreqs e) (e_accept_q e) (e_dgram_q e) (e_bind_q e) (e_blocked e) (e_accept_park e) (e_dgram_park e) (e_nextbind_park e) (e_mux_alive e) v0 (e_tx_closed e) (e_txq e) (e_permits e).
Definition set_tx_closed e v0 := mkEp (e_idx e) (e_rwnd e) (e_th e) (e_accept_cap e) (e_dgram_cap e) (e_bind_cap e) (e_retries e) (e_rng e) (e_fallback e) (e_streams e) (e_handles e) (e_slots e) (e_opens e) (e_binds e) (e_bindreqs e) (e_accept_q e) (e_dgram_q e) (e_bind_q e) (e_blocked e) (e_accept_park e) (e_dgram_park e) (e_nextbind_park e) (e_mux_alive e) (e_phase e) v0 (e_txq e) (e_permits e).
Definition set_rng e v0 v1 := mkEp (e_idx e) (e_rwnd e) (e_th e) (e_accept_cap e) (e_dgram_cap e) (e_bind_cap e) (e_retries e) v0 v1 (e_streams e) (e_handles e) (e_slots e) (e_opens e) (e_binds e) (e_bindreqs e) (e_accept_q e) (e_dgram_q e) (e_bind_q e) (e_blocked e) (e_accept_park e) (e_dgram_park e) (e_nextbind_park e) (e_mux_alive e) (e_phase e) (e_tx_closed e) (e_txq e) (e_permits e).
Definition set_txq e v0 := mkEp (e_idx e) (e_rwnd e) (e_th e) (e_accept_cap e) (e_dgram_cap e) (e_bind_cap e) (e_retries e) (e_rng e) (e_fallback e) (e_streams e) (e_handles e) (e_slots e) (e_opens e) (e_binds e) (e_bindreqs e) (e_accept_q e) (e_dgram_q e) (e_bind_q e) (e_blocked e) (e_accept_park e) (e_dgram_park e) (e_nextbind_park e) (e_mux_alive e) (e_phase e) (e_tx_closed e) v0 (e_permits e).
Definition set_permits e v0 := mkEp (e_idx e) (e_rwnd e) (e_th e) (e_accept_cap e) (e_dgram_cap e) (e_bind_cap e) (e_retries e) (e_rng e) (e_fallback e) (e_streams e) (e_handles e) (e_slots e) (e_opens e) (e_binds e) (e_bindreqs e) (e_accept_q e) (e_dgram_q e) (e_bind_q e) (e_blocked e) (e_accept_park e) (e_dgram_park e) (e_nextbind_park e) (e_mux_alive e) (e_phase e) (e_tx_closed e) (e_txq e) v0.

Definition nth_opt {A} (l : list A) (i : N) : option A := nth_error l (N.to_nat i).

Fixpoint upd_nth {A} (l : list A) (i : nat) (x : A) : list A :=
  match l, i with
  | [], _ => []
  | _ :: r, O => x :: r
  | y :: r, S j => y :: upd_nth r j x
  end.
Definition upd {A} (l : list A) (i : N) (x : A) : list A := upd_nth l (N.to_nat i) x.

Fixpoint slot_get (m : list (N * slot)) (id : N) : option slot :=
  match m with
  | [] => None
  | (k, v) :: r => if k =? id then Some v else slot_get r id
  end.
Fixpoint slot_del (m : list (N * slot)) (id : N) : list (N * slot) :=
  match m with
  | [] => []
  | (k, v) :: r => if k =? id then slot_del r id else (k, v) :: slot_del r id
  end.
Definition slot_set (m : list (N * slot)) (id : N) (s : slot) : list (N * slot) :=
  (id, s) :: slot_del m id.

(* pollable ids, as the harness numbers them *)
Definition pid (e : ep) (kind i : N) : N := e_idx e * 1000000 + kind * 10000 + i.
Definition K_READ := 1. Definition K_WRITE := 2. Definition K_OPEN := 3. Definition K_ACCEPT := 4.
Definition K_DGRAM := 5. Definition K_BIND := 6. Definition K_NEXTBIND := 7.

Fixpoint index_of (l : list N) (x : N) (i : N) : option N :=
  match l with
  | [] => None
  | y :: r => if y =? x then Some i else index_of r x (i + 1)
  end.
(* application index of an object, if the application holds it *)
Definition sid_of (e : ep) (oid : N) : option N := index_of (e_handles e) oid 0.

Definition emit (f : eff) (fr : frame) : eff :=
  if e_tx_closed (f_ep f) then f
  else mkEff (f_ep f) (f_out f ++ [MBin (encode fr)]) (f_wakes f) (f_closed f) (f_done f).
Definition emit_ok (f : eff) : bool := negb (e_tx_closed (f_ep f)).
Definition wake (f : eff) (p : N) : eff :=
  mkEff (f_ep f) (f_out f) (f_wakes f ++ [p]) (f_closed f) (f_done f).
Definition with_ep (f : eff) (e : ep) : eff := mkEff e (f_out f) (f_wakes f) (f_closed f) (f_done f).
Definition start (e : ep) : eff := mkEff e [] [] false [].

Definition get_stream (e : ep) (oid : N) : option stream := nth_opt (e_streams e) oid.
Definition put_stream (e : ep) (oid : N) (s : stream) : ep := set_streams e (upd (e_streams e) oid s).

Definition st_set_credit s v := mkStream (st_id s) v (st_fin s) (st_rxq s) (st_txopen s) (st_buf s) (st_since s) (st_th s) (st_alive s) (st_host s) (st_port s) (st_rpark s) (st_wpark s).
Definition st_set_fin s v := mkStream (st_id s) (st_credit s) v (st_rxq s) (st_txopen s) (st_buf s) (st_since s) (st_th s) (st_alive s) (st_host s) (st_port s) (st_rpark s) (st_wpark s).
Definition st_set_rxq s v := mkStream (st_id s) (st_credit s) (st_fin s) v (st_txopen s) (st_buf s) (st_since s) (st_th s) (st_alive s) (st_host s) (st_port s) (st_rpark s) (st_wpark s).
Definition st_set_txopen s v := mkStream (st_id s) (st_credit s) (st_fin s) (st_rxq s) v (st_buf s) (st_since s) (st_th s) (st_alive s) (st_host s) (st_port s) (st_rpark s) (st_wpark s).
Definition st_set_buf s v := mkStream (st_id s) (st_credit s) (st_fin s) (st_rxq s) (st_txopen s) v (st_since s) (st_th s) (st_alive s) (st_host s) (st_port s) (st_rpark s) (st_wpark s).
Definition st_set_since s v := mkStream (st_id s) (st_credit s) (st_fin s) (st_rxq s) (st_txopen s) (st_buf s) v (st_th s) (st_alive s) (st_host s) (st_port s) (st_rpark s) (st_wpark s).
Definition st_set_alive s v := mkStream (st_id s) (st_credit s) (st_fin s) (st_rxq s) (st_txopen s) (st_buf s) (st_since s) (st_th s) v (st_host s) (st_port s) (st_rpark s) (st_wpark s).
Definition st_set_rpark s v := mkStream (st_id s) (st_credit s) (st_fin s) (st_rxq s) (st_txopen s) (st_buf s) (st_since s) (st_th s) (st_alive s) (st_host s) (st_port s) v (st_wpark s).
Definition st_set_wpark s v := mkStream (st_id s) (st_credit s) (st_fin s) (st_rxq s) (st_txopen s) (st_buf s) (st_since s) (st_th s) (st_alive s) (st_host s) (st_port s) (st_rpark s) v.

(* wake the writer (AtomicWaker::wake) / the reader (channel notification) of an object *)
Definition wake_writer (f : eff) (oid : N) : eff :=
  match get_stream (f_ep f) oid with
  | Some s =>
      if st_wpark s then
        let f := with_ep f (put_stream (f_ep f) oid (st_set_wpark s false)) in
        match sid_of (f_ep f) oid with Some sid => wake f (pid (f_ep f) K_WRITE sid) | None => f end
      else f
  | None => f
  end.
Definition wake_reader (f : eff) (oid : N) : eff :=
  match get_stream (f_ep f) oid with
  | Some s =>
      if st_rpark s then
        let f := with_ep f (put_stream (f_ep f) oid (st_set_rpark s false)) in
        match sid_of (f_ep f) oid with Some sid => wake f (pid (f_ep f) K_READ sid) | None => f end
      else f
  | None => f
  end.

(* EstablishedStreamData::disallow_write: returns the old flag *)
Definition disallow_write (f : eff) (oid : N) : eff * bool :=
  match get_stream (f_ep f) oid with
  | Some s =>
      let f := with_ep f (put_stream (f_ep f) oid (st_set_fin s true)) in
      (wake_writer f oid, st_fin s)
  | None => (f, true)
  end.
(* dropping the Sender: the reader sees EOF after the queue drains *)
Definition disallow_read (f : eff) (oid : N) : eff :=
  match get_stream (f_ep f) oid with
  | Some s =>
      if st_txopen s then
        let f := with_ep f (put_stream (f_ep f) oid (st_set_txopen s false)) in
        wake_reader f oid
      else f
  | None => f
  end.

Definition resolve_open (f : eff) (k : N) (v : ostate) : eff :=
  match nth_opt (e_opens (f_ep f)) k with
  | Some o =>
      if op_rx_dropped o then f else
      let woke := op_park o in
      let o' := mkOpen (op_host o) (op_port o) (op_retries o) v false false in
      let f := with_ep f (set_opens (f_ep f) (upd (e_opens (f_ep f)) k o')) in
      if woke then wake f (pid (f_ep f) K_OPEN k) else f
  | None => f
  end.
Definition resolve_bind (f : eff) (k : N) (v : bstate) : eff :=
  match nth_opt (e_binds (f_ep f)) k with
  | Some b =>
      if bp_rx_dropped b then f else
      let woke := bp_park b in
      let f := with_ep f (set_binds (f_ep f) (upd (e_binds (f_ep f)) k (mkBindp v false false))) in
      if woke then wake f (pid (f_ep f) K_BIND k) else f
  | None => f
  end.

(* close_flow_local *)
Definition close_flow_local (f : eff) (sl : slot) (id : N) (inhibit_rst : bool) : eff :=
  match sl with
  | SEstablished oid =>
      let '(f, old) := disallow_write f oid in
      let f := if negb old && negb inhibit_rst then emit f (Reset id) else f in
      disallow_read f oid
  | SRequested k => resolve_open f k ORejected
  | SBind k => resolve_bind f k (BGot false)
  end.

(* close_flow *)
Definition close_flow (f : eff) (id : N) (inhibit_rst : bool) : eff :=
  match slot_get (e_slots (f_ep f)) id with
  | Some sl =>
      let f := with_ep f (set_slots (f_ep f) (slot_del (e_slots (f_ep f)) id)) in
      close_flow_local f sl id inhibit_rst
  | None => f
  end.

(* next_available_nonzero_key; fuel only guards the model's totality: the scripts are finite
   and the fallback sequence never repeats *)
Fixpoint alloc_id (fuel : nat) (e : ep) : N * ep :=
  let '(v, e') :=
    match e_rng e with
    | v :: r => (v, set_rng e r (e_fallback e))
    | [] => let v := (e_fallback e + 1) mod 4294967296 in (v, set_rng e [] v)
    end in
  match fuel with
  | O => (v, e')
  | S n =>
      if (v =? 0) || match slot_get (e_slots e') v with Some _ => true | None => false end
      then alloc_id n e' else (v, e')
  end.

Definition new_stream (e : ep) (id peer_rwnd : N) (host : list N) (port : N) : stream :=
  mkStream id peer_rwnd false [] true [] 0 (N.min (e_th e) (e_rwnd e)) true host port false false.

Definition add_stream (e : ep) (s : stream) : ep * N :=
  (set_streams e (e_streams e ++ [s]), len (e_streams e)).

(* hand a new stream to the accept queue (or suspend the receive side while it is full) *)
Definition to_accept_q (f : eff) (oid : N) : eff :=
  let e := f_ep f in
  if len (e_accept_q e) <? e_accept_cap e then
    let e := set_accept_q e (e_accept_q e ++ [oid]) in
    if e_accept_park e then
      wake (with_ep f (set_parks e false (e_dgram_park e) (e_nextbind_park e))) (pid e K_ACCEPT 0)
    else with_ep f e
  else with_ep f (set_blocked e (BlStream oid)).

Definition to_bind_q (f : eff) (r : bindreq) : eff :=
  let e := f_ep f in
  if len (e_bind_q e) <? e_bind_cap e then
    let e := set_bind_q e (e_bind_q e ++ [r]) in
    if e_nextbind_park e then
      wake (with_ep f (set_parks e (e_accept_park e) (e_dgram_park e) false)) (pid e K_NEXTBIND 0)
    else with_ep f e
  else with_ep f (set_blocked e (BlBind r)).

(* result of processing one inbound message: continue, or the receive loop ended *)
Inductive rxres := RxContinue | RxClosed | RxError (code : N).

(* process_frame.  [wd]: called from the wind-down drain (binds ignored, errors ignored) *)
Definition process_frame (f : eff) (fr : frame) (wd : bool) : eff * rxres :=
  let e := f_ep f in
  match fr with
  | Connect id rwnd port host =>
      if (id =? 0) || match slot_get (e_slots e) id with Some _ => true | None => false end
      then (emit f (Reset id), RxContinue)
      else
        let '(e1, oid) := add_stream e (new_stream e id rwnd host port) in
        let e1 := set_slots e1 (slot_set (e_slots e1) id (SEstablished oid)) in
        let f := with_ep f e1 in
        if emit_ok f then
          let f := emit f (Acknowledge id (e_rwnd e)) in
          if e_mux_alive (f_ep f) then (to_accept_q f oid, RxContinue)
          else (* the accept queue's receiver is gone: the handle is dropped again *)
            (with_ep f (put_stream (f_ep f) oid
               (st_set_alive (new_stream e id rwnd host port) false)), RxError 1)
        else
          (with_ep f (put_stream (f_ep f) oid (st_set_alive (new_stream e id rwnd host port) false)),
           RxError 2)
  | Acknowledge id n =>
      match slot_get (e_slots e) id with
      | Some (SEstablished oid) =>
          match get_stream e oid with
          | Some s =>
              let f := with_ep f (put_stream e oid (st_set_credit s ((st_credit s + n) mod 4294967296))) in
              (wake_writer f oid, RxContinue)
          | None => (f, RxContinue)
          end
      | Some (SRequested k) =>
          let '(e1, oid) := add_stream e (new_stream e id n [] 0) in
          let e1 := set_slots e1 (slot_set (e_slots e1) id (SEstablished oid)) in
          let f := with_ep f e1 in
          match nth_opt (e_opens e1) k with
          | Some o =>
              if op_rx_dropped o then
                (with_ep f (put_stream (f_ep f) oid (st_set_alive (new_stream e id n [] 0) false)), RxError 1)
              else (resolve_open f k (OGot oid), RxContinue)
          | None => (f, RxError 11)
          end
      | Some (SBind _) => (emit f (Reset id), RxContinue)
      | None => (emit f (Reset id), RxContinue)
      end
  | Finish id =>
      match slot_get (e_slots e) id with
      | None => (emit f (Reset id), RxContinue)
      | Some (SBind k) =>
          let f := with_ep f (set_slots e (slot_del (e_slots e) id)) in
          (resolve_bind f k (BGot true), RxContinue)
      | Some (SRequested k) =>
          let f := with_ep f (set_slots e (slot_del (e_slots e) id)) in
          (* the oneshot sender is dropped without a value *)
          let f := resolve_open f k OGone in
          (emit f (Reset id), RxContinue)
      | Some (SEstablished oid) => (disallow_read f oid, RxContinue)
      end
  | Reset id => (close_flow f id true, RxContinue)
  | Push id data =>
      match slot_get (e_slots e) id with
      | Some (SEstablished oid) =>
          match get_stream e oid with
          | Some s =>
              if negb (st_txopen s) then (emit f (Reset id), RxContinue)
              else if negb (st_alive s) then (f, RxContinue)           (* TrySendError::Closed *)
              else if len (st_rxq s) <? e_rwnd e then
                let f := with_ep f (put_stream e oid (st_set_rxq s (st_rxq s ++ [data]))) in
                (wake_reader f oid, RxContinue)
              else (close_flow f id false, RxContinue)                 (* TrySendError::Full *)
          | None => (f, RxContinue)
          end
      | _ => (emit f (Reset id), RxContinue)
      end
  | Bind id bt port host =>
      if 0 <? e_bind_cap e then
        if wd then (f, RxContinue)
        else if e_mux_alive e then (to_bind_q f (mkBindreq id bt port host true), RxContinue)
        else (* receiver gone: the request is dropped, which rejects it *)
          (emit f (Reset id), RxContinue)
      else (emit f (Reset id), RxContinue)
  | Datagram id port host data =>
      if negb (e_mux_alive e) then (f, RxError 2)
      else if len (e_dgram_q e) <? e_dgram_cap e then
        let e1 := set_dgram_q e (e_dgram_q e ++ [mkDgram id port host data]) in
        if e_dgram_park e1 then
          (wake (with_ep f (set_parks e1 (e_accept_park e1) false (e_nextbind_park e1))) (pid e1 K_DGRAM 0), RxContinue)
        else (with_ep f e1, RxContinue)
      else (f, RxContinue)
  end.

Definition process_message (f : eff) (m : msg) (wd : bool) : eff * rxres :=
  match m with
  | MBin b =>
      match decode b with
      | Ok fr => process_frame f fr wd
      | _ => (f, RxError 9)
      end
  | MPing | MPong => (f, RxContinue)
  | MClose => (f, RxClosed)
  end.

(* wind-down phases 1-5: stop writers, close the outbound queue, close the sink *)
Fixpoint disallow_all (f : eff) (sl : list (N * slot)) : eff :=
  match sl with
  | [] => f
  | (_, SEstablished oid) :: r => disallow_all (fst (disallow_write f oid)) r
  | _ :: r => disallow_all f r
  end.

Fixpoint drain_slots (f : eff) (sl : list (N * slot)) : eff :=
  match sl with
  | [] => f
  | (id, s) :: r => drain_slots (close_flow_local f s id true) r
  end.

Fixpoint sort_insert (x : N) (l : list N) : list N :=
  match l with [] => [x] | y :: r => if x <? y then x :: l else y :: sort_insert x r end.
Definition sort (l : list N) : list N := fold_right sort_insert [] l.

(* phases 7-8 and the end of the task: every slot is closed locally, the task's channel
   ends are dropped (pending accept / datagram / bind-request calls are woken) *)
Definition finish_task (f : eff) (code : N) : eff :=
  let e := f_ep f in
  let f := drain_slots (with_ep f (set_slots e [])) (e_slots e) in
  let e := f_ep f in
  let f := if e_accept_park e then wake f (pid e K_ACCEPT 0) else f in
  let f := if e_dgram_park e then wake f (pid e K_DGRAM 0) else f in
  let f := if e_nextbind_park e then wake f (pid e K_NEXTBIND 0) else f in
  let e := set_parks (f_ep f) false false false in
  let e := set_phase e Ended in
  mkEff e (f_out f) (f_wakes f) (f_closed f) (f_done f ++ [e_idx e; code]).

(* the handle the receive side was suspended on is dropped when the task's main loop ends *)
Definition drop_blocked (f : eff) : eff :=
  match e_blocked (f_ep f) with
  | BlStream oid =>
      let e := set_blocked (f_ep f) BlNone in
      match get_stream e oid with
      | Some s => with_ep f (put_stream e oid (st_set_alive s false))
      | None => with_ep f e
      end
  | BlBind r =>
      (* dropping the request rejects it *)
      emit (with_ep f (set_blocked (f_ep f) BlNone)) (Reset (br_id r))
  | BlNone => f
  end.

(* the rest of wind_down once the outbound queue is dealt with: close the sink, then wait for
   the source to end (unless the cause was an error or it has ended already) *)
Definition wind_down2 (f : eff) (code : N) (wait : bool) (src_ended : bool) : eff :=
  let f := mkEff (f_ep f) (f_out f) (f_wakes f) true (f_done f) in
  if wait && negb src_ended then with_ep f (set_phase (f_ep f) (WindDown6 code))
  else finish_task f code.

(* wind_down.  [wait]: the cause was not an error, so the task waits for the source to end;
   [src_ended]: the source has already ended; [drain]: the cause was a handle drop, the queued
   messages are still sent (phase WindDown4 until the sink has taken them all) *)
Definition wind_down (f : eff) (code : N) (wait : bool) (src_ended : bool) (drain : bool) : eff :=
  (* whatever the cancelled hand-over queues is not flushed (only a handle drop drains) *)
  let f := mkEff (f_ep (drop_blocked f)) (f_out f) (f_wakes f) (f_closed f) (f_done f) in
  let f := disallow_all f (e_slots (f_ep f)) in
  let f := with_ep f (set_tx_closed (f_ep f) true) in
  if drain then with_ep f (set_phase (f_ep f) (WindDown4 code src_ended))
  else
    (* nothing queued is sent any more *)
    wind_down2 (mkEff (set_txq (f_ep f) []) [] (f_wakes f) (f_closed f) (f_done f)) code wait src_ended.

(* one message taken from the source *)
Definition deliver (f : eff) (m : msg) : eff * bool :=
  let e := f_ep f in
  match e_phase e, e_blocked e with
  | Ended, _ => (f, false)
  | Running, BlNone =>
      let '(f, r) := process_message f m false in
      match r with
      | RxContinue => (f, true)
      | RxClosed => (wind_down f 0 true false false, true)
      | RxError c => (wind_down f (100 + c) false false false, true)
      end
  | Running, _ => (f, false)
  | RunPendingEnd _, _ => (f, false)
  | WindDown4 _ _, _ => (f, false)
  | WindDown6 _, _ =>
      let '(f, _) := process_message f m true in (f, true)
  end.

(* several messages are available to the task in one poll (a burst).  They are processed one after
   the other as [deliver] does; if one of them makes the receive loop fail, the error-caused
   wind-down still dispatches what is ALREADY in the source (binds ignored, errors ignored) before
   it ends the task.  Returns the number of messages taken. *)
Fixpoint drain_now (f : eff) (ms : list msg) : eff :=
  match ms with
  | [] => f
  | m :: r => drain_now (fst (process_message f m true)) r
  end.

Fixpoint deliver_all (f : eff) (ms : list msg) : eff * N :=
  match ms with
  | [] => (f, 0)
  | m :: r =>
      let e := f_ep f in
      match e_phase e, e_blocked e with
      | Running, BlNone =>
          let '(f1, res) := process_message f m false in
          match res with
          | RxContinue => let '(f2, n) := deliver_all f1 r in (f2, n + 1)
          | RxClosed => let '(f2, n) := deliver_all (wind_down f1 0 true false false) r in (f2, n + 1)
          | RxError c =>
              let f2 := mkEff (f_ep (drop_blocked f1)) (f_out f1) (f_wakes f1) (f_closed f1) (f_done f1) in
              let f2 := disallow_all f2 (e_slots (f_ep f2)) in
              let f2 := with_ep f2 (set_tx_closed (f_ep f2) true) in
              let f2 := mkEff (set_txq (f_ep f2) []) [] (f_wakes f2) true (f_done f2) in
              (finish_task (drain_now f2 r) (100 + c), 1 + len r)
          end
      | WindDown6 _, _ =>
          let '(f1, _) := process_message f m true in
          let '(f2, n) := deliver_all f1 r in (f2, n + 1)
      | _, _ => (f, 0)
      end
  end.

(* the end of the source / a transport failure *)
Definition source_event (f : eff) (cause : N) : eff :=
  let e := f_ep f in
  match e_phase e with
  | Ended => f
  | WindDown6 code => finish_task f code
  | WindDown4 code _ => with_ep f (set_phase e (WindDown4 code true))   (* noticed after the flush *)
  | RunPendingEnd c => if c =? 0 then with_ep f (set_phase e (RunPendingEnd cause)) else f
  | Running =>
      match e_blocked e with
      | BlNone =>
          match cause with
          | 0 => wind_down f 0 true true false
          | _ => wind_down f 107 false true false
          end
      | _ => with_ep f (set_phase e (RunPendingEnd cause))   (* not noticed while suspended *)
      end
  end.

(* processing of a dropped handle by the task *)
Definition task_dropped (f : eff) (id : N) : eff :=
  match e_phase (f_ep f) with
  | Running | RunPendingEnd _ => close_flow f id false
  | _ => f
  end.

(* after the application took an item: a suspended receive side resumes *)
Definition running (p : phase) : bool :=
  match p with Running | RunPendingEnd _ => true | _ => false end.

Definition resume_blocked (f : eff) : eff :=
  let e := f_ep f in
  if negb (running (e_phase e)) then f else
  let f :=
    match e_blocked e with
    | BlStream oid =>
        if len (e_accept_q e) <? e_accept_cap e
        then to_accept_q (with_ep f (set_blocked e BlNone)) oid else f
    | BlBind r =>
        if len (e_bind_q e) <? e_bind_cap e
        then to_bind_q (with_ep f (set_blocked e BlNone)) r else f
    | BlNone => f
    end in
  (* the receive loop goes back to the source and sees that it has ended *)
  match e_phase (f_ep f), e_blocked (f_ep f) with
  | RunPendingEnd c, BlNone => source_event (with_ep f (set_phase (f_ep f) Running)) c
  | _, _ => f
  end.

(* ------------------------------------------------------------------ application labels *)

Inductive label :=
| LOpen (e : N) (port : N) (host : list N)
| LOpenPoll (e k : N)
| LAccept (e : N)
| LWrite (e sid : N) (data : list N)
| LWriteV (e sid : N) (chunks : list (list N))
| LRead (e sid n : N)
| LShutdown (e sid : N)
| LDropStream (e sid : N)
| LDeliverAll (d : N)         (* everything in flight on link d arrives before the receiver's task runs again *)
| LDropDeliver (e sid : N)   (* the handle is dropped and the next inbound message reaches the task in the same poll *)
| LDeliver (d : N)
| LSendDgram (e fid port : N) (host data : list N)
| LGetDgram (e : N)
| LBindReq (e bt port : N) (host : list N)
| LBindPoll (e k : N)
| LNextBind (e : N)
| LBindReply (e rid : N) (acc : bool)
| LBindDrop (e rid : N)
| LDropMux (e : N)
| LInject (e : N) (m : msg)
| LEnd (e cause : N)
| LPermits (e n : N).

Definition R_PENDING : list N := [1].
Definition R_NA : list N := [3].
Definition put_lp (l : list N) : list N := len l :: l.

(* one iteration of the request loop of new_stream_channel *)
Definition open_attempt (f : eff) (k : N) (o : openp) : eff * list N :=
  if op_retries o =? 0 then
    (with_ep f (set_opens (f_ep f) (upd (e_opens (f_ep f)) k
       (mkOpen (op_host o) (op_port o) 0 ODone false false))), [2; 5])
  else
    let '(id, e) := alloc_id 64 (f_ep f) in
    let e := set_slots e (slot_set (e_slots e) id (SRequested k)) in
    if e_tx_closed e then
      (with_ep f (set_opens e (upd (e_opens e) k
         (mkOpen (op_host o) (op_port o) (op_retries o - 1) ODone false false))), [2; 2])
    else
      let f := emit (with_ep f e) (Connect id (e_rwnd e) (op_port o) (op_host o)) in
      (with_ep f (set_opens (f_ep f) (upd (e_opens (f_ep f)) k
         (mkOpen (op_host o) (op_port o) (op_retries o - 1) OWaiting true false))), R_PENDING).

Definition give_handle (e : ep) (oid : N) : ep * list N :=
  match get_stream e oid with
  | Some s =>
      let sid := len (e_handles e) in
      (set_handles e (e_handles e ++ [oid]), [0; sid; st_port s] ++ put_lp (st_host s) ++ [st_id s])
  | None => (e, R_NA)
  end.

Definition poll_open (f : eff) (k : N) : eff * list N :=
  match nth_opt (e_opens (f_ep f)) k with
  | None => (f, R_NA)
  | Some o =>
      if op_rx_dropped o then (f, R_NA) else
      match op_state o with
      | OWaiting =>
          (with_ep f (set_opens (f_ep f) (upd (e_opens (f_ep f)) k
             (mkOpen (op_host o) (op_port o) (op_retries o) OWaiting true false))), R_PENDING)
      | OGot oid =>
          let '(e, r) := give_handle (f_ep f) oid in
          (with_ep f (set_opens e (upd (e_opens e) k
             (mkOpen (op_host o) (op_port o) (op_retries o) ODone false false))), r)
      | ORejected => open_attempt f k o
      | OGone =>
          (with_ep f (set_opens (f_ep f) (upd (e_opens (f_ep f)) k
             (mkOpen (op_host o) (op_port o) (op_retries o) ODone false false))), [2; 2])
      | ODone => (f, R_NA)
      end
  end.

(* the acknowledgement counter of the reader *)
Definition count_frame (f : eff) (oid : N) : eff :=
  match get_stream (f_ep f) oid with
  | Some s =>
      let n := st_since s + 1 in
      if st_th s <=? n then
        emit (with_ep f (put_stream (f_ep f) oid (st_set_since s 0))) (Acknowledge (st_id s) n)
      else with_ep f (put_stream (f_ep f) oid (st_set_since s n))
  | None => f
  end.

Definition isnil_b (l : list N) : bool := match l with [] => true | _ => false end.

(* poll_for_push: take frames until a non-empty one; [true] = the buffer is filled or EOF
   was reached, [false] = Pending *)
Fixpoint fill_buf (fuel : nat) (f : eff) (oid : N) : eff * bool :=
  match fuel with
  | O => (f, true)
  | S fuel' =>
  match get_stream (f_ep f) oid with
  | None => (f, true)
  | Some s =>
      match st_rxq s with
      | [] =>
          if st_txopen s then (with_ep f (put_stream (f_ep f) oid (st_set_rpark s true)), false)
          else (f, true)
      | d :: r =>
          let f := with_ep f (put_stream (f_ep f) oid (st_set_rxq s r)) in
          let f := count_frame f oid in
          if isnil_b d then fill_buf fuel' f oid
          else
            match get_stream (f_ep f) oid with
            | Some s' => (with_ep f (put_stream (f_ep f) oid (st_set_buf s' d)), true)
            | None => (f, true)
            end
      end
  end
  end.

Definition live_stream (e : ep) (sid : N) : option (N * stream) :=
  match nth_opt (e_handles e) sid with
  | Some oid =>
      match get_stream e oid with
      | Some s => if st_alive s then Some (oid, s) else None
      | None => None
      end
  | None => None
  end.

Definition do_write (f : eff) (sid : N) (data : list N) : eff * list N :=
  match live_stream (f_ep f) sid with
  | None => (f, R_NA)
  | Some (oid, s) =>
      if st_fin s then (f, [2; 1])
      else if st_credit s =? 0 then
        (with_ep f (put_stream (f_ep f) oid (st_set_wpark s true)), R_PENDING)
      else
        let f := with_ep f (put_stream (f_ep f) oid (st_set_credit s (st_credit s - 1))) in
        if emit_ok f then (emit f (Push (st_id s) data), [0; len data])
        else (f, [2; 1])
  end.

Definition do_read (f : eff) (sid n : N) : eff * list N :=
  match live_stream (f_ep f) sid with
  | None => (f, R_NA)
  | Some (oid, s) =>
      let '(f, ready) :=
        if isnil_b (st_buf s) then fill_buf (S (length (st_rxq s))) f oid else (f, true) in
      if ready then
        match get_stream (f_ep f) oid with
        | Some s' =>
            let amt := N.min (len (st_buf s')) n in
            let got := firstn (N.to_nat amt) (st_buf s') in
            (with_ep f (put_stream (f_ep f) oid (st_set_buf s' (skipn (N.to_nat amt) (st_buf s')))),
             [0] ++ put_lp got)
        | None => (f, R_NA)
        end
      else (f, R_PENDING)
  end.

Definition do_shutdown (f : eff) (sid : N) : eff * list N :=
  match live_stream (f_ep f) sid with
  | None => (f, R_NA)
  | Some (oid, s) =>
      if st_fin s then (f, [0])
      else (emit (with_ep f (put_stream (f_ep f) oid (st_set_fin s true))) (Finish (st_id s)), [0])
  end.

Definition do_drop_stream (f : eff) (sid : N) : eff * list N :=
  match live_stream (f_ep f) sid with
  | None => (f, R_NA)
  | Some (oid, s) =>
      let f := with_ep f (put_stream (f_ep f) oid (st_set_rpark (st_set_alive s false) false)) in
      (task_dropped f (st_id s), [0])
  end.

Definition do_accept (f : eff) : eff * list N :=
  let e := f_ep f in
  if negb (e_mux_alive e) then (f, R_NA) else
  match e_accept_q e with
  | oid :: r =>
      let '(e, res) := give_handle (set_accept_q e r) oid in
      (resume_blocked (with_ep f e), res)
  | [] =>
      match e_phase e with
      | Ended => (f, [2; 2])
      | _ => (with_ep f (set_parks e true (e_dgram_park e) (e_nextbind_park e)), R_PENDING)
      end
  end.

Definition do_send_dgram (f : eff) (fid port : N) (host data : list N) : eff * list N :=
  let e := f_ep f in
  if negb (e_mux_alive e) then (f, R_NA)
  else if 255 <? len host then (f, [2; 8])
  else if e_tx_closed e then (f, [2; 2])
  else (emit f (Datagram fid port host data), [0]).

Definition do_get_dgram (f : eff) : eff * list N :=
  let e := f_ep f in
  if negb (e_mux_alive e) then (f, R_NA) else
  match e_dgram_q e with
  | d :: r =>
      (with_ep f (set_dgram_q e r), [0; dg_id d; dg_port d] ++ put_lp (dg_host d) ++ put_lp (dg_data d))
  | [] =>
      match e_phase e with
      | Ended => (f, [2; 2])
      | _ => (with_ep f (set_parks e (e_accept_park e) true (e_nextbind_park e)), R_PENDING)
      end
  end.

Definition do_bind_req (f : eff) (bt port : N) (host : list N) : eff * list N :=
  let e := f_ep f in
  let k := len (e_binds e) in
  if negb (e_mux_alive e) then (with_ep f (set_binds e (e_binds e ++ [mkBindp BDone false true])), R_NA)
  else
    let '(id, e) := alloc_id 64 e in
    let e := set_slots e (slot_set (e_slots e) id (SBind k)) in
    if e_tx_closed e then (with_ep f (set_binds e (e_binds e ++ [mkBindp BDone false false])), [2; 2])
    else
      let f := emit (with_ep f e) (Bind id bt port host) in
      (with_ep f (set_binds (f_ep f) (e_binds (f_ep f) ++ [mkBindp BWaiting true false])), R_PENDING).

Definition poll_bind (f : eff) (k : N) : eff * list N :=
  match nth_opt (e_binds (f_ep f)) k with
  | None => (f, R_NA)
  | Some b =>
      if bp_rx_dropped b then (f, R_NA) else
      let setb v p := with_ep f (set_binds (f_ep f) (upd (e_binds (f_ep f)) k (mkBindp v p false))) in
      match bp_state b with
      | BWaiting => (setb BWaiting true, R_PENDING)
      | BGot v => (setb BDone false, [0; if v then 1 else 0])
      | BGone => (setb BDone false, [2; 2])
      | BDone => (f, R_NA)
      end
  end.

Definition do_next_bind (f : eff) : eff * list N :=
  let e := f_ep f in
  if negb (e_mux_alive e) then (f, R_NA)
  else if e_bind_cap e =? 0 then (f, [2; 4])
  else
    match e_bind_q e with
    | r :: q =>
        let rid := len (e_bindreqs e) in
        let e := set_bindreqs (set_bind_q e q) (e_bindreqs e ++ [r]) in
        (resume_blocked (with_ep f e), [0; rid; br_id r; br_type r; br_port r] ++ put_lp (br_host r))
    | [] =>
        match e_phase e with
        | Ended => (f, [2; 2])
        | _ => (with_ep f (set_parks e (e_accept_park e) (e_dgram_park e) true), R_PENDING)
        end
    end.

Definition do_bind_reply (f : eff) (rid : N) (acc : bool) : eff * list N :=
  match nth_opt (e_bindreqs (f_ep f)) rid with
  | Some r =>
      if br_alive r then
        if emit_ok f then (emit f (if acc then Finish (br_id r) else Reset (br_id r)), [0])
        else (f, [2; 2])
      else (f, R_NA)
  | None => (f, R_NA)
  end.

Definition do_bind_drop (f : eff) (rid : N) : eff * list N :=
  match nth_opt (e_bindreqs (f_ep f)) rid with
  | Some r =>
      if br_alive r then
        let e := set_bindreqs (f_ep f) (upd (e_bindreqs (f_ep f)) rid
                   (mkBindreq (br_id r) (br_type r) (br_port r) (br_host r) false)) in
        (emit (with_ep f e) (Reset (br_id r)), [0])
      else (f, R_NA)
  | None => (f, R_NA)
  end.

Definition kill_stream (e : ep) (oid : N) : ep :=
  match get_stream e oid with
  | Some s => put_stream e oid (st_set_rpark (st_set_alive s false) false)
  | None => e
  end.

(* a stream that was established for a request whose future is dropped before it was
   polled again is dropped with it; the task then closes that flow *)
Definition drop_unclaimed (f : eff) (o : openp) : eff :=
  match op_state o with
  | OGot oid =>
      if op_rx_dropped o then f else
      match get_stream (f_ep f) oid with
      | Some s => task_dropped (with_ep f (kill_stream (f_ep f) oid)) (st_id s)
      | None => f
      end
  | _ => f
  end.

Definition do_drop_mux (f : eff) : eff * list N :=
  let e := f_ep f in
  if negb (e_mux_alive e) then (f, R_NA) else
  let suspended_on_accept :=
    running (e_phase e) && match e_blocked e with BlStream _ => true | _ => false end in
  let mark_futs (e : ep) : ep :=
    let e := set_opens e (map (fun o => mkOpen (op_host o) (op_port o) (op_retries o) (op_state o) false true) (e_opens e)) in
    set_binds e (map (fun b => mkBindp (bp_state b) false true) (e_binds e)) in
  let mark (e : ep) : ep :=
    let e := set_opens e (map (fun o => mkOpen (op_host o) (op_port o) (op_retries o) (op_state o) false true) (e_opens e)) in
    let e := set_binds e (map (fun b => mkBindp (bp_state b) false true) (e_binds e)) in
    let e := fold_left kill_stream (e_accept_q e) e in
    set_parks (set_bind_q (set_dgram_q (set_accept_q (set_mux_alive e false) []) []) []) false false false in
  let kill_unclaimed (e : ep) (o : openp) : ep :=
    match op_state o with OGot oid => if op_rx_dropped o then e else kill_stream e oid | _ => e end in
  if suspended_on_accept then
    (* the suspended hand-over to the accept queue fails: the receive loop ends with
       SendStreamToClient before the drop is noticed; nothing queued is flushed *)
    let e := mark (fold_left kill_unclaimed (e_opens e) e) in
    (wind_down (with_ep f e) 101 false false false, [0])
  else
    (* queued bind requests are dropped with the handle (rejecting them); then the task
       sees the handles dropped with the pending requests, then the drop itself *)
    let f := fold_left (fun f r => emit f (Reset (br_id r))) (e_bind_q e) f in
    match e_phase e, e_blocked e with
    | RunPendingEnd c, BlBind _ =>
        (* the failed hand-over to the bind queue is only logged; the receive loop goes on,
           meets the end of the source and ends the task before the drop is noticed:
           nothing queued is flushed *)
        let e := mark (fold_left kill_unclaimed (e_opens e) (set_blocked e BlNone)) in
        (source_event (mkEff (set_phase e Running) [] (f_wakes f) (f_closed f) (f_done f)) c, [0])
    | _, _ =>
        let f := if running (e_phase e) then drop_blocked f else f in
        (* the pending calls are gone before the task sees anything of the drop: a request that the
           closing of an unclaimed stream resolves (its id re-used by a pending Connect or Bind) wakes nobody *)
        let f := with_ep f (mark_futs (f_ep f)) in
        let f := fold_left drop_unclaimed (e_opens e) f in
        let f := with_ep f (mark (f_ep f)) in
        if running (e_phase (f_ep f)) then (wind_down f 0 true false true, [0]) else (f, [0])
    end.

Definition do_end (f : eff) (cause : N) : eff * list N :=
  match cause with
  | 0 | 1 => (source_event f cause, [0])
  | _ =>
      match e_phase (f_ep f) with
      | Running | RunPendingEnd _ => (wind_down f 107 false false false, [0])
      | WindDown4 code ended =>
          (* the flush stops at the sink error; the rest of the wind-down goes on *)
          (wind_down2 (mkEff (set_txq (f_ep f) []) [] (f_wakes f) (f_closed f) (f_done f)) code true ended, [0])
      | _ => (f, [0])
      end
  end.

(* the end of a label: the send loop hands queued messages to the sink as far as it is ready *)
Definition settle (f : eff) : eff :=
  let e := f_ep f in
  match e_phase e with
  | WindDown6 _ | Ended => f
  | _ =>
      let q := e_txq e ++ f_out f in
      let n := match e_permits e with None => len q | Some p => N.min p (len q) end in
      let sent := firstn (N.to_nat n) q in
      let rest := skipn (N.to_nat n) q in
      let e := set_permits (set_txq e rest) (match e_permits e with None => None | Some p => Some (p - n) end) in
      let f := mkEff e sent (f_wakes f) (f_closed f) (f_done f) in
      match e_phase e, rest with
      | WindDown4 code ended, [] => wind_down2 f code true ended
      | _, _ => f
      end
  end.

(* ------------------------------------------------------------------ the pair *)

Record sys := mkSys { s_a : ep; s_b : ep; s_la : list msg; s_lb : list msg }.

Definition get_ep (s : sys) (e : N) : ep := if e =? 0 then s_a s else s_b s.

Record lout := mkLout {
  o_res : list N; o_wakes : list N; o_a : list msg; o_a_closed : bool;
  o_b : list msg; o_b_closed : bool; o_done : list N }.

(* apply an endpoint-local step to endpoint [e] of the pair *)
Definition on_ep (s : sys) (e : N) (k : eff -> eff * list N) : sys * lout :=
  let '(f, res) := k (start (get_ep s e)) in
  let f := settle f in
  if e =? 0 then
    (mkSys (f_ep f) (s_b s) (s_la s ++ f_out f) (s_lb s),
     mkLout res (sort (f_wakes f)) (f_out f) (f_closed f) [] false (f_done f))
  else
    (mkSys (s_a s) (f_ep f) (s_la s) (s_lb s ++ f_out f),
     mkLout res (sort (f_wakes f)) [] false (f_out f) (f_closed f) (f_done f)).

Definition step (s : sys) (l : label) : sys * lout :=
  match l with
  | LOpen e port host =>
      on_ep s e (fun f =>
        let e0 := f_ep f in
        let k := len (e_opens e0) in
        if negb (e_mux_alive e0) then
          (with_ep f (set_opens e0 (e_opens e0 ++ [mkOpen host port 0 ODone false true])), R_NA)
        else
          let o := mkOpen host port (e_retries e0) ORejected false false in
          open_attempt (with_ep f (set_opens e0 (e_opens e0 ++ [o]))) k o)
  | LOpenPoll e k => on_ep s e (fun f => poll_open f k)
  | LAccept e => on_ep s e do_accept
  | LWrite e sid data => on_ep s e (fun f => do_write f sid data)
  | LWriteV e sid chunks => on_ep s e (fun f => do_write f sid (concat chunks))
  | LRead e sid n => on_ep s e (fun f => do_read f sid n)
  | LShutdown e sid => on_ep s e (fun f => do_shutdown f sid)
  | LDropStream e sid => on_ep s e (fun f => do_drop_stream f sid)
  | LDeliver d =>
      let rx := if d =? 0 then 1 else 0 in
      match (if d =? 0 then s_la s else s_lb s) with
      | [] => (s, mkLout R_NA [] [] false [] false [])
      | m :: rest =>
          let '(f, consumed) := deliver (start (get_ep s rx)) m in
          let f := settle f in
          if consumed then
            if d =? 0 then
              (mkSys (s_a s) (f_ep f) rest (s_lb s ++ f_out f),
               mkLout [0] (sort (f_wakes f)) [] false (f_out f) (f_closed f) (f_done f))
            else
              (mkSys (f_ep f) (s_b s) (s_la s ++ f_out f) rest,
               mkLout [0] (sort (f_wakes f)) (f_out f) (f_closed f) [] false (f_done f))
          else (s, mkLout [1] [] [] false [] false [])
      end
  | LDeliverAll d =>
      let rx := if d =? 0 then 1 else 0 in
      match (if d =? 0 then s_la s else s_lb s) with
      | [] => (s, mkLout R_NA [] [] false [] false [])
      | ms =>
          let '(f, n) := deliver_all (start (get_ep s rx)) ms in
          let f := settle f in
          let rest := skipn (N.to_nat n) ms in
          if d =? 0 then
            (mkSys (s_a s) (f_ep f) rest (s_lb s ++ f_out f),
             mkLout [0; n] (sort (f_wakes f)) [] false (f_out f) (f_closed f) (f_done f))
          else
            (mkSys (f_ep f) (s_b s) (s_la s ++ f_out f) rest,
             mkLout [0; n] (sort (f_wakes f)) (f_out f) (f_closed f) [] false (f_done f))
      end
  | LDropDeliver e sid =>
      let f0 := start (get_ep s e) in
      match live_stream (f_ep f0) sid with
      | None => (s, mkLout R_NA [] [] false [] false [])
      | Some (oid, st) =>
          let f1 := with_ep f0 (put_stream (f_ep f0) oid (st_set_rpark (st_set_alive st false) false)) in
          match (if e =? 0 then s_lb s else s_la s) with
          | [] =>
              let f := settle (task_dropped f1 (st_id st)) in
              if e =? 0 then
                (mkSys (f_ep f) (s_b s) (s_la s ++ f_out f) (s_lb s),
                 mkLout [0; 3] (sort (f_wakes f)) (f_out f) (f_closed f) [] false (f_done f))
              else
                (mkSys (s_a s) (f_ep f) (s_la s) (s_lb s ++ f_out f),
                 mkLout [0; 3] (sort (f_wakes f)) [] false (f_out f) (f_closed f) (f_done f))
          | m :: rest =>
              (* the receive arm of the task's biased select runs before the dropped-flows arm *)
              let '(f2, consumed) := deliver f1 m in
              let f := settle (task_dropped f2 (st_id st)) in
              let res := [0; if consumed then 0 else 1] in
              if e =? 0 then
                (mkSys (f_ep f) (s_b s) (s_la s ++ f_out f) (if consumed then rest else s_lb s),
                 mkLout res (sort (f_wakes f)) (f_out f) (f_closed f) [] false (f_done f))
              else
                (mkSys (s_a s) (f_ep f) (if consumed then rest else s_la s) (s_lb s ++ f_out f),
                 mkLout res (sort (f_wakes f)) [] false (f_out f) (f_closed f) (f_done f))
          end
      end
  | LSendDgram e fid port host data => on_ep s e (fun f => do_send_dgram f fid port host data)
  | LGetDgram e => on_ep s e do_get_dgram
  | LBindReq e bt port host => on_ep s e (fun f => do_bind_req f bt port host)
  | LBindPoll e k => on_ep s e (fun f => poll_bind f k)
  | LNextBind e => on_ep s e do_next_bind
  | LBindReply e rid acc => on_ep s e (fun f => do_bind_reply f rid acc)
  | LBindDrop e rid => on_ep s e (fun f => do_bind_drop f rid)
  | LDropMux e => on_ep s e do_drop_mux
  | LInject e m =>
      if e =? 0 then (mkSys (s_a s) (s_b s) (s_la s) (s_lb s ++ [m]), mkLout [0] [] [] false [] false [])
      else (mkSys (s_a s) (s_b s) (s_la s ++ [m]) (s_lb s), mkLout [0] [] [] false [] false [])
  | LEnd e cause => on_ep s e (fun f => do_end f cause)
  | LPermits e n =>
      on_ep s e (fun f => (with_ep f (set_permits (f_ep f) (if 999999 <=? n then None else Some n)), [0]))
  end.

Definition init_ep (idx rwnd th acc dg bd retries : N) (rng : list N) : ep :=
  mkEp idx rwnd th acc dg bd retries rng (1073741824 + idx * 268435456)
       [] [] [] [] [] [] [] [] [] BlNone false false false true Running false [] None.

Fixpoint run (s : sys) (ls : list label) : sys * list lout :=
  match ls with
  | [] => (s, [])
  | l :: r => let '(s1, o) := step s l in let '(s2, os) := run s1 r in (s2, o :: os)
  end.
