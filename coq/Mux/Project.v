(* The one-direction flow model (Flow/Core.v) is the projection of the endpoint model (Mux/Sys.v)
   onto one flow: every function of the endpoint model that touches an established stream acts on
   the sender half (credit, finish_sent) and on the receiver half (channel, buffer, acknowledgement
   counter) of that stream exactly as the corresponding label of the flow model does, gives the
   same result, and puts on the wire exactly the frames the flow model puts in flight.

   A stream object of an endpoint is the sender half of one direction and the receiver half of
   the other: [S_view y s] says that the flow state [y] of the outgoing direction agrees with the
   stream object [s], [R_view x w s] that the flow state [x] of the incoming direction does. *)
From PV Require Import Mux.Sys Mux.SysProofs.
From PV Require Flow.Core.
From Coq Require Import ZifyBool ZifyN ZifyNat.
Module F := PV.Flow.Core.

Definition S_view (y : F.st) (s : stream) : Prop :=
  F.c y = st_credit s /\ F.fin y = st_fin s.
Definition R_view (x : F.st) (w : N) (s : stream) : Prop :=
  F.W x = w /\ F.th x = st_th s /\ F.rxq x = st_rxq s /\ F.txopen x = st_txopen s /\
  F.ralive x = st_alive s /\ F.buf x = st_buf s /\ F.u x = st_since s.
Definition same_S (s s' : stream) : Prop :=
  st_credit s' = st_credit s /\ st_fin s' = st_fin s.
Definition same_R (s s' : stream) : Prop :=
  st_th s' = st_th s /\ st_rxq s' = st_rxq s /\ st_txopen s' = st_txopen s /\
  st_alive s' = st_alive s /\ st_buf s' = st_buf s /\ st_since s' = st_since s.

Definition wire (id : N) (fr : F.sframe) : msg :=
  MBin (encode (match fr with F.FPush d => Push id d | F.FFin => Finish id | F.FRst => Reset id end)).
Definition ackwire (id n : N) : msg := MBin (encode (Acknowledge id n)).

Definition enc_out (o : F.out) : list N :=
  match o with
  | F.ONone => [0]
  | F.OPending => [1]
  | F.OWritten n => [0; n]
  | F.OBroken => [2; 1]
  | F.OData d => 0 :: put_lp d
  | F.OEof => [0; 0]
  end.

Lemma S_view_same y s s' : S_view y s -> same_S s s' -> S_view y s'.
Proof. unfold S_view, same_S. intros (A & B) (C & D). split; congruence. Qed.
Lemma R_view_same x w s s' : R_view x w s -> same_R s s' -> R_view x w s'.
Proof. unfold R_view, same_R. intros (A & B & C & D & E & G & H) (A' & B' & C' & D' & E' & G'). repeat split; congruence. Qed.
Lemma same_S_refl s : same_S s s. Proof. split; reflexivity. Qed.
Lemma same_R_refl s : same_R s s. Proof. repeat split; reflexivity. Qed.

(* ---------------------------------------------------------------- bookkeeping *)
Lemma upd_nth_same {A} (l : list A) i x y : nth_error l i = Some y -> nth_error (upd_nth l i x) i = Some x.
Proof. revert i. induction l as [|z l IH]; intros [|i] H; cbn in *; try discriminate; auto. Qed.
Lemma get_put_same e oid s x : get_stream e oid = Some s -> get_stream (put_stream e oid x) oid = Some x.
Proof.
  unfold get_stream, put_stream, nth_opt, upd. cbn [e_streams set_streams]. apply upd_nth_same.
Qed.
Lemma live_get e sid oid s : live_stream e sid = Some (oid, s) -> get_stream e oid = Some s /\ st_alive s = true.
Proof.
  unfold live_stream. destruct (nth_opt (e_handles e) sid) as [o|]; [|discriminate].
  destruct (get_stream e o) as [s0|] eqn:E; [|discriminate]. destruct (st_alive s0) eqn:A; [|discriminate].
  intros H; inversion H; subst. auto.
Qed.
Lemma put_tx e oid s : e_tx_closed (put_stream e oid s) = e_tx_closed e.
Proof. reflexivity. Qed.
Lemma put_slots e oid s : e_slots (put_stream e oid s) = e_slots e.
Proof. reflexivity. Qed.
Lemma put_rwnd e oid s : e_rwnd (put_stream e oid s) = e_rwnd e.
Proof. reflexivity. Qed.
Lemma emit_open f fr : e_tx_closed (f_ep f) = false ->
  f_out (emit f fr) = f_out f ++ [MBin (encode fr)] /\ f_ep (emit f fr) = f_ep f.
Proof. intros H. unfold emit. rewrite H. split; reflexivity. Qed.

(* waking the writer / the reader changes the parking flags only *)
Lemma wake_writer_view f oid s : get_stream (f_ep f) oid = Some s ->
  exists s', get_stream (f_ep (wake_writer f oid)) oid = Some s' /\ same_S s s' /\ same_R s s' /\ st_id s' = st_id s /\
  f_out (wake_writer f oid) = f_out f /\ e_slots (f_ep (wake_writer f oid)) = e_slots (f_ep f) /\
  e_tx_closed (f_ep (wake_writer f oid)) = e_tx_closed (f_ep f) /\ e_rwnd (f_ep (wake_writer f oid)) = e_rwnd (f_ep f).
Proof.
  intros G. unfold wake_writer. rewrite G. destruct (st_wpark s).
  - exists (st_set_wpark s false).
    assert (G' : get_stream (put_stream (f_ep f) oid (st_set_wpark s false)) oid = Some (st_set_wpark s false))
      by (eapply get_put_same; eauto).
    destruct (sid_of _ oid); cbn [f_ep with_ep wake f_out]; (split; [exact G'|]);
      repeat split; reflexivity.
  - exists s. split; [exact G|]. repeat split; reflexivity.
Qed.
Lemma wake_reader_view f oid s : get_stream (f_ep f) oid = Some s ->
  exists s', get_stream (f_ep (wake_reader f oid)) oid = Some s' /\ same_S s s' /\ same_R s s' /\ st_id s' = st_id s /\
  f_out (wake_reader f oid) = f_out f /\ e_slots (f_ep (wake_reader f oid)) = e_slots (f_ep f) /\
  e_tx_closed (f_ep (wake_reader f oid)) = e_tx_closed (f_ep f) /\ e_rwnd (f_ep (wake_reader f oid)) = e_rwnd (f_ep f).
Proof.
  intros G. unfold wake_reader. rewrite G. destruct (st_rpark s).
  - exists (st_set_rpark s false).
    assert (G' : get_stream (put_stream (f_ep f) oid (st_set_rpark s false)) oid = Some (st_set_rpark s false))
      by (eapply get_put_same; eauto).
    destruct (sid_of _ oid); cbn [f_ep with_ep wake f_out]; (split; [exact G'|]);
      repeat split; reflexivity.
  - exists s. split; [exact G|]. repeat split; reflexivity.
Qed.

(* ---------------------------------------------------------------- the writer *)
Theorem write_projects f sid data oid s y f' res y' o :
  live_stream (f_ep f) sid = Some (oid, s) -> e_tx_closed (f_ep f) = false -> S_view y s ->
  do_write f sid data = (f', res) -> F.step y (F.Write data) = (y', o) ->
  res = enc_out o /\
  exists s', get_stream (f_ep f') oid = Some s' /\ S_view y' s' /\ same_R s s' /\ st_id s' = st_id s /\
  exists added, F.wsr y' = F.wsr y ++ added /\ f_out f' = f_out f ++ map (wire (st_id s)) added.
Proof.
  intros L T (Vc & Vf) W Fs. destruct (live_get _ _ _ _ L) as (G & A).
  unfold do_write in W. rewrite L in W. cbn [F.step] in Fs. rewrite Vc, Vf in Fs.
  destruct (st_fin s) eqn:Ef.
  { inversion W; inversion Fs; subst. split; [reflexivity|]. exists s. split; [exact G|].
    split; [split; congruence|]. split; [apply same_R_refl|]. split; [reflexivity|].
    exists []. rewrite !app_nil_r. auto. }
  destruct (N.eqb_spec (st_credit s) 0) as [Ec|Ec].
  { inversion W; inversion Fs; subst. split; [reflexivity|]. cbn [f_ep with_ep f_out].
    exists (st_set_wpark s true). split; [eapply get_put_same; eauto|].
    split; [split; cbn; congruence|]. split; [repeat split|]. split; [reflexivity|].
    exists []. rewrite !app_nil_r. auto. }
  unfold emit_ok in W. cbn [f_ep with_ep] in W. rewrite put_tx, T in W. cbn [negb] in W.
  inversion W; inversion Fs; subst. split; [reflexivity|].
  destruct (emit_open (with_ep f (put_stream (f_ep f) oid (st_set_credit s (st_credit s - 1)))) (Push (st_id s) data)) as (Eo & Ee).
  { cbn [f_ep with_ep]. now rewrite put_tx. }
  rewrite Ee, Eo. cbn [f_ep with_ep f_out].
  exists (st_set_credit s (st_credit s - 1)). split; [eapply get_put_same; eauto|].
  split; [split; cbn; congruence|]. split; [repeat split|]. split; [reflexivity|].
  exists [F.FPush data]. auto.
Qed.

Theorem shutdown_projects f sid oid s y f' res y' o :
  live_stream (f_ep f) sid = Some (oid, s) -> e_tx_closed (f_ep f) = false -> S_view y s ->
  do_shutdown f sid = (f', res) -> F.step y F.Shutdown = (y', o) ->
  res = enc_out o /\
  exists s', get_stream (f_ep f') oid = Some s' /\ S_view y' s' /\ same_R s s' /\ st_id s' = st_id s /\
  exists added, F.wsr y' = F.wsr y ++ added /\ f_out f' = f_out f ++ map (wire (st_id s)) added.
Proof.
  intros L T (Vc & Vf) W Fs. destruct (live_get _ _ _ _ L) as (G & A).
  unfold do_shutdown in W. rewrite L in W. cbn [F.step] in Fs. rewrite Vf in Fs.
  destruct (st_fin s) eqn:Ef.
  { inversion W; inversion Fs; subst. split; [reflexivity|]. exists s. split; [exact G|].
    split; [split; congruence|]. split; [apply same_R_refl|]. split; [reflexivity|].
    exists []. rewrite !app_nil_r. auto. }
  inversion W; inversion Fs; subst. split; [reflexivity|].
  destruct (emit_open (with_ep f (put_stream (f_ep f) oid (st_set_fin s true))) (Finish (st_id s))) as (Eo & Ee).
  { cbn [f_ep with_ep]. now rewrite put_tx. }
  rewrite Ee, Eo. cbn [f_ep with_ep f_out].
  exists (st_set_fin s true). split; [eapply get_put_same; eauto|].
  split; [split; cbn; congruence|]. split; [repeat split|]. split; [reflexivity|].
  exists [F.FFin]. auto.
Qed.

(* ---------------------------------------------------------------- the reader *)
Lemma count_frame_spec f oid s : get_stream (f_ep f) oid = Some s -> e_tx_closed (f_ep f) = false ->
  let n := st_since s + 1 in
  let f' := count_frame f oid in
  let hit := st_th s <=? n in
  get_stream (f_ep f') oid = Some (st_set_since s (if hit then 0 else n)) /\
  e_tx_closed (f_ep f') = false /\
  f_out f' = f_out f ++ (if hit then [ackwire (st_id s) n] else []).
Proof.
  intros G T. cbv zeta. unfold count_frame. rewrite G.
  destruct (st_th s <=? st_since s + 1).
  - destruct (emit_open (with_ep f (put_stream (f_ep f) oid (st_set_since s 0))) (Acknowledge (st_id s) (st_since s + 1))) as (Eo & Ee).
    { cbn [f_ep with_ep]. now rewrite put_tx. }
    rewrite Ee, Eo. cbn [f_ep with_ep f_out]. rewrite put_tx. split; [eapply get_put_same; eauto|]. auto.
  - cbn [f_ep with_ep f_out]. rewrite put_tx, app_nil_r. split; [eapply get_put_same; eauto|]. auto.
Qed.

Lemma fill_buf_spec : forall q fuel f oid s acks q' b u' acks' f' ready,
  get_stream (f_ep f) oid = Some s -> st_rxq s = q -> (length q < fuel)%nat -> e_tx_closed (f_ep f) = false ->
  F.fill q (st_since s) (st_th s) acks = (q', b, u', acks') ->
  fill_buf fuel f oid = (f', ready) ->
  exists s', get_stream (f_ep f') oid = Some s' /\ st_rxq s' = q' /\
     st_buf s' = (if isnil_b b then st_buf s else b) /\ st_since s' = u' /\
     same_S s s' /\ st_txopen s' = st_txopen s /\ st_alive s' = st_alive s /\ st_th s' = st_th s /\ st_id s' = st_id s /\
     ready = negb (isnil_b b) || negb (st_txopen s) /\
     e_tx_closed (f_ep f') = false /\
     exists added, acks' = acks ++ added /\ f_out f' = f_out f ++ map (ackwire (st_id s)) added.
Proof.
  induction q as [|d r IH]; intros fuel f oid s acks q' b u' acks' f' ready G Q Fu T Fl Fb;
    (destruct fuel as [|fuel]; [cbn in Fu; lia|]); cbn [fill_buf] in Fb; rewrite G, Q in Fb; cbn [F.fill] in Fl.
  - inversion Fl; subst. cbn [isnil_b negb orb].
    destruct (st_txopen s) eqn:Et; inversion Fb; subst; cbn [f_ep with_ep f_out negb].
    + exists (st_set_rpark s true). split; [eapply get_put_same; eauto|].
      repeat split; auto. exists []. rewrite !app_nil_r. auto.
    + exists s. split; [exact G|]. repeat split; auto. exists []. rewrite !app_nil_r. auto.
  - set (f1 := with_ep f (put_stream (f_ep f) oid (st_set_rxq s r))) in *.
    assert (G1 : get_stream (f_ep f1) oid = Some (st_set_rxq s r)) by (eapply get_put_same; eauto).
    assert (T1 : e_tx_closed (f_ep f1) = false) by (unfold f1; cbn [f_ep with_ep]; now rewrite put_tx).
    destruct (count_frame_spec f1 oid _ G1 T1) as (G2 & T2 & O2). cbv zeta in G2, O2.
    cbn [st_since st_th st_id st_set_rxq] in G2, O2.
    set (hit := st_th s <=? st_since s + 1) in *.
    set (f2 := count_frame f1 oid) in *.
    set (s2 := st_set_since (st_set_rxq s r) (if hit then 0 else st_since s + 1)) in *.
    assert (Acks : (if hit then (0, acks ++ [st_since s + 1]) else (st_since s + 1, acks)) =
                   (st_since s2, acks ++ (if hit then [st_since s + 1] else []))).
    { unfold s2. destruct hit; cbn; [reflexivity|now rewrite app_nil_r]. }
    rewrite Acks in Fl.
    destruct d as [|d0 dr]; cbn [isnil_b] in Fb.
    + assert (Fu' : (length (st_rxq s2) < fuel)%nat) by (unfold s2; cbn in *; lia).
      destruct (IH fuel f2 oid s2 _ q' b u' acks' f' ready G2 eq_refl Fu' T2 Fl Fb)
        as (s' & A1 & A2 & A3 & A4 & A5 & A6 & A7 & A8 & A9 & A10 & A11 & added & A12 & A13).
      exists s'. split; [exact A1|]. split; [exact A2|]. split; [exact A3|]. split; [exact A4|].
      split; [exact A5|]. split; [exact A6|]. split; [exact A7|]. split; [exact A8|]. split; [exact A9|].
      split; [exact A10|]. split; [exact A11|].
      exists ((if hit then [st_since s + 1] else []) ++ added). split; [now rewrite app_assoc|].
      rewrite A13, O2. unfold f1. cbn [f_out with_ep]. rewrite map_app, app_assoc. f_equal. f_equal.
      destruct hit; reflexivity.
    + rewrite G2 in Fb. inversion Fl; inversion Fb; subst. cbn [f_ep with_ep f_out isnil_b negb orb].
      exists (st_set_buf s2 (d0 :: dr)). split; [eapply get_put_same; eauto|].
      rewrite put_tx. repeat split; auto.
      exists (if hit then [st_since s + 1] else []). split; [reflexivity|].
      rewrite O2. unfold f1. cbn [f_out with_ep]. f_equal. destruct hit; reflexivity.
Qed.

Theorem read_projects f sid n oid s x w f' res x' o :
  live_stream (f_ep f) sid = Some (oid, s) -> e_tx_closed (f_ep f) = false -> R_view x w s ->
  do_read f sid n = (f', res) -> F.step x (F.Read n) = (x', o) ->
  res = enc_out o /\
  exists s', get_stream (f_ep f') oid = Some s' /\ R_view x' w s' /\ same_S s s' /\ st_id s' = st_id s /\
  exists added, F.wrs x' = F.wrs x ++ added /\ f_out f' = f_out f ++ map (ackwire (st_id s)) added.
Proof.
  intros L T (VW & Vt & Vq & Vo & Va & Vb & Vu) Rd Fs. destruct (live_get _ _ _ _ L) as (G & A).
  unfold do_read in Rd. rewrite L in Rd. cbn [F.step] in Fs. rewrite Va, A in Fs. cbn [negb] in Fs.
  rewrite Vb in Fs. destruct (st_buf s) as [|b0 bs] eqn:Eb; cbn [isnil_b] in Rd.
  - rewrite Vq, Vu, Vt in Fs.
    destruct (F.fill (st_rxq s) (st_since s) (st_th s) (F.wrs x)) as [[[q' b] u'] acks'] eqn:Fl.
    destruct (fill_buf (S (length (st_rxq s))) f oid) as [f1 ready] eqn:Fb.
    assert (Fu : (length (st_rxq s) < S (length (st_rxq s)))%nat) by lia.
    destruct (fill_buf_spec _ _ _ _ _ _ _ _ _ _ _ _ G eq_refl Fu T Fl Fb)
      as (s' & A1 & A2 & A3 & A4 & A5 & A6 & A7 & A8 & A9 & A10 & A11 & added & A12 & A13).
    destruct b as [|b1 br]; cbn [isnil_b negb orb] in *.
    + rewrite Vo in Fs. destruct (st_txopen s) eqn:Et; cbn [negb] in A10; subst ready.
      * inversion Rd; inversion Fs; subst. split; [reflexivity|].
        exists s'. split; [exact A1|]. split.
        { unfold R_view, F.upd_read. cbn. rewrite A3, A6, A7, A8, Eb. repeat split; auto. }
        split; [exact A5|]. split; [exact A9|]. exists added. cbn. auto.
      * rewrite A1 in Rd. rewrite A3, Eb in Rd. rewrite firstn_nil, skipn_nil in Rd.
        inversion Rd; inversion Fs; subst. cbn [f_ep with_ep f_out]. split; [reflexivity|].
        exists (st_set_buf s' []). split; [eapply get_put_same; eauto|]. split.
        { unfold R_view, F.upd_read. cbn. rewrite A6, A7, A8. repeat split; auto. }
        split; [exact A5|]. split; [exact A9|]. exists added. cbn. auto.
    + subst ready. rewrite A1, A3 in Rd. inversion Rd; inversion Fs; subst. cbn [f_ep with_ep f_out].
      split; [reflexivity|].
      exists (st_set_buf s' (skipn (N.to_nat (N.min (len (b1 :: br)) n)) (b1 :: br))).
      split; [eapply get_put_same; eauto|]. split.
      { unfold R_view, F.upd_read. cbn - [skipn N.min len]. rewrite A6, A7, A8. repeat split; auto. }
      split; [exact A5|]. split; [exact A9|]. exists added. cbn - [skipn N.min len firstn]. auto.
  - rewrite G in Rd. rewrite Eb in Rd. inversion Rd; inversion Fs; subst. cbn [f_ep with_ep f_out].
    split; [reflexivity|].
    exists (st_set_buf s (skipn (N.to_nat (N.min (len (b0 :: bs)) n)) (b0 :: bs))).
    split; [eapply get_put_same; eauto|]. split.
    { unfold R_view, F.upd_read. cbn - [skipn N.min len]. repeat split; auto. }
    split; [repeat split|]. split; [reflexivity|]. exists []. cbn - [skipn N.min len firstn]. rewrite !app_nil_r. auto.
Qed.

(* ---------------------------------------------------------------- closing a flow *)
Definition same_R_but_txopen (s s' : stream) : Prop :=
  st_th s' = st_th s /\ st_rxq s' = st_rxq s /\ st_alive s' = st_alive s /\ st_buf s' = st_buf s /\
  st_since s' = st_since s.
Definition same_env (f f' : eff) : Prop :=
  e_slots (f_ep f') = e_slots (f_ep f) /\ e_tx_closed (f_ep f') = e_tx_closed (f_ep f) /\
  e_rwnd (f_ep f') = e_rwnd (f_ep f) /\ e_phase (f_ep f') = e_phase (f_ep f).

Lemma disallow_write_view f oid s : get_stream (f_ep f) oid = Some s ->
  exists s', get_stream (f_ep (fst (disallow_write f oid))) oid = Some s' /\
    st_fin s' = true /\ st_credit s' = st_credit s /\ same_R s s' /\ st_id s' = st_id s /\
    snd (disallow_write f oid) = st_fin s /\ f_out (fst (disallow_write f oid)) = f_out f /\
    same_env f (fst (disallow_write f oid)).
Proof.
  intros G. unfold disallow_write. rewrite G. cbn [fst snd].
  set (f1 := with_ep f (put_stream (f_ep f) oid (st_set_fin s true))).
  assert (G1 : get_stream (f_ep f1) oid = Some (st_set_fin s true)) by (eapply get_put_same; eauto).
  destruct (wake_writer_view f1 oid _ G1) as (s' & A1 & (A2 & A3) & A4 & A5 & A6 & A7 & A8 & A9).
  exists s'. split; [exact A1|]. cbn in A2, A3. split; [exact A3|]. split; [exact A2|].
  split; [exact A4|]. split; [exact A5|]. split; [reflexivity|]. split; [exact A6|].
  unfold same_env. rewrite A7, A8, A9. unfold wake_writer. rewrite G1.
  destruct (st_wpark (st_set_fin s true)); [destruct (sid_of _ oid)|]; repeat split; reflexivity.
Qed.

Lemma disallow_read_view f oid s : get_stream (f_ep f) oid = Some s ->
  exists s', get_stream (f_ep (disallow_read f oid)) oid = Some s' /\
    st_txopen s' = false /\ same_S s s' /\ same_R_but_txopen s s' /\ st_id s' = st_id s /\
    f_out (disallow_read f oid) = f_out f /\ same_env f (disallow_read f oid).
Proof.
  intros G. unfold disallow_read. rewrite G. destruct (st_txopen s) eqn:Et.
  - set (f1 := with_ep f (put_stream (f_ep f) oid (st_set_txopen s false))).
    assert (G1 : get_stream (f_ep f1) oid = Some (st_set_txopen s false)) by (eapply get_put_same; eauto).
    destruct (wake_reader_view f1 oid _ G1) as (s' & A1 & A2 & (B1 & B2 & B3 & B4 & B5 & B6) & A5 & A6 & A7 & A8 & A9).
    exists s'. split; [exact A1|]. cbn in B1, B2, B3, B4, B5, B6. split; [exact B3|]. split; [exact A2|].
    split; [repeat split; assumption|]. split; [exact A5|]. split; [exact A6|].
    unfold same_env. rewrite A7, A8, A9. unfold wake_reader. rewrite G1.
    destruct (st_rpark (st_set_txopen s false)); [destruct (sid_of _ oid)|]; repeat split; reflexivity.
  - exists s. split; [exact G|]. split; [exact Et|]. split; [apply same_S_refl|].
    split; [repeat split|]. split; [reflexivity|]. split; [reflexivity|]. repeat split.
Qed.

Lemma close_flow_view f id inh oid s :
  slot_get (e_slots (f_ep f)) id = Some (SEstablished oid) -> get_stream (f_ep f) oid = Some s ->
  e_tx_closed (f_ep f) = false ->
  exists s', get_stream (f_ep (close_flow f id inh)) oid = Some s' /\
    st_fin s' = true /\ st_credit s' = st_credit s /\ st_txopen s' = false /\ same_R_but_txopen s s' /\
    st_id s' = st_id s /\ slot_get (e_slots (f_ep (close_flow f id inh))) id = None /\
    f_out (close_flow f id inh) = f_out f ++ (if negb (st_fin s) && negb inh then [wire id F.FRst] else []) /\
    e_rwnd (f_ep (close_flow f id inh)) = e_rwnd (f_ep f) /\
    e_tx_closed (f_ep (close_flow f id inh)) = false.
Proof.
  intros Sl G T. unfold close_flow. rewrite Sl. cbn [close_flow_local].
  set (f1 := with_ep f (set_slots (f_ep f) (slot_del (e_slots (f_ep f)) id))).
  assert (G1 : get_stream (f_ep f1) oid = Some s) by exact G.
  destruct (disallow_write_view f1 oid s G1) as (s1 & A1 & A2 & A3 & A4 & A5 & A6 & A7 & (E1 & E2 & E3 & E4)).
  destruct (disallow_write f1 oid) as [f2 old] eqn:Dw. cbn [fst snd] in *. subst old.
  set (f3 := if negb (st_fin s) && negb inh then emit f2 (Reset id) else f2).
  assert (T2 : e_tx_closed (f_ep f2) = false) by (rewrite E2; exact T).
  assert (P3 : f_ep f3 = f_ep f2 /\ f_out f3 = f_out f ++ (if negb (st_fin s) && negb inh then [wire id F.FRst] else [])).
  { unfold f3. destruct (negb (st_fin s) && negb inh).
    - destruct (emit_open f2 (Reset id) T2) as (Eo & Ee). rewrite Eo, Ee, A7. auto.
    - rewrite app_nil_r, A7. auto. }
  destruct P3 as (P3 & O3).
  assert (G3 : get_stream (f_ep f3) oid = Some s1) by (rewrite P3; exact A1).
  destruct (disallow_read_view f3 oid s1 G3) as (s' & B1 & B2 & (B3 & B4) & (C1 & C2 & C3 & C4 & C5) & B6 & B7 & (D1 & D2 & D3 & D4)).
  destruct A4 as (R1 & R2 & R3 & R4 & R5 & R6).
  exists s'. split; [exact B1|]. split; [congruence|]. split; [congruence|]. split; [exact B2|].
  split; [repeat split; congruence|]. split; [congruence|].
  split; [rewrite D1, P3, E1; unfold f1; cbn [f_ep with_ep e_slots set_slots]; apply slot_get_del_same|].
  split; [rewrite B7; exact O3|]. split; [rewrite D3, P3, E3; reflexivity|]. rewrite D2, P3. exact T2.
Qed.

(* ---------------------------------------------------------------- deliveries *)
Theorem push_projects f id data wd oid s x y r f' rr :
  slot_get (e_slots (f_ep f)) id = Some (SEstablished oid) -> get_stream (f_ep f) oid = Some s ->
  e_tx_closed (f_ep f) = false ->
  R_view x (e_rwnd (f_ep f)) s -> S_view y s -> F.wsr x = F.FPush data :: r ->
  process_frame f (Push id data) wd = (f', rr) ->
  let x' := fst (F.step x F.DelSR) in
  let ov := st_txopen s && st_alive s && negb (len (st_rxq s) <? e_rwnd (f_ep f)) in
  rr = RxContinue /\ F.wsr x' = r /\
  exists s', get_stream (f_ep f') oid = Some s' /\ R_view x' (e_rwnd (f_ep f)) s' /\ st_id s' = st_id s /\
   if ov then
     (* the overrun closes the flow: the outgoing direction of the receiver is aborted *)
     let y' := fst (F.step y F.AbortS) in
     S_view y' s' /\ slot_get (e_slots (f_ep f')) id = None /\
     exists added, F.wsr y' = F.wsr y ++ added /\ f_out f' = f_out f ++ map (wire id) added
   else
     same_S s s' /\ e_slots (f_ep f') = e_slots (f_ep f) /\
     f_out f' = f_out f ++ (if st_txopen s then [] else [wire id F.FRst]).
Proof.
  intros Sl G T (VW & Vt & Vq & Vo & Va & Vb & Vu) (Yc & Yf) Wx P. cbv zeta.
  unfold process_frame in P. rewrite Sl, G in P. cbn [F.step]. rewrite Wx, Vo, Va, Vq, VW.
  destruct (st_txopen s) eqn:Et; cbn [negb orb andb] in *.
  2:{ destruct (emit_open f (Reset id) T) as (Eo & Ee). inversion P; subst. cbn [fst F.wsr].
      split; [reflexivity|]. split; [reflexivity|]. exists s. rewrite Ee. split; [exact G|].
      split; [unfold R_view; cbn; repeat split; auto|]. split; [reflexivity|].
      split; [apply same_S_refl|]. split; [reflexivity|]. exact Eo. }
  destruct (st_alive s) eqn:Ea; cbn [negb orb andb] in *.
  2:{ inversion P; subst. cbn [fst F.wsr]. split; [reflexivity|]. split; [reflexivity|]. exists s.
      split; [exact G|]. split; [unfold R_view; cbn; repeat split; auto|]. split; [reflexivity|].
      split; [apply same_S_refl|]. split; [reflexivity|]. now rewrite app_nil_r. }
  destruct (len (st_rxq s) <? e_rwnd (f_ep f)) eqn:Lt; cbn [negb fst F.wsr] in *.
  - set (f1 := with_ep f (put_stream (f_ep f) oid (st_set_rxq s (st_rxq s ++ [data])))) in *.
    assert (G1 : get_stream (f_ep f1) oid = Some (st_set_rxq s (st_rxq s ++ [data]))) by (eapply get_put_same; eauto).
    destruct (wake_reader_view f1 oid _ G1) as (s' & A1 & A2 & (B1 & B2 & B3 & B4 & B5 & B6) & A5 & A6 & A7 & A8 & A9).
    inversion P; subst. split; [reflexivity|]. split; [reflexivity|]. cbn in B1, B2, B3, B4, B5, B6, A5.
    exists s'. split; [exact A1|]. split; [unfold R_view; cbn; repeat split; congruence|].
    split; [exact A5|]. split; [exact A2|]. split; [rewrite A7; reflexivity|]. rewrite A6, app_nil_r. reflexivity.
  - destruct (close_flow_view f id false oid s Sl G T) as (s' & A1 & A2 & A3 & A4 & (C1 & C2 & C3 & C4 & C5) & A6 & A7 & A8 & A9 & A10).
    inversion P; subst. split; [reflexivity|]. split; [reflexivity|].
    exists s'. split; [exact A1|]. split; [unfold R_view; cbn; repeat split; congruence|].
    split; [exact A6|]. rewrite Yf. split; [unfold S_view; destruct (st_fin s); cbn; split; congruence|].
    split; [exact A7|]. rewrite A8. cbn [negb andb]. rewrite andb_true_r.
    destruct (st_fin s); cbn [negb].
    + exists []. rewrite !app_nil_r. auto.
    + exists [F.FRst]. auto.
Qed.

Theorem finish_projects f id wd oid s x r f' rr :
  slot_get (e_slots (f_ep f)) id = Some (SEstablished oid) -> get_stream (f_ep f) oid = Some s ->
  R_view x (e_rwnd (f_ep f)) s -> F.wsr x = F.FFin :: r ->
  process_frame f (Finish id) wd = (f', rr) ->
  let x' := fst (F.step x F.DelSR) in
  rr = RxContinue /\ F.wsr x' = r /\
  exists s', get_stream (f_ep f') oid = Some s' /\ R_view x' (e_rwnd (f_ep f)) s' /\ same_S s s' /\
    st_id s' = st_id s /\ e_slots (f_ep f') = e_slots (f_ep f) /\ f_out f' = f_out f.
Proof.
  intros Sl G (VW & Vt & Vq & Vo & Va & Vb & Vu) Wx P. cbv zeta.
  unfold process_frame in P. rewrite Sl in P. cbn [F.step]. rewrite Wx. cbn [fst F.wsr].
  destruct (disallow_read_view f oid s G) as (s' & B1 & B2 & B3 & (C1 & C2 & C3 & C4 & C5) & B6 & B7 & (D1 & D2 & D3 & D4)).
  inversion P; subst. split; [reflexivity|]. split; [reflexivity|]. exists s'. split; [exact B1|].
  split; [unfold R_view; cbn; repeat split; congruence|]. auto.
Qed.

(* a Reset from the peer: the incoming direction ends, the outgoing direction is killed, nothing is sent *)
Theorem reset_projects f id wd oid s x y r f' rr :
  slot_get (e_slots (f_ep f)) id = Some (SEstablished oid) -> get_stream (f_ep f) oid = Some s ->
  e_tx_closed (f_ep f) = false ->
  R_view x (e_rwnd (f_ep f)) s -> S_view y s -> F.wsr x = F.FRst :: r ->
  process_frame f (Reset id) wd = (f', rr) ->
  let x' := fst (F.step x F.DelSR) in
  let y' := fst (F.step y F.KillS) in
  rr = RxContinue /\ F.wsr x' = r /\ F.wsr y' = F.wsr y /\
  exists s', get_stream (f_ep f') oid = Some s' /\ R_view x' (e_rwnd (f_ep f)) s' /\ S_view y' s' /\
    st_id s' = st_id s /\ slot_get (e_slots (f_ep f')) id = None /\ f_out f' = f_out f.
Proof.
  intros Sl G T (VW & Vt & Vq & Vo & Va & Vb & Vu) (Yc & Yf) Wx P. cbv zeta.
  unfold process_frame in P. cbn [F.step]. rewrite Wx. cbn [fst F.wsr].
  destruct (close_flow_view f id true oid s Sl G T) as (s' & A1 & A2 & A3 & A4 & (C1 & C2 & C3 & C4 & C5) & A6 & A7 & A8 & A9 & A10).
  inversion P; subst. split; [reflexivity|]. split; [reflexivity|]. split; [reflexivity|].
  exists s'. split; [exact A1|]. split; [unfold R_view; cbn; repeat split; congruence|].
  split; [unfold S_view; cbn; split; congruence|]. split; [exact A6|]. split; [exact A7|].
  rewrite A8. cbn [negb andb]. rewrite andb_false_r. now rewrite app_nil_r.
Qed.

Theorem acknowledge_projects f id n wd oid s y r f' rr :
  slot_get (e_slots (f_ep f)) id = Some (SEstablished oid) -> get_stream (f_ep f) oid = Some s ->
  S_view y s -> F.sgone y = false -> F.wrs y = n :: r ->
  process_frame f (Acknowledge id n) wd = (f', rr) ->
  let y' := fst (F.step y F.DelRS) in
  rr = RxContinue /\ F.wrs y' = r /\
  exists s', get_stream (f_ep f') oid = Some s' /\ S_view y' s' /\ same_R s s' /\ st_id s' = st_id s /\
    e_slots (f_ep f') = e_slots (f_ep f) /\ f_out f' = f_out f.
Proof.
  intros Sl G (Yc & Yf) Sg Wy P. cbv zeta. unfold process_frame in P. rewrite Sl, G in P.
  cbn [F.step]. rewrite Wy, Sg. cbn [fst F.wrs].
  set (f1 := with_ep f (put_stream (f_ep f) oid (st_set_credit s ((st_credit s + n) mod 4294967296)))) in *.
  assert (G1 : get_stream (f_ep f1) oid = Some (st_set_credit s ((st_credit s + n) mod 4294967296))) by (eapply get_put_same; eauto).
  destruct (wake_writer_view f1 oid _ G1) as (s' & A1 & (A2 & A3) & A4 & A5 & A6 & A7 & A8 & A9).
  inversion P; subst. split; [reflexivity|]. split; [reflexivity|]. exists s'. split; [exact A1|].
  cbn in A2, A3, A5. split; [unfold S_view; cbn; split; congruence|]. split; [exact A4|]. split; [exact A5|].
  split; [rewrite A7; reflexivity|]. rewrite A6. reflexivity.
Qed.

(* ---------------------------------------------------------------- dropping the handle *)
Theorem drop_projects f sid oid s x y f' res :
  live_stream (f_ep f) sid = Some (oid, s) -> e_tx_closed (f_ep f) = false ->
  running (e_phase (f_ep f)) = true ->
  slot_get (e_slots (f_ep f)) (st_id s) = Some (SEstablished oid) ->
  R_view x (e_rwnd (f_ep f)) s -> S_view y s ->
  do_drop_stream f sid = (f', res) ->
  let x' := fst (F.step x F.AbortR) in
  let y' := fst (F.step y F.AbortS) in
  res = [0] /\
  exists s', get_stream (f_ep f') oid = Some s' /\ R_view x' (e_rwnd (f_ep f)) s' /\ S_view y' s' /\
    st_id s' = st_id s /\ slot_get (e_slots (f_ep f')) (st_id s) = None /\
    exists added, F.wsr y' = F.wsr y ++ added /\ f_out f' = f_out f ++ map (wire (st_id s)) added.
Proof.
  intros L T Ph Sl (VW & Vt & Vq & Vo & Va & Vb & Vu) (Yc & Yf) D. cbv zeta.
  destruct (live_get _ _ _ _ L) as (G & A). unfold do_drop_stream in D. rewrite L in D.
  set (s0 := st_set_rpark (st_set_alive s false) false) in *.
  set (f1 := with_ep f (put_stream (f_ep f) oid s0)) in *.
  assert (G1 : get_stream (f_ep f1) oid = Some s0) by (eapply get_put_same; eauto).
  assert (E : task_dropped f1 (st_id s) = close_flow f1 (st_id s) false).
  { unfold task_dropped. unfold f1. cbn [f_ep with_ep]. change (e_phase (put_stream (f_ep f) oid s0)) with (e_phase (f_ep f)).
    destruct (e_phase (f_ep f)); try discriminate; reflexivity. }
  rewrite E in D.
  destruct (close_flow_view f1 (st_id s) false oid s0 Sl G1 T) as (s' & A1 & A2 & A3 & A4 & (C1 & C2 & C3 & C4 & C5) & A6 & A7 & A8 & A9 & A10).
  inversion D; subst. split; [reflexivity|]. cbn [F.step fst F.wsr]. cbn in C1, C2, C3, C4, C5, A3, A6, A8.
  exists s'. split; [exact A1|]. split; [unfold R_view; cbn; repeat split; congruence|].
  rewrite Yf. split; [unfold S_view; destruct (st_fin s); cbn; split; congruence|].
  split; [exact A6|]. split; [exact A7|]. rewrite A8. rewrite andb_true_r.
  destruct (st_fin s); cbn [negb].
  - exists []. rewrite !app_nil_r. auto.
  - exists [F.FRst]. auto.
Qed.
