(* The one place where the endpoint model (and the code it follows) does NOT satisfy the last clause of C08, "if the
   local multiplexor is dropped while the transport is healthy, every frame queued before the drop is still
   transmitted": when the connection task is, at that moment, handing an incoming stream (or datagram) over to the
   application (accept queue full: the hand-over is suspended), the drop makes the hand-over fail, the task ends with
   that error and takes the error path of the wind-down, which does not flush.  The witness is evaluated on the model;
   the same script runs against the real endpoints on every check (corpus/C08/drop_while_suspended_on_accept.cases)
   and is the open known finding `drop-during-handover-loses-queued-frames`. *)
From PV Require Import Common.Bytes Frame.Model Mux.Sys Mux.BridgeSys Mux.Dispatch.

(* A: window 4, ids 5 6 7.  B: accept queue of 1.  A opens three streams; B accepts the first; the third Connect finds the
   accept queue full: B's task is suspended on the hand-over.  B's sink refuses messages (Permits 0); B's application
   writes one byte on its stream: accepted, queued.  B's application drops the Multiplexor.  The sink is ready again. *)
Definition df_cfg : list N := [1; 4; 1; 4; 1; 0; 3; 3; 5; 6; 7; 4; 1; 1; 1; 0; 3; 0].
Definition df_labels : list (list N) :=
  [[10; 0; 80; 1; 104]; [10; 0; 80; 1; 104]; [10; 0; 80; 1; 104]; [18; 0]; [12; 1]; [18; 0]; [18; 0];
   [29; 1; 0]; [13; 1; 0; 1; 65]; [26; 1]; [29; 1; 999999]].

Definition df_outs : option (list lout) :=
  match parse_cfg 0 (tl df_cfg) with
  | Some (a, r1) =>
      match parse_cfg 1 r1 with
      | Some (b, _) =>
          match parse_labels 1000 (flat_map (fun l => len l :: l) df_labels) with
          | Some ls => Some (snd (brun (mkBsys (mkSys a b [] []) []) ls))
          | None => None
          end
      | None => None
      end
  | None => None
  end.

(* the write is accepted ([0; 1]), the task ends with the hand-over error (code 101) at the drop, and all that B ever puts
   on the wire are its three acknowledgements of the Connects: the Push is never transmitted *)
Theorem C08_drop_flush_refuted :
  exists os, df_outs = Some os /\
    nth_error (map o_res os) 8 = Some [0; 1] /\
    nth_error (map o_done os) 9 = Some [1; 101] /\
    flat_map o_b os = [MBin (encode (Acknowledge 5 4)); MBin (encode (Acknowledge 6 4)); MBin (encode (Acknowledge 7 4))].
Proof. eexists. split; [vm_compute; reflexivity|]. vm_compute. repeat split; reflexivity. Qed.
