(* The one place where the endpoint model (and the code it follows) does NOT satisfy C07's
   "each successful stream request yields exactly one stream on each endpoint": a requester
   whose random generator redraws the id of a flow it has just closed, while the peer's Resets
   for frames of the earlier incarnation are still in flight, takes such a Reset for the answer
   to its new Connect, retries under a fresh id, and the acceptor hands BOTH streams to its
   application.  The witness is evaluated on the model; the same script runs against the real
   endpoints on every check (corpus/C07/id_reuse_stale_reset.cases) and is the open known finding
   `id-reuse-stale-answer`. *)
From PV Require Import Common.Bytes Mux.Sys Mux.BridgeSys Mux.Dispatch.

Definition reuse_cfg : list N := [1; 4; 1; 4; 1; 0; 3; 3; 7; 7; 9; 4; 1; 4; 1; 0; 3; 0].
Definition reuse_labels : list (list N) := [[10; 0; 80; 1; 104]; [18; 0]; [12; 1]; [18; 1]; [11; 0; 0]; [13; 1; 0; 1; 65]; [16; 1; 0]; [17; 1; 0]; [18; 1]; [18; 1]; [15; 0; 0; 8]; [16; 0; 0]; [17; 0; 0]; [18; 0]; [18; 0]; [10; 0; 80; 1; 104]; [18; 0]; [18; 1]; [18; 1]; [18; 0]; [18; 1]; [18; 1]; [11; 0; 1]; [12; 1]; [12; 1]; [18; 0]; [18; 0]; [18; 1]; [18; 1]; [12; 1]].

Definition is_open_at (e : N) (l : list N) : bool := match l with 10 :: e' :: _ => e' =? e | _ => false end.
Definition is_accept_at (e : N) (l : list N) : bool := match l with [12; e'] => e' =? e | _ => false end.

(* results of the labels, per label, on the pair model *)
Definition reuse_outs : option (list lout) :=
  match parse_cfg 0 (tl reuse_cfg) with
  | Some (a, r1) =>
      match parse_cfg 1 r1 with
      | Some (b, _) =>
          match parse_labels 1000 (flat_map (fun l => len l :: l) reuse_labels) with
          | Some ls => Some (snd (brun (mkBsys (mkSys a b [] []) []) ls))
          | None => None
          end
      | None => None
      end
  | None => None
  end.

Definition count_accepts (e : N) (ls : list (list N)) (os : list lout) : N :=
  fold_right N.add 0
    (map (fun p => if is_accept_at e (fst p) && match o_res (snd p) with 0 :: _ => true | _ => false end then 1 else 0)
         (combine ls os)).

Definition count_opens (e : N) (ls : list (list N)) : N :=
  fold_right N.add 0 (map (fun l => if is_open_at e l then 1 else 0) ls).

(* endpoint A makes two requests; endpoint B's application is handed three streams *)
Example one_stream_per_request_refuted :
  exists os, reuse_outs = Some os /\ count_opens 0 reuse_labels = 2 /\ count_accepts 1 reuse_labels os = 3.
Proof. vm_compute. eexists. repeat split. Qed.

(* Second witness (C06): a Push of the earlier incarnation, still in flight when the requester
   redraws the id, is answered by the requester with Reset and tears down the freshly opened
   stream: the acceptor's read on the NEW stream (label 16) returns end-of-stream although the
   requester neither shut it down nor dropped it, and the byte the requester then writes is lost. *)
Definition leak_cfg : list N := [1; 4; 1; 4; 1; 0; 3; 2; 7; 7; 4; 1; 4; 1; 0; 3; 0].
Definition leak_labels : list (list N) := [[10; 0; 80; 1; 104]; [18; 0]; [12; 1]; [18; 1]; [11; 0; 0]; [13; 1; 0; 1; 88]; [17; 0; 0]; [18; 0]; [17; 1; 0]; [10; 0; 80; 1; 104]; [18; 0]; [18; 1]; [18; 1]; [11; 0; 1]; [12; 1]; [18; 0]; [15; 1; 1; 4]; [13; 0; 1; 1; 89]; [18; 0]; [18; 1]; [15; 0; 1; 4]].
Definition leak_outs : option (list lout) :=
  match parse_cfg 0 (tl leak_cfg) with
  | Some (a, r1) =>
      match parse_cfg 1 r1 with
      | Some (b, _) =>
          match parse_labels 1000 (flat_map (fun l => len l :: l) leak_labels) with
          | Some ls => Some (snd (brun (mkBsys (mkSys a b [] []) []) ls))
          | None => None
          end
      | None => None
      end
  | None => None
  end.

Example stale_push_kills_new_stream :
  exists os, leak_outs = Some os /\
    nth_error leak_labels 16 = Some [15; 1; 1; 4] /\ option_map o_res (nth_error os 16) = Some [0; 0] /\   (* B reads EOF on the new stream *)
    option_map o_res (nth_error os 17) = Some [0; 1] /\                                                      (* A's write is accepted ... *)
    option_map o_res (nth_error os 20) = Some [0; 0].                                                          (* ... and A reads EOF: torn down *)
Proof. vm_compute. eexists. repeat split. Qed.
