(* A burst of messages reaching the connection task in one poll is processed exactly as the same
   messages arriving one per poll, as long as none of them makes the receive loop fail; when one
   does, the only difference is that the error-caused wind-down still dispatches what is already
   in the source (Sys.deliver_all). *)
From PV Require Import Mux.Sys.

Fixpoint seq_deliver (f : eff) (ms : list msg) : eff * N :=
  match ms with
  | [] => (f, 0)
  | m :: r =>
      let '(f1, c) := deliver f m in
      if c then let '(f2, n) := seq_deliver f1 r in (f2, n + 1) else (f, 0)
  end.

(* no message of the burst makes the receive loop end with an error *)
Fixpoint no_rx_error (f : eff) (ms : list msg) : Prop :=
  match ms with
  | [] => True
  | m :: r =>
      match e_phase (f_ep f), e_blocked (f_ep f) with
      | Running, BlNone =>
          match process_message f m false with
          | (_, RxError _) => False
          | (f1, RxContinue) => no_rx_error f1 r
          | (f1, RxClosed) => no_rx_error (wind_down f1 0 true false false) r
          end
      | WindDown6 _, _ => no_rx_error (fst (process_message f m true)) r
      | _, _ => True
      end
  end.

Theorem burst_is_sequential : forall ms f, no_rx_error f ms -> deliver_all f ms = seq_deliver f ms.
Proof.
  induction ms as [|m r IH]; intros f H; cbn [deliver_all seq_deliver]; [reflexivity|].
  cbn [no_rx_error] in H. unfold deliver.
  destruct (e_phase (f_ep f)) as [| c | code ended | code |] eqn:Ep; try reflexivity.
  - destruct (e_blocked (f_ep f)) eqn:Eb; try reflexivity.
    destruct (process_message f m false) as [f1 res] eqn:Em. destruct res as [| |c]; try contradiction.
    + rewrite (IH f1 H). reflexivity.
    + rewrite (IH _ H). reflexivity.
  - destruct (process_message f m true) as [f1 res] eqn:Em. cbn [fst] in H. rewrite (IH f1 H).
    destruct (e_blocked (f_ep f)); reflexivity.
Qed.
