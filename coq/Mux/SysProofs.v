(* Single-step theorems about the endpoint model (reaction table, frame rule, opening
   discipline, datagrams, binds, teardown). *)
From PV Require Import Mux.Sys Frame.Proofs.
From Coq Require Import ZifyBool ZifyN ZifyNat.

(* ---------------------------------------------------------------- bookkeeping lemmas *)

Definition same_ctl (f g : eff) : Prop :=
  f_out g = f_out f /\ e_slots (f_ep g) = e_slots (f_ep f) /\ f_closed g = f_closed f /\ f_done g = f_done f.

Lemma same_ctl_refl f : same_ctl f f.
Proof. repeat split. Qed.
Lemma same_ctl_trans f g h : same_ctl f g -> same_ctl g h -> same_ctl f h.
Proof. intros (A & B & C & D) (A' & B' & C' & D'). repeat split; congruence. Qed.

Lemma wake_writer_ctl f oid : same_ctl f (wake_writer f oid).
Proof.
  unfold wake_writer. destruct (get_stream (f_ep f) oid) as [s|]; [|apply same_ctl_refl].
  destruct (st_wpark s); [|apply same_ctl_refl].
  cbn [f_ep with_ep]. destruct (sid_of _ oid); repeat split.
Qed.
Lemma wake_reader_ctl f oid : same_ctl f (wake_reader f oid).
Proof.
  unfold wake_reader. destruct (get_stream (f_ep f) oid) as [s|]; [|apply same_ctl_refl].
  destruct (st_rpark s); [|apply same_ctl_refl].
  cbn [f_ep with_ep]. destruct (sid_of _ oid); repeat split.
Qed.
Lemma disallow_write_ctl f oid : same_ctl f (fst (disallow_write f oid)).
Proof.
  unfold disallow_write. destruct (get_stream (f_ep f) oid) as [s|]; [|apply same_ctl_refl].
  cbn [fst]. eapply same_ctl_trans; [|apply wake_writer_ctl]. repeat split.
Qed.
Lemma disallow_read_ctl f oid : same_ctl f (disallow_read f oid).
Proof.
  unfold disallow_read. destruct (get_stream (f_ep f) oid) as [s|]; [|apply same_ctl_refl].
  destruct (st_txopen s); [|apply same_ctl_refl].
  eapply same_ctl_trans; [|apply wake_reader_ctl]. repeat split.
Qed.
Lemma resolve_open_ctl f k v : same_ctl f (resolve_open f k v).
Proof.
  unfold resolve_open. destruct (nth_opt _ k) as [o|]; [|apply same_ctl_refl].
  destruct (op_rx_dropped o); [apply same_ctl_refl|]. destruct (op_park o); repeat split.
Qed.
Lemma resolve_bind_ctl f k v : same_ctl f (resolve_bind f k v).
Proof.
  unfold resolve_bind. destruct (nth_opt _ k) as [o|]; [|apply same_ctl_refl].
  destruct (bp_rx_dropped o); [apply same_ctl_refl|]. destruct (bp_park o); repeat split.
Qed.

(* closing a flow locally without a Reset puts nothing on the wire *)
Lemma close_flow_local_inhibit_ctl f sl id : same_ctl f (close_flow_local f sl id true).
Proof.
  destruct sl as [k|oid|k]; cbn [close_flow_local].
  - apply resolve_open_ctl.
  - destruct (disallow_write f oid) as [g old] eqn:E.
    assert (H : same_ctl f g) by (replace g with (fst (disallow_write f oid)) by (now rewrite E); apply disallow_write_ctl).
    rewrite andb_false_r. eapply same_ctl_trans; [exact H|apply disallow_read_ctl].
  - apply resolve_bind_ctl.
Qed.

Lemma slot_get_del_same m id : slot_get (slot_del m id) id = None.
Proof.
  induction m as [|[k v] r IH]; cbn [slot_del slot_get]; auto.
  destruct (N.eqb_spec k id); auto. cbn [slot_get]. destruct (N.eqb_spec k id); [contradiction|auto].
Qed.
Lemma slot_get_del_other m id id' : id' <> id -> slot_get (slot_del m id) id' = slot_get m id'.
Proof.
  intros H. induction m as [|[k v] r IH]; cbn [slot_del slot_get]; auto.
  destruct (N.eqb_spec k id) as [->|Hk].
  - destruct (N.eqb_spec id id'); [congruence|auto].
  - cbn [slot_get]. destruct (N.eqb_spec k id'); auto.
Qed.
Lemma slot_get_set_same m id s : slot_get (slot_set m id s) id = Some s.
Proof. unfold slot_set. cbn [slot_get]. now rewrite N.eqb_refl. Qed.
Lemma slot_get_set_other m id s id' : id' <> id -> slot_get (slot_set m id s) id' = slot_get m id'.
Proof.
  intros H. unfold slot_set. cbn [slot_get]. destruct (N.eqb_spec id id'); [congruence|].
  now apply slot_get_del_other.
Qed.

Lemma emit_out f fr : e_tx_closed (f_ep f) = false ->
  f_ep (emit f fr) = f_ep f /\ f_out (emit f fr) = f_out f ++ [MBin (encode fr)].
Proof. intros H. unfold emit. rewrite H. auto. Qed.
Lemma emit_slots f fr : e_slots (f_ep (emit f fr)) = e_slots (f_ep f).
Proof. unfold emit. destruct (e_tx_closed (f_ep f)); reflexivity. Qed.
Lemma emit_ep f fr : f_ep (emit f fr) = f_ep f.
Proof. unfold emit. destruct (e_tx_closed (f_ep f)); reflexivity. Qed.

(* ---------------------------------------------------------------- C10: reaction table *)

(* a Reset is never answered, in any state *)
Theorem reset_never_answered f id wd :
  f_out (fst (process_frame f (Reset id) wd)) = f_out f /\
  snd (process_frame f (Reset id) wd) = RxContinue.
Proof.
  cbn [process_frame fst snd]. split; [|reflexivity].
  unfold close_flow. destruct (slot_get _ id) as [sl|]; [|reflexivity].
  destruct (close_flow_local_inhibit_ctl
              (with_ep f (set_slots (f_ep f) (slot_del (e_slots (f_ep f)) id))) sl id) as (A & _).
  exact A.
Qed.

(* frames for a flow the endpoint does not know are answered by exactly one Reset and change nothing *)
Theorem unknown_flow_reset f fr wd :
  slot_get (e_slots (f_ep f)) (frame_id fr) = None ->
  match fr with Acknowledge _ _ | Finish _ | Push _ _ => True | _ => False end ->
  process_frame f fr wd = (emit f (Reset (frame_id fr)), RxContinue).
Proof.
  intros H K. destruct fr; try contradiction; cbn [frame_id] in H; cbn [process_frame]; now rewrite H.
Qed.

(* Connect with id 0 or an id in use: exactly one Reset, nothing else changes *)
Theorem connect_rejected f id w p h wd :
  id = 0 \/ slot_get (e_slots (f_ep f)) id <> None ->
  process_frame f (Connect id w p h) wd = (emit f (Reset id), RxContinue).
Proof.
  intros H. cbn [process_frame]. destruct H as [->|H]; [reflexivity|].
  destruct (slot_get _ id); [|congruence]. now rewrite orb_true_r.
Qed.

Theorem bind_disabled_reset f id bt p h wd :
  e_bind_cap (f_ep f) = 0 ->
  process_frame f (Bind id bt p h) wd = (emit f (Reset id), RxContinue).
Proof. intros H. cbn [process_frame]. rewrite H. reflexivity. Qed.

(* window overrun: only the offending flow is closed *)
Theorem overrun_closes_offender f id data oid s wd :
  slot_get (e_slots (f_ep f)) id = Some (SEstablished oid) ->
  get_stream (f_ep f) oid = Some s -> st_txopen s = true -> st_alive s = true ->
  e_rwnd (f_ep f) <= len (st_rxq s) ->
  process_frame f (Push id data) wd = (close_flow f id false, RxContinue).
Proof.
  intros H G T A L. cbn [process_frame]. rewrite H, G, T, A. cbn [negb].
  destruct (N.ltb_spec (len (st_rxq s)) (e_rwnd (f_ep f))); [lia|reflexivity].
Qed.

(* the frame rule for the flow table: a frame addressed to flow [i] leaves every other
   flow's slot as it was *)
Lemma close_flow_other f id inh id' : id' <> id ->
  slot_get (e_slots (f_ep (close_flow f id inh))) id' = slot_get (e_slots (f_ep f)) id'.
Proof.
  intros H. unfold close_flow. destruct (slot_get (e_slots (f_ep f)) id) as [sl|] eqn:E; [|reflexivity].
  set (g := with_ep f (set_slots (f_ep f) (slot_del (e_slots (f_ep f)) id))).
  assert (S : e_slots (f_ep (close_flow_local g sl id inh)) = e_slots (f_ep g)).
  { destruct sl as [k|o|k]; cbn [close_flow_local].
    - apply (resolve_open_ctl g k ORejected).
    - destruct (disallow_write g o) as [g1 old] eqn:E1.
      assert (H1 : same_ctl g g1) by (replace g1 with (fst (disallow_write g o)) by (now rewrite E1); apply disallow_write_ctl).
      destruct H1 as (_ & B & _).
      set (g2 := if negb old && negb inh then emit g1 (Reset id) else g1).
      assert (B2 : e_slots (f_ep g2) = e_slots (f_ep g1)) by (unfold g2; destruct (negb old && negb inh); [apply emit_slots|reflexivity]).
      destruct (disallow_read_ctl g2 o) as (_ & B3 & _). congruence.
    - apply (resolve_bind_ctl g k (BGot false)). }
  rewrite S. unfold g. cbn [f_ep with_ep e_slots set_slots]. now apply slot_get_del_other.
Qed.

Lemma to_accept_q_slots f oid : e_slots (f_ep (to_accept_q f oid)) = e_slots (f_ep f).
Proof.
  unfold to_accept_q. destruct (len _ <? _); [|reflexivity].
  destruct (e_accept_park _); reflexivity.
Qed.
Lemma to_bind_q_slots f r : e_slots (f_ep (to_bind_q f r)) = e_slots (f_ep f).
Proof.
  unfold to_bind_q. destruct (len _ <? _); [|reflexivity].
  destruct (e_nextbind_park _); reflexivity.
Qed.

Theorem frame_rule_slots f fr wd id' : id' <> frame_id fr ->
  slot_get (e_slots (f_ep (fst (process_frame f fr wd)))) id' = slot_get (e_slots (f_ep f)) id'.
Proof.
  intros H. destruct fr; cbn [frame_id] in H; cbn [process_frame].
  - (* connect *)
    destruct ((id =? 0) || _); cbn [fst]; [now rewrite emit_slots|].
    unfold add_stream. cbn [fst snd].
    match goal with |- context [emit_ok ?g] => destruct (emit_ok g) eqn:Eo end.
    + match goal with |- context [e_mux_alive ?x] => destruct (e_mux_alive x) end; cbn [fst].
      * rewrite to_accept_q_slots, emit_slots. cbn [f_ep with_ep e_slots set_slots set_streams].
        now apply slot_get_set_other.
      * cbn [f_ep with_ep put_stream e_slots set_streams]. rewrite emit_slots.
        cbn [f_ep with_ep e_slots set_slots set_streams]. now apply slot_get_set_other.
    + cbn [fst f_ep with_ep put_stream e_slots set_streams set_slots]. now apply slot_get_set_other.
  - (* acknowledge *)
    destruct (slot_get (e_slots (f_ep f)) id) as [[k|oid|k]|] eqn:E; cbn [fst].
    + unfold add_stream. cbn [fst snd].
      match goal with |- context [nth_opt ?l k] => destruct (nth_opt l k) as [o|] end; cbn [fst].
      * destruct (op_rx_dropped o); cbn [fst].
        -- cbn [f_ep with_ep put_stream e_slots set_streams set_slots]. now apply slot_get_set_other.
        -- match goal with |- context [resolve_open ?g k ?v] => destruct (resolve_open_ctl g k v) as (_ & B & _) end.
           rewrite B. cbn [f_ep with_ep e_slots set_slots set_streams]. now apply slot_get_set_other.
      * cbn [f_ep with_ep e_slots set_slots set_streams]. now apply slot_get_set_other.
    + destruct (get_stream (f_ep f) oid) as [s|]; cbn [fst]; [|reflexivity].
      match goal with |- context [wake_writer ?g oid] => destruct (wake_writer_ctl g oid) as (_ & B & _) end.
      rewrite B. reflexivity.
    + now rewrite emit_slots.
    + now rewrite emit_slots.
  - (* reset *) now apply close_flow_other.
  - (* finish *)
    destruct (slot_get (e_slots (f_ep f)) id) as [[k|oid|k]|] eqn:E; cbn [fst].
    + rewrite emit_slots.
      match goal with |- context [resolve_open ?g k ?v] => destruct (resolve_open_ctl g k v) as (_ & B & _) end.
      rewrite B. cbn [f_ep with_ep e_slots set_slots]. now apply slot_get_del_other.
    + destruct (disallow_read_ctl f oid) as (_ & B & _). now rewrite B.
    + match goal with |- context [resolve_bind ?g k ?v] => destruct (resolve_bind_ctl g k v) as (_ & B & _) end.
      rewrite B. cbn [f_ep with_ep e_slots set_slots]. now apply slot_get_del_other.
    + now rewrite emit_slots.
  - (* push *)
    destruct (slot_get (e_slots (f_ep f)) id) as [[k|oid|k]|] eqn:E; cbn [fst]; try now rewrite emit_slots.
    destruct (get_stream (f_ep f) oid) as [s|]; cbn [fst]; [|reflexivity].
    destruct (negb (st_txopen s)); cbn [fst]; [now rewrite emit_slots|].
    destruct (negb (st_alive s)); cbn [fst]; [reflexivity|].
    destruct (len (st_rxq s) <? e_rwnd (f_ep f)); cbn [fst].
    + match goal with |- context [wake_reader ?g oid] => destruct (wake_reader_ctl g oid) as (_ & B & _) end.
      rewrite B. reflexivity.
    + now apply close_flow_other.
  - (* bind *)
    destruct (0 <? e_bind_cap (f_ep f)); cbn [fst]; [|now rewrite emit_slots].
    destruct wd; cbn [fst]; [reflexivity|].
    destruct (e_mux_alive (f_ep f)); cbn [fst]; [now rewrite to_bind_q_slots|now rewrite emit_slots].
  - (* datagram *)
    destruct (negb (e_mux_alive (f_ep f))); cbn [fst]; [reflexivity|].
    destruct (len (e_dgram_q (f_ep f)) <? e_dgram_cap (f_ep f)); cbn [fst]; [|reflexivity].
    match goal with |- context [e_dgram_park ?x] => destruct (e_dgram_park x) end; reflexivity.
Qed.
