(* Single-step theorems about the endpoint model (reaction table, frame rule, opening
   discipline, datagrams, binds, teardown). *)
From PV Require Import Mux.Sys Frame.Proofs.
From Coq Require Import ZifyBool ZifyN ZifyNat.

(* ---------------------------------------------------------------- bookkeeping lemmas *)

Definition same_ctl (f g : eff) : Prop :=
  f_out g = f_out f /\ e_slots (f_ep g) = e_slots (f_ep f) /\ f_closed g = f_closed f /\ f_done g = f_done f /\
  e_txq (f_ep g) = e_txq (f_ep f).

Lemma same_ctl_refl f : same_ctl f f.
Proof. repeat split. Qed.
Lemma same_ctl_trans f g h : same_ctl f g -> same_ctl g h -> same_ctl f h.
Proof. intros (A & B & C & D & T) (A' & B' & C' & D' & T'). repeat split; congruence. Qed.

Lemma wake_writer_ctl f oid : same_ctl f (wake_writer f oid).
Proof.
  unfold wake_writer. destruct (get_stream (f_ep f) oid) as [s|]; [|apply same_ctl_refl].
  destruct (st_wpark s); [|apply same_ctl_refl].
  cbn [f_ep with_ep]. destruct (sid_of _ oid); repeat split.
Qed.
Lemma wake_reader_ctl f oid : same_ctl f (wake_reader f oid).
Proof.
  unfold wake_reader. destruct (get_stream (f_ep f) oid) as [s|]; [|apply same_ctl_refl].
  destruct (st_rpark s); [|apply same_ctl_refl].
  cbn [f_ep with_ep]. destruct (sid_of _ oid); repeat split.
Qed.
Lemma disallow_write_ctl f oid : same_ctl f (fst (disallow_write f oid)).
Proof.
  unfold disallow_write. destruct (get_stream (f_ep f) oid) as [s|]; [|apply same_ctl_refl].
  cbn [fst]. eapply same_ctl_trans; [|apply wake_writer_ctl]. repeat split.
Qed.
Lemma disallow_read_ctl f oid : same_ctl f (disallow_read f oid).
Proof.
  unfold disallow_read. destruct (get_stream (f_ep f) oid) as [s|]; [|apply same_ctl_refl].
  destruct (st_txopen s); [|apply same_ctl_refl].
  eapply same_ctl_trans; [|apply wake_reader_ctl]. repeat split.
Qed.
Lemma resolve_open_ctl f k v : same_ctl f (resolve_open f k v).
Proof.
  unfold resolve_open. destruct (nth_opt _ k) as [o|]; [|apply same_ctl_refl].
  destruct (op_rx_dropped o); [apply same_ctl_refl|]. destruct (op_park o); repeat split.
Qed.
Lemma resolve_bind_ctl f k v : same_ctl f (resolve_bind f k v).
Proof.
  unfold resolve_bind. destruct (nth_opt _ k) as [o|]; [|apply same_ctl_refl].
  destruct (bp_rx_dropped o); [apply same_ctl_refl|]. destruct (bp_park o); repeat split.
Qed.

(* closing a flow locally without a Reset puts nothing on the wire *)
Lemma close_flow_local_inhibit_ctl f sl id : same_ctl f (close_flow_local f sl id true).
Proof.
  destruct sl as [k|oid|k]; cbn [close_flow_local].
  - apply resolve_open_ctl.
  - destruct (disallow_write f oid) as [g old] eqn:E.
    assert (H : same_ctl f g) by (replace g with (fst (disallow_write f oid)) by (now rewrite E); apply disallow_write_ctl).
    rewrite andb_false_r. eapply same_ctl_trans; [exact H|apply disallow_read_ctl].
  - apply resolve_bind_ctl.
Qed.

Lemma slot_get_del_same m id : slot_get (slot_del m id) id = None.
Proof.
  induction m as [|[k v] r IH]; cbn [slot_del slot_get]; auto.
  destruct (N.eqb_spec k id); auto. cbn [slot_get]. destruct (N.eqb_spec k id); [contradiction|auto].
Qed.
Lemma slot_get_del_other m id id' : id' <> id -> slot_get (slot_del m id) id' = slot_get m id'.
Proof.
  intros H. induction m as [|[k v] r IH]; cbn [slot_del slot_get]; auto.
  destruct (N.eqb_spec k id) as [->|Hk].
  - destruct (N.eqb_spec id id'); [congruence|auto].
  - cbn [slot_get]. destruct (N.eqb_spec k id'); auto.
Qed.
Lemma slot_get_set_same m id s : slot_get (slot_set m id s) id = Some s.
Proof. unfold slot_set. cbn [slot_get]. now rewrite N.eqb_refl. Qed.
Lemma slot_get_set_other m id s id' : id' <> id -> slot_get (slot_set m id s) id' = slot_get m id'.
Proof.
  intros H. unfold slot_set. cbn [slot_get]. destruct (N.eqb_spec id id'); [congruence|].
  now apply slot_get_del_other.
Qed.

Lemma emit_out f fr : e_tx_closed (f_ep f) = false ->
  f_ep (emit f fr) = f_ep f /\ f_out (emit f fr) = f_out f ++ [MBin (encode fr)].
Proof. intros H. unfold emit. rewrite H. auto. Qed.
Lemma emit_slots f fr : e_slots (f_ep (emit f fr)) = e_slots (f_ep f).
Proof. unfold emit. destruct (e_tx_closed (f_ep f)); reflexivity. Qed.
Lemma emit_ep f fr : f_ep (emit f fr) = f_ep f.
Proof. unfold emit. destruct (e_tx_closed (f_ep f)); reflexivity. Qed.

(* ---------------------------------------------------------------- C10: reaction table *)

(* a Reset is never answered, in any state *)
Theorem reset_never_answered f id wd :
  f_out (fst (process_frame f (Reset id) wd)) = f_out f /\
  snd (process_frame f (Reset id) wd) = RxContinue.
Proof.
  cbn [process_frame fst snd]. split; [|reflexivity].
  unfold close_flow. destruct (slot_get _ id) as [sl|]; [|reflexivity].
  destruct (close_flow_local_inhibit_ctl
              (with_ep f (set_slots (f_ep f) (slot_del (e_slots (f_ep f)) id))) sl id) as (A & _).
  exact A.
Qed.

(* frames for a flow the endpoint does not know are answered by exactly one Reset and change nothing *)
Theorem unknown_flow_reset f fr wd :
  slot_get (e_slots (f_ep f)) (frame_id fr) = None ->
  match fr with Acknowledge _ _ | Finish _ | Push _ _ => True | _ => False end ->
  process_frame f fr wd = (emit f (Reset (frame_id fr)), RxContinue).
Proof.
  intros H K. destruct fr; try contradiction; cbn [frame_id] in H; cbn [process_frame]; now rewrite H.
Qed.

(* Connect with id 0 or an id in use: exactly one Reset, nothing else changes *)
Theorem connect_rejected f id w p h wd :
  id = 0 \/ slot_get (e_slots (f_ep f)) id <> None ->
  process_frame f (Connect id w p h) wd = (emit f (Reset id), RxContinue).
Proof.
  intros H. cbn [process_frame]. destruct H as [->|H]; [reflexivity|].
  destruct (slot_get _ id); [|congruence]. now rewrite orb_true_r.
Qed.

Theorem bind_disabled_reset f id bt p h wd :
  e_bind_cap (f_ep f) = 0 ->
  process_frame f (Bind id bt p h) wd = (emit f (Reset id), RxContinue).
Proof. intros H. cbn [process_frame]. rewrite H. reflexivity. Qed.

(* window overrun: only the offending flow is closed *)
Theorem overrun_closes_offender f id data oid s wd :
  slot_get (e_slots (f_ep f)) id = Some (SEstablished oid) ->
  get_stream (f_ep f) oid = Some s -> st_txopen s = true -> st_alive s = true ->
  e_rwnd (f_ep f) <= len (st_rxq s) ->
  process_frame f (Push id data) wd = (close_flow f id false, RxContinue).
Proof.
  intros H G T A L. cbn [process_frame]. rewrite H, G, T, A. cbn [negb].
  destruct (N.ltb_spec (len (st_rxq s)) (e_rwnd (f_ep f))); [lia|reflexivity].
Qed.

(* the frame rule for the flow table: a frame addressed to flow [i] leaves every other
   flow's slot as it was *)
Lemma close_flow_other f id inh id' : id' <> id ->
  slot_get (e_slots (f_ep (close_flow f id inh))) id' = slot_get (e_slots (f_ep f)) id'.
Proof.
  intros H. unfold close_flow. destruct (slot_get (e_slots (f_ep f)) id) as [sl|] eqn:E; [|reflexivity].
  set (g := with_ep f (set_slots (f_ep f) (slot_del (e_slots (f_ep f)) id))).
  assert (S : e_slots (f_ep (close_flow_local g sl id inh)) = e_slots (f_ep g)).
  { destruct sl as [k|o|k]; cbn [close_flow_local].
    - apply (resolve_open_ctl g k ORejected).
    - destruct (disallow_write g o) as [g1 old] eqn:E1.
      assert (H1 : same_ctl g g1) by (replace g1 with (fst (disallow_write g o)) by (now rewrite E1); apply disallow_write_ctl).
      destruct H1 as (_ & B & _).
      set (g2 := if negb old && negb inh then emit g1 (Reset id) else g1).
      assert (B2 : e_slots (f_ep g2) = e_slots (f_ep g1)) by (unfold g2; destruct (negb old && negb inh); [apply emit_slots|reflexivity]).
      destruct (disallow_read_ctl g2 o) as (_ & B3 & _). congruence.
    - apply (resolve_bind_ctl g k (BGot false)). }
  rewrite S. unfold g. cbn [f_ep with_ep e_slots set_slots]. now apply slot_get_del_other.
Qed.

Lemma to_accept_q_slots f oid : e_slots (f_ep (to_accept_q f oid)) = e_slots (f_ep f).
Proof.
  unfold to_accept_q. destruct (len _ <? _); [|reflexivity].
  destruct (e_accept_park _); reflexivity.
Qed.
Lemma to_bind_q_slots f r : e_slots (f_ep (to_bind_q f r)) = e_slots (f_ep f).
Proof.
  unfold to_bind_q. destruct (len _ <? _); [|reflexivity].
  destruct (e_nextbind_park _); reflexivity.
Qed.

Theorem frame_rule_slots f fr wd id' : id' <> frame_id fr ->
  slot_get (e_slots (f_ep (fst (process_frame f fr wd)))) id' = slot_get (e_slots (f_ep f)) id'.
Proof.
  intros H. destruct fr; cbn [frame_id] in H; cbn [process_frame].
  - (* connect *)
    destruct ((id =? 0) || _); cbn [fst]; [now rewrite emit_slots|].
    unfold add_stream. cbn [fst snd].
    match goal with |- context [emit_ok ?g] => destruct (emit_ok g) eqn:Eo end.
    + match goal with |- context [e_mux_alive ?x] => destruct (e_mux_alive x) end; cbn [fst].
      * rewrite to_accept_q_slots, emit_slots. cbn [f_ep with_ep e_slots set_slots set_streams].
        now apply slot_get_set_other.
      * cbn [f_ep with_ep put_stream e_slots set_streams]. rewrite emit_slots.
        cbn [f_ep with_ep e_slots set_slots set_streams]. now apply slot_get_set_other.
    + cbn [fst f_ep with_ep put_stream e_slots set_streams set_slots]. now apply slot_get_set_other.
  - (* acknowledge *)
    destruct (slot_get (e_slots (f_ep f)) id) as [[k|oid|k]|] eqn:E; cbn [fst].
    + unfold add_stream. cbn [fst snd].
      match goal with |- context [nth_opt ?l k] => destruct (nth_opt l k) as [o|] end; cbn [fst].
      * destruct (op_rx_dropped o); cbn [fst].
        -- cbn [f_ep with_ep put_stream e_slots set_streams set_slots]. now apply slot_get_set_other.
        -- match goal with |- context [resolve_open ?g k ?v] => destruct (resolve_open_ctl g k v) as (_ & B & _) end.
           rewrite B. cbn [f_ep with_ep e_slots set_slots set_streams]. now apply slot_get_set_other.
      * cbn [f_ep with_ep e_slots set_slots set_streams]. now apply slot_get_set_other.
    + destruct (get_stream (f_ep f) oid) as [s|]; cbn [fst]; [|reflexivity].
      match goal with |- context [wake_writer ?g oid] => destruct (wake_writer_ctl g oid) as (_ & B & _) end.
      rewrite B. reflexivity.
    + now rewrite emit_slots.
    + now rewrite emit_slots.
  - (* reset *) now apply close_flow_other.
  - (* finish *)
    destruct (slot_get (e_slots (f_ep f)) id) as [[k|oid|k]|] eqn:E; cbn [fst].
    + rewrite emit_slots.
      match goal with |- context [resolve_open ?g k ?v] => destruct (resolve_open_ctl g k v) as (_ & B & _) end.
      rewrite B. cbn [f_ep with_ep e_slots set_slots]. now apply slot_get_del_other.
    + destruct (disallow_read_ctl f oid) as (_ & B & _). now rewrite B.
    + match goal with |- context [resolve_bind ?g k ?v] => destruct (resolve_bind_ctl g k v) as (_ & B & _) end.
      rewrite B. cbn [f_ep with_ep e_slots set_slots]. now apply slot_get_del_other.
    + now rewrite emit_slots.
  - (* push *)
    destruct (slot_get (e_slots (f_ep f)) id) as [[k|oid|k]|] eqn:E; cbn [fst]; try now rewrite emit_slots.
    destruct (get_stream (f_ep f) oid) as [s|]; cbn [fst]; [|reflexivity].
    destruct (negb (st_txopen s)); cbn [fst]; [now rewrite emit_slots|].
    destruct (negb (st_alive s)); cbn [fst]; [reflexivity|].
    destruct (len (st_rxq s) <? e_rwnd (f_ep f)); cbn [fst].
    + match goal with |- context [wake_reader ?g oid] => destruct (wake_reader_ctl g oid) as (_ & B & _) end.
      rewrite B. reflexivity.
    + now apply close_flow_other.
  - (* bind *)
    destruct (0 <? e_bind_cap (f_ep f)); cbn [fst]; [|now rewrite emit_slots].
    destruct wd; cbn [fst]; [reflexivity|].
    destruct (e_mux_alive (f_ep f)); cbn [fst]; [now rewrite to_bind_q_slots|now rewrite emit_slots].
  - (* datagram *)
    destruct (negb (e_mux_alive (f_ep f))); cbn [fst]; [reflexivity|].
    destruct (len (e_dgram_q (f_ep f)) <? e_dgram_cap (f_ep f)); cbn [fst]; [|reflexivity].
    match goal with |- context [e_dgram_park ?x] => destruct (e_dgram_park x) end; reflexivity.
Qed.

(* ---------------------------------------------------------------- C07: opening discipline *)

Definition taken (e : ep) (v : N) : bool :=
  (v =? 0) || match slot_get (e_slots e) v with Some _ => true | None => false end.

(* the value drawn next and the state after the draw *)
Definition draw (e : ep) : N * ep :=
  match e_rng e with
  | v :: r => (v, set_rng e r (e_fallback e))
  | [] => let v := (e_fallback e + 1) mod 4294967296 in (v, set_rng e [] v)
  end.

Lemma alloc_id_unfold fuel e :
  alloc_id fuel e =
  let '(v, e') := draw e in
  match fuel with
  | O => (v, e')
  | S n => if taken e' v then alloc_id n e' else (v, e')
  end.
Proof. destruct fuel; unfold draw, taken; cbn [alloc_id]; destruct (e_rng e); reflexivity. Qed.

Lemma draw_slots e : e_slots (snd (draw e)) = e_slots e.
Proof. unfold draw. destruct (e_rng e); reflexivity. Qed.

(* An endpoint never proposes flow id 0 or an id it already uses: the id chosen is the first
   drawn value that is neither.  [all_taken] = every one of the first fuel+1 draws is taken
   (excluded for finite scripts by the non-repeating fallback sequence). *)
Fixpoint all_taken (fuel : nat) (e : ep) : bool :=
  let '(v, e') := draw e in
  match fuel with
  | O => true
  | S n => taken e' v && all_taken n e'
  end.

Theorem alloc_id_nonzero_unused fuel : forall e id e',
  alloc_id fuel e = (id, e') -> all_taken fuel e = false ->
  id <> 0 /\ slot_get (e_slots e) id = None /\ e_slots e' = e_slots e.
Proof.
  induction fuel as [|n IH]; intros e id e' H A; rewrite alloc_id_unfold in H; cbn [all_taken] in A;
    destruct (draw e) as [v e1] eqn:D; pose proof (draw_slots e) as S; rewrite D in S; cbn [snd] in S.
  - discriminate.
  - destruct (taken e1 v) eqn:T; cbn [andb] in A.
    + destruct (IH _ _ _ H A) as (Z & G & S'). rewrite S in G. repeat split; auto. congruence.
    + inversion H; subst. unfold taken in T. apply orb_false_iff in T as [Z G].
      rewrite S in G. repeat split; auto.
      * intros ->. discriminate.
      * destruct (slot_get (e_slots e) id); [discriminate|reflexivity].
Qed.

(* one attempt of a stream request: either the attempts are used up (FlowIdRejected, nothing
   sent) or exactly one Connect carrying our own window and the requested target is sent
   and the remaining attempts decrease *)
Theorem open_attempt_spec f k o f' r :
  open_attempt f k o = (f', r) ->
  (op_retries o = 0 /\ r = [2; 5] /\ f_out f' = f_out f /\ e_slots (f_ep f') = e_slots (f_ep f)) \/
  (0 < op_retries o /\
   exists id e1, alloc_id 64 (f_ep f) = (id, e1) /\
     slot_get (e_slots (f_ep f')) id = Some (SRequested k) /\
     ((e_tx_closed e1 = true /\ r = [2; 2] /\ f_out f' = f_out f) \/
      (e_tx_closed e1 = false /\ r = R_PENDING /\
       f_out f' = f_out f ++ [MBin (encode (Connect id (e_rwnd e1) (op_port o) (op_host o)))] /\
       exists o', nth_opt (e_opens (f_ep f')) k = nth_opt (upd (e_opens e1) k o') k /\
                  op_retries o' = op_retries o - 1))).
Proof.
  unfold open_attempt. destruct (N.eqb_spec (op_retries o) 0) as [Z|Z].
  - intros E; inversion E; subst. left. repeat split; auto.
  - destruct (alloc_id 64 (f_ep f)) as [id e1] eqn:A. intros E. right. split; [lia|].
    exists id, e1. split; [reflexivity|].
    destruct (e_tx_closed (set_slots e1 (slot_set (e_slots e1) id (SRequested k)))) eqn:T;
      cbn [e_tx_closed set_slots] in T.
    + inversion E; subst. cbn [f_ep with_ep e_slots set_opens set_slots f_out].
      split; [apply slot_get_set_same|]. left. auto.
    + inversion E; subst. unfold emit. cbn [f_ep with_ep e_tx_closed set_slots]. rewrite T.
      cbn [f_ep with_ep e_slots set_opens set_slots f_out e_rwnd e_opens].
      split; [apply slot_get_set_same|]. right. repeat split; auto.
      eexists. split; [reflexivity|]. reflexivity.
Qed.

(* an accepted Connect: exactly one stream object, with the requested host and port, our
   send credit = the window the peer advertised, and the window we advertise = ours *)
Lemma to_accept_q_out f oid : f_out (to_accept_q f oid) = f_out f.
Proof.
  unfold to_accept_q. destruct (len _ <? _); [|reflexivity].
  destruct (e_accept_park _); reflexivity.
Qed.

Theorem connect_accepted f id w p h :
  id <> 0 -> slot_get (e_slots (f_ep f)) id = None ->
  e_tx_closed (f_ep f) = false -> e_mux_alive (f_ep f) = true ->
  let '(f', r) := process_frame f (Connect id w p h) false in
  let oid := len (e_streams (f_ep f)) in
  r = RxContinue /\
  slot_get (e_slots (f_ep f')) id = Some (SEstablished oid) /\
  f_out f' = f_out f ++ [MBin (encode (Acknowledge id (e_rwnd (f_ep f))))] /\
  (forall s, nth_error (e_streams (f_ep f) ++ [s]) (N.to_nat oid) = Some s) /\
  st_credit (new_stream (f_ep f) id w h p) = w /\ st_host (new_stream (f_ep f) id w h p) = h /\
  st_port (new_stream (f_ep f) id w h p) = p.
Proof.
  intros Z G T M. cbn [process_frame].
  destruct (N.eqb_spec id 0); [contradiction|]. rewrite G. cbn [orb].
  unfold add_stream.
  set (g := with_ep f (set_slots (set_streams (f_ep f) (e_streams (f_ep f) ++ [new_stream (f_ep f) id w h p]))
                        (slot_set (e_slots (set_streams (f_ep f) (e_streams (f_ep f) ++ [new_stream (f_ep f) id w h p]))) id
                                  (SEstablished (len (e_streams (f_ep f))))))).
  assert (Tg : e_tx_closed (f_ep g) = false) by exact T.
  unfold emit_ok. rewrite Tg. cbn [negb].
  destruct (emit_out g (Acknowledge id (e_rwnd (f_ep f))) Tg) as [Eep Eout].
  rewrite Eep. assert (Mg : e_mux_alive (f_ep g) = true) by exact M. rewrite Mg.
  split; [reflexivity|]. split.
  - rewrite to_accept_q_slots, Eep. unfold g. cbn [f_ep with_ep e_slots set_slots set_streams].
    apply slot_get_set_same.
  - split; [rewrite to_accept_q_out, Eout; reflexivity|].
    split; [|repeat split].
    intros s. unfold len. rewrite Nat2N.id, nth_error_app2, Nat.sub_diag by lia. reflexivity.
Qed.

(* the Acknowledge of our Connect: our credit is the window the peer advertised *)
Theorem connect_acknowledged f id n k o :
  slot_get (e_slots (f_ep f)) id = Some (SRequested k) ->
  nth_opt (e_opens (f_ep f)) k = Some o -> op_rx_dropped o = false ->
  let '(f', r) := process_frame f (Acknowledge id n) false in
  let oid := len (e_streams (f_ep f)) in
  r = RxContinue /\ slot_get (e_slots (f_ep f')) id = Some (SEstablished oid) /\
  f_out f' = f_out f /\ st_credit (new_stream (f_ep f) id n [] 0) = n.
Proof.
  intros G O D. cbn [process_frame]. rewrite G. unfold add_stream.
  cbn [f_ep with_ep e_opens set_slots set_streams]. rewrite O, D.
  split; [reflexivity|].
  match goal with |- context [resolve_open ?g k ?v] => destruct (resolve_open_ctl g k v) as (A & B & _) end.
  rewrite A, B. cbn [f_ep with_ep e_slots set_slots set_streams f_out].
  split; [apply slot_get_set_same|auto].
Qed.

(* ---------------------------------------------------------------- C11: datagrams *)

Theorem send_dgram_spec f fid port host data :
  e_mux_alive (f_ep f) = true ->
  (255 < len host -> do_send_dgram f fid port host data = (f, [2; 8])) /\
  (len host <= 255 -> e_tx_closed (f_ep f) = false ->
     do_send_dgram f fid port host data =
       (mkEff (f_ep f) (f_out f ++ [MBin (encode (Datagram fid port host data))]) (f_wakes f) (f_closed f) (f_done f), [0])).
Proof.
  intros M. unfold do_send_dgram. rewrite M. cbn [negb]. split.
  - intros H. destruct (N.ltb_spec 255 (len host)); [reflexivity|lia].
  - intros H T. destruct (N.ltb_spec 255 (len host)); [lia|]. rewrite T. unfold emit. rewrite T. reflexivity.
Qed.

(* what was sent arrives with all four fields unchanged (C09's round trip), is appended at the
   tail of the datagram queue or dropped when it is full, never touches a flow, never
   suspends the receive side and never ends the connection *)
Theorem recv_dgram_spec f fid port host data wd :
  wf (Datagram fid port host data) -> e_mux_alive (f_ep f) = true ->
  let '(f', r) := process_message f (MBin (encode (Datagram fid port host data))) wd in
  r = RxContinue /\ f_out f' = f_out f /\
  e_slots (f_ep f') = e_slots (f_ep f) /\ e_streams (f_ep f') = e_streams (f_ep f) /\
  e_blocked (f_ep f') = e_blocked (f_ep f) /\
  e_dgram_q (f_ep f') =
    (if len (e_dgram_q (f_ep f)) <? e_dgram_cap (f_ep f)
     then e_dgram_q (f_ep f) ++ [mkDgram fid port host data] else e_dgram_q (f_ep f)).
Proof.
  intros W M. cbn [process_message]. rewrite (decode_encode _ W). cbn [process_frame]. rewrite M. cbn [negb].
  destruct (len (e_dgram_q (f_ep f)) <? e_dgram_cap (f_ep f)); [|repeat split].
  match goal with |- context [e_dgram_park ?x] => destruct (e_dgram_park x) end; repeat split.
Qed.

Theorem get_dgram_fifo f d q :
  e_mux_alive (f_ep f) = true -> e_dgram_q (f_ep f) = d :: q ->
  let '(f', r) := do_get_dgram f in
  e_dgram_q (f_ep f') = q /\
  r = [0; dg_id d; dg_port d] ++ put_lp (dg_host d) ++ put_lp (dg_data d).
Proof. intros M Q. unfold do_get_dgram. rewrite M, Q. cbn [negb]. split; reflexivity. Qed.

(* ---------------------------------------------------------------- C15: binds *)

Theorem bind_request_sent f bt port host :
  e_mux_alive (f_ep f) = true ->
  let '(id, e1) := alloc_id 64 (f_ep f) in
  e_tx_closed e1 = false ->
  let '(f', r) := do_bind_req f bt port host in
  r = R_PENDING /\ f_out f' = f_out f ++ [MBin (encode (Bind id bt port host))] /\
  slot_get (e_slots (f_ep f')) id = Some (SBind (len (e_binds (f_ep f)))).
Proof.
  intros M. destruct (alloc_id 64 (f_ep f)) as [id e1] eqn:A. intros T.
  unfold do_bind_req. rewrite M, A. cbn [negb e_tx_closed set_slots]. rewrite T.
  unfold emit. cbn [f_ep with_ep e_tx_closed set_slots]. rewrite T.
  cbn [f_ep with_ep f_out e_slots set_binds set_slots]. repeat split. apply slot_get_set_same.
Qed.

(* the responder is shown exactly the request *)
Theorem bind_request_shown f id bt port host :
  0 < e_bind_cap (f_ep f) -> e_mux_alive (f_ep f) = true ->
  len (e_bind_q (f_ep f)) < e_bind_cap (f_ep f) ->
  let '(f', r) := process_frame f (Bind id bt port host) false in
  r = RxContinue /\ f_out f' = f_out f /\
  e_bind_q (f_ep f') = e_bind_q (f_ep f) ++ [mkBindreq id bt port host true].
Proof.
  intros C M L. cbn [process_frame].
  destruct (N.ltb_spec 0 (e_bind_cap (f_ep f))); [|lia]. rewrite M. unfold to_bind_q.
  destruct (N.ltb_spec (len (e_bind_q (f_ep f))) (e_bind_cap (f_ep f))); [|lia].
  match goal with |- context [e_nextbind_park ?x] => destruct (e_nextbind_park x) end; repeat split.
Qed.

(* the answer: Finish resolves that very request with true, Reset with false; the slot is freed *)
Theorem bind_answer f id k b wd :
  slot_get (e_slots (f_ep f)) id = Some (SBind k) ->
  nth_opt (e_binds (f_ep f)) k = Some b -> bp_rx_dropped b = false ->
  (let '(f', r) := process_frame f (Finish id) wd in
   r = RxContinue /\ f_out f' = f_out f /\ slot_get (e_slots (f_ep f')) id = None /\
   exists b', nth_opt (e_binds (f_ep f')) k = Some b' /\ bp_state b' = BGot true) /\
  (let '(f', r) := process_frame f (Reset id) wd in
   r = RxContinue /\ f_out f' = f_out f /\ slot_get (e_slots (f_ep f')) id = None /\
   exists b', nth_opt (e_binds (f_ep f')) k = Some b' /\ bp_state b' = BGot false).
Proof.
  intros G B D.
  assert (U : forall (l : list bindp) x, nth_opt l k = Some b -> nth_opt (upd l k x) k = Some x).
  { intros l x. unfold nth_opt, upd. generalize (N.to_nat k). intros n. revert l.
    induction n; intros [|y l] E; cbn in *; try discriminate; auto. }
  split; cbn [process_frame]; [|unfold close_flow]; rewrite G; unfold close_flow_local;
    unfold resolve_bind; cbn [f_ep with_ep e_binds set_slots]; rewrite B, D;
    (destruct (bp_park b); cbn [f_ep with_ep wake f_out e_slots e_binds set_binds set_slots];
     (split; [reflexivity|]); (split; [reflexivity|]); (split; [apply slot_get_del_same|]);
     eexists; (split; [apply U; exact B|reflexivity])).
Qed.

Theorem bind_poll_once f k b v :
  nth_opt (e_binds (f_ep f)) k = Some b -> bp_rx_dropped b = false -> bp_state b = BGot v ->
  let '(f', r) := poll_bind f k in
  r = [0; if v then 1 else 0] /\
  exists b', nth_opt (e_binds (f_ep f')) k = Some b' /\ bp_state b' = BDone.
Proof.
  intros B D S. unfold poll_bind. rewrite B, D, S. split; [reflexivity|].
  cbn [f_ep with_ep e_binds set_binds]. exists (mkBindp BDone false false). split; [|reflexivity].
  revert B. unfold nth_opt, upd. generalize (N.to_nat k) (e_binds (f_ep f)). intros n.
  induction n; intros [|y l] E; cbn in *; try discriminate; auto.
Qed.

(* ---------------------------------------------------------------- C08: teardown *)

(* after the task has ended every flow is gone and the endpoint is in its final phase *)
Lemma drain_slots_slots sl : forall f, e_slots (f_ep (drain_slots f sl)) = e_slots (f_ep f).
Proof.
  induction sl as [|[id s] r IH]; intros f; cbn [drain_slots]; auto.
  rewrite IH. destruct (close_flow_local_inhibit_ctl f s id) as (_ & B & _). exact B.
Qed.
Lemma drain_slots_out sl : forall f, f_out (drain_slots f sl) = f_out f.
Proof.
  induction sl as [|[id s] r IH]; intros f; cbn [drain_slots]; auto.
  rewrite IH. destruct (close_flow_local_inhibit_ctl f s id) as (A & _). exact A.
Qed.
Lemma drain_slots_done sl : forall f, f_done (drain_slots f sl) = f_done f.
Proof.
  induction sl as [|[id s] r IH]; intros f; cbn [drain_slots]; auto.
  rewrite IH. destruct (close_flow_local_inhibit_ctl f s id) as (_ & _ & _ & D & _). exact D.
Qed.

Theorem finish_task_spec f code :
  let f' := finish_task f code in
  e_slots (f_ep f') = [] /\ e_phase (f_ep f') = Ended /\ f_out f' = f_out f /\
  f_done f' = f_done f ++ [e_idx (f_ep f'); code] /\
  e_accept_park (f_ep f') = false /\ e_dgram_park (f_ep f') = false /\ e_nextbind_park (f_ep f') = false.
Proof.
  unfold finish_task. cbn zeta.
  set (g := drain_slots (with_ep f (set_slots (f_ep f) [])) (e_slots (f_ep f))).
  assert (S : e_slots (f_ep g) = []) by (unfold g; rewrite drain_slots_slots; reflexivity).
  assert (O : f_out g = f_out f) by (unfold g; rewrite drain_slots_out; reflexivity).
  assert (Dn : f_done g = f_done f) by (unfold g; rewrite drain_slots_done; reflexivity).
  destruct (e_accept_park (f_ep g)), (e_dgram_park (f_ep g)), (e_nextbind_park (f_ep g));
    cbn [f_ep wake f_out f_done e_slots e_phase set_phase set_parks e_accept_park e_dgram_park e_nextbind_park e_idx];
    repeat split; auto; now rewrite Dn.
Qed.

(* closing a flow locally makes its writer fail and its reader reach end-of-stream *)
Theorem close_local_stream f oid id inh s :
  get_stream (f_ep f) oid = Some s ->
  exists s', get_stream (f_ep (close_flow_local f (SEstablished oid) id inh)) oid = Some s' /\
             st_fin s' = true /\ st_txopen s' = false /\ st_rxq s' = st_rxq s /\ st_buf s' = st_buf s.
Proof.
  intros G.
  assert (U : forall (l : list stream) n x y, nth_error l n = Some y -> nth_error (upd_nth l n x) n = Some x).
  { intros l n. revert l. induction n; intros [|z l] x y E; cbn in *; try discriminate; auto. eauto. }
  assert (P : forall e o x y, get_stream e o = Some y -> get_stream (put_stream e o x) o = Some x).
  { intros e o x y E. unfold get_stream, put_stream, nth_opt, upd in *. cbn [e_streams set_streams]. eauto. }
  (* step 1: disallow_write *)
  cbn [close_flow_local]. unfold disallow_write. rewrite G.
  set (s1 := st_set_fin s true).
  set (g0 := with_ep f (put_stream (f_ep f) oid s1)).
  assert (G0 : get_stream (f_ep g0) oid = Some s1) by (unfold g0; cbn [f_ep with_ep]; eapply P; eauto).
  assert (W : exists s2, get_stream (f_ep (wake_writer g0 oid)) oid = Some s2 /\ st_fin s2 = true /\
                         st_txopen s2 = st_txopen s /\ st_rxq s2 = st_rxq s /\ st_buf s2 = st_buf s).
  { unfold wake_writer. rewrite G0. destruct (st_wpark s1) eqn:Wp.
    - exists (st_set_wpark s1 false). split.
      + destruct (sid_of _ oid); cbn [f_ep with_ep wake]; eapply P; eauto.
      + repeat split.
    - exists s1. split; [exact G0|repeat split]. }
  destruct W as (s2 & G2 & F2 & T2 & R2 & B2).
  set (g1 := wake_writer g0 oid) in *.
  set (g2 := if negb (st_fin s) && negb inh then emit g1 (Reset id) else g1).
  assert (G2' : get_stream (f_ep g2) oid = Some s2).
  { unfold g2. destruct (negb (st_fin s) && negb inh); [rewrite emit_ep|]; exact G2. }
  unfold disallow_read. fold g0 g1 g2. rewrite G2'.
  destruct (st_txopen s2) eqn:Tx.
  - set (s3 := st_set_txopen s2 false).
    set (g3 := with_ep g2 (put_stream (f_ep g2) oid s3)).
    assert (G3 : get_stream (f_ep g3) oid = Some s3) by (unfold g3; cbn [f_ep with_ep]; eapply P; eauto).
    unfold wake_reader. rewrite G3. destruct (st_rpark s3) eqn:Rp.
    + exists (st_set_rpark s3 false). split.
      * destruct (sid_of _ oid); cbn [f_ep with_ep wake]; eapply P; eauto.
      * repeat split; auto.
    + exists s3. split; [exact G3|repeat split; auto].
  - exists s2. repeat split; auto.
Qed.

Lemma disallow_all_ctl sl : forall f, same_ctl f (disallow_all f sl).
Proof.
  induction sl as [|[id [k|oid|k]] r IH]; intros f; cbn [disallow_all]; try apply same_ctl_refl; auto.
  eapply same_ctl_trans; [apply disallow_write_ctl|apply IH].
Qed.

Lemma finish_task_closed f code : f_closed (finish_task f code) = f_closed f.
Proof.
  unfold finish_task. cbn zeta.
  set (g := drain_slots (with_ep f (set_slots (f_ep f) [])) (e_slots (f_ep f))).
  assert (C : f_closed g = f_closed f).
  { assert (K : forall sl h, f_closed (drain_slots h sl) = f_closed h).
    { induction sl as [|[id s] r IH]; intros h; cbn [drain_slots]; auto.
      rewrite IH. destruct (close_flow_local_inhibit_ctl h s id) as (_ & _ & Cc & _). exact Cc. }
    unfold g. rewrite K. reflexivity. }
  destruct (e_accept_park (f_ep g)), (e_dgram_park (f_ep g)), (e_nextbind_park (f_ep g)); cbn [f_closed wake]; exact C.
Qed.

(* an error-caused wind-down does not wait for the peer and flushes nothing: it is the end
   of the task *)
Lemma wind_down_nowait f code se :
  exists g, wind_down f code false se false = finish_task g code /\
            f_out g = [] /\ f_done g = f_done f /\ f_closed g = true.
Proof.
  unfold wind_down, wind_down2. cbn [andb]. eexists. split; [reflexivity|]. cbn [f_out f_done f_closed with_ep].
  match goal with |- context [disallow_all ?h ?sl] => destruct (disallow_all_ctl sl h) as (A & _ & _ & D & _) end.
  rewrite D. repeat split.
Qed.

(* a message that is not a valid frame ends the connection with InvalidFrame at once (no
   waiting for the peer): every flow is closed, the task future resolves *)
Theorem invalid_message_ends e b :
  e_phase e = Running -> e_blocked e = BlNone -> (forall fr, decode b <> Ok fr) ->
  let '(f', consumed) := deliver (start e) (MBin b) in
  consumed = true /\ e_phase (f_ep f') = Ended /\ e_slots (f_ep f') = [] /\
  f_done f' = [e_idx (f_ep f'); 109] /\ f_out f' = [] /\ f_closed f' = true.
Proof.
  intros P B D. unfold deliver. cbn [f_ep start]. rewrite P, B. cbn [process_message].
  assert (K : forall g0, f_out g0 = [] -> f_done g0 = [] ->
     let f' := wind_down g0 (100 + 9) false false false in
     e_phase (f_ep f') = Ended /\ e_slots (f_ep f') = [] /\
     f_done f' = [e_idx (f_ep f'); 109] /\ f_out f' = [] /\ f_closed f' = true).
  { intros g0 O0 D0. cbn zeta. destruct (wind_down_nowait g0 (100 + 9) false) as (g & -> & O & Dn & C).
    pose proof (finish_task_spec g (100 + 9)) as H. cbn zeta in H.
    destruct H as (S & Ph & O' & Dn' & _).
    rewrite finish_task_closed. repeat split; auto; try congruence.
    rewrite Dn', Dn, D0. reflexivity. }
  destruct (decode b) as [fr| |] eqn:E; [exfalso; eapply D; eauto| |];
    (split; [reflexivity|]; apply K; reflexivity).
Qed.

(* ---------------------------------------------------------------- C06: abort, bystanders *)

Lemma upd_nth_other {A} (l : list A) i j x : i <> j -> nth_error (upd_nth l i x) j = nth_error l j.
Proof.
  revert i j. induction l as [|y l IH]; intros [|i] [|j] H; cbn; auto; try congruence.
Qed.
Lemma get_put_other e oid x oid' : oid' <> oid -> get_stream (put_stream e oid x) oid' = get_stream e oid'.
Proof.
  intros H. unfold get_stream, put_stream, nth_opt, upd. cbn [e_streams set_streams].
  apply upd_nth_other. intros E. apply H. apply N2Nat.inj. congruence.
Qed.

(* "only the stream object [o] may differ" *)
Definition same_streams_but (o : N) (e e' : ep) : Prop :=
  forall oid', oid' <> o -> get_stream e' oid' = get_stream e oid'.

Lemma ssb_refl o e : same_streams_but o e e.
Proof. intros x _. reflexivity. Qed.
Lemma ssb_trans o e1 e2 e3 : same_streams_but o e1 e2 -> same_streams_but o e2 e3 -> same_streams_but o e1 e3.
Proof. intros A B x H. rewrite (B x H). apply A, H. Qed.

Lemma wake_writer_ssb f oid : same_streams_but oid (f_ep f) (f_ep (wake_writer f oid)).
Proof.
  unfold wake_writer. destruct (get_stream (f_ep f) oid) as [s|]; [|apply ssb_refl].
  destruct (st_wpark s); [|apply ssb_refl].
  intros x H. destruct (sid_of _ oid); cbn [f_ep with_ep wake]; now apply get_put_other.
Qed.
Lemma wake_reader_ssb f oid : same_streams_but oid (f_ep f) (f_ep (wake_reader f oid)).
Proof.
  unfold wake_reader. destruct (get_stream (f_ep f) oid) as [s|]; [|apply ssb_refl].
  destruct (st_rpark s); [|apply ssb_refl].
  intros x H. destruct (sid_of _ oid); cbn [f_ep with_ep wake]; now apply get_put_other.
Qed.
Lemma disallow_write_ssb f oid : same_streams_but oid (f_ep f) (f_ep (fst (disallow_write f oid))).
Proof.
  unfold disallow_write. destruct (get_stream (f_ep f) oid) as [s|]; [|apply ssb_refl]. cbn [fst].
  eapply ssb_trans; [|apply wake_writer_ssb]. intros x H. cbn [f_ep with_ep]. now apply get_put_other.
Qed.
Lemma disallow_read_ssb f oid : same_streams_but oid (f_ep f) (f_ep (disallow_read f oid)).
Proof.
  unfold disallow_read. destruct (get_stream (f_ep f) oid) as [s|]; [|apply ssb_refl].
  destruct (st_txopen s); [|apply ssb_refl].
  eapply ssb_trans; [|apply wake_reader_ssb]. intros x H. cbn [f_ep with_ep]. now apply get_put_other.
Qed.
Lemma resolve_open_streams f k v : e_streams (f_ep (resolve_open f k v)) = e_streams (f_ep f).
Proof.
  unfold resolve_open. destruct (nth_opt _ k) as [o|]; [|reflexivity].
  destruct (op_rx_dropped o); [reflexivity|]. destruct (op_park o); reflexivity.
Qed.
Lemma resolve_bind_streams f k v : e_streams (f_ep (resolve_bind f k v)) = e_streams (f_ep f).
Proof.
  unfold resolve_bind. destruct (nth_opt _ k) as [o|]; [|reflexivity].
  destruct (bp_rx_dropped o); [reflexivity|]. destruct (bp_park o); reflexivity.
Qed.
Lemma ssb_of_eq o e e' : e_streams e' = e_streams e -> same_streams_but o e e'.
Proof. intros E x _. unfold get_stream. now rewrite E. Qed.

Lemma close_flow_local_ssb f oid id inh :
  same_streams_but oid (f_ep f) (f_ep (close_flow_local f (SEstablished oid) id inh)).
Proof.
  cbn [close_flow_local]. destruct (disallow_write f oid) as [g old] eqn:E.
  assert (A : same_streams_but oid (f_ep f) (f_ep g)).
  { replace g with (fst (disallow_write f oid)) by (now rewrite E). apply disallow_write_ssb. }
  eapply ssb_trans; [exact A|].
  set (g2 := if negb old && negb inh then emit g (Reset id) else g).
  assert (B : f_ep g2 = f_ep g) by (unfold g2; destruct (negb old && negb inh); [apply emit_ep|reflexivity]).
  rewrite <- B. apply disallow_read_ssb.
Qed.

(* closing flow i (by a Reset from the peer, a local drop, an overrun) touches at most the
   stream object of flow i *)
Theorem close_flow_bystanders f id inh oid' :
  slot_get (e_slots (f_ep f)) id <> Some (SEstablished oid') ->
  get_stream (f_ep (close_flow f id inh)) oid' = get_stream (f_ep f) oid'.
Proof.
  intros H. unfold close_flow. destruct (slot_get (e_slots (f_ep f)) id) as [[k|oid|k]|] eqn:E; [| | |reflexivity].
  - cbn [close_flow_local]. unfold get_stream. now rewrite resolve_open_streams.
  - assert (N : oid' <> oid) by congruence.
    rewrite (close_flow_local_ssb _ oid id inh oid' N). reflexivity.
  - cbn [close_flow_local]. unfold get_stream. now rewrite resolve_bind_streams.
Qed.

(* a peer's Reset (or a local drop): the id is released, the stream's writer fails from now
   on, its reader gets what was delivered and then end-of-stream *)
Theorem reset_releases f id oid s wd :
  slot_get (e_slots (f_ep f)) id = Some (SEstablished oid) -> get_stream (f_ep f) oid = Some s ->
  let f' := fst (process_frame f (Reset id) wd) in
  slot_get (e_slots (f_ep f')) id = None /\ f_out f' = f_out f /\
  exists s', get_stream (f_ep f') oid = Some s' /\ st_fin s' = true /\ st_txopen s' = false /\
             st_rxq s' = st_rxq s /\ st_buf s' = st_buf s.
Proof.
  intros G S. cbn [process_frame fst]. unfold close_flow. rewrite G.
  set (g := with_ep f (set_slots (f_ep f) (slot_del (e_slots (f_ep f)) id))).
  destruct (close_flow_local_inhibit_ctl g (SEstablished oid) id) as (A & B & _).
  split; [rewrite B; unfold g; cbn [f_ep with_ep e_slots set_slots]; apply slot_get_del_same|].
  split; [rewrite A; reflexivity|].
  apply close_local_stream. exact S.
Qed.

Theorem drop_releases f sid oid s :
  nth_opt (e_handles (f_ep f)) sid = Some oid -> get_stream (f_ep f) oid = Some s -> st_alive s = true ->
  e_phase (f_ep f) = Running -> e_tx_closed (f_ep f) = false ->
  slot_get (e_slots (f_ep f)) (st_id s) = Some (SEstablished oid) ->
  let '(f', r) := do_drop_stream f sid in
  r = [0] /\ slot_get (e_slots (f_ep f')) (st_id s) = None /\
  f_out f' = f_out f ++ (if st_fin s then [] else [MBin (encode (Reset (st_id s)))]).
Proof.
  intros H G A P T SL. unfold do_drop_stream, live_stream. rewrite H, G, A.
  set (s1 := st_set_rpark (st_set_alive s false) false).
  set (g := with_ep f (put_stream (f_ep f) oid s1)).
  unfold task_dropped. assert (Pg : e_phase (f_ep g) = Running) by exact P. rewrite Pg.
  split; [reflexivity|]. split.
  - assert (K : forall id', slot_get (e_slots (f_ep (close_flow g (st_id s) false))) id' =
                        if id' =? st_id s then None else slot_get (e_slots (f_ep g)) id').
    { intros id'. destruct (N.eqb_spec id' (st_id s)) as [->|Hn]; [|now apply close_flow_other].
      unfold close_flow. assert (SLg : slot_get (e_slots (f_ep g)) (st_id s) = Some (SEstablished oid)) by exact SL.
      rewrite SLg.
      set (g1 := with_ep g (set_slots (f_ep g) (slot_del (e_slots (f_ep g)) (st_id s)))).
      assert (S1 : e_slots (f_ep (close_flow_local g1 (SEstablished oid) (st_id s) false)) = e_slots (f_ep g1)).
      { cbn [close_flow_local]. destruct (disallow_write g1 oid) as [h old] eqn:E1.
        assert (H1 : same_ctl g1 h) by (replace h with (fst (disallow_write g1 oid)) by (now rewrite E1); apply disallow_write_ctl).
        destruct H1 as (_ & B1 & _).
        set (h2 := if negb old && negb false then emit h (Reset (st_id s)) else h).
        assert (B2 : e_slots (f_ep h2) = e_slots (f_ep h)) by (unfold h2; destruct (negb old && negb false); [apply emit_slots|reflexivity]).
        destruct (disallow_read_ctl h2 oid) as (_ & B3 & _). congruence. }
      rewrite S1. unfold g1. cbn [f_ep with_ep e_slots set_slots]. apply slot_get_del_same. }
    rewrite K, N.eqb_refl. reflexivity.
  - unfold close_flow. assert (SLg : slot_get (e_slots (f_ep g)) (st_id s) = Some (SEstablished oid)) by exact SL.
    rewrite SLg. cbn [close_flow_local].
    set (g1 := with_ep g (set_slots (f_ep g) (slot_del (e_slots (f_ep g)) (st_id s)))).
    assert (Gg : get_stream (f_ep g1) oid = Some s1).
    { unfold g1, g. cbn [f_ep with_ep]. unfold get_stream, put_stream, nth_opt, upd in *. cbn [e_streams set_streams set_slots].
      revert G. generalize (N.to_nat oid) (e_streams (f_ep f)). intros n. induction n; intros [|y l] E; cbn in *; try discriminate; auto. }
    unfold disallow_write. rewrite Gg.
    set (h0 := with_ep g1 (put_stream (f_ep g1) oid (st_set_fin s1 true))).
    destruct (wake_writer_ctl h0 oid) as (O1 & _).
    assert (Tw : e_tx_closed (f_ep (wake_writer h0 oid)) = false).
    { unfold wake_writer. destruct (get_stream (f_ep h0) oid) as [x|]; [|exact T].
      destruct (st_wpark x); [|exact T]. destruct (sid_of _ oid); exact T. }
    assert (Fs : st_fin s1 = st_fin s) by reflexivity. rewrite Fs.
    destruct (st_fin s); cbn [negb andb].
    + destruct (disallow_read_ctl (wake_writer h0 oid) oid) as (O2 & _). rewrite O2, O1, app_nil_r. reflexivity.
    + destruct (emit_out _ (Reset (st_id s)) Tw) as [_ Eo].
      destruct (disallow_read_ctl (emit (wake_writer h0 oid) (Reset (st_id s))) oid) as (O2 & _).
      rewrite O2, Eo, O1. reflexivity.
Qed.

(* a stream created for a (re)used id starts clean: nothing of an older incarnation *)
Theorem new_stream_clean e id w h p :
  let s := new_stream e id w h p in
  st_rxq s = [] /\ st_buf s = [] /\ st_since s = 0 /\ st_credit s = w /\ st_fin s = false /\
  st_txopen s = true /\ st_alive s = true /\ st_th s <= e_rwnd e.
Proof. cbn. repeat split; auto. lia. Qed.

(* ---------------------------------------------------------------- C08: flushing *)

(* the send loop never loses or reorders a queued message: what is handed to the sink in a
   label plus what stays queued is exactly what was queued plus what the label enqueued *)
Lemma drain_slots_txq sl : forall f, e_txq (f_ep (drain_slots f sl)) = e_txq (f_ep f).
Proof.
  induction sl as [|[id s] r IH]; intros f; cbn [drain_slots]; auto.
  rewrite IH. destruct (close_flow_local_inhibit_ctl f s id) as (_ & _ & _ & _ & T). exact T.
Qed.
Lemma finish_task_txq f code : e_txq (f_ep (finish_task f code)) = e_txq (f_ep f).
Proof.
  unfold finish_task. cbn zeta.
  set (g := drain_slots (with_ep f (set_slots (f_ep f) [])) (e_slots (f_ep f))).
  assert (T : e_txq (f_ep g) = e_txq (f_ep f)) by (unfold g; rewrite drain_slots_txq; reflexivity).
  destruct (e_accept_park (f_ep g)), (e_dgram_park (f_ep g)), (e_nextbind_park (f_ep g)); exact T.
Qed.

Theorem settle_conserves f :
  match e_phase (f_ep f) with WindDown6 _ | Ended => False | _ => True end ->
  f_out (settle f) ++ e_txq (f_ep (settle f)) = e_txq (f_ep f) ++ f_out f.
Proof.
  intros H. unfold settle.
  set (q := e_txq (f_ep f) ++ f_out f).
  set (n := match e_permits (f_ep f) with None => len q | Some p => N.min p (len q) end).
  set (e1 := set_permits (set_txq (f_ep f) (skipn (N.to_nat n) q))
               match e_permits (f_ep f) with None => None | Some p => Some (p - n) end).
  assert (P1 : e_phase e1 = e_phase (f_ep f)) by reflexivity.
  assert (T1 : e_txq e1 = skipn (N.to_nat n) q) by reflexivity.
  destruct (e_phase (f_ep f)) as [|c|code ended|code|] eqn:P; try contradiction; rewrite P1.
  - cbn [f_out f_ep]. rewrite T1. apply firstn_skipn.
  - cbn [f_out f_ep]. rewrite T1. apply firstn_skipn.
  - destruct (skipn (N.to_nat n) q) as [|x r] eqn:Es.
    + assert (Q : firstn (N.to_nat n) q = q) by (rewrite <- (firstn_skipn (N.to_nat n) q) at 2; now rewrite Es, app_nil_r).
      unfold wind_down2. cbn [f_ep f_out f_wakes f_done].
      destruct (true && negb ended).
      * cbn [f_out f_ep with_ep]. change (e_txq (set_phase e1 (WindDown6 code))) with (e_txq e1). rewrite T1, Q. apply app_nil_r.
      * match goal with |- context [finish_task ?g ?c] =>
          pose proof (finish_task_spec g c) as S; cbn zeta in S; destruct S as (_ & _ & O & _);
          rewrite O, (finish_task_txq g c) end.
        cbn [f_out f_ep]. rewrite T1, Q. apply app_nil_r.
    + cbn [f_out f_ep]. rewrite T1. rewrite <- Es. apply firstn_skipn.
Qed.

(* a handle drop with a ready sink: every message queued before the drop (and those the drop
   itself enqueues) goes out, in order, and only then is the sink closed *)
Theorem settle_drain f code ended :
  e_phase (f_ep f) = WindDown4 code ended -> e_permits (f_ep f) = None ->
  f_out (settle f) = e_txq (f_ep f) ++ f_out f /\ f_closed (settle f) = true.
Proof.
  intros P Pm. unfold settle. rewrite P, Pm. cbn [e_phase set_permits set_txq f_ep].
  rewrite P. set (q := e_txq (f_ep f) ++ f_out f).
  assert (S : skipn (N.to_nat (len q)) q = []) by (apply skipn_all2; unfold len; lia).
  assert (F : firstn (N.to_nat (len q)) q = q) by (apply firstn_all2; unfold len; lia).
  rewrite S, F. unfold wind_down2.
  destruct (true && negb ended).
  - cbn. auto.
  - match goal with |- context [finish_task ?g ?c] => pose proof (finish_task_spec g c) as H; cbn zeta in H;
      destruct H as (_ & _ & O & _); rewrite O, (finish_task_closed g c) end. cbn. auto.
Qed.
