(* Correspondence glue for the pair world (harness/mux). *)
From PV Require Import Common.Wire Mux.Sys Mux.BridgeSys.

Definition parse_cfg (idx : N) (l : list N) : option (ep * list N) :=
  match l with
  | rwnd :: th :: acc :: dg :: bd :: retries :: r =>
      match parse_lp r with
      | Some (rng, r') => Some (init_ep idx rwnd th acc dg bd retries rng, r')
      | None => None
      end
  | _ => None
  end.

Fixpoint parse_chunks (n : nat) (l : list N) : option (list (list N)) :=
  match n with
  | O => match l with [] => Some [] | _ => None end
  | S n' => match parse_lp l with
            | Some (c, r) => option_map (cons c) (parse_chunks n' r)
            | None => None
            end
  end.

Definition parse_label (l : list N) : option label :=
  match l with
  | 10 :: e :: port :: r => match parse_lp r with Some (h, []) => Some (LOpen e port h) | _ => None end
  | [11; e; k] => Some (LOpenPoll e k)
  | [12; e] => Some (LAccept e)
  | 13 :: e :: sid :: r => match parse_lp r with Some (d, []) => Some (LWrite e sid d) | _ => None end
  | 14 :: e :: sid :: n :: r => option_map (LWriteV e sid) (parse_chunks (N.to_nat n) r)
  | [15; e; sid; n] => Some (LRead e sid n)
  | [16; e; sid] => Some (LShutdown e sid)
  | [17; e; sid] => Some (LDropStream e sid)
  | [33; e; sid] => Some (LDropDeliver e sid)
  | [34; d] => Some (LDeliverAll d)
  | [18; d] => Some (LDeliver d)
  | 19 :: e :: fid :: port :: r =>
      match parse_lp r with
      | Some (h, r') => match parse_lp r' with Some (d, []) => Some (LSendDgram e fid port h d) | _ => None end
      | None => None
      end
  | [20; e] => Some (LGetDgram e)
  | 21 :: e :: bt :: port :: r => match parse_lp r with Some (h, []) => Some (LBindReq e bt port h) | _ => None end
  | [22; e; k] => Some (LBindPoll e k)
  | [23; e] => Some (LNextBind e)
  | [24; e; rid; acc] => Some (LBindReply e rid (negb (acc =? 0)))
  | [25; e; rid] => Some (LBindDrop e rid)
  | [26; e] => Some (LDropMux e)
  | 27 :: e :: 0 :: r => match parse_lp r with Some (b, []) => Some (LInject e (MBin b)) | _ => None end
  | [27; e; 1] => Some (LInject e MPing)
  | [27; e; 2] => Some (LInject e MPong)
  | [27; e; _] => Some (LInject e MClose)
  | [28; e; cause] => Some (LEnd e cause)
  | [29; e; n] => Some (LPermits e n)
  | _ => None
  end.

Definition parse_blabel (l : list N) : option blabel :=
  match l with
  | [30; e; sid] => Some (BStart e sid)
  | [31; k] => Some (BPoll k)
  | 32 :: k :: 0 :: r => match parse_lp r with Some (d, []) => Some (BFeed k 0 d) | _ => None end
  | [32; k; 3; n] => Some (BFeed k 3 [n])
  | [32; k; kind] => Some (BFeed k kind [])
  | _ => option_map BL (parse_label l)
  end.

Fixpoint parse_labels (fuel : nat) (l : list N) : option (list blabel) :=
  match fuel with
  | O => match l with [] => Some [] | _ => None end
  | S f =>
      match l with
      | [] => Some []
      | _ =>
          match parse_lp l with
          | Some (lab, r) =>
              match parse_blabel lab with
              | Some x => option_map (cons x) (parse_labels f r)
              | None => None
              end
          | None => None
          end
      end
  end.

Definition put_msg (m : msg) : list N :=
  match m with MBin b => 0 :: put_lp b | MPing => [1] | MPong => [2] | MClose => [3] end.

Definition put_section (l : list N) : list N := len l :: l.

Definition put_lout (o : lout) : list N :=
  put_section (o_res o) ++ put_section (o_wakes o) ++
  put_section (flat_map put_msg (o_a o) ++ (if o_a_closed o then [4] else [])) ++
  put_section (flat_map put_msg (o_b o) ++ (if o_b_closed o then [4] else [])) ++
  put_section (o_done o).

Definition run_mux (c : list N) : list N :=
  match c with
  | 1 :: r =>
      match parse_cfg 0 r with
      | Some (a, r1) =>
          match parse_cfg 1 r1 with
          | Some (b, r2) =>
              match parse_labels (length r2) r2 with
              | Some ls => flat_map put_lout (snd (brun (mkBsys (mkSys a b [] []) []) ls))
              | None => MALFORMED
              end
          | None => MALFORMED
          end
      | None => MALFORMED
      end
  | _ => MALFORMED
  end.
