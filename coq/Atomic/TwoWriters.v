(* Two writers racing for credit on one stream (poll_write_push takes &self, so this is legal),
   against an acknowledge and a close on other threads, at the granularity of individual atomic
   operations.  Only the credit protocol is modelled here (the AtomicWaker holds a single
   waker, so the wake-up guarantee of C12 is for one writer; see Atomic/Model.v for that). *)
From PV Require Export Common.Bytes Atomic.Model.

Record wr := mkWr { w_pc : wpc; w_polls : nat; w_res : list pres; w_taken : N }.

Record st2 := mkSt2 {
  c2 : N; fin2 : bool;
  wa : wr; wb : wr;
  k2 : kpc; ackn2 : N; added2 : N;
  d2 : dpc }.

Definition fin_poll (w : wr) (r : pres) (tk : N) : wr := mkWr W0 (pred (w_polls w)) (w_res w ++ [r]) tk.
Definition goto_w (w : wr) (p : wpc) : wr := mkWr p (w_polls w) (w_res w) (w_taken w).

(* one atomic operation of a writer: (new credit, new writer state) *)
Definition wstep (c : N) (fin : bool) (w : wr) : option (N * wr) :=
  match w_polls w with
  | O => None
  | S _ =>
      match w_pc w with
      | W0 => Some (c, if fin then fin_poll w RClosed (w_taken w) else goto_w w W1)
      | W1 => Some (c, if c =? 0 then goto_w w W3 else goto_w w (W2 c))
      | W2 orig => if c =? orig then Some (orig - 1, fin_poll w RReady (w_taken w + 1)) else Some (c, goto_w w W1)
      | W3 => Some (c, goto_w w W4)                       (* register the waker *)
      | W4 => Some (c, if fin then fin_poll w RClosed (w_taken w) else goto_w w W5)
      | W5 => Some (c, if c =? 0 then fin_poll w RPending (w_taken w) else goto_w w W1)
      end
  end.

Inductive tid2 := TA | TB | TK2 | TD2.

Definition step2 (s : st2) (t : tid2) : option st2 :=
  match t with
  | TA => match wstep (c2 s) (fin2 s) (wa s) with
          | Some (c, w) => Some (mkSt2 c (fin2 s) w (wb s) (k2 s) (ackn2 s) (added2 s) (d2 s))
          | None => None end
  | TB => match wstep (c2 s) (fin2 s) (wb s) with
          | Some (c, w) => Some (mkSt2 c (fin2 s) (wa s) w (k2 s) (ackn2 s) (added2 s) (d2 s))
          | None => None end
  | TK2 => match k2 s with
           | K0 => Some (mkSt2 ((c2 s + ackn2 s) mod 4294967296) (fin2 s) (wa s) (wb s) K1 (ackn2 s) (added2 s + ackn2 s) (d2 s))
           | K1 => Some (mkSt2 (c2 s) (fin2 s) (wa s) (wb s) KDone (ackn2 s) (added2 s) (d2 s))
           | KDone => None end
  | TD2 => match d2 s with
           | D0 => Some (mkSt2 (c2 s) true (wa s) (wb s) (k2 s) (ackn2 s) (added2 s) D1)
           | D1 => Some (mkSt2 (c2 s) (fin2 s) (wa s) (wb s) (k2 s) (ackn2 s) (added2 s) DDone)
           | _ => None end
  end.

Definition init2 (c : N) (pa pb : nat) (ack : option N) (close : bool) : st2 :=
  mkSt2 c false (mkWr W0 pa [] 0) (mkWr W0 pb [] 0)
        (match ack with Some _ => K0 | None => KDone end) (match ack with Some n => n | None => 0 end) 0
        (if close then D0 else DNone).

Fixpoint explore2 (fuel : nat) (s : st2) : list st2 :=
  match fuel with
  | O => []
  | S f =>
      match step2 s TA, step2 s TB, step2 s TK2, step2 s TD2 with
      | None, None, None, None => [s]
      | a, b, c, d =>
          (match a with Some x => explore2 f x | None => [] end) ++
          (match b with Some x => explore2 f x | None => [] end) ++
          (match c with Some x => explore2 f x | None => [] end) ++
          (match d with Some x => explore2 f x | None => [] end)
      end
  end.

Definition outcome2 (s : st2) : list N :=
  len (w_res (wa s)) :: map res_code (w_res (wa s)) ++ len (w_res (wb s)) :: map res_code (w_res (wb s)) ++ [c2 s; if fin2 s then 1 else 0].

Definition outcome_set2 (l : list st2) : list (list N) := fold_right (fun s acc => ins (outcome2 s) acc) [] l.

(* case: 2 credit pollsA pollsB ack close -> sorted outcome set, concatenated *)
Definition run_atomic2 (c : list N) : list N :=
  match c with
  | [cr; pa; pb; ack; cl] =>
      concat (outcome_set2 (explore2 200 (init2 cr (N.to_nat pa) (N.to_nat pb) (if ack =? 0 then None else Some ack) (negb (cl =? 0)))))
  | _ => [999999]
  end.
