From PV Require Import Atomic.Model.
From Coq Require Import ZifyBool ZifyN ZifyNat.

Definition pend (s : st) : Prop := pcw s = W0 /\ exists pre, results s = pre ++ [RPending].
Definition k_added (p : kpc) : bool := match p with K0 => false | _ => true end.
Definition d_set (p : dpc) : bool := match p with D0 | DNone => false | _ => true end.
Fixpoint nready (l : list pres) : N :=
  match l with [] => 0 | RReady :: r => 1 + nready r | _ :: r => nready r end.
Lemma nready_app a b : nready (a ++ b) = nready a + nready b.
Proof. induction a as [|[] a IH]; cbn [app nready]; lia. Qed.

Section Inv.
Variables (c0 n : N).
Hypothesis no_wrap : c0 + n < 4294967296.

Record Inv (s : st) : Prop := {
  v_credit : credit s + taken s = c0 + added s;
  v_added : added s = if k_added (pck s) then ackn s else 0;
  v_ackn : ackn s = n;
  v_ackpos : pck s <> KDone -> 1 <= ackn s;
  v_fin : fin s = d_set (pcd s);
  v_orig : forall o, pcw s = W2 o -> 1 <= o;
  v_taken : taken s = nready (results s);
  v_reg45 : (pcw s = W4 \/ pcw s = W5) -> reg s = true \/ woken s = true;
  v_regp : pend s -> reg s = true \/ woken s = true;
  v_w5 : pcw s = W5 -> reg s = true -> fin s = false \/ pcd s <> DDone;
  v_pend : pend s -> reg s = true ->
           (credit s = 0 \/ pck s <> KDone) /\ (fin s = false \/ pcd s <> DDone)
}.

Lemma last_app_neq (pre pre' : list pres) a b : a <> b -> pre ++ [a] <> pre' ++ [b].
Proof. intros H E. apply app_inj_tail in E as [_ E]. contradiction. Qed.

Lemma pend_same s s' : pcw s' = pcw s -> results s' = results s -> pend s' -> pend s.
Proof. intros A B [P (pre & Q)]. split; [congruence|]. exists pre. congruence. Qed.

Ltac flds := cbn [credit taken added pck ackn fin pcd pcw results reg woken polls k_added d_set].
Ltac not_pend :=
  match goal with |- pend _ -> _ =>
    let H := fresh in intros H; exfalso; destruct H as [H H']; flds; cbn [pcw] in H;
    first [ discriminate
          | destruct H' as (pre & Hp); cbn [results] in Hp;
            first [ eapply (last_app_neq _ pre RReady RPending); [discriminate|exact Hp]
                  | eapply (last_app_neq _ pre RClosed RPending); [discriminate|exact Hp] ] ] end.
Ltac easy_fld :=
  flds; first [ assumption | reflexivity | discriminate | lia
              | (intros [?|?]; discriminate) | not_pend
              | (rewrite nready_app; cbn [nready]; lia)
              | (intros; discriminate) | idtac ].

Lemma inv_w s s' : Inv s -> step_w s = Some s' -> Inv s'.
Proof.
  intros HI E. pose proof HI as [Vc Va Vk Vp Vf Vo Vt V45 Vrp V5 Vpe].
  unfold step_w in E. destruct (polls s) as [|m] eqn:Ep; [discriminate|].
  destruct (pcw s) as [| |orig| | |] eqn:Epc; inversion E; subst; clear E.
  - destruct (fin s) eqn:Ef; unfold finish_poll, goto; constructor; easy_fld.
  - destruct (N.eqb_spec (credit s) 0) as [Z|Z]; unfold goto; constructor; easy_fld.
    all: try (intros o Ho; inversion Ho; subst; lia).
  - destruct (N.eqb_spec (credit s) orig) as [Z|Z]; unfold finish_poll, goto; constructor; easy_fld.
    all: try (pose proof (Vo orig eq_refl); lia).
  - constructor; easy_fld.
    all: try (intros _; left; reflexivity).
  - destruct (fin s) eqn:Ef; unfold finish_poll, goto; constructor; easy_fld.
    all: try (intros _; apply V45; auto).
    all: try (intros _ Hr; left; reflexivity).
  - destruct (N.eqb_spec (credit s) 0) as [Z|Z]; unfold finish_poll, goto; constructor; easy_fld.
    all: try (intros _; apply V45; auto).
    all: try (intros _ Hr; split; [left; exact Z|]; apply V5; auto).
Qed.

Lemma inv_k s s' : Inv s -> step_k s = Some s' -> Inv s'.
Proof.
  intros HI E. pose proof HI as [Vc Va Vk Vp Vf Vo Vt V45 Vrp V5 Vpe].
  unfold step_k in E. destruct (pck s) eqn:Epk; inversion E; subst; clear E.
  - (* fetch_add *)
    cbn [k_added] in Va. pose proof (Vp ltac:(discriminate)) as Hpos.
    assert (Nw : (credit s + ackn s) mod 4294967296 = credit s + ackn s) by (apply N.mod_small; lia).
    constructor; easy_fld.
    all: try (rewrite Nw; lia).
    all: try (intros P Hr; destruct (Vpe (pend_same s _ eq_refl eq_refl P) Hr) as [_ B]; split; [right; discriminate|exact B]).
    all: try (intros P; apply Vrp; exact (pend_same s _ eq_refl eq_refl P)).
  - (* wake *)
    unfold do_wake. destruct (reg s) eqn:Er; constructor; easy_fld.
    all: try (intros X; exfalso; apply X; reflexivity).
    all: try (intros; right; reflexivity).
    all: try (intros P; apply Vrp; exact (pend_same s _ eq_refl eq_refl P)).
    all: try (intros P Hr; destruct (Vrp (pend_same s _ eq_refl eq_refl P)) as [X|X]; [congruence|];
              (* not registered any more, woken: the writer re-registered?  no: reg s = false here *)
              congruence).
Qed.

Lemma inv_d s s' : Inv s -> step_d s = Some s' -> Inv s'.
Proof.
  intros HI E. pose proof HI as [Vc Va Vk Vp Vf Vo Vt V45 Vrp V5 Vpe].
  unfold step_d in E. destruct (pcd s) eqn:Epd; inversion E; subst; clear E.
  - constructor; easy_fld.
    all: try (intros P; apply Vrp; exact (pend_same s _ eq_refl eq_refl P)).
    all: try (intros; right; discriminate).
    all: try (intros P Hr; destruct (Vpe (pend_same s _ eq_refl eq_refl P) Hr) as [A _]; split; [exact A|right; discriminate]).
  - unfold do_wake. destruct (reg s) eqn:Er; constructor; easy_fld.
    all: try (intros; right; reflexivity).
    all: try (intros P; apply Vrp; exact (pend_same s _ eq_refl eq_refl P)).
    all: try (intros P Hr; congruence).
Qed.

Theorem step_inv s t s' : Inv s -> step s t = Some s' -> Inv s'.
Proof. destruct t; [apply inv_w|apply inv_k|apply inv_d]. Qed.

Inductive reach (s0 : st) : st -> Prop :=
| reach_refl : reach s0 s0
| reach_step s t s' : reach s0 s -> step s t = Some s' -> reach s0 s'.

Theorem reach_inv s0 s : Inv s0 -> reach s0 s -> Inv s.
Proof. intros H R. induction R; auto. eapply step_inv; eauto. Qed.
End Inv.

Lemma inv_init c np ack close :
  c + (match ack with Some n => n | None => 0 end) < 4294967296 ->
  (match ack with Some n => 1 <= n | None => True end) ->
  Inv c (match ack with Some n => n | None => 0 end) (init c np ack close).
Proof.
  intros Hw Hp. unfold init. constructor; cbn [credit taken added pck ackn fin pcd pcw results reg woken k_added d_set nready].
  - lia.
  - destruct ack; reflexivity.
  - reflexivity.
  - destruct ack; [intros _; exact Hp|intros H; contradiction].
  - destruct close; reflexivity.
  - intros o H; discriminate.
  - reflexivity.
  - intros [H|H]; discriminate.
  - intros [_ (pre & H)]. destruct pre; discriminate.
  - intros H; discriminate.
  - intros [_ (pre & H)]. destruct pre; discriminate.
Qed.

(* ---- the property theorems, for every initial credit, acknowledge amount, number of polls
        and every interleaving of the atomic operations ---- *)
Section Thms.
Variables (c : N) (np : nat) (ack : option N) (close : bool).
Let n := match ack with Some n => n | None => 0 end.
Hypothesis Hw : c + n < 4294967296.
Hypothesis Hp : match ack with Some n => 1 <= n | None => True end.

Theorem reachable_inv s : reach (init c np ack close) s -> Inv c n s.
Proof. intros R. eapply reach_inv; eauto. apply inv_init; auto. Qed.

(* credit finally available = initial + granted - obtained by the writer *)
Theorem credit_conservation s : reach (init c np ack close) s ->
  credit s + taken s = c + added s /\ taken s = nready (results s).
Proof. intros R. pose proof (reachable_inv s R) as I. split; [apply (v_credit _ _ _ I)|apply (v_taken _ _ _ I)]. Qed.

(* a poll returns Ready only by taking one unit from a positive credit *)
Theorem no_send_without_credit s s' pre : reach (init c np ack close) s ->
  step s TW = Some s' -> results s' = pre ++ [RReady] -> results s = pre ->
  1 <= credit s /\ credit s' = credit s - 1 /\ taken s' = taken s + 1.
Proof.
  intros R E Hr Hpre. pose proof (reachable_inv s R) as I.
  cbn [step] in E. unfold step_w in E. destruct (polls s); [discriminate|].
  destruct (pcw s) as [| |orig| | |] eqn:Epc; inversion E; subst; clear E.
  - destruct (fin s); cbn [results finish_poll goto] in Hr; [apply app_inj_tail in Hr as [_ X]; discriminate|].
    exfalso. rewrite <- (app_nil_r (results s)) in Hr at 1. apply app_inv_head in Hr. discriminate.
  - destruct (credit s =? 0); cbn [results goto] in Hr;
      exfalso; rewrite <- (app_nil_r (results s)) in Hr at 1; apply app_inv_head in Hr; discriminate.
  - destruct (N.eqb_spec (credit s) orig) as [Z|Z]; cbn [results finish_poll goto credit taken] in *.
    + pose proof (v_orig _ _ _ I orig Epc). subst orig. repeat split; auto.
    + exfalso. rewrite <- (app_nil_r (results s)) in Hr at 1. apply app_inv_head in Hr. discriminate.
  - cbn [results] in Hr. exfalso. rewrite <- (app_nil_r (results s)) in Hr at 1. apply app_inv_head in Hr. discriminate.
  - destruct (fin s); cbn [results finish_poll goto] in Hr; [apply app_inj_tail in Hr as [_ X]; discriminate|].
    exfalso. rewrite <- (app_nil_r (results s)) in Hr at 1. apply app_inv_head in Hr. discriminate.
  - destruct (credit s =? 0); cbn [results finish_poll goto] in Hr; [apply app_inj_tail in Hr as [_ X]; discriminate|].
    exfalso. rewrite <- (app_nil_r (results s)) in Hr at 1. apply app_inv_head in Hr. discriminate.
Qed.

(* whenever the writer's last poll returned Pending: its waker is still registered or a
   wake-up has been delivered since it registered *)
Theorem pending_implies_registered_or_woken s : reach (init c np ack close) s -> pend s ->
  reg s = true \/ woken s = true.
Proof. intros R P. exact (v_regp _ _ _ (reachable_inv s R) P). Qed.

(* no lost wake-up: once the connection task's operations have completed, a writer whose last
   poll returned Pending either has been woken, or there is indeed nothing to wait for
   (no credit, stream not closed) *)
Theorem no_lost_wakeup s : reach (init c np ack close) s -> pend s ->
  pck s = KDone -> (pcd s = DDone \/ pcd s = DNone) ->
  woken s = true \/ (credit s = 0 /\ fin s = false).
Proof.
  intros R P Hk Hd. pose proof (reachable_inv s R) as I.
  destruct (v_regp _ _ _ I P) as [Hr|Hwk]; [|left; exact Hwk].
  destruct (v_pend _ _ _ I P Hr) as [[A|A] [B|B]]; try contradiction; try congruence.
  - right. auto.
  - destruct Hd as [Hd|Hd]; [contradiction|]. right. split; auto. rewrite (v_fin _ _ _ I), Hd. reflexivity.
Qed.
End Thms.
