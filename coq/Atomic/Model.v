(* Atomic-step model of the writer's credit poll (stream.rs::poll_obtain_write_permission,
   repaired), of EstablishedStreamData::acknowledge and ::disallow_write (lib.rs), at the
   granularity of individual atomic operations, interleaved arbitrarily (sequential
   consistency; the AtomicWaker is a linearizable register/wake cell).  See DESIGN.md for
   what this leaves out of the C11 model (partial). *)
From PV Require Export Common.Bytes.

Inductive wpc := W0 | W1 | W2 (orig : N) | W3 | W4 | W5.
Inductive kpc := K0 | K1 | KDone.
Inductive dpc := D0 | D1 | DDone | DNone.   (* DNone: no closing thread in the program *)
Inductive pres := RReady | RClosed | RPending.

Record st := mkSt {
  credit : N; fin : bool;
  reg : bool;                 (* a waker is registered in the AtomicWaker *)
  wakes : N;                  (* wake-ups delivered to the writer's waker *)
  woken : bool;               (* a wake-up was delivered since the last registration *)
  pcw : wpc; polls : nat; results : list pres;
  taken : N;                  (* ghost: units of credit obtained by the writer *)
  pck : kpc; ackn : N;
  added : N;                  (* ghost: credit granted so far *)
  pcd : dpc
}.

Definition set_w s c r wk wo p n rs tk :=
  mkSt c (fin s) r wk wo p n rs tk (pck s) (ackn s) (added s) (pcd s).

(* the AtomicWaker's wake *)
Definition do_wake (s : st) : st :=
  if reg s then mkSt (credit s) (fin s) false (wakes s + 1) true (pcw s) (polls s) (results s) (taken s)
                     (pck s) (ackn s) (added s) (pcd s)
  else s.

Definition finish_poll (s : st) (r : pres) (c : N) (tk : N) : st :=
  mkSt c (fin s) (reg s) (wakes s) (woken s) W0 (pred (polls s)) (results s ++ [r]) tk
       (pck s) (ackn s) (added s) (pcd s).

Definition goto (s : st) (p : wpc) : st :=
  mkSt (credit s) (fin s) (reg s) (wakes s) (woken s) p (polls s) (results s) (taken s)
       (pck s) (ackn s) (added s) (pcd s).

(* one atomic operation of the writer; None = the writer has nothing left to do *)
Definition step_w (s : st) : option st :=
  match polls s with
  | O => None
  | S _ =>
      match pcw s with
      | W0 => Some (if fin s then finish_poll s RClosed (credit s) (taken s) else goto s W1)
      | W1 => Some (if credit s =? 0 then goto s W3 else goto s (W2 (credit s)))
      | W2 orig =>
          (* compare_exchange_weak(orig, orig - 1) *)
          Some (if credit s =? orig then finish_poll s RReady (orig - 1) (taken s + 1) else goto s W1)
      | W3 =>
          Some (mkSt (credit s) (fin s) true (wakes s) false W4 (polls s) (results s) (taken s)
                     (pck s) (ackn s) (added s) (pcd s))
      | W4 => Some (if fin s then finish_poll s RClosed (credit s) (taken s) else goto s W5)
      | W5 => Some (if credit s =? 0 then finish_poll s RPending (credit s) (taken s) else goto s W1)
      end
  end.

(* acknowledge(n): fetch_add, then wake *)
Definition step_k (s : st) : option st :=
  match pck s with
  | K0 => Some (mkSt ((credit s + ackn s) mod 4294967296) (fin s) (reg s) (wakes s) (woken s) (pcw s) (polls s)
                     (results s) (taken s) K1 (ackn s) (added s + ackn s) (pcd s))
  | K1 => let s' := do_wake s in
          Some (mkSt (credit s') (fin s') (reg s') (wakes s') (woken s') (pcw s') (polls s') (results s') (taken s')
                     KDone (ackn s') (added s') (pcd s'))
  | KDone => None
  end.

(* disallow_write: swap(true), then wake *)
Definition step_d (s : st) : option st :=
  match pcd s with
  | D0 => Some (mkSt (credit s) true (reg s) (wakes s) (woken s) (pcw s) (polls s) (results s) (taken s)
                     (pck s) (ackn s) (added s) D1)
  | D1 => let s' := do_wake s in
          Some (mkSt (credit s') (fin s') (reg s') (wakes s') (woken s') (pcw s') (polls s') (results s') (taken s')
                     (pck s') (ackn s') (added s') DDone)
  | DDone | DNone => None
  end.

Inductive tid := TW | TK | TD.
Definition step (s : st) (t : tid) : option st :=
  match t with TW => step_w s | TK => step_k s | TD => step_d s end.

Definition init (c : N) (npolls : nat) (ack : option N) (close : bool) : st :=
  mkSt c false false 0 false W0 npolls [] 0
       (match ack with Some _ => K0 | None => KDone end) (match ack with Some n => n | None => 0 end) 0
       (if close then D0 else DNone).

(* all interleavings: the final states *)
Fixpoint explore (fuel : nat) (s : st) : list st :=
  match fuel with
  | O => []
  | S f =>
      match step s TW, step s TK, step s TD with
      | None, None, None => [s]
      | a, b, c =>
          (match a with Some x => explore f x | None => [] end) ++
          (match b with Some x => explore f x | None => [] end) ++
          (match c with Some x => explore f x | None => [] end)
      end
  end.

Definition res_code (r : pres) : N := match r with RReady => 0 | RClosed => 1 | RPending => 2 end.
Definition outcome (s : st) : list N :=
  len (results s) :: map res_code (results s) ++ [credit s; if fin s then 1 else 0; wakes s].

Fixpoint lex_lt (a b : list N) : bool :=
  match a, b with
  | [], [] => false
  | [], _ => true
  | _, [] => false
  | x :: a', y :: b' => if x <? y then true else if y <? x then false else lex_lt a' b'
  end.
Fixpoint ins (x : list N) (l : list (list N)) : list (list N) :=
  match l with
  | [] => [x]
  | y :: r => if lex_lt x y then x :: l else if lex_lt y x then y :: ins x r else l
  end.
Definition outcome_set (l : list st) : list (list N) := fold_right (fun s acc => ins (outcome s) acc) [] l.

(* case: credit polls ack(0 = none) close  ->  the sorted set of outcomes, concatenated *)
Definition run_atomic (c : list N) : list N :=
  match c with
  | [cr; np; ack; cl] =>
      let s := init cr (N.to_nat np) (if ack =? 0 then None else Some ack) (negb (cl =? 0)) in
      concat (outcome_set (explore 200 s))
  | _ => [999999]
  end.
