From PV Require Import Atomic.Model Atomic.Proofs Atomic.TwoWriters.
From Coq Require Import ZifyBool ZifyN ZifyNat.

Section Inv2.
Variables (c0 n : N).
Hypothesis no_wrap : c0 + n < 4294967296.

Definition worig (w : wr) : Prop := forall o, w_pc w = W2 o -> 1 <= o.
Definition wtk (w : wr) : Prop := w_taken w = nready (w_res w).

Record Inv2 (s : st2) : Prop := {
  i2_credit : c2 s + w_taken (wa s) + w_taken (wb s) = c0 + added2 s;
  i2_added : added2 s = if k_added (k2 s) then ackn2 s else 0;
  i2_ackn : ackn2 s = n;
  i2_oa : worig (wa s); i2_ob : worig (wb s);
  i2_ta : wtk (wa s); i2_tb : wtk (wb s) }.

Ltac nr := intros; subst; repeat match goal with
  | E : ?l ++ [_] = ?l ++ [RReady] |- _ => apply app_inv_head in E; discriminate
  | E : ?l = ?l ++ [RReady] |- _ => rewrite <- (app_nil_r l) in E at 1; apply app_inv_head in E; discriminate
  end.
Ltac fin_tac :=
  cbn [fin_poll goto_w w_pc w_res w_taken]; repeat split; auto;
  try (intros; discriminate); try (rewrite nready_app; cbn [nready]; lia);
  try (intros ? X; inversion X; lia); try nr; try lia.

Lemma wstep_ok c fin w c' w' : wstep c fin w = Some (c', w') -> worig w -> wtk w ->
  worig w' /\ wtk w' /\ c' + w_taken w' = c + w_taken w /\
  (forall pre, w_res w' = pre ++ [RReady] -> w_res w = pre -> 1 <= c /\ c' = c - 1 /\ w_taken w' = w_taken w + 1).
Proof.
  unfold wstep, worig, wtk. intros H O T. destruct (w_polls w); [discriminate|].
  destruct (w_pc w) as [| |orig| | |] eqn:Ep.
  - inversion H; subst. destruct fin; fin_tac.
  - inversion H; subst. destruct (N.eqb_spec c' 0); fin_tac.
  - pose proof (O orig eq_refl) as Ho. destruct (N.eqb_spec c orig) as [->|Ne]; inversion H; subst; fin_tac.
  - inversion H; subst. fin_tac.
  - inversion H; subst. destruct fin; fin_tac.
  - inversion H; subst. destruct (N.eqb_spec c' 0); fin_tac.
Qed.

Lemma step2_inv s t s' : Inv2 s -> step2 s t = Some s' -> Inv2 s'.
Proof.
  intros [C A K Oa Ob Ta Tb] H. destruct t; cbn [step2] in H.
  - destruct (wstep (c2 s) (fin2 s) (wa s)) as [[c w]|] eqn:E; [|discriminate]. inversion H; subst.
    destruct (wstep_ok _ _ _ _ _ E Oa Ta) as (O' & T' & Cv & _).
    constructor; cbn [c2 wa wb added2 k2 ackn2]; auto. lia.
  - destruct (wstep (c2 s) (fin2 s) (wb s)) as [[c w]|] eqn:E; [|discriminate]. inversion H; subst.
    destruct (wstep_ok _ _ _ _ _ E Ob Tb) as (O' & T' & Cv & _).
    constructor; cbn [c2 wa wb added2 k2 ackn2]; auto. lia.
  - destruct (k2 s) eqn:Ek; inversion H; subst; constructor; cbn [c2 wa wb added2 k2 ackn2 k_added] in *; auto.
    all: try (rewrite N.mod_small by lia); try lia.
  - destruct (d2 s); inversion H; subst; constructor; cbn [c2 wa wb added2 k2 ackn2]; auto.
Qed.

Inductive reach2 (s0 : st2) : st2 -> Prop :=
| r2_refl : reach2 s0 s0
| r2_step s t s' : reach2 s0 s -> step2 s t = Some s' -> reach2 s0 s'.

Lemma reach2_inv s0 s : Inv2 s0 -> reach2 s0 s -> Inv2 s.
Proof. intros H R. induction R; auto. eapply step2_inv; eauto. Qed.
End Inv2.

Section Thms2.
Variables (c : N) (pa pb : nat) (ack : option N) (close : bool).
Let n := match ack with Some n => n | None => 0 end.
Hypothesis Hw : c + n < 4294967296.

Lemma init2_inv : Inv2 c n (init2 c pa pb ack close).
Proof.
  unfold init2. constructor; unfold worig, wtk; cbn [c2 wa wb added2 k2 ackn2 w_taken w_pc w_res nready k_added]; try lia;
    try (intros o H; discriminate); try reflexivity.
  destruct ack; reflexivity.
Qed.

(* Two writers racing with each other, with an acknowledge and with a close, under every
   interleaving of their atomic operations: the credit finally available equals the initial
   credit plus what was granted minus what the two writers obtained together; each obtained
   unit is one successful poll *)
Theorem racing_writers_conservation s : reach2 (init2 c pa pb ack close) s ->
  c2 s + nready (w_res (wa s)) + nready (w_res (wb s)) = c + added2 s.
Proof.
  intros R. pose proof (reach2_inv c n Hw _ _ init2_inv R) as [C _ _ _ _ Ta Tb].
  unfold wtk in *. rewrite <- Ta, <- Tb. exact C.
Qed.

(* hence the two writers together never obtain more than was ever available (no overrun) *)
Corollary racing_writers_no_overdraw s : reach2 (init2 c pa pb ack close) s ->
  nready (w_res (wa s)) + nready (w_res (wb s)) <= c + n.
Proof.
  intros R. pose proof (racing_writers_conservation s R) as E.
  pose proof (reach2_inv c n Hw _ _ init2_inv R) as [_ A K _ _ _ _].
  destruct (k_added (k2 s)); lia.
Qed.

(* a poll of either writer returns Ready only by taking one unit from a positive credit *)
Theorem racing_writer_takes_one s s' t pre : reach2 (init2 c pa pb ack close) s ->
  (t = TA \/ t = TB) -> step2 s t = Some s' ->
  (let w := match t with TA => wa | _ => wb end in w_res (w s') = pre ++ [RReady] /\ w_res (w s) = pre) ->
  1 <= c2 s /\ c2 s' = c2 s - 1.
Proof.
  intros R Ht H [E P]. pose proof (reach2_inv c n Hw _ _ init2_inv R) as [_ _ _ Oa Ob Ta Tb].
  destruct Ht as [-> | ->]; cbn [step2] in H.
  - destruct (wstep (c2 s) (fin2 s) (wa s)) as [[c' w]|] eqn:Ew; [|discriminate]. inversion H; subst.
    destruct (wstep_ok c n Hw _ _ _ _ _ Ew Oa Ta) as (_ & _ & _ & Rd). cbn [wa c2] in *.
    destruct (Rd _ E eq_refl) as (A & B & _). auto.
  - destruct (wstep (c2 s) (fin2 s) (wb s)) as [[c' w]|] eqn:Ew; [|discriminate]. inversion H; subst.
    destruct (wstep_ok c n Hw _ _ _ _ _ Ew Ob Tb) as (_ & _ & _ & Rd). cbn [wb c2] in *.
    destruct (Rd _ E eq_refl) as (A & B & _). auto.
Qed.
End Thms2.
