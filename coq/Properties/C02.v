(* C02 — streams deliver bytes intact, in order, exactly once, without cross-talk. *)
From PV Require Import Mux.Sys Mux.SysProofs.
From PV Require Import Flow.Core Flow.Proofs.

(* in every reachable state of a flow direction, for every interleaving of writer, reader,
   the two tasks and the deliveries, every window/threshold pair and plain or vectored
   writes of any size: what was read is a prefix of what successful writes accepted *)
Theorem C02_read_is_prefix : forall w t ls, 1 <= t -> 1 <= w < 4294967296 ->
  exists rest, written (run (init w t) ls) = readout (run (init w t) ls) ++ rest.
Proof. exact read_is_prefix. Qed.

(* the exact accounting while the receiver is alive: nothing lost, duplicated or reordered *)
Theorem C02_data_equation : forall s, Inv s -> ralive s = true -> overrun s = false -> cond s ->
  written s = readout s ++ buf s ++ concat (rxq s) ++ pdata (wsr s).
Proof. intros s H. exact (i_data s H). Qed.

Theorem C02_reachable_inv : forall w t ls, 1 <= t -> 1 <= w < 4294967296 -> Inv (run (init w t) ls).
Proof. intros w t ls Ht Hw. apply run_inv, inv_init; auto. Qed.

(* clean close: the writer shut down, the reader read to end-of-stream: equal sequences *)
Theorem C02_clean_close_equal : forall w t ls n s', 1 <= t -> 1 <= w < 4294967296 ->
  step (run (init w t) ls) (Read n) = (s', OEof) ->
  fin (run (init w t) ls) = true /\ readout s' = written s'.
Proof. exact eof_reachable. Qed.

(* no cross-talk: a frame for flow i changes no other flow's slot and no other stream object *)
Theorem C02_no_crosstalk_slots : forall f fr wd id', id' <> frame_id fr ->
  slot_get (e_slots (f_ep (fst (process_frame f fr wd)))) id' = slot_get (e_slots (f_ep f)) id'.
Proof. exact frame_rule_slots. Qed.

Example C02_nonvacuous :
  let s := run (init 2 1) [Write [1;2]; Write [3]; Write [4]; DelSR; Read 1; Read 5; DelSR; DelRS; Write [5]; Read 5] in
  written s = [1;2;3;5] /\ readout s = [1;2;3].
Proof. vm_compute. auto. Qed.

(* ---- the flow model is the projection of the endpoint model onto one flow (Mux/Project.v):
   the endpoint's function acts on the stream object as the flow label does, returns the same
   result and puts on the wire the frames the flow model puts in flight ---- *)
From PV Require Import Mux.Sys Mux.Project.

Theorem C02_read_projects : forall f sid n oid s x w f' res x' o,
  live_stream (f_ep f) sid = Some (oid, s) -> e_tx_closed (f_ep f) = false -> R_view x w s ->
  do_read f sid n = (f', res) -> F.step x (F.Read n) = (x', o) ->
  res = enc_out o /\
  exists s', get_stream (f_ep f') oid = Some s' /\ R_view x' w s' /\ same_S s s' /\ st_id s' = st_id s /\
  exists added, F.wrs x' = F.wrs x ++ added /\ f_out f' = f_out f ++ map (ackwire (st_id s)) added.
Proof. exact read_projects. Qed.

(* ---- the pair model restricted to one established flow is simulated by the two flow models (Mux/Simulate.v):
   the flow theorems above are theorems about the pair model for every single-flow script ---- *)
From PV Require Import Mux.Simulate.

Theorem C02_pair_simulated_by_flows : forall id ls s fs, Rel id s fs -> Forall lab_ok ls ->
  fst (pair_results s ls) = fst (flow_results fs ls) /\
  Rel id (snd (pair_results s ls)) (snd (flow_results fs ls)).
Proof. exact sim_run. Qed.

Theorem C02_pair_step_simulated : forall id s fs l, Rel id s fs -> lab_ok l ->
  o_res (snd (step s (to_sys l))) = snd (FD.fstep_l fs l) /\
  Rel id (fst (step s (to_sys l))) (fst (FD.fstep_l fs l)).
Proof. exact sim_step. Qed.
