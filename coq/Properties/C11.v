(* C11 — datagram service. *)
From PV Require Import Mux.Sys Mux.SysProofs Frame.Model.

Theorem C11_send_dgram_spec : forall f fid port host data,
  e_mux_alive (f_ep f) = true ->
  (255 < len host -> do_send_dgram f fid port host data = (f, [2; 8])) /\
  (len host <= 255 -> e_tx_closed (f_ep f) = false ->
     do_send_dgram f fid port host data =
       (mkEff (f_ep f) (f_out f ++ [MBin (encode (Datagram fid port host data))]) (f_wakes f) (f_closed f) (f_done f), [0])).
Proof. exact send_dgram_spec. Qed.

Theorem C11_recv_dgram_spec : forall f fid port host data wd,
  wf (Datagram fid port host data) -> e_mux_alive (f_ep f) = true ->
  let '(f', r) := process_message f (MBin (encode (Datagram fid port host data))) wd in
  r = RxContinue /\ f_out f' = f_out f /\
  e_slots (f_ep f') = e_slots (f_ep f) /\ e_streams (f_ep f') = e_streams (f_ep f) /\
  e_blocked (f_ep f') = e_blocked (f_ep f) /\
  e_dgram_q (f_ep f') =
    (if len (e_dgram_q (f_ep f)) <? e_dgram_cap (f_ep f)
     then e_dgram_q (f_ep f) ++ [mkDgram fid port host data] else e_dgram_q (f_ep f)).
Proof. exact recv_dgram_spec. Qed.

Theorem C11_get_dgram_fifo : forall f d q,
  e_mux_alive (f_ep f) = true -> e_dgram_q (f_ep f) = d :: q ->
  let '(f', r) := do_get_dgram f in
  e_dgram_q (f_ep f') = q /\
  r = [0; dg_id d; dg_port d] ++ put_lp (dg_host d) ++ put_lp (dg_data d).
Proof. exact get_dgram_fifo. Qed.

Example C11_nonvacuous_short_payload :
  wf (Datagram 7 53 [] []) /\ wf (Datagram 4294967295 0 [97] [1; 2; 3]).
Proof.
  unfold wf, bytes_ok, byte_ok; cbn [frame_id].
  repeat match goal with
         | |- _ /\ _ => split
         | |- Forall _ [] => apply Forall_nil
         | |- Forall _ (_ :: _) => apply Forall_cons
         | |- _ < _ => reflexivity
         | |- len _ <= _ => discriminate
         end.
Qed.
