(* C16 — keepalive detects a dead peer in bounded time and (almost) never a live one. *)
From PV Require Import Keepalive.Model Keepalive.Proofs.

(* a timeout is reported only when strictly more than T has passed since the last pong *)
Theorem C16_no_early_timeout : forall s s' p, tick s = (s', p, true) ->
  exists t, k_to (s_cfg s) = Some t /\ t < s_now s - s_last_pong s /\ s_running s' = false /\ p = 0.
Proof. exact no_early_timeout. Qed.

(* a peer that stops answering is declared dead at a tick later than T and at most T + I after
   the last pong (or start-up), for every interval I and timeout T >= I, every history before *)
Theorem C16_dead_peer_detected_in_window : forall Iv T, 6 <= Iv -> Iv <= T ->
  forall n s p, on_grid Iv T s p ->
  let '(s', out) := run s (repeat (Adv Iv) n) in
  (s_running s' = true /\ s_now s' = s_now s + N.of_nat n * Iv /\ s_now s' - p <= T) \/
  (s_running s' = false /\ exists k, (k < n)%nat /\
     let tau := s_now s + (N.of_nat k + 1) * Iv in p + T < tau /\ tau <= p + T + Iv /\
     nth_error out (3 * k + 2) = Some 106).
Proof. exact dead_peer_detected_in_window. Qed.

Theorem C16_dead_peer_is_detected : forall Iv T, 6 <= Iv -> Iv <= T ->
  forall n s p, on_grid Iv T s p -> T + Iv < N.of_nat n * Iv ->
  s_running (fst (run s (repeat (Adv Iv) n))) = false.
Proof. exact dead_peer_is_detected. Qed.

(* a peer answering every ping before the next one is due never times out, whatever the
   answer delays (< I) and however long the connection lives *)
Theorem C16_prompt_peer_never_times_out : forall Iv T, 6 <= Iv -> Iv <= T ->
  forall offs s p, on_grid Iv T s p -> Forall (fun a => a < Iv) offs ->
  s_running (fst (run s (concat (map (fun a => [Adv a; Pong; Adv (Iv - a)]) offs)))) = true.
Proof. exact prompt_peer_never_times_out. Qed.

(* keepalive disabled: no ping, no timeout, ever; timeout indefinite: never a timeout *)
Theorem C16_disabled_is_silent : forall es s, k_int (s_cfg s) = None ->
  let '(s', out) := run s es in
  s_running s' = s_running s /\ k_int (s_cfg s') = None /\
  Forall (fun x => x = 0 \/ x = 1 \/ x = 2) out /\
  (forall i, nth_error out i = Some 106 -> False).
Proof. exact disabled_is_silent. Qed.
Theorem C16_no_timeout_when_indefinite : forall s, k_to (s_cfg s) = None -> snd (tick s) = false.
Proof. exact no_timeout_when_indefinite. Qed.

(* the clamp of the options API *)
Theorem C16_clamp : forall i t, match k_int (options 0 i t), k_to (options 0 i t) with
                                | Some iv, Some tv => iv <= tv
                                | _, _ => True
                                end.
Proof. exact clamp. Qed.

(* KNOWN FINDING (open): the literal clause "pings each answered within T => never times
   out" is refuted for answers slower than the interval; no implementation can satisfy it
   together with the T + I detection bound (DESIGN.md section 5) *)
Example C16_slow_but_live_peer_is_timed_out_refuted :
  let s0 := fst (fst (tick (init (options 0 1000 1500)))) in
  let '(s, out) := run s0 [Pong; Adv 1000; Adv 1000] in
  s_running s = false /\ out = [0; 0; 0; 1; 0; 0; 0; 1; 106].
Proof. exact slow_but_live_peer_is_timed_out. Qed.

Example C16_nonvacuous : on_grid 1000 1500 (fst (fst (tick (init (options 0 1000 1500))))) 0.
Proof. unfold on_grid. vm_compute. repeat split; auto; discriminate. Qed.

(* an answer that has arrived when the task runs is honoured even if a tick is due in the same poll *)
Theorem C16_pong_with_tick_counts : forall s d, s_running s = true ->
  let '(s', out) := step s (AdvPong d) in s_running s' = true /\ nth_error out 2 = Some 0.
Proof. exact pong_with_tick_counts. Qed.

(* a Ping sent by the peer on its own never counts as an answer to ours *)
Theorem C16_peer_ping_is_no_answer : forall s, s_last_pong (fst (step s PingIn)) = s_last_pong s.
Proof. exact peer_ping_is_no_answer. Qed.
