(* C05 — end-of-stream is reported exactly when the peer finished, after all its data. *)
From PV Require Import Flow.Core Flow.Proofs.

Theorem C05_eof_means_all : forall s n s', Inv s -> overrun s = false ->
  step s (Read n) = (s', OEof) -> fin s = true /\ readout s' = written s' /\ written s' = written s.
Proof. exact eof_means_all. Qed.

Theorem C05_eof_reachable : forall w t ls n s', 1 <= t -> 1 <= w < 4294967296 ->
  step (run (init w t) ls) (Read n) = (s', OEof) ->
  fin (run (init w t) ls) = true /\ readout s' = written s'.
Proof. exact eof_reachable. Qed.

(* after a local shutdown or abort further writes fail with BrokenPipe and transmit nothing *)
Theorem C05_write_after_close : forall s d, fin s = true -> step s (Write d) = (s, OBroken).
Proof. exact write_after_close_is_broken_pipe. Qed.

(* a zero-length write is an ordinary write (one frame, one credit); by C05_eof_reachable it
   cannot make the peer see end-of-stream, since [fin] stays false *)
Theorem C05_empty_write : forall s s' n, step s (Write []) = (s', OWritten n) ->
  fin s' = false /\ n = 0 /\ written s' = written s.
Proof.
  intros s s' n E. destruct (one_write_one_credit _ _ _ _ E) as (_ & _ & _ & -> & Wr).
  rewrite Wr, app_nil_r. repeat split; auto.
  revert E. cbn [step]. destruct (fin s); [discriminate|]. destruct (c s =? 0); [discriminate|].
  intros E; inversion E; reflexivity.
Qed.

Example C05_empty_write_not_eof :
  let s := run (init 2 1) [Write []; DelSR] in
  snd (step s (Read 4)) = OPending.
Proof. vm_compute. reflexivity. Qed.
Example C05_half_close :
  let s := run (init 2 1) [Write [1]; Shutdown; DelSR; DelSR] in
  snd (step s (Read 4)) = OData [1] /\ snd (step (fst (step s (Read 4))) (Read 4)) = OEof.
Proof. vm_compute. auto. Qed.
