(* C05 — end-of-stream is reported exactly when the peer finished, after all its data. *)
From PV Require Import Flow.Core Flow.Proofs.

Theorem C05_eof_means_all : forall s n s', Inv s -> overrun s = false ->
  step s (Read n) = (s', OEof) -> fin s = true /\ readout s' = written s' /\ written s' = written s.
Proof. exact eof_means_all. Qed.

Theorem C05_eof_reachable : forall w t ls n s', 1 <= t -> 1 <= w < 4294967296 ->
  step (run (init w t) ls) (Read n) = (s', OEof) ->
  fin (run (init w t) ls) = true /\ readout s' = written s'.
Proof. exact eof_reachable. Qed.

(* after a local shutdown or abort further writes fail with BrokenPipe and transmit nothing *)
Theorem C05_write_after_close : forall s d, fin s = true -> step s (Write d) = (s, OBroken).
Proof. exact write_after_close_is_broken_pipe. Qed.

(* a zero-length write is an ordinary write (one frame, one credit); by C05_eof_reachable it
   cannot make the peer see end-of-stream, since [fin] stays false *)
Theorem C05_empty_write : forall s s' n, step s (Write []) = (s', OWritten n) ->
  fin s' = false /\ n = 0 /\ written s' = written s.
Proof.
  intros s s' n E. destruct (one_write_one_credit _ _ _ _ E) as (_ & _ & _ & -> & Wr).
  rewrite Wr, app_nil_r. repeat split; auto.
  revert E. cbn [step]. destruct (fin s); [discriminate|]. destruct (c s =? 0); [discriminate|].
  intros E; inversion E; reflexivity.
Qed.

Example C05_empty_write_not_eof :
  let s := run (init 2 1) [Write []; DelSR] in
  snd (step s (Read 4)) = OPending.
Proof. vm_compute. reflexivity. Qed.
Example C05_half_close :
  let s := run (init 2 1) [Write [1]; Shutdown; DelSR; DelSR] in
  snd (step s (Read 4)) = OData [1] /\ snd (step (fst (step s (Read 4))) (Read 4)) = OEof.
Proof. vm_compute. auto. Qed.

(* ---- the flow model is the projection of the endpoint model onto one flow (Mux/Project.v):
   the endpoint's function acts on the stream object as the flow label does, returns the same
   result and puts on the wire the frames the flow model puts in flight ---- *)
From PV Require Import Mux.Sys Mux.Project.

Theorem C05_shutdown_projects : forall f sid oid s y f' res y' o,
  live_stream (f_ep f) sid = Some (oid, s) -> e_tx_closed (f_ep f) = false -> S_view y s ->
  do_shutdown f sid = (f', res) -> F.step y F.Shutdown = (y', o) ->
  res = enc_out o /\
  exists s', get_stream (f_ep f') oid = Some s' /\ S_view y' s' /\ same_R s s' /\ st_id s' = st_id s /\
  exists added, F.wsr y' = F.wsr y ++ added /\ f_out f' = f_out f ++ map (wire (st_id s)) added.
Proof. exact shutdown_projects. Qed.

Theorem C05_finish_projects : forall f id wd oid s x r f' rr,
  slot_get (e_slots (f_ep f)) id = Some (SEstablished oid) -> get_stream (f_ep f) oid = Some s ->
  R_view x (e_rwnd (f_ep f)) s -> F.wsr x = F.FFin :: r ->
  process_frame f (Finish id) wd = (f', rr) ->
  let x' := fst (F.step x F.DelSR) in
  rr = RxContinue /\ F.wsr x' = r /\
  exists s', get_stream (f_ep f') oid = Some s' /\ R_view x' (e_rwnd (f_ep f)) s' /\ same_S s s' /\
    st_id s' = st_id s /\ e_slots (f_ep f') = e_slots (f_ep f) /\ f_out f' = f_out f.
Proof. exact finish_projects. Qed.
