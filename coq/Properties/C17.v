(* C17 — TLS peers are authenticated exactly as configured. *)
From PV Require Import Tls.Model Tls.Proofs.

Theorem C17_reaches_iff : forall c,
  reaches c = true <->
  ((t_skip c = true \/ (t_server_cert c = Trusted /\ t_name_ok c = true)) /\
   (t_client_ca c = false \/ t_client_cert c = CTrusted)).
Proof. exact reaches_iff. Qed.

Theorem C17_skip_accepts_any_certificate : forall c, t_skip c = true -> client_accepts c = true.
Proof. exact skip_accepts_any_certificate. Qed.

Theorem C17_verify_needs_chain_and_name : forall c, t_skip c = false ->
  client_accepts c = true -> t_server_cert c = Trusted /\ t_name_ok c = true.
Proof. exact verify_needs_chain_and_name. Qed.

Theorem C17_client_ca_requires_issued_cert : forall c, t_client_ca c = true ->
  server_accepts c = true -> t_client_cert c = CTrusted.
Proof. exact client_ca_requires_issued_cert. Qed.

Theorem C17_no_client_ca_never_asks : forall c, t_client_ca c = false ->
  server_asks c = false /\ server_accepts c = true.
Proof. exact no_client_ca_never_asks. Qed.

Theorem C17_established_undisturbed : forall es s k c,
  nth_error (i_conns s) k = Some c -> nth_error (i_conns (final s es)) k = Some c.
Proof. exact established_undisturbed. Qed.

Theorem C17_handshake_sees_latest : forall es s, i_cur (final s es) = last_reload (i_cur s) es.
Proof. exact handshake_sees_latest. Qed.

Theorem C17_returning_sees_latest : forall es s wc,
  let cur := last_reload (i_cur s) es in
  snd (istep (final s es) (IReturning wc)) =
  if admitted (snd cur) (if wc then 1 else 0) then [1; fst cur] else [0].
Proof. exact returning_sees_latest. Qed.

Theorem C17_fresh_sees_latest : forall es s kind,
  let cur := last_reload (i_cur s) es in
  snd (istep (final s es) (IFresh kind)) = if admitted (snd cur) kind then [1; fst cur] else [0].
Proof. exact fresh_sees_latest. Qed.

Theorem C17_admitted_iff : forall ca kind, admitted ca kind = true <-> ca = 0 \/ ca = kind.
Proof. exact admitted_iff. Qed.

(* the requested name: --tls-server-name over --hostname over the URL host, whatever the others are *)
Theorem C17_sni_overrides : forall url hn n, select_name url hn (Some n) = n.
Proof. exact sni_overrides. Qed.
Theorem C17_hostname_overrides_url : forall url h, select_name url (Some h) None = h.
Proof. exact hostname_overrides_url. Qed.
Theorem C17_url_host_by_default : forall url, select_name url None None = url.
Proof. exact url_host_by_default. Qed.
Theorem C17_name_case_iff : forall url hn sni, name_case_reaches url hn sni false = true <-> select_name url hn sni = 1.
Proof. exact name_case_iff. Qed.
