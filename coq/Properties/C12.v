(* C12 — no lost wake-ups or credit races between writer and connection task.
   For every initial credit, acknowledge amount, number of writer polls and EVERY interleaving
   of the individual atomic operations (sequentially consistent; see DESIGN.md: partial). *)
From PV Require Import Atomic.Model Atomic.Proofs.

Theorem C12_reachable_inv : forall c np ack close,
  c + (match ack with Some n => n | None => 0 end) < 4294967296 ->
  (match ack with Some n => 1 <= n | None => True end) ->
  forall s, reach (init c np ack close) s -> Inv c (match ack with Some n => n | None => 0 end) s.
Proof. exact reachable_inv. Qed.

Theorem C12_credit_conservation : forall c np ack close,
  c + (match ack with Some n => n | None => 0 end) < 4294967296 ->
  (match ack with Some n => 1 <= n | None => True end) ->
  forall s, reach (init c np ack close) s ->
  credit s + taken s = c + added s /\ taken s = nready (results s).
Proof. exact credit_conservation. Qed.

Theorem C12_no_send_without_credit : forall c np ack close,
  c + (match ack with Some n => n | None => 0 end) < 4294967296 ->
  (match ack with Some n => 1 <= n | None => True end) ->
  forall s s' pre, reach (init c np ack close) s ->
  step s TW = Some s' -> results s' = pre ++ [RReady] -> results s = pre ->
  1 <= credit s /\ credit s' = credit s - 1 /\ taken s' = taken s + 1.
Proof. exact no_send_without_credit. Qed.

Theorem C12_pending_implies_registered_or_woken : forall c np ack close,
  c + (match ack with Some n => n | None => 0 end) < 4294967296 ->
  (match ack with Some n => 1 <= n | None => True end) ->
  forall s, reach (init c np ack close) s -> pend s -> reg s = true \/ woken s = true.
Proof. exact pending_implies_registered_or_woken. Qed.

Theorem C12_no_lost_wakeup : forall c np ack close,
  c + (match ack with Some n => n | None => 0 end) < 4294967296 ->
  (match ack with Some n => 1 <= n | None => True end) ->
  forall s, reach (init c np ack close) s -> pend s ->
  pck s = KDone -> (pcd s = DDone \/ pcd s = DNone) ->
  woken s = true \/ (credit s = 0 /\ fin s = false).
Proof. exact no_lost_wakeup. Qed.

(* the pinned tree's writer (no re-check after registering) loses the wake-up: on that
   program the repaired model has no such outcome *)
Example C12_no_lost_wakeup_outcome :
  outcome_set (explore 200 (init 0 1 (Some 1) false)) = [[1; 0; 0; 0; 0]; [1; 0; 0; 0; 1]; [1; 2; 1; 0; 1]].
Proof. vm_compute. reflexivity. Qed.
