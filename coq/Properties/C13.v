(* C13 — the stream-to-socket bridge relays faithfully, half-closes, terminates promptly on errors. *)
From PV Require Import Bridge.Model Bridge.Proofs Mux.Sys Mux.BridgeSys.
From Coq Require Import ZifyBool ZifyN ZifyNat.

(* One poll of the bridge, for EVERY environment (every behaviour of the stream and of the
   local side: partial writes, readiness patterns, errors at any operation): *)
Theorem C13_poll_ok : forall (E : Type) (Ops : ops E),
  (forall buf e k e', loc_write Ops buf e = (Ready k, e') -> k <= len buf) ->
  forall fuel b e b' res e' log,
  poll E Ops fuel b e = (b', res, e', log) ->
  (* an operation failure on either side makes this very poll return an error (promptly,
     no unrelated traffic needed); an error is returned only if an operation failed *)
  (fails log <> [] <-> is_err res) /\ (forall x, res = BErr x -> In x (fails log)) /\
  (* Pending only with a waker registered by an operation of this poll *)
  (res = BPending -> pends log <> []) /\
  (* byte counters = bytes actually relayed *)
  rcount (b_r b') = rcount (b_r b) + len (to_local log) /\
  wcount (b_w b') = wcount (b_w b) + len (sent log) /\
  (forall n m, res = BReady n m -> b' = mkB (RD n) (WD m)) /\
  (* end-of-stream on either side is propagated to the other as a half-close *)
  (b_r b' = RD (rcount (b_r b')) -> b_r b <> RD (rcount (b_r b)) -> has EvLocShutdown log = true) /\
  (b_w b' = WD (wcount (b_w b')) -> b_w b <> WD (wcount (b_w b)) -> has EvMuxShutdown log = true) /\
  (* everything consumed from the local side is sent, in order, one credit per frame *)
  (match res with BReady _ _ | BPending => sent log = taken log /\ npermit log = nframes log | _ => True end).
Proof. exact poll_ok. Qed.

(* over any number of polls, whatever the two sides do in between: the counters are the
   totals, and completion reports exactly the bytes relayed in each direction *)
Theorem C13_counts_are_totals : forall (E : Type) (Ops : ops E),
  (forall buf e k e', loc_write Ops buf e = (Ready k, e') -> k <= len buf) ->
  forall fuel b L, reach E Ops fuel b L ->
  rcount (b_r b) = len (to_local L) /\ wcount (b_w b) = len (sent L).
Proof. exact counts_are_totals. Qed.

Theorem C13_completes_with_counts : forall (E : Type) (Ops : ops E),
  (forall buf e k e', loc_write Ops buf e = (Ready k, e') -> k <= len buf) ->
  forall fuel b L e b' n m e' log, reach E Ops fuel b L ->
  poll E Ops fuel b e = (b', BReady n m, e', log) ->
  n = len (to_local (L ++ log)) /\ m = len (sent (L ++ log)) /\ b' = mkB (RD n) (WD m).
Proof. exact completes_with_counts. Qed.

(* the environment the harness runs (stream of the pair model + scripted local side)
   satisfies the write contract, so the theorems apply to it *)
Theorem C13_env_write_contract : forall buf v k v', loc_write env_ops buf v = (Ready k, v') -> k <= len buf.
Proof.
  intros buf v k v'. cbn [loc_write env_ops]. destruct (l_wq (v_l v)) as [|[a| |] r]; intros H; inversion H; subst; lia.
Qed.

(* the pinned tree's failure (a read error right after data is swallowed: Pending without a
   waker) cannot happen: on that script the poll returns the error *)
Example C13_error_after_data :
  let e0 := init_ep 0 4 1 2 1 0 3 [] in
  let e1 := fst (add_stream e0 (new_stream e0 7 4 [] 0)) in
  let env := mkEnv (start e1) 0 (mkLocal [RData [97]; RErr] [] [] [] [] false false) in
  let '(_, res, _, log) := poll benv env_ops 50 binit env in
  res = BErr IO_RESET /\ sent log = [97].
Proof. vm_compute. auto. Qed.
