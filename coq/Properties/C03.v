(* C03 — credit-based flow control is never violated between conforming endpoints. *)
From PV Require Import Flow.Core Flow.Proofs.

(* the receive window is never overrun, for every window / threshold pair and every schedule *)
Theorem C03_no_overrun : forall w t ls, 1 <= t -> 1 <= w < 4294967296 -> overrun (run (init w t) ls) = false.
Proof. exact no_overrun. Qed.

(* Push frames on the wire minus credit returned never exceed the advertised window; the
   acknowledged total is the consumed total minus the pending count: never more than
   consumed, never the same frame twice; only frames that were sent are consumed *)
Theorem C03_window_respected : forall s, Inv s -> sgone s = false ->
  nsent s <= W s + nret s /\ nack s + u s = npop s /\ nret s <= nack s /\ npop s <= nsent s.
Proof. exact window_respected. Qed.

Theorem C03_credit_equation : forall s, Inv s -> ralive s = true -> overrun s = false -> cond s -> sgone s = false ->
  c s + npush (wsr s) + len (rxq s) + u s + sumN (wrs s) = W s.
Proof. intros s H. exact (i_eq s H). Qed.

Theorem C03_one_write_one_credit : forall s d s' n, step s (Write d) = (s', OWritten n) ->
  c s = c s' + 1 /\ nsent s' = nsent s + 1 /\ wsr s' = wsr s ++ [FPush d] /\ n = len d /\
  written s' = written s ++ d.
Proof. exact one_write_one_credit. Qed.

Theorem C03_write_refused_no_effect : forall s d s' o, step s (Write d) = (s', o) ->
  (o = OBroken \/ o = OPending) -> s' = s.
Proof. exact write_refused_no_effect. Qed.

Theorem C03_reachable_inv : forall w t ls, 1 <= t -> 1 <= w < 4294967296 -> Inv (run (init w t) ls).
Proof. intros w t ls Ht Hw. apply run_inv, inv_init; auto. Qed.

(* ---- writers racing for credit (atomic level; Atomic/TwoWriters.v) ---- *)
From PV Require Import Atomic.Model Atomic.Proofs Atomic.TwoWriters Atomic.TwoProofs.

(* two writers sharing one stream, an acknowledge and a close, every interleaving of their atomic
   operations, any initial credit, grant and numbers of polls: credit is conserved *)
Theorem C03_racing_writers_conservation : forall c pa pb ack close,
  c + (match ack with Some n => n | None => 0 end) < 4294967296 ->
  forall s, reach2 (init2 c pa pb ack close) s ->
  c2 s + nready (w_res (wa s)) + nready (w_res (wb s)) = c + added2 s.
Proof. exact racing_writers_conservation. Qed.

Theorem C03_racing_writers_no_overdraw : forall c pa pb ack close,
  c + (match ack with Some n => n | None => 0 end) < 4294967296 ->
  forall s, reach2 (init2 c pa pb ack close) s ->
  nready (w_res (wa s)) + nready (w_res (wb s)) <= c + (match ack with Some n => n | None => 0 end).
Proof. exact racing_writers_no_overdraw. Qed.

(* one successful poll takes exactly one unit from a positive credit *)
Theorem C03_racing_writer_takes_one : forall c pa pb ack close,
  c + (match ack with Some n => n | None => 0 end) < 4294967296 ->
  forall s s' t pre, reach2 (init2 c pa pb ack close) s ->
  (t = TA \/ t = TB) -> step2 s t = Some s' ->
  (let w := match t with TA => wa | _ => wb end in w_res (w s') = pre ++ [RReady] /\ w_res (w s) = pre) ->
  1 <= c2 s /\ c2 s' = c2 s - 1.
Proof. exact racing_writer_takes_one. Qed.

(* ---- the flow model is the projection of the endpoint model onto one flow (Mux/Project.v):
   the endpoint's function acts on the stream object as the flow label does, returns the same
   result and puts on the wire the frames the flow model puts in flight ---- *)
From PV Require Import Mux.Sys Mux.Project.

Theorem C03_write_projects : forall f sid data oid s y f' res y' o,
  live_stream (f_ep f) sid = Some (oid, s) -> e_tx_closed (f_ep f) = false -> S_view y s ->
  do_write f sid data = (f', res) -> F.step y (F.Write data) = (y', o) ->
  res = enc_out o /\
  exists s', get_stream (f_ep f') oid = Some s' /\ S_view y' s' /\ same_R s s' /\ st_id s' = st_id s /\
  exists added, F.wsr y' = F.wsr y ++ added /\ f_out f' = f_out f ++ map (wire (st_id s)) added.
Proof. exact write_projects. Qed.

Theorem C03_acknowledge_projects : forall f id n wd oid s y r f' rr,
  slot_get (e_slots (f_ep f)) id = Some (SEstablished oid) -> get_stream (f_ep f) oid = Some s ->
  S_view y s -> F.sgone y = false -> F.wrs y = n :: r ->
  process_frame f (Acknowledge id n) wd = (f', rr) ->
  let y' := fst (F.step y F.DelRS) in
  rr = RxContinue /\ F.wrs y' = r /\
  exists s', get_stream (f_ep f') oid = Some s' /\ S_view y' s' /\ same_R s s' /\ st_id s' = st_id s /\
    e_slots (f_ep f') = e_slots (f_ep f) /\ f_out f' = f_out f.
Proof. exact acknowledge_projects. Qed.

Theorem C03_push_projects : forall f id data wd oid s x y r f' rr,
  slot_get (e_slots (f_ep f)) id = Some (SEstablished oid) -> get_stream (f_ep f) oid = Some s ->
  e_tx_closed (f_ep f) = false ->
  R_view x (e_rwnd (f_ep f)) s -> S_view y s -> F.wsr x = F.FPush data :: r ->
  process_frame f (Push id data) wd = (f', rr) ->
  let x' := fst (F.step x F.DelSR) in
  let ov := st_txopen s && st_alive s && negb (len (st_rxq s) <? e_rwnd (f_ep f)) in
  rr = RxContinue /\ F.wsr x' = r /\
  exists s', get_stream (f_ep f') oid = Some s' /\ R_view x' (e_rwnd (f_ep f)) s' /\ st_id s' = st_id s /\
   if ov then
     (* the overrun closes the flow: the outgoing direction of the receiver is aborted *)
     let y' := fst (F.step y F.AbortS) in
     S_view y' s' /\ slot_get (e_slots (f_ep f')) id = None /\
     exists added, F.wsr y' = F.wsr y ++ added /\ f_out f' = f_out f ++ map (wire id) added
   else
     same_S s s' /\ e_slots (f_ep f') = e_slots (f_ep f) /\
     f_out f' = f_out f ++ (if st_txopen s then [] else [wire id F.FRst]).
Proof. exact push_projects. Qed.

(* ---- the pair model restricted to one established flow is simulated by the two flow models (Mux/Simulate.v):
   the flow theorems above are theorems about the pair model for every single-flow script ---- *)
From PV Require Import Mux.Simulate.

Theorem C03_pair_flow_invariants : forall id ls s fs, Rel id s fs -> Forall lab_ok ls ->
  let fs' := snd (flow_results fs ls) in
  Rel id (snd (pair_results s ls)) fs' /\
  FP.Inv (FD.f0 fs') /\ FP.Inv (FD.f1 fs') /\
  F.overrun (FD.f0 fs') = false /\ F.overrun (FD.f1 fs') = false /\
  (exists rest, F.written (FD.f0 fs') = F.readout (FD.f0 fs') ++ rest) /\
  (exists rest, F.written (FD.f1 fs') = F.readout (FD.f1 fs') ++ rest).
Proof. exact pair_flow_invariants. Qed.
