(* C03 — credit-based flow control is never violated between conforming endpoints. *)
From PV Require Import Flow.Core Flow.Proofs.

(* the receive window is never overrun, for every window / threshold pair and every schedule *)
Theorem C03_no_overrun : forall w t ls, 1 <= t -> 1 <= w < 4294967296 -> overrun (run (init w t) ls) = false.
Proof. exact no_overrun. Qed.

(* Push frames on the wire minus credit returned never exceed the advertised window; the
   acknowledged total is the consumed total minus the pending count: never more than
   consumed, never the same frame twice; only frames that were sent are consumed *)
Theorem C03_window_respected : forall s, Inv s -> sgone s = false ->
  nsent s <= W s + nret s /\ nack s + u s = npop s /\ nret s <= nack s /\ npop s <= nsent s.
Proof. exact window_respected. Qed.

Theorem C03_credit_equation : forall s, Inv s -> ralive s = true -> overrun s = false -> cond s -> sgone s = false ->
  c s + npush (wsr s) + len (rxq s) + u s + sumN (wrs s) = W s.
Proof. intros s H. exact (i_eq s H). Qed.

Theorem C03_one_write_one_credit : forall s d s' n, step s (Write d) = (s', OWritten n) ->
  c s = c s' + 1 /\ nsent s' = nsent s + 1 /\ wsr s' = wsr s ++ [FPush d] /\ n = len d /\
  written s' = written s ++ d.
Proof. exact one_write_one_credit. Qed.

Theorem C03_write_refused_no_effect : forall s d s' o, step s (Write d) = (s', o) ->
  (o = OBroken \/ o = OPending) -> s' = s.
Proof. exact write_refused_no_effect. Qed.

Theorem C03_reachable_inv : forall w t ls, 1 <= t -> 1 <= w < 4294967296 -> Inv (run (init w t) ls).
Proof. intros w t ls Ht Hw. apply run_inv, inv_init; auto. Qed.

(* ---- writers racing for credit (atomic level; Atomic/TwoWriters.v) ---- *)
From PV Require Import Atomic.Model Atomic.Proofs Atomic.TwoWriters Atomic.TwoProofs.

(* two writers sharing one stream, an acknowledge and a close, every interleaving of their atomic
   operations, any initial credit, grant and numbers of polls: credit is conserved *)
Theorem C03_racing_writers_conservation : forall c pa pb ack close,
  c + (match ack with Some n => n | None => 0 end) < 4294967296 ->
  forall s, reach2 (init2 c pa pb ack close) s ->
  c2 s + nready (w_res (wa s)) + nready (w_res (wb s)) = c + added2 s.
Proof. exact racing_writers_conservation. Qed.

Theorem C03_racing_writers_no_overdraw : forall c pa pb ack close,
  c + (match ack with Some n => n | None => 0 end) < 4294967296 ->
  forall s, reach2 (init2 c pa pb ack close) s ->
  nready (w_res (wa s)) + nready (w_res (wb s)) <= c + (match ack with Some n => n | None => 0 end).
Proof. exact racing_writers_no_overdraw. Qed.

(* one successful poll takes exactly one unit from a positive credit *)
Theorem C03_racing_writer_takes_one : forall c pa pb ack close,
  c + (match ack with Some n => n | None => 0 end) < 4294967296 ->
  forall s s' t pre, reach2 (init2 c pa pb ack close) s ->
  (t = TA \/ t = TB) -> step2 s t = Some s' ->
  (let w := match t with TA => wa | _ => wb end in w_res (w s') = pre ++ [RReady] /\ w_res (w s) = pre) ->
  1 <= c2 s /\ c2 s' = c2 s - 1.
Proof. exact racing_writer_takes_one. Qed.
