(* C08 — when the connection ends, everything resolves. *)
From PV Require Import Mux.Sys Mux.SysProofs.

(* the end of the task: no flow is left, nothing more is sent, the pending accept /
   datagram / bind-request calls are released, the task future resolves with its cause *)
Theorem C08_finish_task_spec : forall f code,
  let f' := finish_task f code in
  e_slots (f_ep f') = [] /\ e_phase (f_ep f') = Ended /\ f_out f' = f_out f /\
  f_done f' = f_done f ++ [e_idx (f_ep f'); code] /\
  e_accept_park (f_ep f') = false /\ e_dgram_park (f_ep f') = false /\ e_nextbind_park (f_ep f') = false.
Proof. exact finish_task_spec. Qed.

(* closing a flow locally: writer fails from now on (finish_sent), reader gets what was
   delivered and then end-of-stream (sender gone, queue and buffer kept) *)
Theorem C08_close_local_stream : forall f oid id inh s,
  get_stream (f_ep f) oid = Some s ->
  exists s', get_stream (f_ep (close_flow_local f (SEstablished oid) id inh)) oid = Some s' /\
             st_fin s' = true /\ st_txopen s' = false /\ st_rxq s' = st_rxq s /\ st_buf s' = st_buf s.
Proof. exact close_local_stream. Qed.

(* an error-caused wind-down never waits for the peer *)
Theorem C08_wind_down_nowait : forall f code se,
  exists g, wind_down f code false se = finish_task g code /\
            f_out g = f_out f /\ f_done g = f_done f /\ f_closed g = true.
Proof. exact wind_down_nowait. Qed.

Theorem C08_invalid_message_ends : forall e b,
  e_phase e = Running -> e_blocked e = BlNone -> (forall fr, decode b <> Ok fr) ->
  let '(f', consumed) := deliver (start e) (MBin b) in
  consumed = true /\ e_phase (f_ep f') = Ended /\ e_slots (f_ep f') = [] /\
  f_done f' = [e_idx (f_ep f'); 109] /\ f_out f' = [] /\ f_closed f' = true.
Proof. exact invalid_message_ends. Qed.
