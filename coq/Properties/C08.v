(* C08 — when the connection ends, everything resolves. *)
From PV Require Import Mux.Sys Mux.SysProofs.

(* the end of the task: no flow is left, nothing more is sent, the pending accept /
   datagram / bind-request calls are released, the task future resolves with its cause *)
Theorem C08_finish_task_spec : forall f code,
  let f' := finish_task f code in
  e_slots (f_ep f') = [] /\ e_phase (f_ep f') = Ended /\ f_out f' = f_out f /\
  f_done f' = f_done f ++ [e_idx (f_ep f'); code] /\
  e_accept_park (f_ep f') = false /\ e_dgram_park (f_ep f') = false /\ e_nextbind_park (f_ep f') = false.
Proof. exact finish_task_spec. Qed.

(* closing a flow locally: writer fails from now on (finish_sent), reader gets what was
   delivered and then end-of-stream (sender gone, queue and buffer kept) *)
Theorem C08_close_local_stream : forall f oid id inh s,
  get_stream (f_ep f) oid = Some s ->
  exists s', get_stream (f_ep (close_flow_local f (SEstablished oid) id inh)) oid = Some s' /\
             st_fin s' = true /\ st_txopen s' = false /\ st_rxq s' = st_rxq s /\ st_buf s' = st_buf s.
Proof. exact close_local_stream. Qed.

(* an error-caused wind-down never waits for the peer *)
Theorem C08_wind_down_nowait : forall f code se,
  exists g, wind_down f code false se false = finish_task g code /\
            f_out g = [] /\ f_done g = f_done f /\ f_closed g = true.
Proof. exact wind_down_nowait. Qed.

Theorem C08_invalid_message_ends : forall e b,
  e_phase e = Running -> e_blocked e = BlNone -> (forall fr, decode b <> Ok fr) ->
  let '(f', consumed) := deliver (start e) (MBin b) in
  consumed = true /\ e_phase (f_ep f') = Ended /\ e_slots (f_ep f') = [] /\
  f_done f' = [e_idx (f_ep f'); 109] /\ f_out f' = [] /\ f_closed f' = true.
Proof. exact invalid_message_ends. Qed.

(* the send loop never loses or reorders a queued message, whatever the sink's readiness *)
Theorem C08_settle_conserves : forall f,
  match e_phase (f_ep f) with WindDown6 _ | Ended => False | _ => True end ->
  f_out (settle f) ++ e_txq (f_ep (settle f)) = e_txq (f_ep f) ++ f_out f.
Proof. exact settle_conserves. Qed.

(* a handle drop on a healthy, ready transport: everything queued goes out, in order, and only
   then is the sink closed *)
Theorem C08_settle_drain : forall f code ended,
  e_phase (f_ep f) = WindDown4 code ended -> e_permits (f_ep f) = None ->
  f_out (settle f) = e_txq (f_ep f) ++ f_out f /\ f_closed (settle f) = true.
Proof. exact settle_drain. Qed.

(* queued under back-pressure, then the handle is dropped, then the sink becomes ready:
   computed on the pair model (data, Finish, a datagram: all transmitted in order, then Close) *)
Example C08_drop_flushes_under_backpressure :
  let a := init_ep 0 4 1 2 1 0 3 [7] in
  let b := init_ep 1 4 1 2 1 0 3 [] in
  let '(s, outs) := run (mkSys a b [] [])
     [LOpen 0 80 [97]; LDeliver 0; LDeliver 1; LOpenPoll 0 0; LPermits 0 0;
      LWrite 0 0 [1]; LWrite 0 0 [2]; LShutdown 0 0; LSendDgram 0 9 53 [] [5]; LDropMux 0; LPermits 0 999999] in
  map (fun o => length (o_a o)) outs = [1; 0; 0; 0; 0; 0; 0; 0; 0; 0; 4]%nat /\
  o_a_closed (last outs (mkLout [] [] [] false [] false [])) = true.
Proof. vm_compute. auto. Qed.

(* a burst of messages reaching the task in one poll is processed exactly as the same messages
   arriving one per poll, as long as none of them makes the receive loop fail (when one does, the
   error-caused wind-down additionally dispatches what is already in the source) *)
From PV Require Import Mux.Burst.
Theorem C08_burst_is_sequential : forall ms f, no_rx_error f ms -> deliver_all f ms = seq_deliver f ms.
Proof. exact burst_is_sequential. Qed.

(* the last clause of C08 ("a local drop still flushes") fails in one situation, on the model as on the code: the witness *)
From PV Require Import Mux.DropFlush.
Theorem C08_drop_flush_refuted_witness :
  exists os, df_outs = Some os /\
    nth_error (map o_res os) 8 = Some [0; 1] /\
    nth_error (map o_done os) 9 = Some [1; 101] /\
    flat_map o_b os = [MBin (encode (Acknowledge 5 4)); MBin (encode (Acknowledge 6 4)); MBin (encode (Acknowledge 7 4))].
Proof. exact C08_drop_flush_refuted. Qed.
