(* C10 — a misbehaving peer cannot crash, wedge or cross-contaminate an endpoint. *)
From PV Require Import Mux.Sys Mux.SysProofs.

(* never a Reset in reply to a Reset, in any state of the endpoint *)
Theorem C10_reset_never_answered : forall f id wd,
  f_out (fst (process_frame f (Reset id) wd)) = f_out f /\ snd (process_frame f (Reset id) wd) = RxContinue.
Proof. exact reset_never_answered. Qed.

(* frames on flows the endpoint does not know: exactly one Reset, no other effect *)
Theorem C10_unknown_flow_reset : forall f fr wd,
  slot_get (e_slots (f_ep f)) (frame_id fr) = None ->
  match fr with Acknowledge _ _ | Finish _ | Push _ _ => True | _ => False end ->
  process_frame f fr wd = (emit f (Reset (frame_id fr)), RxContinue).
Proof. exact unknown_flow_reset. Qed.

Theorem C10_connect_rejected : forall f id w p h wd,
  id = 0 \/ slot_get (e_slots (f_ep f)) id <> None ->
  process_frame f (Connect id w p h) wd = (emit f (Reset id), RxContinue).
Proof. exact connect_rejected. Qed.

Theorem C10_bind_disabled_reset : forall f id bt p h wd,
  e_bind_cap (f_ep f) = 0 -> process_frame f (Bind id bt p h) wd = (emit f (Reset id), RxContinue).
Proof. exact bind_disabled_reset. Qed.

(* more Push frames than the window allows: only the offending flow is closed *)
Theorem C10_overrun_closes_offender : forall f id data oid s wd,
  slot_get (e_slots (f_ep f)) id = Some (SEstablished oid) ->
  get_stream (f_ep f) oid = Some s -> st_txopen s = true -> st_alive s = true ->
  e_rwnd (f_ep f) <= len (st_rxq s) ->
  process_frame f (Push id data) wd = (close_flow f id false, RxContinue).
Proof. exact overrun_closes_offender. Qed.

(* whatever frame arrives for flow i, every other flow keeps its slot *)
Theorem C10_frame_rule_slots : forall f fr wd id', id' <> frame_id fr ->
  slot_get (e_slots (f_ep (fst (process_frame f fr wd)))) id' = slot_get (e_slots (f_ep f)) id'.
Proof. exact frame_rule_slots. Qed.

(* a message that is not a valid frame ends the connection at once with InvalidFrame *)
Theorem C10_invalid_message_ends : forall e b,
  e_phase e = Running -> e_blocked e = BlNone -> (forall fr, decode b <> Ok fr) ->
  let '(f', consumed) := deliver (start e) (MBin b) in
  consumed = true /\ e_phase (f_ep f') = Ended /\ e_slots (f_ep f') = [] /\
  f_done f' = [e_idx (f_ep f'); 109] /\ f_out f' = [] /\ f_closed f' = true.
Proof. exact invalid_message_ends. Qed.

Example C10_nonvacuous :
  let e := init_ep 0 2 1 1 1 0 3 [] in
  fst (process_frame (start e) (Push 5 [1]) false) = emit (start e) (Reset 5).
Proof. vm_compute. reflexivity. Qed.
