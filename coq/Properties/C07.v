(* C07 — stream opening: correct target, credit = advertised window, disciplined flow ids. *)
From PV Require Import Mux.Sys Mux.SysProofs.

(* the id an endpoint proposes is never 0 and never one it already uses *)
Theorem C07_alloc_id_nonzero_unused : forall fuel e id e',
  alloc_id fuel e = (id, e') -> all_taken fuel e = false ->
  id <> 0 /\ slot_get (e_slots e) id = None /\ e_slots e' = e_slots e.
Proof. exact alloc_id_nonzero_unused. Qed.

(* one attempt of a request: rejected for good once the attempts are used up, else exactly
   one Connect with our window and the requested target, and one attempt fewer *)
Theorem C07_open_attempt_spec : forall f k o f' r,
  open_attempt f k o = (f', r) ->
  (op_retries o = 0 /\ r = [2; 5] /\ f_out f' = f_out f /\ e_slots (f_ep f') = e_slots (f_ep f)) \/
  (0 < op_retries o /\
   exists id e1, alloc_id 64 (f_ep f) = (id, e1) /\
     slot_get (e_slots (f_ep f')) id = Some (SRequested k) /\
     ((e_tx_closed e1 = true /\ r = [2; 2] /\ f_out f' = f_out f) \/
      (e_tx_closed e1 = false /\ r = R_PENDING /\
       f_out f' = f_out f ++ [MBin (encode (Connect id (e_rwnd e1) (op_port o) (op_host o)))] /\
       exists o', nth_opt (e_opens (f_ep f')) k = nth_opt (upd (e_opens e1) k o') k /\
                  op_retries o' = op_retries o - 1))).
Proof. exact open_attempt_spec. Qed.

(* Connect with id 0 or an id in use: one Reset, the existing flow is not disturbed *)
Theorem C07_connect_rejected : forall f id w p h wd,
  id = 0 \/ slot_get (e_slots (f_ep f)) id <> None ->
  process_frame f (Connect id w p h) wd = (emit f (Reset id), RxContinue).
Proof. exact connect_rejected. Qed.

(* an accepted Connect yields exactly one stream, with the requested host bytes and port,
   send credit = the peer's advertised window; the reply advertises our window *)
Theorem C07_connect_accepted : forall f id w p h,
  id <> 0 -> slot_get (e_slots (f_ep f)) id = None ->
  e_tx_closed (f_ep f) = false -> e_mux_alive (f_ep f) = true ->
  let '(f', r) := process_frame f (Connect id w p h) false in
  let oid := len (e_streams (f_ep f)) in
  r = RxContinue /\
  slot_get (e_slots (f_ep f')) id = Some (SEstablished oid) /\
  f_out f' = f_out f ++ [MBin (encode (Acknowledge id (e_rwnd (f_ep f))))] /\
  (forall s, nth_error (e_streams (f_ep f) ++ [s]) (N.to_nat oid) = Some s) /\
  st_credit (new_stream (f_ep f) id w h p) = w /\ st_host (new_stream (f_ep f) id w h p) = h /\
  st_port (new_stream (f_ep f) id w h p) = p.
Proof. exact connect_accepted. Qed.

Theorem C07_connect_acknowledged : forall f id n k o,
  slot_get (e_slots (f_ep f)) id = Some (SRequested k) ->
  nth_opt (e_opens (f_ep f)) k = Some o -> op_rx_dropped o = false ->
  let '(f', r) := process_frame f (Acknowledge id n) false in
  let oid := len (e_streams (f_ep f)) in
  r = RxContinue /\ slot_get (e_slots (f_ep f')) id = Some (SEstablished oid) /\
  f_out f' = f_out f /\ st_credit (new_stream (f_ep f) id n [] 0) = n.
Proof. exact connect_acknowledged. Qed.

(* both endpoints opening with the same id at the same moment: both are refused, both
   retry with other ids, nothing is created twice (computed on the model) *)
Example C07_simultaneous_open :
  let a := init_ep 0 2 1 2 1 0 3 [7; 9] in
  let b := init_ep 1 2 1 2 1 0 3 [7; 11] in
  let '(s, outs) := run (mkSys a b [] [])
     [LOpen 0 80 [97]; LOpen 1 81 [98]; LDeliver 0; LDeliver 1; LDeliver 0; LDeliver 1;
      LOpenPoll 0 0; LOpenPoll 1 0; LDeliver 0; LDeliver 1; LDeliver 0; LDeliver 1;
      LOpenPoll 0 0; LOpenPoll 1 0; LAccept 0; LAccept 1] in
  map fst (e_slots (s_a s)) = [9; 11] /\ map fst (e_slots (s_b s)) = [11; 9] /\
  len (e_streams (s_a s)) = 2 /\ len (e_streams (s_b s)) = 2.
Proof. vm_compute. auto. Qed.

(* The multi-step clause "each successful stream request yields exactly one stream on each
   endpoint" does NOT hold of the model (nor of the code it follows) when the requester redraws
   the id of a flow it has just closed while answers to the earlier incarnation are still in
   flight: witness (two requests, three accepted streams).  Open known finding
   `id-reuse-stale-answer`; see DESIGN.md section 6. *)
From PV Require Import Mux.Reuse.
Theorem C07_one_stream_per_request_refuted :
  exists os, reuse_outs = Some os /\ count_opens 0 reuse_labels = 2 /\ count_accepts 1 reuse_labels os = 3.
Proof. exact one_stream_per_request_refuted. Qed.
