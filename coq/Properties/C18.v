(* C18 — SOCKS4/4a/5 messages: property theorems only. *)
From PV Require Import Socks.Model Socks.Spec Socks.Proofs.

(* SOCKS5: every well-formed request (any command, any address type, domain length 0..255)
   is read back exactly, and exactly its bytes are consumed ([tail] is untouched) *)
Theorem C18_v5_read_exact : forall cmd a port tail, addr_ok a -> port < 65536 ->
  v5_read_request (enc_v5_request cmd a port ++ tail) = Done (cmd, a, port) tail.
Proof. exact v5_read_exact. Qed.

(* every truncation of a request makes the reader wait / fail with EOF, never succeed *)
Theorem C18_v5_read_prefix : forall cmd a port p, addr_ok a -> port < 65536 ->
  strict_prefix p (enc_v5_request cmd a port) -> v5_read_request p = NeedMore.
Proof. exact v5_read_prefix. Qed.

Theorem C18_v5_bad_version : forall v rest, v <> 5 -> v5_read_request (v :: rest) = Fail (ESocksVersion v) [].
Proof. exact v5_bad_version. Qed.

Theorem C18_v5_bad_atyp : forall cmd rsv t rest, t <> 1 -> t <> 3 -> t <> 4 ->
  v5_read_request (5 :: cmd :: rsv :: t :: rest) = Fail (EAddressType t) atyp_unsupported_reply.
Proof. exact v5_bad_atyp. Qed.

(* SOCKS4 and SOCKS4a *)
Theorem C18_v4_read_exact : forall r tail, v4req_ok r ->
  v4_read_request (enc_v4 r ++ tail) = Done (v4_fields r) tail.
Proof. exact v4_read_exact. Qed.

Theorem C18_v4_read_prefix : forall r p, v4req_ok r -> strict_prefix p (enc_v4 r) ->
  v4_read_request p = NeedMore.
Proof. exact v4_read_prefix. Qed.

(* replies, byte-exact per RFC 1928 section 6 / section 3 and the SOCKS4 reply format *)
Theorem C18_v5_reply_bytes : forall rep a port, match a with ADom _ => False | _ => True end ->
  v5_write_response rep a port = enc_v5_reply rep a port.
Proof. exact v5_reply_bytes. Qed.
Theorem C18_v5_reply_unspecified : forall rep,
  v5_write_response_unspecified rep = enc_v5_reply rep (AV4 0 0 0 0) 0.
Proof. exact v5_reply_unspecified. Qed.
Theorem C18_v4_reply_bytes : forall cd, v4_write_response cd = enc_v4_reply cd.
Proof. exact v4_reply_bytes. Qed.
Theorem C18_v5_method_reply : forall m, v5_write_auth_method m = enc_v5_method_reply m.
Proof. exact v5_method_reply. Qed.
Theorem C18_v5_methods_exact : forall ms tail, len ms <= 255 ->
  v5_read_auth_methods (enc_v5_methods ms ++ tail) = Done ms tail.
Proof. exact v5_methods_exact. Qed.

(* UDP relay header: what the relay builds is the RFC layout, a conforming client parses it
   back to the same address, port and payload; the relay's own parser accepts every RFC
   header, refuses fragments, and never panics on any datagram *)
Theorem C18_udp_response_is_rfc : forall a port data, match a with ADom _ => False | _ => True end ->
  udp_relay_response a port data = enc_udp 0 a port data.
Proof. exact udp_response_is_rfc. Qed.
Theorem C18_udp_client_roundtrip : forall a port data, addr_ok a -> port < 65536 ->
  match a with ADom _ => False | _ => True end ->
  client_parse_udp (udp_relay_response a port data) = Some (a, port, data).
Proof. exact udp_client_roundtrip. Qed.
Theorem C18_udp_parse_exact : forall a port data, addr_ok a -> port < 65536 ->
  parse_udp_relay_header (enc_udp 0 a port data) = UOk a port data.
Proof. exact udp_parse_exact. Qed.
Theorem C18_udp_parse_fragment : forall frag a port data, frag <> 0 ->
  parse_udp_relay_header (enc_udp frag a port data) = UErr EFragmentedUdp.
Proof. exact udp_parse_fragment. Qed.
Theorem C18_udp_parse_never_panics : forall buf, parse_udp_relay_header buf <> UPanic.
Proof. exact udp_parse_never_panics. Qed.

(* non-vacuity *)
Example C18_nonvacuous_v4a :
  v4req_ok (V4a 1 80 1 [97] [119; 119]) /\
  v4_read_request (enc_v4 (V4a 1 80 1 [97] [119; 119]) ++ [7]) = Done (1, ADom [119; 119], 80) [7].
Proof. split; [|vm_compute; reflexivity]. cbn. repeat split; try lia; repeat constructor; lia. Qed.
Example C18_plain_v4_zero_first_octet :
  v4_read_request (enc_v4 (V4 1 80 0 1 2 3 []) ++ [9; 9; 0]) = Done (1, AV4 0 1 2 3, 80) [9; 9; 0].
Proof. vm_compute. reflexivity. Qed.
Example C18_udp_example :
  udp_relay_response (AV4 1 2 3 4) 80 [120; 121] = [0; 0; 0; 1; 1; 2; 3; 4; 0; 80; 120; 121].
Proof. vm_compute. reflexivity. Qed.

(* the tunnel client's SOCKS5 listener selects "no authentication" iff it is offered, at any position of the list *)
Theorem C18_client_selects_noauth : forall r ms rest o,
  v5_read_auth_methods r = Done ms rest -> client_dialog5 (5 :: r) = Some o ->
  (In 0 ms -> firstn 2 o = [5; 0]) /\ (~ In 0 ms -> o = [5; 255]).
Proof. exact client_selects_noauth. Qed.

Theorem C18_client_v4_rejects_other_commands : forall r cmd a port rest,
  v4_read_request r = Done (cmd, a, port) rest -> cmd <> 1 ->
  client_dialog (4 :: r) = Some [0; 91; 0; 0; 0; 0; 0; 0].
Proof. exact client_v4_rejects_other_commands. Qed.

Theorem C18_client_connect_target_v4a : forall r dom port rest,
  v4_read_request r = Done (1, ADom dom, port) rest ->
  client_connect (4 :: r) = Some ([0; 90; 0; 0; 0; 0; 0; 0], dom, port).
Proof. exact client_connect_target_v4a. Qed.

Theorem C18_client_connect_target_v5 : forall r ms rest dom port rest',
  v5_read_auth_methods r = Done ms rest -> In 0 ms ->
  v5_read_request rest = Done (1, ADom dom, port) rest' ->
  client_connect (5 :: r) = Some ([5; 0; 5; 0; 0; 1; 0; 0; 0; 0; 0; 0], dom, port).
Proof. exact client_connect_target_v5. Qed.
