(* C15 — bind requests. *)
From PV Require Import Mux.Sys Mux.SysProofs.

Theorem C15_bind_request_sent : forall f bt port host,
  e_mux_alive (f_ep f) = true ->
  let '(id, e1) := alloc_id 64 (f_ep f) in
  e_tx_closed e1 = false ->
  let '(f', r) := do_bind_req f bt port host in
  r = R_PENDING /\ f_out f' = f_out f ++ [MBin (encode (Bind id bt port host))] /\
  slot_get (e_slots (f_ep f')) id = Some (SBind (len (e_binds (f_ep f)))).
Proof. exact bind_request_sent. Qed.

Theorem C15_bind_request_shown : forall f id bt port host,
  0 < e_bind_cap (f_ep f) -> e_mux_alive (f_ep f) = true ->
  len (e_bind_q (f_ep f)) < e_bind_cap (f_ep f) ->
  let '(f', r) := process_frame f (Bind id bt port host) false in
  r = RxContinue /\ f_out f' = f_out f /\
  e_bind_q (f_ep f') = e_bind_q (f_ep f) ++ [mkBindreq id bt port host true].
Proof. exact bind_request_shown. Qed.

Theorem C15_bind_disabled_reset : forall f id bt p h wd,
  e_bind_cap (f_ep f) = 0 -> process_frame f (Bind id bt p h) wd = (emit f (Reset id), RxContinue).
Proof. exact bind_disabled_reset. Qed.

Theorem C15_bind_answer : forall f id k b wd,
  slot_get (e_slots (f_ep f)) id = Some (SBind k) ->
  nth_opt (e_binds (f_ep f)) k = Some b -> bp_rx_dropped b = false ->
  (let '(f', r) := process_frame f (Finish id) wd in
   r = RxContinue /\ f_out f' = f_out f /\ slot_get (e_slots (f_ep f')) id = None /\
   exists b', nth_opt (e_binds (f_ep f')) k = Some b' /\ bp_state b' = BGot true) /\
  (let '(f', r) := process_frame f (Reset id) wd in
   r = RxContinue /\ f_out f' = f_out f /\ slot_get (e_slots (f_ep f')) id = None /\
   exists b', nth_opt (e_binds (f_ep f')) k = Some b' /\ bp_state b' = BGot false).
Proof. exact bind_answer. Qed.

Theorem C15_bind_poll_once : forall f k b v,
  nth_opt (e_binds (f_ep f)) k = Some b -> bp_rx_dropped b = false -> bp_state b = BGot v ->
  let '(f', r) := poll_bind f k in
  r = [0; if v then 1 else 0] /\
  exists b', nth_opt (e_binds (f_ep f')) k = Some b' /\ bp_state b' = BDone.
Proof. exact bind_poll_once. Qed.

(* whatever frame answers request i, other requests' slots are untouched (independence) *)
Theorem C15_answers_independent : forall f fr wd id', id' <> frame_id fr ->
  slot_get (e_slots (f_ep (fst (process_frame f fr wd)))) id' = slot_get (e_slots (f_ep f)) id'.
Proof. exact frame_rule_slots. Qed.
