(* C14 — the server opens a tunnel only for fully valid, authenticated upgrade requests. *)
From PV Require Import Gate.Model Gate.Proofs.

(* for every method, path, header list (any order, duplicates, empties) and configuration *)
Theorem C14_upgrade_iff : forall c r k, respond c r = RSwitch k <-> ValidUpgrade c r k.
Proof. exact upgrade_iff. Qed.

Theorem C14_ws_fallback : forall c r, r_path r = s_ws -> (forall k, ~ ValidUpgrade c r k) -> respond c r = RFallback.
Proof. exact ws_fallback. Qed.

Theorem C14_obfs_hides : forall c r, g_obfs c = true -> (r_path r = s_health \/ r_path r = s_version) ->
  respond c r = RFallback.
Proof. exact obfs_hides. Qed.

Theorem C14_other_paths_fallback : forall c r, r_path r <> s_health -> r_path r <> s_version -> r_path r <> s_ws ->
  respond c r = RFallback.
Proof. exact other_paths_fallback. Qed.

Example C14_nonvacuous :
  let r := mkReq s_GET s_ws [(h_connection, [85; 112; 103; 114; 97; 100; 101]); (h_upgrade, v_websocket);
                             (h_wsver, v_13); (h_proto, v_proto); (h_key, [65]); (h_psk, [112])] true in
  ValidUpgrade (mkCfg (Some [112]) true) r [65] /\ respond (mkCfg (Some [112]) true) r = RSwitch [65] /\
  respond (mkCfg (Some [112; 113]) true) r = RFallback.
Proof.
  cbn zeta. split; [|split; vm_compute; reflexivity].
  unfold ValidUpgrade, header_is. cbn [r_method r_path r_hdrs r_ext g_psk].
  repeat split; try (eexists; split; [vm_compute; reflexivity|vm_compute; reflexivity]); try reflexivity.
  intros p Hp. inversion Hp; subst. reflexivity.
Qed.
