(* C09 — wire format: property theorems only.  Each is closed by [exact] of a lemma from
   Frame/Proofs.v; the statements are pinned here so they cannot be weakened silently. *)
From PV Require Import Frame.Model Frame.Spec Frame.Proofs.

(* every constructor-buildable frame encodes to exactly the PROTOCOL.md layout *)
Theorem C09_encode_is_layout : forall f, layout 7 f (encode f).
Proof. exact encode_is_layout. Qed.

(* the pre-computed size is the real size (the debug_assert_eq in the encoder) *)
Theorem C09_encode_len : forall f, len (encode f) = 5 + payload_len f.
Proof. exact encode_len. Qed.

(* the encoder's only panic (datagram host > 255) is unreachable for well-formed frames *)
Theorem C09_encode_checked : forall f, wf f -> encode_checked f = Some (encode f).
Proof. exact encode_checked_some. Qed.

(* decode is a left inverse of encode on all well-formed frames, empty hosts/payloads included *)
Theorem C09_decode_encode : forall f, wf f -> decode (encode f) = Ok f.
Proof. exact decode_encode. Qed.

(* the decoder is total: no byte string (of any length, any element values) makes it panic *)
Theorem C09_decode_never_panics : forall bs, decode bs <> Panic.
Proof. exact decode_never_panics. Qed.

(* decode succeeds exactly on the valid strings and yields the prescribed field values *)
Theorem C09_decode_iff_valid : forall bs f, bytes_ok bs ->
  (decode bs = Ok f <-> wf f /\ (accepts 7 f bs \/ accepts 0 f bs)).
Proof. exact decode_iff_valid. Qed.

Theorem C09_decode_succeeds_iff_valid : forall bs, bytes_ok bs ->
  ((exists f, decode bs = Ok f) <-> valid_string_lenient bs).
Proof. exact decode_succeeds_iff_valid. Qed.

(* the in-place append used by the bridge *)
Theorem C09_append_push : forall id d extra,
  append_push_data (encode (Push id d)) extra = Some (encode (Push id (d ++ extra))).
Proof. exact append_push. Qed.

(* non-vacuity: concrete well-formed frames, incl. the short datagram the pinned tree rejected *)
Example C09_nonvacuous_wf :
  wf (Datagram 1 0 [] []) /\ wf (Connect 4294967295 1 65535 [0; 255]) /\ wf (Bind 0 3 80 []).
Proof.
  unfold wf, bytes_ok, byte_ok; cbn [frame_id].
  repeat match goal with
         | |- _ /\ _ => split
         | |- Forall _ [] => apply Forall_nil
         | |- Forall _ (_ :: _) => apply Forall_cons
         | |- _ < _ => reflexivity
         | |- len _ <= _ => discriminate
         | |- True => exact I
         | |- 3 = 1 \/ 3 = 3 => right; reflexivity
         end.
Qed.
Example C09_short_datagram : decode (encode (Datagram 1 0 [] [])) = Ok (Datagram 1 0 [] []).
Proof. vm_compute. reflexivity. Qed.
Example C09_lenient_version : decode [4; 0; 0; 0; 9; 65] = Ok (Push 9 [65]).
Proof. vm_compute. reflexivity. Qed.

Print Assumptions C09_encode_is_layout.
Print Assumptions C09_encode_len.
Print Assumptions C09_encode_checked.
Print Assumptions C09_decode_encode.
Print Assumptions C09_decode_never_panics.
Print Assumptions C09_decode_iff_valid.
Print Assumptions C09_decode_succeeds_iff_valid.
Print Assumptions C09_append_push.
