(* C06 — abort is clean: peer is told, other streams untouched, flow ids released. *)
From PV Require Import Mux.Sys Mux.SysProofs.
From PV Require Import Flow.Core Flow.Proofs.

(* dropping a live stream: the task frees the id and (unless the stream was shut down) tells
   the peer with exactly one Reset *)
Theorem C06_drop_releases : forall f sid oid s,
  nth_opt (e_handles (f_ep f)) sid = Some oid -> get_stream (f_ep f) oid = Some s -> st_alive s = true ->
  e_phase (f_ep f) = Running -> e_tx_closed (f_ep f) = false ->
  slot_get (e_slots (f_ep f)) (st_id s) = Some (SEstablished oid) ->
  let '(f', r) := do_drop_stream f sid in
  r = [0] /\ slot_get (e_slots (f_ep f')) (st_id s) = None /\
  f_out f' = f_out f ++ (if st_fin s then [] else [MBin (encode (Reset (st_id s)))]).
Proof. exact drop_releases. Qed.

(* the peer's side of an abort: id released, no reply, writer fails from now on, reader gets
   what had been delivered and then end-of-stream *)
Theorem C06_reset_releases : forall f id oid s wd,
  slot_get (e_slots (f_ep f)) id = Some (SEstablished oid) -> get_stream (f_ep f) oid = Some s ->
  let f' := fst (process_frame f (Reset id) wd) in
  slot_get (e_slots (f_ep f')) id = None /\ f_out f' = f_out f /\
  exists s', get_stream (f_ep f') oid = Some s' /\ st_fin s' = true /\ st_txopen s' = false /\
             st_rxq s' = st_rxq s /\ st_buf s' = st_buf s.
Proof. exact reset_releases. Qed.

(* all other streams keep their data and state *)
Theorem C06_bystanders_slots : forall f fr wd id', id' <> frame_id fr ->
  slot_get (e_slots (f_ep (fst (process_frame f fr wd)))) id' = slot_get (e_slots (f_ep f)) id'.
Proof. exact frame_rule_slots. Qed.
Theorem C06_bystanders_streams : forall f id inh oid',
  slot_get (e_slots (f_ep f)) id <> Some (SEstablished oid') ->
  get_stream (f_ep (close_flow f id inh)) oid' = get_stream (f_ep f) oid'.
Proof. exact close_flow_bystanders. Qed.

(* a stream opened on a reused id starts clean *)
Theorem C06_new_stream_clean : forall e id w h p,
  let s := new_stream e id w h p in
  st_rxq s = [] /\ st_buf s = [] /\ st_since s = 0 /\ st_credit s = w /\ st_fin s = false /\
  st_txopen s = true /\ st_alive s = true /\ st_th s <= e_rwnd e.
Proof. exact new_stream_clean. Qed.

(* the data side of an abort (flow model): the reader gets everything written before it *)
Theorem C06_abort_eof : forall s n s', Inv s -> overrun s = false ->
  step s (Read n) = (s', OEof) -> fin s = true /\ readout s' = written s' /\ written s' = written s.
Proof. exact eof_means_all. Qed.

(* both ends let go (one aborts, the other reads to the end and drops): the id is free on
   both endpoints and can be reused at once (computed on the pair model with a forced id) *)
Example C06_both_let_go_frees_id :
  let a := init_ep 0 2 1 2 1 0 3 [7; 7] in
  let b := init_ep 1 2 1 2 1 0 3 [] in
  let '(s, outs) := Mux.Sys.run (mkSys a b [] [])
     [LOpen 0 80 [97]; LDeliver 0; LDeliver 1; LOpenPoll 0 0; LAccept 1; LWrite 0 0 [1; 2];
      LDeliver 0; LDropStream 0 0; LDeliver 0; LRead 1 0 8; LRead 1 0 8; LDropStream 1 0;
      LDeliver 1; LDeliver 0; LOpen 0 81 [98]; LDeliver 0; LDeliver 1; LOpenPoll 0 1; LAccept 1] in
  map fst (e_slots (s_a s)) = [7] /\ map fst (e_slots (s_b s)) = [7] /\ s_la s = [] /\ s_lb s = [] /\
  map o_res outs = [[1]; [0]; [0]; [0; 0; 0; 0; 7]; [0; 0; 80; 1; 97; 7]; [0; 2]; [0]; [0]; [0];
                    [0; 2; 1; 2]; [0; 0]; [0]; [0]; [0]; [1]; [0]; [0]; [0; 1; 0; 0; 7]; [0; 1; 81; 1; 98; 7]].
Proof. vm_compute. auto 10. Qed.

(* The multi-step clause "nothing of the old stream leaks into a stream that reuses its id" does
   NOT hold when a frame of the earlier incarnation is still in flight at the moment the id is
   redrawn: witness on the model, which follows the code there.  Open known finding
   `id-reuse-stale-frame` (DESIGN.md section 6). *)
From PV Require Import Mux.Sys Mux.Reuse.
Theorem C06_stale_push_kills_new_stream :
  exists os, leak_outs = Some os /\
    nth_error leak_labels 16 = Some [15; 1; 1; 4] /\ option_map o_res (nth_error os 16) = Some [0; 0] /\
    option_map o_res (nth_error os 17) = Some [0; 1] /\
    option_map o_res (nth_error os 20) = Some [0; 0].
Proof. exact stale_push_kills_new_stream. Qed.

(* ---- the flow model is the projection of the endpoint model onto one flow (Mux/Project.v):
   the endpoint's function acts on the stream object as the flow label does, returns the same
   result and puts on the wire the frames the flow model puts in flight ---- *)
From PV Require Import Mux.Sys Mux.Project.

Theorem C06_drop_projects : forall f sid oid s x y f' res,
  live_stream (f_ep f) sid = Some (oid, s) -> e_tx_closed (f_ep f) = false ->
  running (e_phase (f_ep f)) = true ->
  slot_get (e_slots (f_ep f)) (st_id s) = Some (SEstablished oid) ->
  R_view x (e_rwnd (f_ep f)) s -> S_view y s ->
  do_drop_stream f sid = (f', res) ->
  let x' := fst (F.step x F.AbortR) in
  let y' := fst (F.step y F.AbortS) in
  res = [0] /\
  exists s', get_stream (f_ep f') oid = Some s' /\ R_view x' (e_rwnd (f_ep f)) s' /\ S_view y' s' /\
    st_id s' = st_id s /\ slot_get (e_slots (f_ep f')) (st_id s) = None /\
    exists added, F.wsr y' = F.wsr y ++ added /\ f_out f' = f_out f ++ map (wire (st_id s)) added.
Proof. exact drop_projects. Qed.

Theorem C06_reset_projects : forall f id wd oid s x y r f' rr,
  slot_get (e_slots (f_ep f)) id = Some (SEstablished oid) -> get_stream (f_ep f) oid = Some s ->
  e_tx_closed (f_ep f) = false ->
  R_view x (e_rwnd (f_ep f)) s -> S_view y s -> F.wsr x = F.FRst :: r ->
  process_frame f (Reset id) wd = (f', rr) ->
  let x' := fst (F.step x F.DelSR) in
  let y' := fst (F.step y F.KillS) in
  rr = RxContinue /\ F.wsr x' = r /\ F.wsr y' = F.wsr y /\
  exists s', get_stream (f_ep f') oid = Some s' /\ R_view x' (e_rwnd (f_ep f)) s' /\ S_view y' s' /\
    st_id s' = st_id s /\ slot_get (e_slots (f_ep f')) id = None /\ f_out f' = f_out f.
Proof. exact reset_projects. Qed.
