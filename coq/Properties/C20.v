(* C20 — CowBytes / LongChain behave like a plain byte sequence: property theorems only. *)
From PV Require Import Chain.Model Chain.Proofs.

(* every non-panicking call preserves the invariant (reported length = real length, no empty
   chunk), produces exactly the plain-byte-vector result, returns exactly the bytes the
   reference returns, and what it returns is itself well-formed *)
Theorem C20_step_ok : forall c o c' r, Inv c -> step c o = Some (c', r) ->
  Inv c' /\ abs c' = ref_abs c o /\ out_bytes r = ref_out c o /\ out_inv r.
Proof. exact step_ok. Qed.

(* a call panics exactly when its argument is out of range ... *)
Theorem C20_step_none_iff : forall c o, Inv c -> (step c o = None <-> out_of_range c o).
Proof. exact step_none_iff. Qed.

(* ... and then the value is left as it was *)
Theorem C20_out_of_range_unchanged : forall c o, Inv c -> out_of_range c o -> step_total c o = (c, None).
Proof. exact out_of_range_unchanged. Qed.

(* every value reachable from the empty chain (or any well-formed chain) by any operation
   sequence, panicking calls included, is well-formed *)
Theorem C20_run_inv : forall ops c, Inv c -> Inv (run c ops).
Proof. exact run_inv. Qed.

Theorem C20_reachable_inv : forall ops, Inv (run empty_chain ops).
Proof. intros ops. apply run_inv. exact inv_empty. Qed.

(* Buf contract *)
Theorem C20_buf_contract : forall c, Inv c ->
  cached c = len (abs c) /\ (abs c <> [] -> first_chunk c <> []) /\
  exists rest, abs c = first_chunk c ++ rest.
Proof. exact buf_contract. Qed.

(* borrowed and owned values: same results, except that an out-of-range truncate panics on
   the borrowed variant and is a no-op on the owned one (both allowed by the property) *)
Theorem C20_cstep_variants : forall b o, cstep Temporary b o = cstep Static b o \/
  (exists n, o = CTruncate n /\ len b < n /\ cstep Temporary b o = None /\ cstep Static b o = Some (b, [])).
Proof. exact cstep_variants. Qed.

Theorem C20_cstep_ok : forall v b o s r, cstep v b o = Some (s, r) ->
  match o with
  | CSplitTo n => n <= len b /\ r ++ s = b /\ len r = n
  | CSplitOff n => n <= len b /\ s ++ r = b /\ len s = n
  | CTruncate n => s = firstn (N.to_nat n) b /\ r = []
  | CAdvance n => n <= len b /\ s = skipn (N.to_nat n) b
  end.
Proof. exact cstep_ok. Qed.

(* non-vacuity: a reachable chain with several chunks, and the truncate-past-the-end case *)
Example C20_nonvacuous :
  let c := run empty_chain [Push [1;2;3]; Push [4;5]; Insert 1 [9]; Truncate 100; SplitOff 2] in
  chunks c = [[1;2]] /\ cached c = 2.
Proof. vm_compute. auto. Qed.
Example C20_truncate_past_end :
  cached (run empty_chain [Push [1;2;3]; Truncate 10]) = 3.
Proof. vm_compute. reflexivity. Qed.
