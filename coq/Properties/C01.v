(* C01 — end-to-end transparency of the tunnel. *)
From PV Require Import Tunnel.Pipe Tunnel.PipeProofs Tunnel.UdpMap Tunnel.UdpProofs Socks.Model Socks.Spec Socks.Proofs Bridge.Model Tunnel.BridgeRelay.

(* TCP: any chain of relays (local socket, client bridge, logical stream, server bridge, target
   socket: any number of them), under any interleaving of writes, relay moves and reads:
   what the destination has read is a prefix of what the source wrote *)
Theorem C01_pipe_prefix : forall n es, exists rest, p_written (prun n es) = p_delivered (prun n es) ++ rest.
Proof. exact pipe_prefix. Qed.

(* end-of-stream is seen only after the source's shutdown and after every byte *)
Theorem C01_pipe_eof_complete : forall n es, p_eof (prun n es) = true ->
  p_delivered (prun n es) = p_written (prun n es) /\ p_shut (prun n es) = true.
Proof. exact pipe_eof_complete. Qed.

(* once the source has closed, the relays and the reader alone can always finish: the
   destination reads everything and sees end-of-stream (nothing is left hanging) *)
Theorem C01_pipe_completes : forall n es, p_shut (prun n es) = true ->
  exists sched', let p' := fold_left pstep sched' (prun n es) in
    p_eof p' = true /\ p_delivered p' = p_written p'.
Proof. exact pipe_completes. Qed.

(* UDP: a client's replies go to exactly that client, from the socket it sent to *)
Theorem C01_reply_to_originator : forall m now cands peer our socks m' id cands' now',
  UInv m -> add_client m now cands peer our socks = Some (m', id, cands') ->
  exists s, snd (reply m' now' id) = DSend our peer s /\ id <> 0.
Proof. exact reply_to_originator. Qed.

Theorem C01_distinct_clients_distinct_ids : forall m p1 o1 p2 o2 id,
  UInv m -> addr_lookup (by_addr m) p1 o1 = Some id -> addr_lookup (by_addr m) p2 o2 = Some id ->
  p1 = p2 /\ o1 = o2.
Proof. exact distinct_clients_distinct_ids. Qed.

Theorem C01_reply_only_to_registered : forall m now id our peer s, UInv m ->
  snd (reply m now id) = DSend our peer s -> addr_lookup (by_addr m) peer our = Some id.
Proof. exact reply_only_to_registered. Qed.

(* the maps stay consistent under registration, replies and pruning *)
Theorem C01_add_client_inv : forall m now cands peer our socks m' id cands',
  UInv2 m -> add_client m now cands peer our socks = Some (m', id, cands') -> UInv2 m'.
Proof. exact add_client_inv2. Qed.
Theorem C01_prune_inv : forall m now, UInv2 m -> UInv2 (prune m now).
Proof. exact prune_inv. Qed.
Theorem C01_pruned_reply_dropped : forall m now id e, UInv2 m -> id <> 0 ->
  id_lookup (by_id m) id = Some e -> expired now e = true ->
  snd (reply (prune m now) now id) = DDrop.
Proof. exact pruned_reply_dropped. Qed.

(* SOCKS5 UDP replies: the header put in front of a reply is the RFC 1928 header, and a
   conforming client parsing it recovers exactly the payload *)
Theorem C01_udp_reply_header_strippable : forall a port data, addr_ok a -> port < 65536 ->
  match a with ADom _ => False | _ => True end ->
  client_parse_udp (udp_relay_response a port data) = Some (a, port, data).
Proof. exact udp_client_roundtrip. Qed.

(* the bridge model of C13 is such a relay: on an environment of four buffers with an arbitrary
   oracle (readiness, partial reads/writes, credit, failures), every poll that does not fail
   forwards a prefix in each direction and passes end-of-stream on only after draining *)
Theorem C01_bridge_is_relay : forall fuel b e b' r e' log,
  poll penv pops fuel b e = (b', r, e', log) -> live r -> coh' b e ->
  relay (pe_mi e) (pe_lo e) (pe_mi e') (pe_lo e') /\
  relay (pe_li e) (pe_mo e) (pe_li e') (pe_mo e') /\
  coh' b' e'.
Proof. exact bridge_is_relay. Qed.

Theorem C01_bridge_moves_are_pipe_moves : forall fuel b e b' r e' log,
  poll penv pops fuel b e = (b', r, e', log) -> live r -> coh' b e -> snd (pe_mo e) = false ->
  let k := (length (fst (pe_li e)) - length (fst (pe_li e')))%nat in
  [pe_li e'; pe_mo e'] = move 0 k [pe_li e; pe_mo e] \/
  [pe_li e'; pe_mo e'] = move_eof 0 (move 0 k [pe_li e; pe_mo e]).
Proof. exact bridge_moves_are_pipe_moves. Qed.

(* ... and so is each direction of a logical stream (Flow/Core.v, the model C02-C05 are proved
   on): for every window, threshold and abort-free label sequence, its written / in-flight /
   held / read bytes are those of a two-hop relay pipeline driven by the events the labels amount to *)
From PV Require Import Flow.Core Flow.Relay.
Theorem C01_stream_is_relay : forall w t ls, 1 <= t -> 1 <= w < 4294967296 -> Forall no_abort ls ->
  same_pipe (fold_left pstep (all_evs (init w t) ls) (pinit 1)) (run (init w t) ls).
Proof. exact flow_is_pipe. Qed.
