(* C19 — client reconnection: bounded back-off, retry limit, no lost request. *)
From PV Require Import Client.Backoff Client.BackoffProofs Client.Requests.

(* the back-off generator, for every (initial, max, multiplier >= 1, max_count) below the
   Duration overflow bound: the k-th advance after a reset returns min(initial * mult^k, max);
   once max_count (non-zero) advances have been made it returns None and changes nothing *)
Theorem C19_advance_closed_form : forall b0 b k, 1 <= b_mult b0 -> after b0 b k ->
  b_max b0 * b_mult b0 <= DURATION_MAX ->
  let '(b', a) := advance b in
  if negb (b_max_count b0 =? 0) && (b_max_count b0 <=? k)
  then a = ANone /\ b' = b
  else a = ASome (delay (b_initial b0) (b_max b0) (b_mult b0) k) /\ after b0 b' (k + 1).
Proof. exact advance_closed_form. Qed.

(* consecutive retryable failures: delays min(initial * mult^(j+i), max), still running *)
Theorem C19_fail_run_delays : forall n b0 b k0 j, after b0 b j -> 1 <= b_mult b0 ->
  b_max b0 * b_mult b0 <= DURATION_MAX ->
  (b_max_count b0 = 0 \/ j + N.of_nat n <= b_max_count b0) ->
  retry_loop b (repeat (AtFail false true) n) k0 =
    (map (fun i => delay (b_initial b0) (b_max b0) (b_mult b0) (j + N.of_nat i)) (seq 0 n), FRunning).
Proof. exact fail_run_delays. Qed.

(* the client gives up exactly when max_retry_count consecutive retries have failed *)
Theorem C19_gives_up_after_max_count : forall b0 n k0, 1 <= b_mult b0 -> b_max b0 * b_mult b0 <= DURATION_MAX ->
  1 <= b_max_count b0 -> N.of_nat n = b_max_count b0 ->
  retry_loop (reset b0) (repeat (AtFail false true) (S n)) k0 =
    (map (fun i => delay (b_initial b0) (b_max b0) (b_mult b0) (N.of_nat i)) (seq 0 n), FGiveUp (k0 + N.of_nat n)).
Proof. exact gives_up_after_max_count. Qed.

Theorem C19_never_gives_up_when_zero : forall script b k, b_max_count b = 0 ->
  match snd (retry_loop b script k) with FGiveUp _ => False | _ => True end.
Proof. exact never_gives_up_when_zero. Qed.

Theorem C19_fatal_ends_at_once : forall b connected rest k,
  retry_loop b (AtFail connected false :: rest) k = ([], FFatal k).
Proof. exact fatal_ends_at_once. Qed.

Theorem C19_reset_after_success : forall b rest k d ds f,
  retry_loop b (AtFail true true :: rest) k = (d :: ds, f) -> d = N.min (b_initial b) (b_max b).
Proof. exact reset_after_success. Qed.

(* requests: nothing lost, duplicated or reordered across any history of connections *)
Theorem C19_no_request_lost : forall es,
  let s := rrun es in served s ++ opt_list (parked s) ++ queue s = enqueued es.
Proof. exact no_request_lost. Qed.

Theorem C19_good_connection_serves_all : forall es,
  let s := rrun es in up s = false ->
  let s' := fold_left rstep (Connect true :: repeat (Serve true) (length (queue s))) s in
  served s' = enqueued es /\ parked s' = None /\ queue s' = [].
Proof. exact good_connection_serves_all. Qed.

(* the Duration multiplication in the generator never overflows for the client's parameters *)
Theorem C19_client_never_panics : forall script max_ms max_count k, max_ms < 2 ^ 64 ->
  snd (retry_loop (client_backoff max_ms max_count) script k) <> FPanic.
Proof. exact client_never_panics. Qed.
