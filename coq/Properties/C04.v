(* C04 — streams always make progress while the application keeps reading. *)
From PV Require Import Mux.Sys Mux.SysProofs.
From PV Require Import Flow.Core Flow.Proofs.

(* from every reachable state of a live flow there is an explicit schedule made only of
   deliveries and reads by the receiving application after which the writer has credit *)
Theorem C04_blocked_writer_unblocks : forall s, Inv s -> flags_ok s -> 0 < c (run s (unblock s)).
Proof. exact blocked_writer_unblocks. Qed.

Theorem C04_reachable_inv : forall w t ls, 1 <= t -> 1 <= w < 4294967296 -> Inv (run (init w t) ls).
Proof. intros w t ls Ht Hw. apply run_inv, inv_init; auto. Qed.

(* those steps stay enabled whatever else happens: with fairness, every write completes *)
Theorem C04_delivery_stays_enabled : forall s l, wsr s <> [] -> l <> DelSR -> wsr (fst (step s l)) <> [].
Proof. exact delivery_stays_enabled. Qed.

(* the acknowledgement threshold a stream uses never exceeds the window it granted, for
   every pair of option values (this is what the pinned tree got wrong) *)
Theorem C04_threshold_le_window : forall w t, th (init w t) <= W (init w t).
Proof. exact threshold_le_window. Qed.
Theorem C04_endpoint_threshold : forall e id w h p,
  let s := new_stream e id w h p in
  st_rxq s = [] /\ st_buf s = [] /\ st_since s = 0 /\ st_credit s = w /\ st_fin s = false /\
  st_txopen s = true /\ st_alive s = true /\ st_th s <= e_rwnd e.
Proof. exact new_stream_clean. Qed.

(* isolation: Push and Datagram frames never suspend the receive side, whatever the reader does *)
Theorem C04_dgram_never_blocks : forall f fid port host data wd,
  wf (Datagram fid port host data) -> e_mux_alive (f_ep f) = true ->
  let '(f', r) := process_message f (MBin (encode (Datagram fid port host data))) wd in
  r = RxContinue /\ f_out f' = f_out f /\
  e_slots (f_ep f') = e_slots (f_ep f) /\ e_streams (f_ep f') = e_streams (f_ep f) /\
  e_blocked (f_ep f') = e_blocked (f_ep f) /\
  e_dgram_q (f_ep f') =
    (if len (e_dgram_q (f_ep f)) <? e_dgram_cap (f_ep f)
     then e_dgram_q (f_ep f) ++ [mkDgram fid port host data] else e_dgram_q (f_ep f)).
Proof. exact recv_dgram_spec. Qed.

(* the deadlock of the pinned tree (threshold above the own window), kept as a witness that
   the hypothesis th <= W is what the theorem needs *)
Example C04_stuck_without_bound :
  let s := mkSt 4 8 4 false [] [] true true [] 0 [] false false [] [] 0 0 0 0 in
  let s' := run s [Write [1]; Write [2]; Write [3]; Write [4]; DelSR; DelSR; DelSR; DelSR;
                   Read 9; Read 9; Read 9; Read 9; Read 9; DelRS] in
  c s' = 0 /\ wsr s' = [] /\ rxq s' = [] /\ wrs s' = [].
Proof. exact stuck_without_bound. Qed.
Example C04_nonvacuous : flags_ok (run (init 1 3) [Write [7]]) /\ c (run (init 1 3) [Write [7]]) = 0.
Proof. vm_compute. auto 10. Qed.
