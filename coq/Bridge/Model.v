(* Executable model of penguin-mux/src/stream_tools/copy_bidirectional.rs (repaired: a read
   error met while coalescing is returned by the same poll).  The bridge is a state machine
   that calls ten operations of its two sides; it is modelled generically over an
   environment type [E] providing those operations, and logs what it did.  Theorems are
   proved for every environment (Bridge/Proofs.v); the correspondence check instantiates
   the environment with the stream of Mux/Sys.v and a scripted local side. *)
From PV Require Export Common.Bytes.

Inductive ans (A : Type) := Ready (a : A) | Fail (e : N) | Pend.
Arguments Ready {A}. Arguments Fail {A}. Arguments Pend {A}.

Inductive who := MuxFill | MuxPermit | LocFill | LocWrite | LocFlush | LocShutdown.

Inductive ev :=
| EvFail (w : who) (e : N)          (* an operation failed *)
| EvPend (w : who)                  (* an operation returned Pending (its waker is registered) *)
| EvToLocal (d : list N)            (* bytes accepted by the local side = consumed from the stream *)
| EvTake (d : list N)               (* bytes consumed from the local side *)
| EvPermit                          (* one unit of credit obtained *)
| EvSent (d : list N)               (* one Push frame with these bytes handed to the connection *)
| EvMuxShutdown                     (* Finish requested on the stream *)
| EvLocShutdown.                    (* local side shut down (completed) *)

Inductive rstate := RT (n : N) | RS (n : N) | RD (n : N).
Inductive wstate := WT (m : N) | WD (m : N).
Record bstate := mkB { b_r : rstate; b_w : wstate }.

(* result of one half / of the whole poll *)
Inductive pres := PReady (n : N) | PPending | PErr (e : N) | PFuel.
Inductive bres := BReady (n m : N) | BPending | BErr (e : N) | BFuel.

Definition BROKEN_PIPE : N := 1.

Section Bridge.
Variable E : Type.
Record ops := mkOps {
  mux_fill : E -> ans (list N) * E;       (* Ready [] = end-of-stream *)
  mux_consume : N -> E -> E;
  mux_permit : E -> ans bool * E;         (* Ready false = the stream is closed for writing *)
  mux_send : list N -> E -> bool * E;     (* false = the connection is gone *)
  mux_shutdown : E -> E;
  loc_fill : E -> ans (list N) * E;       (* Ready [] = end-of-stream *)
  loc_consume : N -> E -> E;
  loc_write : list N -> E -> ans N * E;   (* Ready k: k bytes accepted *)
  loc_flush : E -> ans unit * E;
  loc_shutdown : E -> ans unit * E
}.
Variable Ops : ops.

Definition shut_local (e : E) (n : N) (log : list ev) : rstate * pres * E * list ev :=
  let '(a, e) := loc_shutdown Ops e in
  match a with
  | Ready _ => (RD n, PReady n, e, log ++ [EvLocShutdown])
  | Fail x => (RS n, PErr x, e, log ++ [EvFail LocShutdown x])
  | Pend => (RS n, PPending, e, log ++ [EvPend LocShutdown])
  end.

(* poll_read_us in state Transferring: stream -> local *)
Fixpoint read_loop (fuel : nat) (e : E) (n : N) (log : list ev) : rstate * pres * E * list ev :=
  match fuel with
  | O => (RT n, PFuel, e, log)
  | S f =>
      let '(a, e) := mux_fill Ops e in
      match a with
      | Pend => (RT n, PPending, e, log ++ [EvPend MuxFill])
      | Fail x => (RT n, PErr x, e, log ++ [EvFail MuxFill x])
      | Ready [] => shut_local e n log
      | Ready buf =>
          let '(w, e) := loc_write Ops buf e in
          match w with
          | Pend => (RT n, PPending, e, log ++ [EvPend LocWrite])
          | Fail x => (RT n, PErr x, e, log ++ [EvFail LocWrite x])
          | Ready k =>
              let e := mux_consume Ops k e in
              read_loop f e (n + k) (log ++ [EvToLocal (firstn (N.to_nat k) buf)])
          end
      end
  end.

Definition poll_read_us (fuel : nat) (r : rstate) (e : E) (log : list ev) : rstate * pres * E * list ev :=
  match r with
  | RT n => read_loop fuel e n log
  | RS n => shut_local e n log
  | RD n => (RD n, PReady n, e, log)
  end.

(* the coalescing loop: take whatever more the local side has ready *)
Inductive squeeze_end := SqPending | SqEof | SqErr (x : N) | SqFuel.
Fixpoint squeeze (fuel : nat) (e : E) (acc : list N) (log : list ev) : squeeze_end * list N * E * list ev :=
  match fuel with
  | O => (SqFuel, acc, e, log)
  | S f =>
      let '(a, e) := loc_fill Ops e in
      match a with
      | Pend => (SqPending, acc, e, log ++ [EvPend LocFill])
      | Fail x => (SqErr x, acc, e, log ++ [EvFail LocFill x])
      | Ready [] => (SqEof, acc, e, log)
      | Ready buf =>
          let e := loc_consume Ops (len buf) e in
          squeeze f e (acc ++ buf) (log ++ [EvTake buf])
      end
  end.

(* poll_write_us: local -> stream *)
Definition poll_write_us (fuel : nat) (w : wstate) (e : E) (log : list ev) : wstate * pres * E * list ev :=
  match w with
  | WD m => (WD m, PReady m, e, log)
  | WT m =>
      let '(a, e) := loc_fill Ops e in
      match a with
      | Pend =>
          let '(fl, e) := loc_flush Ops e in
          match fl with
          | Ready _ => (WT m, PPending, e, log ++ [EvPend LocFill])
          | Fail x => (WT m, PErr x, e, log ++ [EvPend LocFill; EvFail LocFlush x])
          | Pend => (WT m, PPending, e, log ++ [EvPend LocFill; EvPend LocFlush])
          end
      | Fail x => (WT m, PErr x, e, log ++ [EvFail LocFill x])
      | Ready [] =>
          let e := mux_shutdown Ops e in
          (WD m, PReady m, e, log ++ [EvMuxShutdown])
      | Ready buf =>
          let '(p, e) := mux_permit Ops e in
          match p with
          | Pend => (WT m, PPending, e, log ++ [EvPend MuxPermit])
          | Fail x => (WT m, PErr x, e, log ++ [EvFail MuxPermit x])
          | Ready false => (WT m, PErr BROKEN_PIPE, e, log ++ [EvFail MuxPermit BROKEN_PIPE])
          | Ready true =>
              let e := loc_consume Ops (len buf) e in
              let '(se, payload, e, log) := squeeze fuel e buf (log ++ [EvPermit; EvTake buf]) in
              match se with
              | SqFuel => (WT m, PFuel, e, log)
              | _ =>
                  let '(ok, e) := mux_send Ops payload e in
                  if negb ok then (WT m, PErr BROKEN_PIPE, e, log ++ [EvFail MuxPermit BROKEN_PIPE])
                  else
                    let log := log ++ [EvSent payload] in
                    let m' := m + len payload in
                    match se with
                    | SqEof =>
                        let e := mux_shutdown Ops e in
                        (WD m', PReady m', e, log ++ [EvMuxShutdown])
                    | SqErr x => (WT m', PErr x, e, log)
                    | _ => (WT m', PPending, e, log)
                    end
              end
          end
      end
  end.

(* CopyBidirectional::poll *)
Definition poll (fuel : nat) (b : bstate) (e : E) : bstate * bres * E * list ev :=
  let '(r', pr, e, log) := poll_read_us fuel (b_r b) e [] in
  match pr with
  | PErr x => (mkB r' (b_w b), BErr x, e, log)
  | PFuel => (mkB r' (b_w b), BFuel, e, log)
  | _ =>
      let '(w', pw, e, log) := poll_write_us fuel (b_w b) e log in
      match pw with
      | PErr x => (mkB r' w', BErr x, e, log)
      | PFuel => (mkB r' w', BFuel, e, log)
      | _ =>
          match pr, pw with
          | PReady n, PReady m => (mkB r' w', BReady n m, e, log)
          | _, _ => (mkB r' w', BPending, e, log)
          end
      end
  end.

End Bridge.

Definition binit : bstate := mkB (RT 0) (WT 0).

Arguments mux_fill {E}. Arguments mux_consume {E}. Arguments mux_permit {E}. Arguments mux_send {E}.
Arguments mux_shutdown {E}. Arguments loc_fill {E}. Arguments loc_consume {E}. Arguments loc_write {E}.
Arguments loc_flush {E}. Arguments loc_shutdown {E}. Arguments mkOps {E}.
