From PV Require Import Bridge.Model.
From Coq Require Import ZifyBool ZifyN ZifyNat.

Fixpoint fails (l : list ev) : list N :=
  match l with [] => [] | EvFail _ x :: r => x :: fails r | _ :: r => fails r end.
Fixpoint pends (l : list ev) : list who :=
  match l with [] => [] | EvPend w :: r => w :: pends r | _ :: r => pends r end.
Fixpoint to_local (l : list ev) : list N :=
  match l with [] => [] | EvToLocal d :: r => d ++ to_local r | _ :: r => to_local r end.
Fixpoint taken (l : list ev) : list N :=
  match l with [] => [] | EvTake d :: r => d ++ taken r | _ :: r => taken r end.
Fixpoint sent (l : list ev) : list N :=
  match l with [] => [] | EvSent d :: r => d ++ sent r | _ :: r => sent r end.
Fixpoint npermit (l : list ev) : N :=
  match l with [] => 0 | EvPermit :: r => 1 + npermit r | _ :: r => npermit r end.
Fixpoint nframes (l : list ev) : N :=
  match l with [] => 0 | EvSent _ :: r => 1 + nframes r | _ :: r => nframes r end.
Fixpoint has (x : ev) (l : list ev) : bool :=
  match l with
  | [] => false
  | EvMuxShutdown :: r => match x with EvMuxShutdown => true | _ => has x r end
  | EvLocShutdown :: r => match x with EvLocShutdown => true | _ => has x r end
  | _ :: r => has x r
  end.

Lemma fails_app a b : fails (a ++ b) = fails a ++ fails b.
Proof. induction a as [|[] a IH]; cbn [app fails]; auto. now rewrite IH. Qed.
Lemma pends_app a b : pends (a ++ b) = pends a ++ pends b.
Proof. induction a as [|[] a IH]; cbn [app pends]; auto. now rewrite IH. Qed.
Lemma to_local_app a b : to_local (a ++ b) = to_local a ++ to_local b.
Proof. induction a as [|[] a IH]; cbn [app to_local]; auto. now rewrite IH, app_assoc. Qed.
Lemma taken_app a b : taken (a ++ b) = taken a ++ taken b.
Proof. induction a as [|[] a IH]; cbn [app taken]; auto. now rewrite IH, app_assoc. Qed.
Lemma sent_app a b : sent (a ++ b) = sent a ++ sent b.
Proof. induction a as [|[] a IH]; cbn [app sent]; auto. now rewrite IH, app_assoc. Qed.
Lemma npermit_app a b : npermit (a ++ b) = npermit a + npermit b.
Proof. induction a as [|[] a IH]; cbn [app npermit]; lia. Qed.
Lemma nframes_app a b : nframes (a ++ b) = nframes a + nframes b.
Proof. induction a as [|[] a IH]; cbn [app nframes]; lia. Qed.
Lemma has_app x a b : has x (a ++ b) = has x a || has x b.
Proof. induction a as [|[] a IH]; cbn [app has]; auto; destruct x; auto. Qed.

Definition rcount (r : rstate) : N := match r with RT n | RS n | RD n => n end.
Definition wcount (w : wstate) : N := match w with WT m | WD m => m end.
Definition err_of (p : pres) : list N := match p with PErr x => [x] | _ => [] end.

Section Proofs.
Variable E : Type.
Variable Ops : ops E.
(* the AsyncWrite contract of the local side: a write accepts at most what it was offered *)
Hypothesis write_contract : forall buf e k e', loc_write Ops buf e = (Ready k, e') -> k <= len buf.

(* what one half of a poll adds to the log *)
Record half_ok (log log' : list ev) (p : pres) (cnt cnt' : N) (dir_local : bool) : Prop := {
  h_ext : exists add, log' = log ++ add /\
            (match p with PErr x => In x (fails add) | _ => fails add = [] end) /\
            (p = PPending -> pends add <> []) /\
            (if dir_local then cnt' = cnt + len (to_local add) /\ taken add = [] /\ sent add = [] /\ npermit add = 0 /\ nframes add = 0
             else to_local add = [] /\ cnt' = cnt + len (sent add) /\
                  (match p with PReady _ | PPending => sent add = taken add /\ npermit add = nframes add | _ => True end))
}.

Lemma shut_local_ok e n log r' p e' log' :
  shut_local E Ops e n log = (r', p, e', log') ->
  half_ok log log' p n (rcount r') true /\ (p = PReady n <-> r' = RD n) /\
  (forall k, p = PReady k -> k = n) /\ (r' = RD n -> has EvLocShutdown log' = true) /\ (r' = RD n \/ r' = RS n).
Proof.
  unfold shut_local. destruct (loc_shutdown Ops e) as [[u|x|] e1]; intros H; inversion H; subst; clear H.
  - split; [constructor; exists [EvLocShutdown]; cbn; repeat split; auto; try discriminate; lia|].
    repeat split; auto; try congruence. intros _. rewrite has_app. cbn. apply orb_true_r.
  - split; [constructor; exists [EvFail LocShutdown x]; cbn; repeat split; auto; try discriminate; lia|].
    repeat split; auto; try discriminate.
  - split; [constructor; exists [EvPend LocShutdown]; cbn; repeat split; auto; try discriminate; lia|].
    repeat split; auto; try discriminate.
Qed.

Lemma read_loop_ok fuel : forall e n log r' p e' log',
  read_loop E Ops fuel e n log = (r', p, e', log') ->
  half_ok log log' p n (rcount r') true /\
  (forall k, p = PReady k -> r' = RD k /\ has EvLocShutdown log' = true) /\
  (r' = RT (rcount r') \/ r' = RS (rcount r') \/ r' = RD (rcount r')).
Proof.
  induction fuel as [|f IH]; intros e n log r' p e' log' H; cbn [read_loop] in H.
  - inversion H; subst. split; [constructor; exists []; rewrite app_nil_r; cbn; repeat split; auto; try discriminate; lia|].
    split; [intros; discriminate|]. cbn. auto.
  - destruct (mux_fill Ops e) as [[[|b0 buf]|x|] e1].
    + destruct (shut_local_ok _ _ _ _ _ _ _ H) as (A & B & C & D & F). split; [exact A|]. split.
      * intros k Hk. pose proof (C k Hk); subst k. apply B in Hk. split; auto.
      * destruct F as [->| ->]; cbn; auto.
    + destruct (loc_write Ops (b0 :: buf) e1) as [[k|x|] e2] eqn:Ew.
      * pose proof (write_contract _ _ _ _ Ew) as Hk.
        destruct (IH _ _ _ _ _ _ _ H) as ([(add & El & Ef & Ep & Ec & Et & Es & Enp & Enf)] & B & C).
        split; [|split; [exact B|exact C]]. constructor.
        exists (EvToLocal (firstn (N.to_nat k) (b0 :: buf)) :: add). rewrite <- app_assoc in El. cbn [app] in El.
        split; [exact El|]. cbn [fails pends to_local taken sent npermit nframes]. repeat split; auto.
        rewrite Ec, len_app. unfold len at 2. rewrite firstn_length. unfold len in Hk. lia.
      * inversion H; subst. split; [constructor; exists [EvFail LocWrite x]; cbn; repeat split; auto; try discriminate; lia|].
        split; [intros; discriminate|]. cbn. auto.
      * inversion H; subst. split; [constructor; exists [EvPend LocWrite]; cbn; repeat split; auto; try discriminate; lia|].
        split; [intros; discriminate|]. cbn. auto.
    + inversion H; subst. split; [constructor; exists [EvFail MuxFill x]; cbn; repeat split; auto; try discriminate; lia|].
      split; [intros; discriminate|]. cbn. auto.
    + inversion H; subst. split; [constructor; exists [EvPend MuxFill]; cbn; repeat split; auto; try discriminate; lia|].
      split; [intros; discriminate|]. cbn. auto.
Qed.

Lemma poll_read_us_ok fuel r e log r' p e' log' :
  poll_read_us E Ops fuel r e log = (r', p, e', log') ->
  half_ok log log' p (rcount r) (rcount r') true /\
  (forall k, p = PReady k -> r' = RD k) /\
  (r' = RD (rcount r') -> r <> RD (rcount r) -> has EvLocShutdown log' = true).
Proof.
  destruct r as [n|n|n]; cbn [poll_read_us rcount]; intros H.
  - destruct (read_loop_ok _ _ _ _ _ _ _ _ H) as (A & B & C). split; [exact A|]. split.
    + intros k Hk. now destruct (B k Hk).
    + intros Hd _. destruct p as [k| | |]; try (destruct A as [(add & _ & _ & _ & _)]).
      * now destruct (B k eq_refl).
      * revert H Hd. clear. revert e n log. induction fuel as [|f IH]; intros e n log H Hd; cbn [read_loop] in H.
        -- inversion H; subst; discriminate.
        -- destruct (mux_fill Ops e) as [[[|b0 buf]|x|] e1]; try (inversion H; subst; discriminate).
           ++ unfold shut_local in H. destruct (loc_shutdown Ops e1) as [[u|x|] e2]; inversion H; subst; discriminate.
           ++ destruct (loc_write Ops (b0 :: buf) e1) as [[k|x|] e2]; try (inversion H; subst; discriminate). eauto.
      * revert H Hd. clear. revert e n log. induction fuel as [|f IH]; intros e n log H Hd; cbn [read_loop] in H.
        -- inversion H; subst; discriminate.
        -- destruct (mux_fill Ops e) as [[[|b0 buf]|x|] e1]; try (inversion H; subst; discriminate).
           ++ unfold shut_local in H. destruct (loc_shutdown Ops e1) as [[u|x0|] e2]; inversion H; subst; discriminate.
           ++ destruct (loc_write Ops (b0 :: buf) e1) as [[k|x0|] e2]; try (inversion H; subst; discriminate). eauto.
      * revert H Hd. clear. revert e n log. induction fuel as [|f IH]; intros e n log H Hd; cbn [read_loop] in H.
        -- inversion H; subst; discriminate.
        -- destruct (mux_fill Ops e) as [[[|b0 buf]|x|] e1]; try (inversion H; subst; discriminate).
           ++ unfold shut_local in H. destruct (loc_shutdown Ops e1) as [[u|x0|] e2]; inversion H; subst; discriminate.
           ++ destruct (loc_write Ops (b0 :: buf) e1) as [[k|x0|] e2]; try (inversion H; subst; discriminate). eauto.
  - destruct (shut_local_ok _ _ _ _ _ _ _ H) as (A & B & C & D & F). split; [exact A|]. split.
    + intros k Hk. pose proof (C k Hk); subst k. now apply B.
    + intros Hd _. apply D. destruct F as [->| ->]; cbn in *; congruence.
  - inversion H; subst. split; [constructor; exists []; rewrite app_nil_r; cbn; repeat split; auto; try discriminate; lia|].
    split; [intros k Hk; inversion Hk; reflexivity|]. intros _ Hn. congruence.
Qed.

(* the coalescing loop *)
Lemma squeeze_ok fuel : forall e acc log se pay e' log',
  squeeze E Ops fuel e acc log = (se, pay, e', log') ->
  exists add, log' = log ++ add /\ pay = acc ++ taken add /\ sent add = [] /\ to_local add = [] /\
              npermit add = 0 /\ nframes add = 0 /\ has EvMuxShutdown add = false /\
              fails add = (match se with SqErr x => [x] | _ => [] end) /\
              (se = SqPending -> pends add <> []).
Proof.
  induction fuel as [|f IH]; intros e acc log se pay e' log' H; cbn [squeeze] in H.
  - inversion H; subst. exists []. rewrite !app_nil_r. cbn. repeat split; auto. discriminate.
  - destruct (loc_fill Ops e) as [[[|b0 buf]|x|] e1].
    + inversion H; subst. exists []. rewrite !app_nil_r. cbn. repeat split; auto. discriminate.
    + destruct (IH _ _ _ _ _ _ _ H) as (add & El & Ep & Es & Et & En & Ef & Eh & Efa & Epe).
      exists (EvTake (b0 :: buf) :: add). rewrite <- app_assoc in El, Ep. cbn [app] in El.
      split; [exact El|]. cbn [taken sent to_local npermit nframes has fails pends]. repeat split; auto.
    + inversion H; subst. exists [EvFail LocFill x]. cbn. rewrite app_nil_r. repeat split; auto. discriminate.
    + inversion H; subst. exists [EvPend LocFill]. cbn. rewrite app_nil_r. repeat split; auto. discriminate.
Qed.

Lemma poll_write_us_ok fuel w e log w' p e' log' :
  poll_write_us E Ops fuel w e log = (w', p, e', log') ->
  half_ok log log' p (wcount w) (wcount w') false /\
  (forall k, p = PReady k -> w' = WD k) /\
  (w' = WD (wcount w') -> w <> WD (wcount w) -> has EvMuxShutdown log' = true).
Proof.
  destruct w as [m|m]; cbn [poll_write_us wcount]; intros H.
  2:{ inversion H; subst. split; [constructor; exists []; rewrite app_nil_r; cbn; repeat split; auto; try discriminate; lia|].
      split; [intros k Hk; inversion Hk; reflexivity|]. intros _ Hn. congruence. }
  destruct (loc_fill Ops e) as [[[|b0 buf]|x|] e1].
  - inversion H; subst. split; [constructor; exists [EvMuxShutdown]; cbn; repeat split; auto; try discriminate; lia|].
    split; [intros k Hk; inversion Hk; reflexivity|]. intros _ _. rewrite has_app. cbn. apply orb_true_r.
  - destruct (mux_permit Ops e1) as [[[|]|x|] e2].
    + destruct (squeeze E Ops fuel (loc_consume Ops (len (b0 :: buf)) e2) (b0 :: buf) (log ++ [EvPermit; EvTake (b0 :: buf)]))
        as [[[se pay] e3] log3] eqn:Es.
      destruct (squeeze_ok _ _ _ _ _ _ _ _ Es) as (add & El & Ep & Esn & Et & En & Ef & Eh & Efa & Epe).
      subst pay.
      assert (Common : forall tail, log3 ++ tail = log ++ ([EvPermit; EvTake (b0 :: buf)] ++ add ++ tail)).
      { intros tail. rewrite El. rewrite <- !app_assoc. reflexivity. }
      assert (Fin : forall tail,
                 fails ([EvPermit; EvTake (b0 :: buf)] ++ add ++ tail) = fails add ++ fails tail /\
                 pends ([EvPermit; EvTake (b0 :: buf)] ++ add ++ tail) = pends add ++ pends tail /\
                 to_local ([EvPermit; EvTake (b0 :: buf)] ++ add ++ tail) = to_local tail /\
                 sent ([EvPermit; EvTake (b0 :: buf)] ++ add ++ tail) = sent tail /\
                 taken ([EvPermit; EvTake (b0 :: buf)] ++ add ++ tail) = (b0 :: buf) ++ taken add ++ taken tail /\
                 npermit ([EvPermit; EvTake (b0 :: buf)] ++ add ++ tail) = 1 + npermit tail /\
                 nframes ([EvPermit; EvTake (b0 :: buf)] ++ add ++ tail) = nframes tail).
      { intros tail. rewrite !fails_app, !pends_app, !to_local_app, !sent_app, !taken_app, !npermit_app, !nframes_app.
        cbn [fails pends to_local sent taken npermit nframes app]. rewrite Esn, Et, En, Ef. cbn [app].
        repeat split; auto; try lia. now rewrite app_nil_r. }
      match type of H with context [mux_send Ops ?pp e3] => destruct (mux_send Ops pp e3) as [[|] e4] eqn:Esend end; cbn [negb] in H.
      2:{ (* the connection is gone: BrokenPipe (whatever the coalescing met) *)
          destruct se; injection H as <- <- <- <-.
          all: try (split; [constructor; exists ([EvPermit; EvTake (b0 :: buf)] ++ add ++ [EvFail MuxPermit BROKEN_PIPE]);
                   split; [apply Common|]; destruct (Fin [EvFail MuxPermit BROKEN_PIPE]) as (F1 & F2 & F3 & F4 & F5 & F6 & F7);
                   rewrite F1, F3, F4; cbn [fails to_local sent wcount];
                   repeat split; auto; try discriminate; try (apply in_or_app; right; left; reflexivity); try (cbn; lia)
                 | split; [intros; discriminate|intros Hd; discriminate]]).
          (* out of fuel *)
          split; [constructor; exists ([EvPermit; EvTake (b0 :: buf)] ++ add); split; [rewrite El; now rewrite <- app_assoc|];
                  destruct (Fin []) as (F1 & F2 & F3 & F4 & F5 & F6 & F7); rewrite app_nil_r in *;
                  rewrite F1, F3, F4, Efa; cbn; repeat split; auto; try discriminate; lia
                | split; [intros; discriminate|intros Hd; discriminate]]. }
      destruct se as [| |x|]; injection H as <- <- <- <-.
      * (* pending: the frame is sent, the local reader holds our waker *)
        split; [constructor; exists ([EvPermit; EvTake (b0 :: buf)] ++ add ++ [EvSent (b0 :: buf ++ taken add)])|].
        -- split; [apply Common|]. destruct (Fin [EvSent (b0 :: buf ++ taken add)]) as (F1 & F2 & F3 & F4 & F5 & F6 & F7).
           rewrite F1, F2, F3, F4, F5, F6, F7, Efa. cbn [fails pends to_local sent taken npermit nframes app wcount].
           rewrite !app_nil_r. repeat split; auto; try lia;
             try (intros _; destruct (pends add); [now apply Epe|discriminate]); try (now rewrite len_app).
        -- split; [intros; discriminate|intros Hd; discriminate].
      * (* end of the local stream: the frame is sent, then Finish *)
        split; [constructor; exists ([EvPermit; EvTake (b0 :: buf)] ++ add ++ [EvSent (b0 :: buf ++ taken add); EvMuxShutdown])|].
        -- split; [rewrite <- Common; now rewrite <- app_assoc|].
           destruct (Fin [EvSent (b0 :: buf ++ taken add); EvMuxShutdown]) as (F1 & F2 & F3 & F4 & F5 & F6 & F7).
           rewrite F1, F3, F4, F5, F6, F7, Efa. cbn [fails pends to_local sent taken npermit nframes app wcount].
           rewrite !app_nil_r. repeat split; auto; try lia; try discriminate; try (now rewrite len_app).
        -- split; [intros k Hk; inversion Hk; reflexivity|]. intros _ _. rewrite !has_app. cbn. now rewrite !orb_true_r.
      * (* a read error met while coalescing: the frame is sent, the error returned by this poll *)
        split; [constructor; exists ([EvPermit; EvTake (b0 :: buf)] ++ add ++ [EvSent (b0 :: buf ++ taken add)])|].
        -- split; [apply Common|]. destruct (Fin [EvSent (b0 :: buf ++ taken add)]) as (F1 & F2 & F3 & F4 & F5 & F6 & F7).
           rewrite F1, F3, F4, Efa. cbn [fails to_local sent app wcount]. rewrite !app_nil_r.
           repeat split; auto; try discriminate; try (left; reflexivity); try (now rewrite len_app).
        -- split; [intros; discriminate|intros Hd; discriminate].
      * (* out of fuel *)
        split; [constructor; exists ([EvPermit; EvTake (b0 :: buf)] ++ add)|].
        -- split; [rewrite El; now rewrite <- app_assoc|]. destruct (Fin []) as (F1 & F2 & F3 & F4 & F5 & F6 & F7).
           rewrite app_nil_r in *. rewrite F1, F3, F4, Efa. cbn. repeat split; auto; try discriminate; lia.
        -- split; [intros; discriminate|intros Hd; discriminate].
    + inversion H; subst. split; [constructor; exists [EvFail MuxPermit BROKEN_PIPE]; cbn; repeat split; auto; try discriminate; lia|].
      split; [intros; discriminate|]. intros Hd; discriminate.
    + inversion H; subst. split; [constructor; exists [EvFail MuxPermit x]; cbn; repeat split; auto; try discriminate; lia|].
      split; [intros; discriminate|]. intros Hd; discriminate.
    + inversion H; subst. split; [constructor; exists [EvPend MuxPermit]; cbn; repeat split; auto; try discriminate; lia|].
      split; [intros; discriminate|]. intros Hd; discriminate.
  - inversion H; subst. split; [constructor; exists [EvFail LocFill x]; cbn; repeat split; auto; try discriminate; lia|].
    split; [intros; discriminate|]. intros Hd; discriminate.
  - destruct (loc_flush Ops e1) as [[u|x|] e2]; inversion H; subst.
    + split; [constructor; exists [EvPend LocFill]; cbn; repeat split; auto; try discriminate; lia|].
      split; [intros; discriminate|]. intros Hd; discriminate.
    + split; [constructor; exists [EvPend LocFill; EvFail LocFlush x]; cbn; repeat split; auto; try discriminate; lia|].
      split; [intros; discriminate|]. intros Hd; discriminate.
    + split; [constructor; exists [EvPend LocFill; EvPend LocFlush]; cbn; repeat split; auto; try discriminate; lia|].
      split; [intros; discriminate|]. intros Hd; discriminate.
Qed.

Definition is_err (r : bres) : Prop := match r with BErr _ => True | _ => False end.

(* one poll of the bridge *)
Theorem poll_ok fuel b e b' res e' log :
  poll E Ops fuel b e = (b', res, e', log) ->
  (* an operation failure on either side makes this very poll return an error, and an
     error is only returned when an operation failed *)
  (fails log <> [] <-> is_err res) /\ (forall x, res = BErr x -> In x (fails log)) /\
  (* Pending: some operation returned Pending in this poll, i.e. a waker is registered *)
  (res = BPending -> pends log <> []) /\
  (* byte counters *)
  rcount (b_r b') = rcount (b_r b) + len (to_local log) /\
  wcount (b_w b') = wcount (b_w b) + len (sent log) /\
  (* completion *)
  (forall n m, res = BReady n m -> b' = mkB (RD n) (WD m)) /\
  (* half-close propagation *)
  (b_r b' = RD (rcount (b_r b')) -> b_r b <> RD (rcount (b_r b)) -> has EvLocShutdown log = true) /\
  (b_w b' = WD (wcount (b_w b')) -> b_w b <> WD (wcount (b_w b)) -> has EvMuxShutdown log = true) /\
  (* everything taken from the local side is sent, one credit per frame (unless the poll fails) *)
  (match res with BReady _ _ | BPending => sent log = taken log /\ npermit log = nframes log | _ => True end).
Proof.
  unfold poll. destruct (poll_read_us E Ops fuel (b_r b) e []) as [[[r1 p1] e1] l1] eqn:Er.
  destruct (poll_read_us_ok _ _ _ _ _ _ _ _ Er) as ([(a1 & El1 & Ef1 & Ep1 & Ec1 & Et1 & Es1 & Np1 & Nf1)] & Rd1 & Rh1).
  cbn [app] in El1. subst l1.
  assert (Cnt1 : rcount r1 = rcount (b_r b) + len (to_local a1)) by exact Ec1.
  destruct p1 as [n| |x|].
  3:{ (* read half failed: returned at once *)
      intros H; inversion H; subst; clear H; cbn [b_r b_w is_err].
      split; [split; [intros _; exact I|intros _ E0; rewrite E0 in Ef1; destruct Ef1]|].
      split; [intros y E0; inversion E0; subst; exact Ef1|].
      split; [discriminate|]. split; [exact Cnt1|]. split; [rewrite Es1, len_nil; lia|].
      split; [discriminate|]. split; [exact Rh1|]. split; [intros A B0; congruence|exact I]. }
  3:{ intros H; inversion H; subst; clear H; cbn [b_r b_w is_err]. rewrite Ef1.
      split; [split; [intros A; now destruct A|intros A; destruct A]|].
      split; [discriminate|]. split; [discriminate|]. split; [exact Cnt1|]. split; [rewrite Es1, len_nil; lia|].
      split; [discriminate|]. split; [exact Rh1|]. split; [intros A B0; congruence|exact I]. }
  all: destruct (poll_write_us E Ops fuel (b_w b) e1 a1) as [[[w2 p2] e2] l2] eqn:Ew;
    destruct (poll_write_us_ok _ _ _ _ _ _ _ _ Ew) as ([(a2 & El2 & Ef2 & Ep2 & Et2 & Ec2 & Es2)] & Wd2 & Wh2);
    subst l2;
    assert (Hw : b_w b <> WD (wcount (b_w b)) -> w2 = WD (wcount w2) -> has EvMuxShutdown a1 || has EvMuxShutdown a2 = true)
      by (intros A B0; specialize (Wh2 B0 A); rewrite has_app in Wh2; exact Wh2);
    assert (Hr : r1 = RD (rcount r1) -> b_r b <> RD (rcount (b_r b)) -> has EvLocShutdown a1 || has EvLocShutdown a2 = true)
      by (intros A B0; rewrite (Rh1 A B0); reflexivity);
    destruct p2 as [m| |x|]; intros H; inversion H; subst; clear H; cbn [b_r b_w is_err];
    rewrite ?fails_app, ?pends_app, ?to_local_app, ?sent_app, ?taken_app, ?npermit_app, ?nframes_app, ?has_app;
    rewrite ?Ef1, ?Et1, ?Es1, ?Et2, ?Np1, ?Nf1, ?app_nil_r; cbn [app].
  all: cbv iota beta in Ef2.
  all: split; [first [ split; [intros A; exfalso; apply A; rewrite Ef2; reflexivity | intros A; destruct A]
                     | split; [intros _; exact I | intros _ E0; rewrite E0 in Ef2; destruct Ef2] ]|].
  all: split; [first [ (intros; discriminate) | intros y E0; inversion E0; subst; exact Ef2 ]|].
  all: split; [first [ (intros; discriminate)
                     | intros _; destruct (pends a2); [exfalso; apply (Ep2 eq_refl); reflexivity|destruct (pends a1); discriminate]
                     | intros _; destruct (pends a1); [exfalso; apply (Ep1 eq_refl); reflexivity|discriminate] ]|].
  all: split; [exact Cnt1|]. all: split; [rewrite Ec2; reflexivity|].
  all: split; [first [ (intros; discriminate)
                     | intros n0 m0 E0; inversion E0; subst; rewrite (Wd2 m0 eq_refl), (Rd1 n0 eq_refl); reflexivity ]|].
  all: split; [exact Hr|]. all: split; [intros A B0; now apply Hw|].
  all: try exact I. all: destruct Es2 as [S2 N2]; split; [exact S2|lia].
Qed.

(* any number of polls, whatever happens to the two sides in between *)
Inductive reach (fuel : nat) : bstate -> list ev -> Prop :=
| reach_init : reach fuel binit []
| reach_poll b L e b' res e' log :
    reach fuel b L -> poll E Ops fuel b e = (b', res, e', log) -> reach fuel b' (L ++ log).

Theorem counts_are_totals fuel b L : reach fuel b L ->
  rcount (b_r b) = len (to_local L) /\ wcount (b_w b) = len (sent L).
Proof.
  induction 1 as [|b L e b' res e' log HR [IH1 IH2] HP]; [split; reflexivity|].
  destruct (poll_ok _ _ _ _ _ _ _ HP) as (_ & _ & _ & C1 & C2 & _).
  rewrite to_local_app, sent_app, !len_app. lia.
Qed.

(* the bridge completes with exactly the number of bytes it relayed in each direction *)
Theorem completes_with_counts fuel b L e b' n m e' log : reach fuel b L ->
  poll E Ops fuel b e = (b', BReady n m, e', log) ->
  n = len (to_local (L ++ log)) /\ m = len (sent (L ++ log)) /\ b' = mkB (RD n) (WD m).
Proof.
  intros HR HP. destruct (counts_are_totals _ _ _ (reach_poll _ _ _ _ _ _ _ _ HR HP)) as [A B].
  destruct (poll_ok _ _ _ _ _ _ _ HP) as (_ & _ & _ & _ & _ & D & _). rewrite (D n m eq_refl) in A, B.
  cbn in A, B. auto.
Qed.
End Proofs.
