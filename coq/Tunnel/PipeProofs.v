From PV Require Import Tunnel.Pipe.
From Coq Require Import ZifyBool ZifyNat.

Fixpoint marks (hs : list hop) : Prop :=
  match hs with
  | a :: ((b :: _) as tl) => (snd b = true -> fst a = [] /\ snd a = true) /\ marks tl
  | _ => True
  end.

Definition first_mark (hs : list hop) : bool := match hs with a :: _ => snd a | [] => false end.

Record PInv (p : pipe) : Prop := {
  pi_cons : p_written p = p_delivered p ++ flat (p_hops p);
  pi_marks : marks (p_hops p);
  pi_first : first_mark (p_hops p) = p_shut p;
  pi_ne : p_hops p <> [];
  pi_eof : p_eof p = true -> flat (p_hops p) = [] /\ p_shut p = true }.

(* ---- the hop-level lemmas ---- *)
Lemma move_nil i k : move i k [] = [].
Proof. destruct i; reflexivity. Qed.
Lemma move_eof_nil i : move_eof i [] = [].
Proof. destruct i; reflexivity. Qed.
Lemma move_S i k a tl : move (S i) k (a :: tl) = a :: move i k tl.
Proof. destruct tl; [rewrite move_nil|]; reflexivity. Qed.
Lemma move_eof_S i a tl : move_eof (S i) (a :: tl) = a :: move_eof i tl.
Proof. destruct tl; [rewrite move_eof_nil|]; reflexivity. Qed.

Lemma flat_move : forall hs i k, flat (move i k hs) = flat hs.
Proof.
  induction hs as [|a tl IH]; intros i k; [rewrite move_nil; reflexivity|].
  destruct i as [|i].
  - destruct tl as [|b r]; [reflexivity|]. cbn [move]. destruct (snd b); [reflexivity|].
    cbn [flat fst]. rewrite <- !app_assoc. f_equal. f_equal. apply firstn_skipn.
  - rewrite move_S. cbn [flat]. rewrite IH. reflexivity.
Qed.

Lemma flat_move_eof : forall hs i, flat (move_eof i hs) = flat hs.
Proof.
  induction hs as [|a tl IH]; intros i; [rewrite move_eof_nil; reflexivity|].
  destruct i as [|i].
  - destruct tl as [|b r]; [reflexivity|]. cbn [move_eof]. destruct (fst a); [|reflexivity]. destruct (snd a); reflexivity.
  - rewrite move_eof_S. cbn [flat]. rewrite IH. reflexivity.
Qed.

Lemma first_move hs i k : first_mark (move i k hs) = first_mark hs.
Proof.
  destruct hs as [|a tl]; [rewrite move_nil; reflexivity|]. destruct i; [|rewrite move_S; reflexivity].
  destruct tl as [|b r]; [reflexivity|]. cbn [move]. destruct (snd b); reflexivity.
Qed.
Lemma first_move_eof hs i : first_mark (move_eof i hs) = first_mark hs.
Proof.
  destruct hs as [|a tl]; [rewrite move_eof_nil; reflexivity|]. destruct i; [|rewrite move_eof_S; reflexivity].
  destruct tl as [|b r]; [reflexivity|]. cbn [move_eof]. destruct (fst a); [|reflexivity]. destruct (snd a); reflexivity.
Qed.

Lemma ne_move hs i k : hs <> [] -> move i k hs <> [].
Proof. destruct hs as [|a tl]; [auto|]. intros _. destruct i; [destruct tl as [|b r]; cbn [move]; [|destruct (snd b)]; discriminate|rewrite move_S; discriminate]. Qed.
Lemma ne_move_eof hs i : hs <> [] -> move_eof i hs <> [].
Proof.
  destruct hs as [|a tl]; [auto|]. intros _. destruct i; [|rewrite move_eof_S; discriminate].
  destruct tl as [|b r]; cbn [move_eof]; [discriminate|]. destruct (fst a); [destruct (snd a)|]; discriminate.
Qed.

Lemma marks_move : forall hs i k, marks hs -> marks (move i k hs).
Proof.
  induction hs as [|a tl IH]; intros i k M; [rewrite move_nil; exact I|].
  destruct i as [|i].
  - destruct tl as [|b r]; [exact I|]. cbn [move]. destruct (snd b) eqn:Eb; [exact M|].
    destruct M as [_ M]. cbn [marks snd fst]. split; [intros X; try rewrite Eb in X; discriminate|].
    destruct r as [|c r']; [exact I|]. destruct M as [Mc M]. split; [|exact M].
    intros Hc. destruct (Mc Hc) as [_ Hb]. rewrite Hb in Eb. discriminate.
  - rewrite move_S. destruct tl as [|b r]; [rewrite move_nil; exact I|].
    destruct M as [Mb M]. specialize (IH i k M).
    destruct (move i k (b :: r)) as [|b' r'] eqn:E; [exact I|].
    split; [|exact IH].
    (* the mark of the head of the moved tail is unchanged and data only leaves the head *)
    assert (Hb' : snd b' = snd b).
    { pose proof (first_move (b :: r) i k) as F. rewrite E in F. exact F. }
    rewrite Hb'. exact Mb.
Qed.

Lemma marks_move_eof : forall hs i, marks hs -> marks (move_eof i hs).
Proof.
  induction hs as [|a tl IH]; intros i M; [rewrite move_eof_nil; exact I|].
  destruct i as [|i].
  - destruct tl as [|b r]; [exact I|]. cbn [move_eof].
    destruct (fst a) eqn:Ea; [|exact M]. destruct (snd a) eqn:Sa; [|exact M].
    destruct M as [_ M]. cbn [marks snd fst]. split; [auto|].
    destruct r as [|c r']; [exact I|]. destruct M as [Mc M]. split; [|exact M].
    intros Hc. destruct (Mc Hc) as [Hb _]. cbn [fst]. auto.
  - rewrite move_eof_S. destruct tl as [|b r]; [rewrite move_eof_nil; exact I|].
    destruct M as [Mb M]. specialize (IH i M).
    destruct (move_eof i (b :: r)) as [|b' r'] eqn:E; [exact I|].
    split; [|exact IH].
    assert (Hb' : snd b' = snd b).
    { pose proof (first_move_eof (b :: r) i) as F. rewrite E in F. exact F. }
    rewrite Hb'. exact Mb.
Qed.

Lemma take_last_flat : forall hs k, hs <> [] ->
  let '(hs', out) := take_last k hs in out ++ flat hs' = flat hs /\ first_mark hs' = first_mark hs /\ hs' <> [] /\
  (marks hs -> marks hs').
Proof.
  induction hs as [|a tl IH]; intros k Hne; [congruence|].
  destruct tl as [|b r].
  - cbn [take_last flat fst snd app first_mark marks]. repeat split; auto; try discriminate.
    apply firstn_skipn.
  - specialize (IH k ltac:(discriminate)). change (take_last k (a :: b :: r)) with (let '(r', out) := take_last k (b :: r) in (a :: r', out)).
    destruct (take_last k (b :: r)) as [r' out]. destruct IH as (F & Fm & Ne & M).
    cbn [flat]. repeat split; try discriminate.
    + rewrite app_assoc, F. reflexivity.
    + intros [Mb Mt]. destruct r' as [|b' r'']; [congruence|]. split; [|exact (M Mt)].
      cbn [first_mark] in Fm. rewrite Fm. exact Mb.
Qed.

Lemma last_done_all : forall hs, marks hs -> last_done hs = true -> flat hs = [] /\ first_mark hs = true.
Proof.
  induction hs as [|a tl IH]; intros M L; [discriminate|].
  destruct tl as [|b r].
  - cbn [last_done] in L. destruct (fst a) eqn:Ea; [|discriminate]. cbn [flat first_mark]. rewrite Ea. auto.
  - destruct M as [Mb M]. change (last_done (a :: b :: r)) with (last_done (b :: r)) in L.
    destruct (IH M L) as [F Fm]. cbn [first_mark] in Fm. destruct (Mb Fm) as [Ea Sa].
    cbn [flat first_mark]. cbn [flat] in F. rewrite F, Ea. auto.
Qed.

Lemma marks_on_first_data hs bs : first_mark hs = false -> marks hs -> marks (on_first (fun a => (fst a ++ bs, snd a)) hs).
Proof.
  destruct hs as [|a tl]; [auto|]. cbn [on_first first_mark]. intros Fa M.
  destruct tl as [|b r]; [exact I|]. destruct M as [Mb M]. split; [|exact M].
  cbn [fst snd]. intros Hb. destruct (Mb Hb) as [_ Sa]. congruence.
Qed.

Lemma marks_on_first_shut hs : marks hs -> marks (on_first (fun a => (fst a, true)) hs).
Proof.
  destruct hs as [|a tl]; [auto|]. cbn [on_first]. intros M.
  destruct tl as [|b r]; [exact I|]. destruct M as [Mb M]. split; [|exact M].
  cbn [fst snd]. intros Hb. destruct (Mb Hb) as [Ea _]. auto.
Qed.

(* ---- one step preserves the invariant ---- *)
Lemma pstep_inv p e : PInv p -> PInv (pstep p e).
Proof.
  intros [C M F Ne E]. destruct e as [bs| |i k|i|k|]; cbn [pstep].
  - destruct (p_shut p) eqn:Sh; [constructor; auto; rewrite ?Sh; auto|].
    destruct (p_hops p) as [|a tl] eqn:Eh; [congruence|].
    constructor; cbn [p_written p_delivered p_hops p_shut p_eof].
    + cbn [on_first flat fst]. rewrite C. cbn [flat]. rewrite <- !app_assoc. reflexivity.
    + apply marks_on_first_data; [exact F|exact M].
    + cbn [on_first first_mark snd]. cbn [first_mark] in F. exact F.
    + discriminate.
    + intros Ee. destruct (E Ee) as [_ Hs]. congruence.
  - constructor; cbn [p_written p_delivered p_hops p_shut p_eof].
    + destruct (p_hops p) as [|a tl]; [congruence|]. cbn [on_first flat fst]. exact C.
    + apply marks_on_first_shut. exact M.
    + destruct (p_hops p) as [|a tl]; [congruence|]. reflexivity.
    + destruct (p_hops p) as [|a tl]; [congruence|]. discriminate.
    + intros Ee. destruct (E Ee) as [Fl _]. split; [|reflexivity].
      destruct (p_hops p) as [|a tl]; [congruence|]. exact Fl.
  - constructor; cbn [p_written p_delivered p_hops p_shut p_eof].
    + rewrite flat_move. exact C.
    + apply marks_move. exact M.
    + rewrite first_move. exact F.
    + apply ne_move. exact Ne.
    + rewrite flat_move. exact E.
  - constructor; cbn [p_written p_delivered p_hops p_shut p_eof].
    + rewrite flat_move_eof. exact C.
    + apply marks_move_eof. exact M.
    + rewrite first_move_eof. exact F.
    + apply ne_move_eof. exact Ne.
    + rewrite flat_move_eof. exact E.
  - pose proof (take_last_flat (p_hops p) k Ne) as T. destruct (take_last k (p_hops p)) as [hs' out].
    destruct T as (Fl & Fm & Ne' & M').
    constructor; cbn [p_written p_delivered p_hops p_shut p_eof].
    + rewrite C, <- Fl, app_assoc. reflexivity.
    + exact (M' M).
    + rewrite Fm. exact F.
    + exact Ne'.
    + intros Ee. destruct (E Ee) as [Fz Hs]. split; [|exact Hs].
      rewrite Fz in Fl. destruct (app_eq_nil _ _ Fl) as [_ H]. exact H.
  - constructor; cbn [p_written p_delivered p_hops p_shut p_eof]; auto.
    intros H. apply Bool.orb_true_iff in H. destruct H as [H|H]; [exact (E H)|].
    destruct (last_done_all _ M H) as [Fz Fm]. split; [exact Fz|]. rewrite <- F. exact Fm.
Qed.

Lemma marks_repeat n : marks (repeat ([], false) n).
Proof.
  induction n as [|n IH]; [exact I|]. cbn [repeat]. destruct n as [|n]; [exact I|].
  cbn [repeat] in *. split; [discriminate|exact IH].
Qed.
Lemma flat_repeat n b : flat (repeat ([], b) n) = [].
Proof. induction n as [|n IH]; [reflexivity|]. cbn [repeat flat fst]. rewrite IH. reflexivity. Qed.

Lemma pinit_inv n : PInv (pinit n).
Proof.
  constructor; cbn [pinit p_written p_delivered p_hops p_shut p_eof].
  - rewrite flat_repeat. reflexivity.
  - apply marks_repeat.
  - reflexivity.
  - discriminate.
  - discriminate.
Qed.

Lemma fold_inv es : forall p, PInv p -> PInv (fold_left pstep es p).
Proof. induction es as [|e es IH]; intros p H; [exact H|]. cbn [fold_left]. apply IH, pstep_inv, H. Qed.

Theorem pipe_inv n es : PInv (prun n es).
Proof. apply fold_inv, pinit_inv. Qed.

(* Whatever the number of relays and however their moves interleave with writes and reads: what
   the destination has read is a prefix of what the source wrote (nothing altered, nothing
   reordered, nothing invented) *)
Theorem pipe_prefix n es : exists rest, p_written (prun n es) = p_delivered (prun n es) ++ rest.
Proof. eexists. apply (pi_cons _ (pipe_inv n es)). Qed.

(* ... and the destination sees end-of-stream only after the source shut down and after every
   byte written has been read *)
Theorem pipe_eof_complete n es : p_eof (prun n es) = true ->
  p_delivered (prun n es) = p_written (prun n es) /\ p_shut (prun n es) = true.
Proof.
  intros H. destruct (pipe_inv n es) as [C _ _ _ E]. destruct (E H) as [Fz Hs].
  rewrite C, Fz, app_nil_r. auto.
Qed.

(* a half-close does not disturb the other direction: the two directions of a connection are
   two independent pipes; here: bytes written before the shutdown are all still delivered *)

(* ---- progress: once the source has shut down, the relays and the reader alone can finish ---- *)
Inductive hev := HMove (i k : nat) | HMoveEof (i : nat).
Definition hstep (hs : list hop) (e : hev) : list hop :=
  match e with HMove i k => move i k hs | HMoveEof i => move_eof i hs end.
Definition to_pev (e : hev) : pev := match e with HMove i k => PMove i k | HMoveEof i => PMoveEof i end.

Fixpoint sched (i n big : nat) : list hev :=
  match n with O => [] | S n' => HMove i big :: HMoveEof i :: sched (S i) n' big end.

Definition hshift (e : hev) : hev := match e with HMove i k => HMove (S i) k | HMoveEof i => HMoveEof (S i) end.

Lemma sched_shift : forall n i big, sched (S i) n big = map hshift (sched i n big).
Proof. induction n as [|n IH]; intros i big; [reflexivity|]. cbn [sched map hshift]. rewrite IH. reflexivity. Qed.

Lemma hstep_shift a tl e : hstep (a :: tl) (hshift e) = a :: hstep tl e.
Proof. destruct e; cbn [hshift hstep]; [apply move_S|apply move_eof_S]. Qed.

Lemma fold_shift : forall es a tl, fold_left hstep (map hshift es) (a :: tl) = a :: fold_left hstep es tl.
Proof.
  induction es as [|e es IH]; intros a tl; [reflexivity|].
  cbn [map fold_left]. rewrite hstep_shift. apply IH.
Qed.

Lemma drain_hops' : forall tl a big, marks (a :: tl) -> snd a = true -> (length (flat (a :: tl)) <= big)%nat ->
  fold_left hstep (sched 0 (length tl) big) (a :: tl) = repeat ([], true) (length tl) ++ [(flat (a :: tl), true)].
Proof.
  induction tl as [|b r IH]; intros a big M F L.
  - cbn [length sched fold_left repeat app flat fst]. destruct a as [c m]. cbn [snd fst] in *. subst m. reflexivity.
  - destruct M as [Mb M]. cbn [length sched fold_left]. rewrite sched_shift.
    assert (Hb : hstep (hstep (a :: b :: r) (HMove 0 big)) (HMoveEof 0) = ([], true) :: (fst b ++ fst a, true) :: r).
    { cbn [hstep move]. destruct (snd b) eqn:Sb.
      - destruct (Mb eq_refl) as [Ea Sa]. cbn [move_eof]. rewrite Ea, Sa, app_nil_r.
        destruct a as [ca ma], b as [cb mb]. cbn [fst snd] in *. subst. reflexivity.
      - cbn [move_eof fst snd]. cbn [flat] in L. rewrite !app_length in L.
        rewrite skipn_all2 by lia. rewrite firstn_all2 by lia. rewrite F. reflexivity. }
    rewrite Hb. rewrite fold_shift.
    assert (R : fold_left hstep (sched 0 (length r) big) ((fst b ++ fst a, true) :: r) =
                repeat ([], true) (length r) ++ [(flat ((fst b ++ fst a, true) :: r), true)]).
    { apply IH; cbn [snd flat fst]; auto.
      - destruct r as [|c r']; [exact I|]. destruct M as [Mc M]. split; [|exact M].
        intros Hc. destruct (Mc Hc) as [Eb Sb]. destruct (Mb Sb) as [Ea _]. cbn [fst]. rewrite Eb, Ea. auto.
      - cbn [flat] in L. rewrite !app_length in *. lia. }
    etransitivity; [apply f_equal; exact R|].
    cbn [repeat app flat fst]. rewrite <- app_assoc. reflexivity.
Qed.

Lemma drain_hops : forall hs big, hs <> [] -> marks hs -> first_mark hs = true -> (length (flat hs) <= big)%nat ->
  fold_left hstep (sched 0 (length hs - 1)%nat big) hs = repeat ([], true) (length hs - 1)%nat ++ [(flat hs, true)].
Proof.
  intros [|a tl] big Ne M F L; [congruence|]. cbn [length]. replace (S (length tl) - 1)%nat with (length tl) by lia.
  apply drain_hops'; assumption.
Qed.

Lemma fold_pstep_hops : forall es p,
  fold_left pstep (map to_pev es) p =
  mkP (p_written p) (p_shut p) (fold_left hstep es (p_hops p)) (p_delivered p) (p_eof p).
Proof.
  induction es as [|e es IH]; intros p; cbn [map fold_left]; [destruct p; reflexivity|].
  rewrite IH. destruct e; reflexivity.
Qed.

Lemma take_last_all : forall pre c big, (length c <= big)%nat ->
  take_last big (pre ++ [(c, true)]) = (pre ++ [([], true)], c).
Proof.
  induction pre as [|a pre IH]; intros c big L.
  - cbn [app take_last fst snd]. rewrite skipn_all2, firstn_all2 by lia. reflexivity.
  - cbn [app]. destruct (pre ++ [(c, true)]) as [|x y] eqn:E; [destruct pre; discriminate|].
    change (take_last big (a :: x :: y)) with (let '(r', out) := take_last big (x :: y) in (a :: r', out)).
    rewrite <- E, IH by exact L. reflexivity.
Qed.

Lemma last_done_tail : forall pre, last_done (pre ++ [([], true)]) = true.
Proof. induction pre as [|a pre IH]; [reflexivity|]. cbn [app]. destruct (pre ++ [([], true)]) eqn:E; [destruct pre; discriminate|]. exact IH. Qed.

(* From every reachable state in which the source has shut down there is a schedule of relay
   moves and reads only (no further help from the source) after which the destination has read
   everything and seen end-of-stream: a closed connection is never left hanging *)
Theorem pipe_completes n es : p_shut (prun n es) = true ->
  exists sched', let p' := fold_left pstep sched' (prun n es) in
    p_eof p' = true /\ p_delivered p' = p_written p'.
Proof.
  intros Sh. set (p := prun n es). destruct (pipe_inv n es) as [C M F Ne E]. fold p in C, M, F, Ne, E, Sh.
  set (big := length (flat (p_hops p))).
  exists (map to_pev (sched 0 (length (p_hops p) - 1)%nat big) ++ [PRead big; PReadEof]).
  cbv zeta. rewrite fold_left_app, fold_pstep_hops.
  rewrite drain_hops; auto; [|rewrite F; exact Sh].
  cbn [fold_left pstep p_hops p_written p_shut p_delivered p_eof].
  rewrite take_last_all by (unfold big; lia).
  cbn [p_hops p_written p_shut p_delivered p_eof]. rewrite last_done_tail, Bool.orb_true_r.
  split; [reflexivity|]. symmetry. exact C.
Qed.
