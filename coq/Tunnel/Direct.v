(* What a DIRECT connection between the local client and the target would show for the scripts
   of the end-to-end harness: the specification the tunnel is compared with (C01). *)
From PV Require Export Common.Bytes Common.Wire.

Definition sumN (l : list N) : N := fold_right N.add 0 l.

(* one TCP connection: (shape, local chunk sizes, target chunk sizes) ->
   l_len l_ok l_end t_len t_ok t_end *)
Definition direct_tcp (shape : N) (ls ts : list N) : list N :=
  let L := sumN ls in let T := sumN ts in
  match shape with
  | 0 | 1 | 2 | 8 | 9 => [T; 1; 1; 4 + L; 1; 1]     (* both directions complete, both ends see a clean EOF
                                                   (8, 9: the late direction while the connection is still open) *)
  | 3 => [T; 1; 1; 4; 1; 0]                 (* target wrote and closed: local gets it all, then EOF *)
  | 4 => [0; 1; 0; 4 + L; 1; 1]             (* local wrote and closed: target gets it all, then EOF *)
  | 7 => [0; 1; 1; 4 + 3145728; 1; 1]       (* slow, half-closed target: the whole 3 MB upload arrives, then EOF *)
  | 10 => [0; 1; 0; 0; 1; 0]               (* a local client that gives up at once: nothing is observed of it *)
  | 6 => [T; 1; 1; 0; 1; 0]                 (* target answered, then closed while the local client uploads: the upload fails *)
  | _ => [0; 1; 1; 0; 1; 0]                 (* refused: the local connection is closed *)
  end.

Fixpoint split_n (n : nat) (l : list N) : list N * list N :=
  match n, l with
  | S n', x :: r => let '(a, b) := split_n n' r in (x :: a, b)
  | _, _ => ([], l)
  end.

Fixpoint tcp_conns (fuel : nat) (c : list N) : list N :=
  match fuel, c with
  | S f, shape :: nl :: r =>
      let '(ls, r1) := split_n (N.to_nat nl) r in
      match r1 with
      | nt :: r2 => let '(ts, r3) := split_n (N.to_nat nt) r2 in direct_tcp shape ls ts ++ tcp_conns f r3
      | [] => []
      end
  | _, _ => []
  end.

(* one UDP client sending n datagrams: mine foreign from_ok header_ok target_got *)
Fixpoint udp_clients (fuel : nat) (c : list N) : list N :=
  match fuel, c with
  | S f, n :: r => let '(_, r1) := split_n (N.to_nat n) r in [n; 0; 1; 1; n] ++ udp_clients f r1
  | _, _ => []
  end.

Definition run_tunnel (c : list N) : list N :=
  match c with
  | 1 :: _entry :: _variant :: nconn :: r => tcp_conns (N.to_nat nconn) r
  | 2 :: _entry :: _shared :: _variant :: ncl :: r => udp_clients (N.to_nat ncl) r
  | [5; entry; n] => [n * (if entry =? 1 then 524288 else 2048); 1; 1; 4; 1; 0]  (* a long stream of small chunks to a reader that stalls: all of it, then EOF *)
  | [4; _entry; _n] => [1; 0; 1; 1; 1]      (* after a burst of replies (some may be dropped) the exchange works as before *)
  | [3; _entry; n; _gap] => [n; 0; 1; 1; n]    (* a slow UDP client: every datagram answered, whatever the idle time *)
  | _ => MALFORMED
  end.
