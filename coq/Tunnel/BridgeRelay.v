(* The bridge (Bridge/Model.v, the model of CopyBidirectional) IS a relay in the sense of
   Tunnel/Pipe.v: instantiated on an environment made of four buffers (local->bridge,
   bridge->stream, stream->bridge, bridge->local) with an arbitrary oracle deciding readiness,
   partial reads/writes, credit and failures, every poll that does not fail moves a prefix of
   each upstream buffer to the end of its downstream buffer and passes the end-of-stream mark on
   only when the upstream buffer is empty and marked.  This is the link between C13's model and
   the pipeline theorems of C01. *)
From PV Require Import Common.Bytes Bridge.Model Tunnel.Pipe.
From Coq Require Import ZifyBool ZifyN ZifyNat.

Record penv := mkPE {
  pe_li : hop;          (* bytes the local side has produced, not yet taken by the bridge; mark: local EOF *)
  pe_mo : hop;          (* bytes the bridge has handed to the stream; mark: Finish requested *)
  pe_mi : hop;          (* bytes the stream holds for the bridge; mark: peer finished *)
  pe_lo : hop;          (* bytes the bridge has written to the local side; mark: local side shut down *)
  pe_orc : list N }.    (* the oracle: every operation consumes one number *)

Definition pop (e : penv) : N * penv :=
  match pe_orc e with
  | [] => (1, e)
  | x :: r => (x, mkPE (pe_li e) (pe_mo e) (pe_mi e) (pe_lo e) r)
  end.

(* a fill returns a non-empty prefix of what is there (x bytes, at least 1), EOF when empty and
   marked, Pending when empty and unmarked or when the oracle says 0; 1000+x = failure x *)
Definition fill (h : hop) (x : N) : ans (list N) :=
  if 1000 <=? x then Fail (x - 1000) else
  match fst h with
  | [] => if snd h then Ready [] else Pend
  | _ => if x =? 0 then Pend else Ready (firstn (N.to_nat x) (fst h))
  end.

Definition set_li e h := mkPE h (pe_mo e) (pe_mi e) (pe_lo e) (pe_orc e).
Definition set_mo e h := mkPE (pe_li e) h (pe_mi e) (pe_lo e) (pe_orc e).
Definition set_mi e h := mkPE (pe_li e) (pe_mo e) h (pe_lo e) (pe_orc e).
Definition set_lo e h := mkPE (pe_li e) (pe_mo e) (pe_mi e) h (pe_orc e).

Definition pops : ops penv := mkOps
  (fun e => let '(x, e) := pop e in (fill (pe_mi e) x, e))
  (fun k e => set_mi e (skipn (N.to_nat k) (fst (pe_mi e)), snd (pe_mi e)))
  (fun e => let '(x, e) := pop e in
            (if 1000 <=? x then Fail (x - 1000) else if x =? 0 then Pend else Ready (negb (x =? 1)), e))
  (fun d e => let '(x, e) := pop e in
              if x =? 0 then (false, e) else (true, set_mo e (fst (pe_mo e) ++ d, snd (pe_mo e))))
  (fun e => set_mo e (fst (pe_mo e), true))
  (fun e => let '(x, e) := pop e in (fill (pe_li e) x, e))
  (fun k e => set_li e (skipn (N.to_nat k) (fst (pe_li e)), snd (pe_li e)))
  (fun buf e => let '(x, e) := pop e in
                if 1000 <=? x then (Fail (x - 1000), e) else if x =? 0 then (Pend, e) else
                let k := N.min x (len buf) in
                (Ready k, set_lo e (fst (pe_lo e) ++ firstn (N.to_nat k) buf, snd (pe_lo e))))
  (fun e => let '(x, e) := pop e in
            (if 1000 <=? x then Fail (x - 1000) else if x =? 0 then Pend else Ready tt, e))
  (fun e => let '(x, e) := pop e in
            if 1000 <=? x then (Fail (x - 1000), e) else if x =? 0 then (Pend, e) else
            (Ready tt, set_lo e (fst (pe_lo e), true))).

(* ---- the relay relation between an upstream hop a and a downstream hop b ---- *)
Definition relay (a b a' b' : hop) : Prop :=
  exists d, fst a = d ++ fst a' /\ fst b' = fst b ++ d /\ snd a' = snd a /\
            (snd b' = snd b \/ (snd b' = true /\ fst a' = [] /\ snd a = true)).

Lemma relay_refl a b : relay a b a b.
Proof. exists []. rewrite app_nil_r. auto. Qed.

Lemma relay_trans a b a1 b1 a2 b2 : relay a b a1 b1 -> snd b1 = snd b -> relay a1 b1 a2 b2 -> relay a b a2 b2.
Proof.
  intros (d & A & B & C & D) Sb (d' & A' & B' & C' & D'). exists (d ++ d').
  rewrite A, A', B', B, <- !app_assoc. repeat split; auto; [congruence|].
  destruct D' as [E|(E & F & G)]; [left; congruence|right; repeat split; auto; congruence].
Qed.

(* a relay step is a Pipe move followed, possibly, by passing the mark on *)
Lemma relay_is_moves a b a' b' : relay a b a' b' -> snd b = false ->
  [a'; b'] = move 0 (length (fst a) - length (fst a')) [a; b] \/
  [a'; b'] = move_eof 0 (move 0 (length (fst a) - length (fst a')) [a; b]).
Proof.
  intros (d & A & B & C & D) Sb. cbn [move]. rewrite Sb.
  assert (K : (length (fst a) - length (fst a') = length d)%nat) by (rewrite A, app_length; lia).
  rewrite K, A, skipn_app, firstn_app, Nat.sub_diag, skipn_all, firstn_all. cbn [skipn firstn app]. rewrite app_nil_r.
  destruct a' as [ca ma], b' as [cb mb], a as [ca0 ma0], b as [cb0 mb0]. cbn [fst snd] in *. subst.
  destruct D as [->|(-> & -> & ->)]; [left; reflexivity|right]. reflexivity.
Qed.

(* coherence between the bridge's state and the marks it has set *)
Definition coh (b : bstate) (e : penv) : Prop :=
  (match b_w b with WT _ => snd (pe_mo e) = false | WD _ => snd (pe_mo e) = true end) /\
  (match b_r b with RD _ => snd (pe_lo e) = true | _ => snd (pe_lo e) = false end).

Definition others_r (e e' : penv) := pe_li e' = pe_li e /\ pe_mo e' = pe_mo e.
Definition others_w (e e' : penv) := pe_mi e' = pe_mi e /\ pe_lo e' = pe_lo e.

Ltac popd e := unfold pop; destruct (pe_orc e) as [|?x ?orc].

Lemma fill_prefix h x buf : fill h x = Ready buf -> buf <> [] -> exists rest, fst h = buf ++ rest.
Proof.
  unfold fill. destruct (1000 <=? x); [discriminate|]. destruct (fst h) as [|c l] eqn:E.
  - destruct (snd h); [intros H; inversion H; congruence|discriminate].
  - destruct (x =? 0); [discriminate|]. intros H _. inversion H. exists (skipn (N.to_nat x) (c :: l)).
    symmetry. apply firstn_skipn.
Qed.

Lemma fill_eof h x : fill h x = Ready [] -> fst h = [] /\ snd h = true.
Proof.
  unfold fill. destruct (1000 <=? x); [discriminate|]. destruct (fst h) as [|c l] eqn:E.
  - destruct (snd h); [auto|discriminate].
  - destruct (N.eqb_spec x 0); [discriminate|]. intros H. inversion H as [H1].
    destruct (N.to_nat x) eqn:Ex; [lia|]. discriminate.
Qed.

(* ---- stream -> local ---- *)
Lemma shut_local_relay e n log r' p e' log' :
  shut_local penv pops e n log = (r', p, e', log') -> snd (pe_lo e) = false ->
  fst (pe_mi e) = [] -> snd (pe_mi e) = true ->
  relay (pe_mi e) (pe_lo e) (pe_mi e') (pe_lo e') /\ others_r e e' /\
  (match r' with RD _ => snd (pe_lo e') = true | _ => snd (pe_lo e') = false end) /\ (r' = RD n \/ r' = RS n).
Proof.
  unfold shut_local. cbn [loc_shutdown pops]. intros H Lo Em Mm.
  destruct (pop e) as [x e1] eqn:Ep.
  assert (Same : pe_li e1 = pe_li e /\ pe_mo e1 = pe_mo e /\ pe_mi e1 = pe_mi e /\ pe_lo e1 = pe_lo e).
  { revert Ep. popd e; intros X; inversion X; subst; auto. }
  destruct Same as (S1 & S2 & S3 & S4).
  destruct (1000 <=? x); [inversion H; subst; rewrite S3, S4; repeat split; auto using relay_refl; right; reflexivity|].
  destruct (x =? 0); inversion H; subst; cbn [pe_mi pe_lo pe_li pe_mo set_lo]; rewrite ?S3, ?S4.
  - repeat split; auto using relay_refl.
  - repeat split; auto. exists []. rewrite app_nil_r. cbn [fst snd]. repeat split; auto.
Qed.

Lemma read_loop_relay fuel : forall e n log r' p e' log',
  read_loop penv pops fuel e n log = (r', p, e', log') -> snd (pe_lo e) = false ->
  relay (pe_mi e) (pe_lo e) (pe_mi e') (pe_lo e') /\ others_r e e' /\
  (match r' with RD _ => snd (pe_lo e') = true | _ => snd (pe_lo e') = false end).
Proof.
  induction fuel as [|f IH]; intros e n log r' p e' log' H Lo; cbn [read_loop] in H.
  - inversion H; subst. repeat split; auto using relay_refl.
  - cbn [mux_fill pops] in H. destruct (pop e) as [x e1] eqn:Ep.
    assert (Same : pe_li e1 = pe_li e /\ pe_mo e1 = pe_mo e /\ pe_mi e1 = pe_mi e /\ pe_lo e1 = pe_lo e).
    { revert Ep. popd e; intros X; inversion X; subst; auto. }
    destruct Same as (S1 & S2 & S3 & S4).
    destruct (fill (pe_mi e1) x) as [[|b0 buf]|y|] eqn:Ef.
    + destruct (fill_eof _ _ Ef) as [Em Mm].
      destruct (shut_local_relay _ _ _ _ _ _ _ H ltac:(congruence) Em Mm) as (R & (O1 & O2) & M & _).
      rewrite S3, S4 in R. repeat split; auto; congruence.
    + destruct (fill_prefix _ _ _ Ef ltac:(discriminate)) as [rest Er].
      cbn [loc_write pops] in H. destruct (pop e1) as [x2 e2] eqn:Ep2.
      assert (Same2 : pe_li e2 = pe_li e1 /\ pe_mo e2 = pe_mo e1 /\ pe_mi e2 = pe_mi e1 /\ pe_lo e2 = pe_lo e1).
      { revert Ep2. popd e1; intros X; inversion X; subst; auto. }
      destruct Same2 as (T1 & T2 & T3 & T4).
      destruct (1000 <=? x2); [inversion H; subst; rewrite T3, T4, S3, S4; repeat split; auto using relay_refl; congruence|].
      destruct (x2 =? 0); [inversion H; subst; rewrite T3, T4, S3, S4; repeat split; auto using relay_refl; congruence|].
      set (k := N.min x2 (len (b0 :: buf))) in *.
      cbn [mux_consume pops] in H.
      match type of H with read_loop _ _ _ ?E _ _ = _ => set (e3 := E) in * end.
      assert (Lo3 : snd (pe_lo e3) = false) by (cbn; congruence).
      destruct (IH _ _ _ _ _ _ _ H Lo3) as (R & (O1 & O2) & M).
      split; [|split; [split|exact M]].
      * eapply relay_trans; [| |exact R].
        -- exists (firstn (N.to_nat k) (b0 :: buf)). cbn [e3 pe_mi pe_lo set_mi set_lo fst snd].
           rewrite T3, T4, S3, S4 in *. repeat split; auto.
           assert (Kl : (N.to_nat k <= length (b0 :: buf))%nat) by (unfold k, len; lia).
           assert (Fk : firstn (N.to_nat k) (fst (pe_mi e)) = firstn (N.to_nat k) (b0 :: buf)).
           { rewrite Er, firstn_app. replace (N.to_nat k - length (b0 :: buf))%nat with 0%nat by lia.
             cbn [firstn]. apply app_nil_r. }
           rewrite <- Fk. symmetry. apply firstn_skipn.
        -- cbn. congruence.
      * rewrite O1. cbn. congruence.
      * rewrite O2. cbn. congruence.
    + inversion H; subst. rewrite S3, S4. repeat split; auto using relay_refl; congruence.
    + inversion H; subst. rewrite S3, S4. repeat split; auto using relay_refl; congruence.
Qed.

(* ---- local -> stream ---- *)
Lemma pop_same e x e1 : pop e = (x, e1) ->
  pe_li e1 = pe_li e /\ pe_mo e1 = pe_mo e /\ pe_mi e1 = pe_mi e /\ pe_lo e1 = pe_lo e.
Proof. popd e; intros X; inversion X; subst; auto. Qed.

Lemma skip_prefix (l p rest : list N) : l = p ++ rest -> skipn (N.to_nat (len p)) l = rest.
Proof. intros ->. unfold len. rewrite Nat2N.id, skipn_app, Nat.sub_diag, skipn_all. reflexivity. Qed.

(* the coalescing loop takes a prefix of the local buffer into the accumulator *)
Lemma squeeze_relay fuel : forall e acc log se payload e' log',
  squeeze penv pops fuel e acc log = (se, payload, e', log') ->
  exists d, payload = acc ++ d /\ fst (pe_li e) = d ++ fst (pe_li e') /\ snd (pe_li e') = snd (pe_li e) /\
            pe_mo e' = pe_mo e /\ others_w e e' /\
            (se = SqEof -> fst (pe_li e') = [] /\ snd (pe_li e') = true).
Proof.
  induction fuel as [|f IH]; intros e acc log se payload e' log' H; cbn [squeeze] in H.
  - inversion H; subst. exists []. rewrite app_nil_r. unfold others_w. cbn [app]. repeat split; auto; try discriminate.
  - cbn [loc_fill pops] in H. destruct (pop e) as [x e1] eqn:Ep.
    destruct (pop_same _ _ _ Ep) as (S1 & S2 & S3 & S4).
    destruct (fill (pe_li e1) x) as [[|b0 buf]|y|] eqn:Ef.
    + inversion H; subst. destruct (fill_eof _ _ Ef) as [A B]. exists []. rewrite app_nil_r.
      unfold others_w. rewrite S1 in *. repeat split; auto; congruence.
    + destruct (fill_prefix _ _ _ Ef ltac:(discriminate)) as [rest Er].
      cbn [loc_consume pops] in H.
      match type of H with squeeze _ _ _ ?E _ _ = _ => set (e2 := E) in * end.
      destruct (IH _ _ _ _ _ _ _ H) as (d & P & L & M & Mo & (W1 & W2) & Eo).
      cbn [e2 pe_li set_li fst snd pe_mo pe_mi pe_lo] in *. rewrite (skip_prefix _ _ _ Er) in L.
      exists ((b0 :: buf) ++ d). unfold others_w. rewrite <- S1, <- S3, <- S4, <- S2.
      repeat split; auto; try congruence.
      all: first [ rewrite P, app_assoc; reflexivity | rewrite Er, L, app_assoc; reflexivity | apply Eo; assumption ].
    + inversion H; subst. exists []. rewrite app_nil_r. unfold others_w. cbn [app]. repeat split; auto; try congruence; try discriminate.
    + inversion H; subst. exists []. rewrite app_nil_r. unfold others_w. cbn [app]. repeat split; auto; try congruence; try discriminate.
Qed.

Definition not_err (p : pres) : Prop := match p with PErr _ | PFuel => False | _ => True end.

Lemma poll_write_relay fuel w e log w' p e' log' :
  poll_write_us penv pops fuel w e log = (w', p, e', log') -> not_err p ->
  (match w with WT _ => snd (pe_mo e) = false | WD _ => snd (pe_mo e) = true end) ->
  relay (pe_li e) (pe_mo e) (pe_li e') (pe_mo e') /\ others_w e e' /\
  (match w' with WT _ => snd (pe_mo e') = false | WD _ => snd (pe_mo e') = true end).
Proof.
  destruct w as [m|m]; cbn [poll_write_us]; intros H NE Co.
  2:{ inversion H; subst. unfold others_w. repeat split; auto using relay_refl. }
  cbn [loc_fill pops] in H. destruct (pop e) as [x e1] eqn:Ep.
  destruct (pop_same _ _ _ Ep) as (S1 & S2 & S3 & S4).
  destruct (fill (pe_li e1) x) as [[|b0 buf]|y|] eqn:Ef.
  - (* EOF: Finish *)
    inversion H; subst. destruct (fill_eof _ _ Ef) as [A B]. cbn [mux_shutdown pops pe_li pe_mo pe_mi pe_lo set_mo fst snd].
    unfold others_w. rewrite S1 in *. repeat split; auto; try congruence.
    exists []. rewrite app_nil_r, S2. cbn [fst snd]. rewrite A. repeat split; auto.
  - destruct (fill_prefix _ _ _ Ef ltac:(discriminate)) as [rest Er].
    cbn [mux_permit pops] in H. destruct (pop e1) as [x2 e2] eqn:Ep2.
    destruct (pop_same _ _ _ Ep2) as (T1 & T2 & T3 & T4).
    destruct (1000 <=? x2); [inversion H; subst; contradiction|].
    destruct (x2 =? 0).
    { inversion H; subst. unfold others_w. rewrite T1, T2, T3, T4, S1, S2, S3, S4. repeat split; auto using relay_refl. }
    destruct (negb (x2 =? 1)); [|inversion H; subst; contradiction].
    cbn [loc_consume pops] in H.
    match type of H with context [squeeze _ _ _ ?E _ _] => set (e3 := E) in * end.
    destruct (squeeze penv pops fuel e3 (b0 :: buf) (log ++ [EvPermit; EvTake (b0 :: buf)])) as [[[se payload] e4] log4] eqn:Sq.
    destruct (squeeze_relay _ _ _ _ _ _ _ _ Sq) as (d & P & L & M & Mo & (W1 & W2) & Eo).
    destruct se; [| | |inversion H; subst; contradiction].
    + (* SqPending *)
      cbn [mux_send pops] in H. destruct (pop e4) as [x5 e5] eqn:Ep5.
      destruct (pop_same _ _ _ Ep5) as (U1 & U2 & U3 & U4).
      destruct (x5 =? 0); cbn [negb] in H; [inversion H; subst; contradiction|].
      inversion H; subst. cbn [pe_li pe_mo pe_mi pe_lo set_mo fst snd].
      cbn [e3 pe_li pe_mo pe_mi pe_lo set_li fst snd] in *. rewrite T1 in L, M. rewrite (skip_prefix _ _ _ Er) in L.
      unfold others_w. repeat split; try congruence.
      exists ((b0 :: buf) ++ d). rewrite U1, U2, Mo, T2, S2. cbn [fst snd]. rewrite <- S1.
      repeat split; auto; try congruence.
      all: first [ rewrite Er, L, app_assoc; reflexivity | cbn [set_mo pe_mi pe_lo]; congruence ].
    + (* SqEof *)
      cbn [mux_send pops] in H. destruct (pop e4) as [x5 e5] eqn:Ep5.
      destruct (pop_same _ _ _ Ep5) as (U1 & U2 & U3 & U4).
      destruct (x5 =? 0); cbn [negb] in H; [inversion H; subst; contradiction|].
      inversion H; subst. cbn [mux_shutdown pops pe_li pe_mo pe_mi pe_lo set_mo fst snd].
      cbn [e3 pe_li pe_mo pe_mi pe_lo set_li fst snd] in *. rewrite T1 in L, M. rewrite (skip_prefix _ _ _ Er) in L.
      destruct (Eo eq_refl) as [Ee Em].
      unfold others_w. repeat split; try congruence.
      exists ((b0 :: buf) ++ d). rewrite U1, U2, Mo, T2, S2. cbn [fst snd]. rewrite <- S1.
      repeat split; auto; try congruence.
      all: first [ rewrite Er, L, app_assoc; reflexivity | cbn [set_mo pe_mi pe_lo]; congruence
                 | right; repeat split; congruence ].
    + (* SqErr: the poll fails *)
      cbn [mux_send pops] in H. destruct (pop e4) as [x5 e5] eqn:Ep5.
      destruct (x5 =? 0); cbn [negb] in H; inversion H; subst; contradiction.
  - inversion H; subst. contradiction.
  - (* local side not ready: flush, Pending *)
    cbn [loc_flush pops] in H. destruct (pop e1) as [x2 e2] eqn:Ep2.
    destruct (pop_same _ _ _ Ep2) as (T1 & T2 & T3 & T4).
    destruct (1000 <=? x2); [inversion H; subst; contradiction|].
    destruct (x2 =? 0); inversion H; subst; unfold others_w; rewrite T1, T2, T3, T4, S1, S2, S3, S4;
      repeat split; auto using relay_refl.
Qed.

(* ---- the whole poll ---- *)
Definition coh' (b : bstate) (e : penv) : Prop :=
  coh b e /\ (match b_r b with RS _ => fst (pe_mi e) = [] /\ snd (pe_mi e) = true | _ => True end).

Lemma poll_read_relay fuel r e log r' p e' log' :
  poll_read_us penv pops fuel r e log = (r', p, e', log') ->
  (match r with RD _ => snd (pe_lo e) = true | _ => snd (pe_lo e) = false end) ->
  (match r with RS _ => fst (pe_mi e) = [] /\ snd (pe_mi e) = true | _ => True end) ->
  relay (pe_mi e) (pe_lo e) (pe_mi e') (pe_lo e') /\ others_r e e' /\
  (match r' with RD _ => snd (pe_lo e') = true | _ => snd (pe_lo e') = false end) /\
  (match r' with RS _ => fst (pe_mi e') = [] /\ snd (pe_mi e') = true | _ => True end).
Proof.
  destruct r as [n|n|n]; cbn [poll_read_us]; intros H Lo Rs.
  - (* the loop: the RS clause of the result needs the EOF observation; re-derive it *)
    destruct (read_loop_relay _ _ _ _ _ _ _ _ H Lo) as (R & O & M). repeat split; auto; try apply O.
    destruct r' as [k|k|k]; auto.
    (* RS is only produced by shut_local, reached after an EOF fill: the stream buffer is empty and marked *)
    revert H Lo. clear. revert e n log. induction fuel as [|f IH]; intros e n log H Lo; cbn [read_loop] in H; [inversion H|].
    cbn [mux_fill pops] in H. destruct (pop e) as [x e1] eqn:Ep. destruct (pop_same _ _ _ Ep) as (S1 & S2 & S3 & S4).
    destruct (fill (pe_mi e1) x) as [[|b0 buf]|y|] eqn:Ef; try (inversion H; fail).
    + destruct (fill_eof _ _ Ef) as [A B]. unfold shut_local in H. cbn [loc_shutdown pops] in H.
      destruct (pop e1) as [x2 e2] eqn:Ep2. destruct (pop_same _ _ _ Ep2) as (T1 & T2 & T3 & T4).
      destruct (1000 <=? x2); [inversion H; subst; rewrite T3; auto|].
      destruct (x2 =? 0); inversion H; subst; cbn [pe_mi set_lo]; rewrite T3; auto.
    + cbn [loc_write pops] in H. destruct (pop e1) as [x2 e2] eqn:Ep2.
      destruct (1000 <=? x2); [inversion H|]. destruct (x2 =? 0); [inversion H|].
      cbn [mux_consume pops] in H. eapply IH; [exact H|]. destruct (pop_same _ _ _ Ep2) as (T1 & T2 & T3 & T4). cbn. congruence.
  - destruct Rs as [Em Mm]. destruct (shut_local_relay _ _ _ _ _ _ _ H Lo Em Mm) as (R & O & M & D).
    repeat split; auto; try apply O. destruct D as [->| ->]; auto.
    destruct R as (d & A & _ & C & _). rewrite Em in A. destruct d; [|discriminate]. cbn [app] in A. split; congruence.
  - inversion H; subst. repeat split; auto using relay_refl.
Qed.

Definition live (r : bres) : Prop := match r with BReady _ _ | BPending => True | _ => False end.

(* Every poll of the bridge that does not fail is a relay step in both directions, for every
   oracle (readiness, partial reads and writes, credit), and keeps the bridge coherent with the
   marks: the bridge forwards a prefix in order, never invents or drops a byte, and passes
   end-of-stream on only after draining. *)
Theorem bridge_is_relay fuel b e b' r e' log :
  poll penv pops fuel b e = (b', r, e', log) -> live r -> coh' b e ->
  relay (pe_mi e) (pe_lo e) (pe_mi e') (pe_lo e') /\
  relay (pe_li e) (pe_mo e) (pe_li e') (pe_mo e') /\
  coh' b' e'.
Proof.
  unfold poll. intros H Lv [[Cw Cr] Rs].
  destruct (poll_read_us penv pops fuel (b_r b) e []) as [[[r1 p1] e1] log1] eqn:Hr.
  assert (Lo : match b_r b with RD _ => snd (pe_lo e) = true | _ => snd (pe_lo e) = false end)
    by (destruct (b_r b); auto).
  destruct (poll_read_relay _ _ _ _ _ _ _ _ Hr Lo Rs) as (R1 & (O1 & O2) & M1 & Rs1).
  destruct p1 as [n| |x|]; try (inversion H; subst; contradiction).
  - destruct (poll_write_us penv pops fuel (b_w b) e1 log1) as [[[w2 p2] e2] log2] eqn:Hw.
    assert (Cw1 : match b_w b with WT _ => snd (pe_mo e1) = false | WD _ => snd (pe_mo e1) = true end)
      by (rewrite O2; exact Cw).
    destruct p2 as [m| |x|]; try (inversion H; subst; contradiction).
    + destruct (poll_write_relay _ _ _ _ _ _ _ _ Hw I Cw1) as (R2 & (W1 & W2) & M2).
      inversion H; subst. cbn [b_r b_w]. rewrite W1, W2. rewrite O1, O2 in R2.
      unfold coh', coh. cbn [b_r b_w]. rewrite ?W1, ?W2. repeat split; auto.
    + destruct (poll_write_relay _ _ _ _ _ _ _ _ Hw I Cw1) as (R2 & (W1 & W2) & M2).
      inversion H; subst. cbn [b_r b_w]. rewrite W1, W2. rewrite O1, O2 in R2.
      unfold coh', coh. cbn [b_r b_w]. rewrite ?W1, ?W2. repeat split; auto.
  - destruct (poll_write_us penv pops fuel (b_w b) e1 log1) as [[[w2 p2] e2] log2] eqn:Hw.
    assert (Cw1 : match b_w b with WT _ => snd (pe_mo e1) = false | WD _ => snd (pe_mo e1) = true end)
      by (rewrite O2; exact Cw).
    destruct p2 as [m| |x|]; try (inversion H; subst; contradiction).
    + destruct (poll_write_relay _ _ _ _ _ _ _ _ Hw I Cw1) as (R2 & (W1 & W2) & M2).
      inversion H; subst. cbn [b_r b_w]. rewrite W1, W2. rewrite O1, O2 in R2.
      unfold coh', coh. cbn [b_r b_w]. rewrite ?W1, ?W2. repeat split; auto.
    + destruct (poll_write_relay _ _ _ _ _ _ _ _ Hw I Cw1) as (R2 & (W1 & W2) & M2).
      inversion H; subst. cbn [b_r b_w]. rewrite W1, W2. rewrite O1, O2 in R2.
      unfold coh', coh. cbn [b_r b_w]. rewrite ?W1, ?W2. repeat split; auto.
Qed.

(* and a relay step is what Tunnel/Pipe.v calls a move (possibly followed by passing the mark on),
   so the bridge is an instance of the relays the pipeline theorems quantify over *)
Corollary bridge_moves_are_pipe_moves fuel b e b' r e' log :
  poll penv pops fuel b e = (b', r, e', log) -> live r -> coh' b e -> snd (pe_mo e) = false ->
  let k := (length (fst (pe_li e)) - length (fst (pe_li e')))%nat in
  [pe_li e'; pe_mo e'] = move 0 k [pe_li e; pe_mo e] \/
  [pe_li e'; pe_mo e'] = move_eof 0 (move 0 k [pe_li e; pe_mo e]).
Proof.
  intros H Lv C Mo. destruct (bridge_is_relay _ _ _ _ _ _ _ H Lv C) as (_ & R & _).
  apply relay_is_moves; assumption.
Qed.

(* the hypotheses are satisfiable and the step is not trivial: a poll that moves bytes both ways *)
Example relay_example :
  let e := mkPE ([1; 2; 3], false) ([], false) ([7; 8], true) ([9], false) [2; 5; 1; 1; 3; 2; 0; 1] in
  let '(b', r, e', _) := poll penv pops 10 binit e in
  live r /\ coh' binit e /\ pe_lo e' = ([9; 7; 8], true) /\ pe_mo e' = ([1; 2; 3], false) /\ pe_li e' = ([], false).
Proof. vm_compute. repeat split; auto. Qed.
