From PV Require Import Tunnel.UdpMap.
From Coq Require Import ZifyBool ZifyN.

(* every id maps to an entry whose address pair maps back to the id, and vice versa; 0 is never an id *)
Record UInv (m : umaps) : Prop := {
  ui_fwd : forall id e, id_lookup (by_id m) id = Some e -> addr_lookup (by_addr m) (u_peer e) (u_our e) = Some id;
  ui_bwd : forall p o id, addr_lookup (by_addr m) p o = Some id ->
           exists e, id_lookup (by_id m) id = Some e /\ u_peer e = p /\ u_our e = o;
  ui_nz : id_lookup (by_id m) 0 = None }.

Lemma id_lookup_update l id f id' :
  id_lookup (id_update l id f) id' =
  if id' =? id then option_map f (id_lookup l id') else id_lookup l id'.
Proof.
  induction l as [|[k e] r IH]; cbn [id_update id_lookup].
  - destruct (id' =? id); reflexivity.
  - destruct (N.eqb_spec k id) as [->|Hk]; cbn [id_lookup].
    + destruct (N.eqb_spec id id') as [->|H].
      * rewrite N.eqb_refl. reflexivity.
      * destruct (N.eqb_spec id' id); [congruence|reflexivity].
    + destruct (N.eqb_spec k id') as [->|H].
      * destruct (N.eqb_spec id' id); [congruence|reflexivity].
      * exact IH.
Qed.

Lemma refresh_addr now e : u_peer (refresh now e) = u_peer e /\ u_our (refresh now e) = u_our e /\ u_socks (refresh now e) = u_socks e.
Proof. auto. Qed.

Lemma inv_refresh m id now : UInv m -> UInv (mkUM (id_update (by_id m) id (refresh now)) (by_addr m)).
Proof.
  intros [Fw Bw Nz]. constructor; cbn [by_id by_addr].
  - intros id' e. rewrite id_lookup_update. destruct (id' =? id).
    + destruct (id_lookup (by_id m) id') as [e0|] eqn:E; cbn [option_map]; [|discriminate].
      intros X. inversion X; subst. cbn [refresh u_peer u_our]. apply Fw, E.
    + apply Fw.
  - intros p o id' H. destruct (Bw p o id' H) as (e & E & Hp & Ho).
    rewrite id_lookup_update. destruct (id' =? id).
    + exists (refresh now e). rewrite E. auto.
    + exists e. auto.
  - rewrite id_lookup_update. destruct (0 =? id); [rewrite Nz|]; auto.
Qed.

Lemma fresh_id_spec l cands id cands' : fresh_id l cands = Some (id, cands') ->
  id <> 0 /\ id_lookup l id = None.
Proof.
  induction cands as [|c r IH]; cbn [fresh_id]; [discriminate|].
  destruct (N.eqb_spec c 0) as [->|Hc]; cbn [orb]; [exact IH|].
  destruct (id_lookup l c) eqn:E; [exact IH|]. intros X. inversion X; subst. auto.
Qed.

Lemma uinit_inv : UInv uinit.
Proof. constructor; cbn; intros; discriminate || reflexivity. Qed.

Theorem add_client_inv m now cands peer our socks m' id cands' :
  UInv m -> add_client m now cands peer our socks = Some (m', id, cands') -> UInv m'.
Proof.
  intros I. unfold add_client. destruct (addr_lookup (by_addr m) peer our) as [id0|] eqn:EA.
  - intros X. inversion X; subst. apply inv_refresh, I.
  - destruct (fresh_id (by_id m) cands) as [[id1 c1]|] eqn:EF; [|discriminate].
    intros X. inversion X; subst. destruct (fresh_id_spec _ _ _ _ EF) as [Nz Fr].
    destruct I as [Fw Bw Nz0]. constructor; cbn [by_id by_addr id_lookup addr_lookup].
    + intros id' e. destruct (N.eqb_spec id id') as [->|Hne].
      * intros Y. inversion Y; subst. cbn [u_peer u_our]. rewrite !N.eqb_refl. reflexivity.
      * intros Y. pose proof (Fw _ _ Y) as A.
        destruct ((peer =? u_peer e) && (our =? u_our e)) eqn:Eq; [|exact A].
        assert (peer = u_peer e /\ our = u_our e) as [-> ->] by lia. congruence.
    + intros p o id'. destruct ((peer =? p) && (our =? o)) eqn:Eq.
      * intros Y. inversion Y; subst. rewrite N.eqb_refl. eexists. split; [reflexivity|]. cbn [u_peer u_our]. lia.
      * intros Y. destruct (Bw _ _ _ Y) as (e & E & Hp & Ho).
        destruct (N.eqb_spec id id') as [->|Hne]; [congruence|]. exists e. auto.
    + destruct (N.eqb_spec id 0); [congruence|exact Nz0].
Qed.

Lemma id_lookup_filter l f id :
  id_lookup (filter (fun x => f (snd x)) l) id =
  match id_lookup l id with Some e => if f e then Some e else id_lookup (filter (fun x => f (snd x)) l) id | None => None end.
Proof.
  induction l as [|[k e] r IH]; cbn [filter id_lookup snd]; [reflexivity|].
  destruct (f e) eqn:Fe; cbn [id_lookup].
  - destruct (k =? id); [rewrite Fe; reflexivity|exact IH].
  - destruct (N.eqb_spec k id) as [->|Hk]; [rewrite Fe; reflexivity|exact IH].
Qed.

(* with unique ids (first match wins in both the list and the hash map) filtering is exact *)
Fixpoint ids_unique (l : list (N * uentry)) : Prop :=
  match l with [] => True | (k, _) :: r => id_lookup r k = None /\ ids_unique r end.

Lemma id_lookup_filter_u l f id : ids_unique l ->
  id_lookup (filter (fun x => f (snd x)) l) id =
  match id_lookup l id with Some e => if f e then Some e else None | None => None end.
Proof.
  induction l as [|[k e] r IH]; cbn [filter id_lookup snd ids_unique]; [reflexivity|].
  intros [Hk U]. destruct (f e) eqn:Fe; cbn [id_lookup].
  - destruct (k =? id); [rewrite Fe; reflexivity|exact (IH U)].
  - destruct (N.eqb_spec k id) as [->|Hne]; [|exact (IH U)].
    rewrite Fe, (IH U), Hk. reflexivity.
Qed.

Lemma addr_lookup_filter l g p o id :
  addr_lookup (filter g l) p o = Some id -> exists id', addr_lookup l p o = Some id'.
Proof.
  induction l as [|[[p' o'] k] r IH]; cbn [filter addr_lookup]; [discriminate|].
  destruct (g (p', o', k)); cbn [addr_lookup]; destruct ((p' =? p) && (o' =? o)); eauto.
Qed.

(* ---- the routing theorems ---- *)

(* a registered client's replies go to exactly that client, from the socket it sent to *)
Theorem reply_to_originator m now cands peer our socks m' id cands' now' :
  UInv m -> add_client m now cands peer our socks = Some (m', id, cands') ->
  exists s, snd (reply m' now' id) = DSend our peer s /\ id <> 0.
Proof.
  intros I A. pose proof (add_client_inv _ _ _ _ _ _ _ _ _ I A) as I'.
  unfold add_client in A. destruct (addr_lookup (by_addr m) peer our) as [id0|] eqn:EA.
  - inversion A; subst. destruct (ui_bwd _ I _ _ _ EA) as (e & E & Hp & Ho).
    assert (Nz : id <> 0) by (intros ->; rewrite (ui_nz _ I) in E; discriminate).
    unfold reply. destruct (N.eqb_spec id 0); [congruence|]. cbn [by_id].
    rewrite id_lookup_update, N.eqb_refl, E. cbn [option_map snd refresh u_our u_peer u_socks].
    rewrite Hp, Ho. eauto.
  - destruct (fresh_id (by_id m) cands) as [[id1 c1]|] eqn:EF; [|discriminate].
    inversion A; subst. destruct (fresh_id_spec _ _ _ _ EF) as [Nz Fr].
    unfold reply. destruct (N.eqb_spec id 0); [congruence|]. cbn [by_id id_lookup].
    rewrite N.eqb_refl. cbn [snd u_our u_peer u_socks]. eauto.
Qed.

(* two different clients never share an id: no reply is delivered to the wrong client *)
Theorem distinct_clients_distinct_ids m p1 o1 p2 o2 id :
  UInv m -> addr_lookup (by_addr m) p1 o1 = Some id -> addr_lookup (by_addr m) p2 o2 = Some id ->
  p1 = p2 /\ o1 = o2.
Proof.
  intros I A B. destruct (ui_bwd _ I _ _ _ A) as (e1 & E1 & <- & <-).
  destruct (ui_bwd _ I _ _ _ B) as (e2 & E2 & <- & <-). rewrite E1 in E2. inversion E2. auto.
Qed.

(* a reply is only ever sent to an address pair that is registered under that id *)
Theorem reply_only_to_registered m now id our peer s : UInv m ->
  snd (reply m now id) = DSend our peer s -> addr_lookup (by_addr m) peer our = Some id.
Proof.
  intros I. unfold reply. destruct (id =? 0); [discriminate|].
  destruct (id_lookup (by_id m) id) as [e|] eqn:E; [|discriminate].
  cbn [snd]. intros X. inversion X; subst. apply (ui_fwd _ I), E.
Qed.

Theorem reply_inv m now id : UInv m -> UInv (fst (reply m now id)).
Proof.
  intros I. unfold reply. destruct (id =? 0); [exact I|].
  destruct (id_lookup (by_id m) id); [apply inv_refresh, I|exact I].
Qed.

(* id 0 is reserved for stdio and never given to a UDP client *)
Theorem never_id_zero m now cands peer our socks m' id cands' :
  UInv m -> add_client m now cands peer our socks = Some (m', id, cands') -> id <> 0.
Proof. intros I A. destruct (reply_to_originator _ _ _ _ _ _ _ _ _ 0 I A) as (_ & _ & H). exact H. Qed.

(* what would happen with next_available_key (zero allowed), as on the pinned tree: the
   client's replies are written to standard output *)
Example zero_id_goes_to_stdout :
  snd (reply (mkUM [(0, mkUE 7 9 false 4000)] [((7, 9), 0)]) 0 0) = DStdout.
Proof. reflexivity. Qed.

(* ---- pruning keeps the maps consistent (needs key uniqueness, which hash maps have by construction) ---- *)
Fixpoint addrs_unique (l : list ((N * N) * N)) : Prop :=
  match l with [] => True | ((p, o), _) :: r => addr_lookup r p o = None /\ addrs_unique r end.

Record UInv2 (m : umaps) : Prop := { u2_inv : UInv m; u2_ids : ids_unique (by_id m); u2_addrs : addrs_unique (by_addr m) }.

Lemma addr_lookup_filter_u l g p o : addrs_unique l ->
  addr_lookup (filter g l) p o =
  match addr_lookup l p o with Some id => if g ((p, o), id) then Some id else None | None => None end.
Proof.
  induction l as [|[[p' o'] k] r IH]; cbn [filter addr_lookup addrs_unique]; [reflexivity|].
  intros [Hk U]. destruct ((p' =? p) && (o' =? o)) eqn:Eq.
  - assert (p' = p /\ o' = o) as [-> ->] by lia.
    destruct (g (p, o, k)) eqn:G; cbn [addr_lookup].
    + rewrite !N.eqb_refl. reflexivity.
    + rewrite (IH U), Hk. reflexivity.
  - destruct (g (p', o', k)); cbn [addr_lookup]; [rewrite Eq|]; exact (IH U).
Qed.

Lemma ids_unique_filter l f : ids_unique l -> ids_unique (filter (fun x => f (snd x)) l).
Proof.
  induction l as [|[k e] r IH]; cbn [filter ids_unique snd]; [auto|]. intros [Hk U].
  destruct (f e); cbn [ids_unique]; [split; [|exact (IH U)]|exact (IH U)].
  rewrite (id_lookup_filter_u _ _ _ U), Hk. reflexivity.
Qed.

Lemma addrs_unique_filter l g : addrs_unique l -> addrs_unique (filter g l).
Proof.
  induction l as [|[[p o] k] r IH]; cbn [filter addrs_unique]; [auto|]. intros [Hk U].
  destruct (g (p, o, k)); cbn [addrs_unique]; [split; [|exact (IH U)]|exact (IH U)].
  rewrite (addr_lookup_filter_u _ _ _ _ U), Hk. reflexivity.
Qed.

Theorem prune_inv m now : UInv2 m -> UInv2 (prune m now).
Proof.
  intros [[Fw Bw Nz] Ui Ua]. unfold prune. constructor; [constructor|..]; cbn [by_id by_addr].
  - intros id e. rewrite (id_lookup_filter_u _ (fun e => negb (expired now e)) _ Ui).
    destruct (id_lookup (by_id m) id) as [e0|] eqn:E; [|discriminate].
    destruct (negb (expired now e0)) eqn:Ex; [|discriminate]. intros X. inversion X; subst.
    rewrite (addr_lookup_filter_u _ _ _ _ Ua), (Fw _ _ E). cbn [snd]. rewrite E, Ex. reflexivity.
  - intros p o id. rewrite (addr_lookup_filter_u _ _ _ _ Ua).
    destruct (addr_lookup (by_addr m) p o) as [id0|] eqn:EA; [|discriminate]. cbn [snd].
    destruct (id_lookup (by_id m) id0) as [e|] eqn:E; [|discriminate].
    destruct (negb (expired now e)) eqn:Ex; [|discriminate]. intros X. inversion X; subst.
    destruct (Bw _ _ _ EA) as (e' & E' & Hp & Ho). rewrite E in E'. inversion E'; subst.
    exists e'. rewrite (id_lookup_filter_u _ (fun e => negb (expired now e)) _ Ui), E, Ex. auto.
  - rewrite (id_lookup_filter_u _ (fun e => negb (expired now e)) _ Ui), Nz. reflexivity.
  - apply (ids_unique_filter _ (fun e => negb (expired now e))), Ui.
  - apply addrs_unique_filter, Ua.
Qed.

Lemma ids_unique_update l id f : ids_unique l -> ids_unique (id_update l id f).
Proof.
  induction l as [|[k e] r IH]; cbn [id_update ids_unique]; [auto|]. intros [Hk U].
  destruct (N.eqb_spec k id) as [->|Hne]; cbn [ids_unique]; [auto|].
  split; [|exact (IH U)]. rewrite id_lookup_update. destruct (k =? id); [rewrite Hk|]; auto.
Qed.

Theorem add_client_inv2 m now cands peer our socks m' id cands' :
  UInv2 m -> add_client m now cands peer our socks = Some (m', id, cands') -> UInv2 m'.
Proof.
  intros [I Ui Ua] A. constructor; [exact (add_client_inv _ _ _ _ _ _ _ _ _ I A)|..];
  unfold add_client in A; destruct (addr_lookup (by_addr m) peer our) as [id0|] eqn:EA.
  - inversion A; subst. cbn [by_id]. apply ids_unique_update, Ui.
  - destruct (fresh_id (by_id m) cands) as [[id1 c1]|] eqn:EF; [|discriminate]. inversion A; subst.
    destruct (fresh_id_spec _ _ _ _ EF) as [_ Fr]. cbn [by_id ids_unique]. auto.
  - inversion A; subst. exact Ua.
  - destruct (fresh_id (by_id m) cands) as [[id1 c1]|] eqn:EF; [|discriminate]. inversion A; subst.
    cbn [by_addr addrs_unique]. auto.
Qed.

(* a pruned client is simply unknown: its late replies are dropped, never misdelivered *)
Theorem pruned_reply_dropped m now id e : UInv2 m -> id <> 0 ->
  id_lookup (by_id m) id = Some e -> expired now e = true ->
  snd (reply (prune m now) now id) = DDrop.
Proof.
  intros [I Ui Ua] Nz E Ex. unfold reply. destruct (N.eqb_spec id 0); [congruence|].
  unfold prune. cbn [by_id]. rewrite (id_lookup_filter_u _ (fun e => negb (expired now e)) _ Ui), E, Ex. reflexivity.
Qed.
