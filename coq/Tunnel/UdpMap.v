(* The client's UDP client-id maps (penguin/src/client/mod.rs: ClientIdMaps, add_udp_client,
   send_datagram_reply, prune_udp_clients) and the routing of replies.
   Addresses are abstract numbers; time is a number; ids come from a candidate sequence (the RNG). *)
From PV Require Export Common.Bytes.

Record uentry := mkUE { u_peer : N; u_our : N; u_socks : bool; u_exp : N }.
Record umaps := mkUM { by_id : list (N * uentry); by_addr : list ((N * N) * N) }.

Definition PRUNE : N := 4000.   (* config::UDP_PRUNE_TIMEOUT, ms *)

Fixpoint id_lookup (l : list (N * uentry)) (id : N) : option uentry :=
  match l with
  | [] => None
  | (k, e) :: r => if k =? id then Some e else id_lookup r id
  end.

Fixpoint addr_lookup (l : list ((N * N) * N)) (p o : N) : option N :=
  match l with
  | [] => None
  | ((p', o'), id) :: r => if (p' =? p) && (o' =? o) then Some id else addr_lookup r p o
  end.

Fixpoint id_update (l : list (N * uentry)) (id : N) (f : uentry -> uentry) : list (N * uentry) :=
  match l with
  | [] => []
  | (k, e) :: r => if k =? id then (k, f e) :: r else (k, e) :: id_update r id f
  end.

Definition refresh (now : N) (e : uentry) : uentry := mkUE (u_peer e) (u_our e) (u_socks e) (now + PRUNE).

(* next_available_nonzero_key: the first candidate that is neither 0 (the stdio sentinel) nor in use;
   None: the candidate script is exhausted (the real loop keeps drawing) *)
Fixpoint fresh_id (l : list (N * uentry)) (cands : list N) : option (N * list N) :=
  match cands with
  | [] => None
  | c :: r => if (c =? 0) || (match id_lookup l c with Some _ => true | None => false end)
              then fresh_id l r else Some (c, r)
  end.

(* add_udp_client: returns the id marking the client's datagrams *)
Definition add_client (m : umaps) (now : N) (cands : list N) (peer our : N) (socks : bool)
  : option (umaps * N * list N) :=
  match addr_lookup (by_addr m) peer our with
  | Some id => Some (mkUM (id_update (by_id m) id (refresh now)) (by_addr m), id, cands)
  | None =>
      match fresh_id (by_id m) cands with
      | Some (id, cands') =>
          Some (mkUM ((id, mkUE peer our socks (now + PRUNE)) :: by_id m) (((peer, our), id) :: by_addr m), id, cands')
      | None => None
      end
  end.

Definition expired (now : N) (e : uentry) : bool := u_exp e <=? now.

Definition prune (m : umaps) (now : N) : umaps :=
  mkUM (filter (fun x => negb (expired now (snd x))) (by_id m))
       (filter (fun x => match id_lookup (by_id m) (snd x) with
                         | Some e => negb (expired now e)
                         | None => false end) (by_addr m)).

(* where a reply carrying flow id `id` goes *)
Inductive dest := DStdout | DDrop | DSend (our peer : N) (socks : bool).

Definition reply (m : umaps) (now : N) (id : N) : umaps * dest :=
  if id =? 0 then (m, DStdout) else
  match id_lookup (by_id m) id with
  | Some e => (mkUM (id_update (by_id m) id (refresh now)) (by_addr m), DSend (u_our e) (u_peer e) (u_socks e))
  | None => (m, DDrop)
  end.

Definition uinit : umaps := mkUM [] [].
