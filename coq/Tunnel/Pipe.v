(* A TCP connection through the tunnel is a chain of relays:
     local socket -> client bridge -> logical stream -> server bridge -> target socket
   (and the same chain backwards).  Each relay takes a prefix of what its upstream buffer holds
   and appends it to its downstream buffer, and passes the end-of-stream mark on only once its
   upstream buffer is empty (C13: the bridge sends exactly what it took, half-close after
   draining; C02/C05: the stream delivers a prefix and EOF only after everything).
   This file is the composition argument: a chain of ANY number of such relays behaves like one
   direct connection. *)
From PV Require Export Common.Bytes.

(* one buffer: bytes in transit at this hop, and whether the end-of-stream mark has reached it *)
Definition hop := (list N * bool)%type.

Record pipe := mkP {
  p_written : list N;      (* ghost: everything the source wrote *)
  p_shut : bool;           (* the source has shut down its writing side *)
  p_hops : list hop;       (* head = nearest to the source *)
  p_delivered : list N;    (* what the destination has read *)
  p_eof : bool }.          (* the destination has seen end-of-stream *)

(* bytes in transit, in the order they will arrive: last hop first *)
Fixpoint flat (hs : list hop) : list N :=
  match hs with
  | [] => []
  | h :: r => flat r ++ fst h
  end.

(* relay i forwards k bytes from hop i to hop i+1 *)
Fixpoint move (i k : nat) (hs : list hop) : list hop :=
  match hs with
  | a :: ((b :: r) as tl) =>
      match i with
      | O => if snd b then hs else (skipn k (fst a), snd a) :: (fst b ++ firstn k (fst a), snd b) :: r
      | S i' => a :: move i' k tl
      end
  | _ => hs
  end.

(* relay i passes the end-of-stream mark on, once hop i is empty *)
Fixpoint move_eof (i : nat) (hs : list hop) : list hop :=
  match hs with
  | a :: ((b :: r) as tl) =>
      match i with
      | O => match fst a, snd a with [], true => a :: (fst b, true) :: r | _, _ => hs end
      | S i' => a :: move_eof i' tl
      end
  | _ => hs
  end.

Definition on_first (f : hop -> hop) (hs : list hop) : list hop :=
  match hs with a :: r => f a :: r | [] => [] end.

(* the destination reads k bytes from the last hop / sees the mark once that hop is empty *)
Fixpoint take_last (k : nat) (hs : list hop) : list hop * list N :=
  match hs with
  | [] => ([], [])
  | [a] => ([(skipn k (fst a), snd a)], firstn k (fst a))
  | a :: r => let '(r', out) := take_last k r in (a :: r', out)
  end.

Fixpoint last_done (hs : list hop) : bool :=
  match hs with
  | [] => false
  | [a] => match fst a with [] => snd a | _ => false end
  | _ :: r => last_done r
  end.

Inductive pev :=
| PWrite (bs : list N)
| PShut
| PMove (i k : nat)
| PMoveEof (i : nat)
| PRead (k : nat)
| PReadEof.

Definition pstep (p : pipe) (e : pev) : pipe :=
  match e with
  | PWrite bs =>
      if p_shut p then p else
      match p_hops p with
      | [] => p
      | _ => mkP (p_written p ++ bs) false (on_first (fun a => (fst a ++ bs, snd a)) (p_hops p)) (p_delivered p) (p_eof p)
      end
  | PShut => mkP (p_written p) true (on_first (fun a => (fst a, true)) (p_hops p)) (p_delivered p) (p_eof p)
  | PMove i k => mkP (p_written p) (p_shut p) (move i k (p_hops p)) (p_delivered p) (p_eof p)
  | PMoveEof i => mkP (p_written p) (p_shut p) (move_eof i (p_hops p)) (p_delivered p) (p_eof p)
  | PRead k => let '(hs, out) := take_last k (p_hops p) in
               mkP (p_written p) (p_shut p) hs (p_delivered p ++ out) (p_eof p)
  | PReadEof => mkP (p_written p) (p_shut p) (p_hops p) (p_delivered p) (p_eof p || last_done (p_hops p))
  end.

Definition pinit (n : nat) : pipe := mkP [] false (repeat ([], false) (S n)) [] false.
Definition prun (n : nat) (es : list pev) : pipe := fold_left pstep es (pinit n).
