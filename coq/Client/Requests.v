(* The fate of local stream requests across reconnects (client/mod.rs: on_connected,
   get_send_stream_chan, the `failed_stream_request` slot): listeners queue requests through a
   FIFO channel that outlives every connection; the connected main loop takes them one at a
   time; a request that fails (connection lost, request timed out) is parked and is the first
   thing tried on the next connection. *)
From PV Require Import Common.Bytes.

Record rq := mkRq { up : bool; parked : option N; queue : list N; served : list N }.

Inductive rev :=
| Enq (id : N)        (* a listener accepted a local connection and queued its request *)
| Connect (ok : bool) (* a connection is established; a parked request is tried first: ok? *)
| Serve (ok : bool)   (* the main loop takes the next queued request: a stream is obtained and
                         handed to the listener (ok) or the request fails and the connection is left *)
| Lose.               (* the connection is lost while idle *)

Definition opt_list (o : option N) : list N := match o with Some x => [x] | None => [] end.

Definition rstep (s : rq) (e : rev) : rq :=
  match e with
  | Enq id => mkRq (up s) (parked s) (queue s ++ [id]) (served s)
  | Connect ok =>
      if up s then s else
      match parked s with
      | Some r => if ok then mkRq true None (queue s) (served s ++ [r]) else s
      | None => mkRq true None (queue s) (served s)
      end
  | Serve ok =>
      if up s then
        match queue s with
        | r :: q => if ok then mkRq true (parked s) q (served s ++ [r]) else mkRq false (Some r) q (served s)
        | [] => s
        end
      else s
  | Lose => mkRq false (parked s) (queue s) (served s)
  end.

Definition rinit : rq := mkRq false None [] [].
Definition rrun (es : list rev) : rq := fold_left rstep es rinit.

Fixpoint enqueued (es : list rev) : list N :=
  match es with
  | Enq id :: r => id :: enqueued r
  | _ :: r => enqueued r
  | [] => []
  end.

Definition RInv (s : rq) (all : list N) : Prop :=
  served s ++ opt_list (parked s) ++ queue s = all /\ (up s = true -> parked s = None).

Lemma rstep_inv s e all : RInv s all ->
  RInv (rstep s e) (all ++ match e with Enq id => [id] | _ => [] end).
Proof.
  destruct s as [u p q sv]. unfold RInv. cbn [served parked queue up]. intros [H U].
  destruct e as [id|ok|ok|]; cbn [rstep served parked queue up]; rewrite ?app_nil_r.
  - split; [|exact U]. rewrite <- H, <- !app_assoc. reflexivity.
  - destruct u; [split; assumption|]. destruct p as [r|].
    + destruct ok; cbn [served parked queue up opt_list]; [|split; assumption].
      split; [|reflexivity]. rewrite <- H. cbn [opt_list app]. rewrite <- app_assoc. reflexivity.
    + cbn [served parked queue up opt_list]. split; [exact H|reflexivity].
  - destruct u; [|split; assumption]. specialize (U eq_refl). subst p. cbn [opt_list app] in H.
    destruct q as [|r q]; [split; [exact H|reflexivity]|].
    destruct ok; cbn [served parked queue up opt_list app]; split; try discriminate; auto.
    rewrite <- H, <- app_assoc. reflexivity.
  - split; [exact H|discriminate].
Qed.

Lemma enqueued_app a b : enqueued (a ++ b) = enqueued a ++ enqueued b.
Proof. induction a as [|e a IH]; cbn [app enqueued]; [reflexivity|]. destruct e; cbn [app]; rewrite IH; reflexivity. Qed.

Lemma rrun_inv_from : forall es s all, RInv s all -> RInv (fold_left rstep es s) (all ++ enqueued es).
Proof.
  induction es as [|e es IH]; intros s all H; cbn [fold_left enqueued].
  - rewrite app_nil_r. exact H.
  - pose proof (IH _ _ (rstep_inv s e all H)) as R. rewrite <- app_assoc in R.
    destruct e; cbn [app] in R; exact R.
Qed.

(* No request is lost, duplicated or reordered, whatever the sequence of losses, failed and
   successful connections: what has been served, then the parked request, then the queue, is
   exactly the sequence of requests the listeners made. *)
Theorem no_request_lost es :
  let s := rrun es in served s ++ opt_list (parked s) ++ queue s = enqueued es.
Proof. apply (rrun_inv_from es rinit []). split; [reflexivity|discriminate]. Qed.

Corollary served_in_order es : exists rest, enqueued es = served (rrun es) ++ rest.
Proof. eexists. symmetry. apply no_request_lost. Qed.

(* a connection that stays good serves everything pending, the parked request first *)
Lemma serve_all : forall q s, up s = true -> queue s = q ->
  let s' := fold_left rstep (repeat (Serve true) (length q)) s in
  served s' = served s ++ q /\ queue s' = [] /\ parked s' = parked s /\ up s' = true.
Proof.
  induction q as [|r q IH]; intros s U Q; cbn [length repeat fold_left].
  - rewrite app_nil_r. auto.
  - cbn [rstep]. rewrite U, Q.
    destruct (IH (mkRq true (parked s) q (served s ++ [r])) eq_refl eq_refl) as (A & B & C & D).
    cbn [served parked] in *. rewrite A, <- app_assoc. auto.
Qed.

Theorem good_connection_serves_all es :
  let s := rrun es in up s = false ->
  let s' := fold_left rstep (Connect true :: repeat (Serve true) (length (queue s))) s in
  served s' = enqueued es /\ parked s' = None /\ queue s' = [].
Proof.
  intros s U s'. pose proof (no_request_lost es) as H. fold s in H.
  unfold s'. cbn [fold_left rstep]. rewrite U.
  destruct (parked s) as [r|] eqn:Ep.
  - destruct (serve_all (queue s) (mkRq true None (queue s) (served s ++ [r])) eq_refl eq_refl) as (A & B & C & _).
    cbn [served parked queue] in *. rewrite A, B, C, <- H. rewrite Ep. cbn [opt_list]. rewrite <- ?app_assoc. cbn [app]. auto.
  - destruct (serve_all (queue s) (mkRq true None (queue s) (served s)) eq_refl eq_refl) as (A & B & C & _).
    cbn [served parked queue] in *. rewrite A, B, C, <- H, Ep. auto.
Qed.

Example parked_first :
  served (rrun [Connect true; Enq 1; Enq 2; Serve false; Enq 3; Connect false; Connect true; Serve true; Serve true]) = [1; 2; 3].
Proof. reflexivity. Qed.
