From PV Require Import Client.Backoff.
From Coq Require Import ZifyBool ZifyN ZifyNat.

(* the delay of the k-th advance after a reset *)
Definition delay (initial max mult k : N) : N := N.min (initial * mult ^ k) max.

Lemma min_mult a m c : 1 <= c -> N.min (N.min a m * c) m = N.min (a * c) m.
Proof. intros H. nia. Qed.

(* invariant: k advances after a reset *)
Definition after (b0 b : backoff) (k : N) : Prop :=
  b_initial b = b_initial b0 /\ b_max b = b_max b0 /\ b_mult b = b_mult b0 /\ b_max_count b = b_max_count b0 /\
  b_count b = k /\ N.min (b_current b) (b_max b) = delay (b_initial b0) (b_max b0) (b_mult b0) k.

Lemma after_reset b0 : after b0 (reset b0) 0.
Proof. unfold after, reset, delay. cbn. rewrite N.pow_0_r, N.mul_1_r. auto 10. Qed.

(* Closed form: the k-th advance after a reset returns min(initial * mult^k, max), as long as
   the retry limit is not reached (never, if it is 0); then None.  No panic below the
   Duration overflow bound. *)
Theorem advance_closed_form b0 b k : 1 <= b_mult b0 -> after b0 b k ->
  b_max b0 * b_mult b0 <= DURATION_MAX ->
  let '(b', a) := advance b in
  if negb (b_max_count b0 =? 0) && (b_max_count b0 <=? k)
  then a = ANone /\ b' = b
  else a = ASome (delay (b_initial b0) (b_max b0) (b_mult b0) k) /\ after b0 b' (k + 1).
Proof.
  intros Hm (Ei & Ex & Eu & Ec & Ek & Ed) Hov. unfold advance. rewrite Ec, Ek.
  destruct (negb (b_max_count b0 =? 0) && (b_max_count b0 <=? k)); [auto|].
  rewrite Ed, Eu.
  assert (L : delay (b_initial b0) (b_max b0) (b_mult b0) k <= b_max b0) by (unfold delay; lia).
  destruct (N.ltb_spec DURATION_MAX (delay (b_initial b0) (b_max b0) (b_mult b0) k * b_mult b0)) as [H|H]; [nia|].
  split; [reflexivity|]. unfold after. cbn [b_initial b_max b_mult b_max_count b_current b_count].
  repeat split; auto; try lia.
  rewrite Ex. unfold delay. rewrite N.pow_add_r, N.pow_1_r, N.mul_assoc. apply min_mult. exact Hm.
Qed.

(* ---- the retry loop of the client: initial delay 200 ms, doubling, capped ---- *)
Definition ms := 1000000.

(* consecutive failures without ever connecting: the delays are min(200 ms * 2^j, max) *)
Lemma fail_run_delays : forall n b0 b k0 j, after b0 b j -> 1 <= b_mult b0 ->
  b_max b0 * b_mult b0 <= DURATION_MAX ->
  (b_max_count b0 = 0 \/ j + N.of_nat n <= b_max_count b0) ->
  retry_loop b (repeat (AtFail false true) n) k0 =
    (map (fun i => delay (b_initial b0) (b_max b0) (b_mult b0) (j + N.of_nat i)) (seq 0 n), FRunning).
Proof.
  induction n as [|n IH]; intros b0 b k0 j Ha Hm Hov Hc; cbn [repeat retry_loop seq map negb]; [reflexivity|].
  pose proof (advance_closed_form b0 b j Hm Ha Hov) as A. destruct (advance b) as [b' a].
  assert (Cnd : negb (b_max_count b0 =? 0) && (b_max_count b0 <=? j) = false).
  { destruct Hc as [Hc|Hc]; [rewrite Hc; reflexivity|].
    destruct (N.eqb_spec (b_max_count b0) 0); cbn [negb andb]; auto. destruct (N.leb_spec (b_max_count b0) j); auto. lia. }
  rewrite Cnd in A. destruct A as [-> Ha'].
  rewrite (IH b0 b' (k0 + 1) (j + 1) Ha' Hm Hov) by (destruct Hc; [auto|right; lia]).
  rewrite N.add_0_r. f_equal. f_equal. rewrite <- seq_shift, map_map. apply map_ext. intros i. f_equal. lia.
Qed.

(* the client gives up exactly after max_retry_count consecutive failed retries *)
Theorem gives_up_after_max_count b0 n k0 : 1 <= b_mult b0 -> b_max b0 * b_mult b0 <= DURATION_MAX ->
  1 <= b_max_count b0 -> N.of_nat n = b_max_count b0 ->
  retry_loop (reset b0) (repeat (AtFail false true) (S n)) k0 =
    (map (fun i => delay (b_initial b0) (b_max b0) (b_mult b0) (N.of_nat i)) (seq 0 n), FGiveUp (k0 + N.of_nat n)).
Proof.
  intros Hm Hov Hc Hn.
  assert (G : forall m b j k, after b0 b j -> j + N.of_nat m = b_max_count b0 ->
            retry_loop b (repeat (AtFail false true) (S m)) k =
            (map (fun i => delay (b_initial b0) (b_max b0) (b_mult b0) (j + N.of_nat i)) (seq 0 m), FGiveUp (k + N.of_nat m))).
  { induction m as [|m IH]; intros b j k Ha Hj.
    - cbn [repeat retry_loop seq map negb]. pose proof (advance_closed_form b0 b j Hm Ha Hov) as A.
      destruct (advance b) as [b' a].
      assert (Cnd : negb (b_max_count b0 =? 0) && (b_max_count b0 <=? j) = true).
      { destruct (N.eqb_spec (b_max_count b0) 0); [lia|]. cbn [negb andb]. destruct (N.leb_spec (b_max_count b0) j); auto. lia. }
      rewrite Cnd in A. destruct A as [-> _]. rewrite N.add_0_r. reflexivity.
    - change (repeat (AtFail false true) (S (S m))) with (AtFail false true :: repeat (AtFail false true) (S m)).
      cbn [retry_loop negb]. pose proof (advance_closed_form b0 b j Hm Ha Hov) as A. destruct (advance b) as [b' a].
      assert (Cnd : negb (b_max_count b0 =? 0) && (b_max_count b0 <=? j) = false).
      { destruct (N.eqb_spec (b_max_count b0) 0); cbn [negb andb]; auto. destruct (N.leb_spec (b_max_count b0) j); auto. lia. }
      rewrite Cnd in A. destruct A as [-> Ha'].
      rewrite (IH b' (j + 1) (k + 1) Ha') by lia.
      cbn [seq map]. rewrite N.add_0_r. f_equal; [|f_equal; lia].
      f_equal. rewrite <- seq_shift, map_map. apply map_ext. intros i. f_equal. lia. }
  rewrite (G n (reset b0) 0 k0 (after_reset b0)) by lia.
  reflexivity.
Qed.

(* with max_retry_count = 0 the client never gives up, whatever the script *)
Theorem never_gives_up_when_zero script : forall b k, b_max_count b = 0 ->
  match snd (retry_loop b script k) with FGiveUp _ => False | _ => True end.
Proof.
  induction script as [|a script IH]; intros b k Hc; cbn [retry_loop snd]; auto.
  destruct a as [|connected retryable]; cbn [snd]; auto.
  destruct retryable; cbn [negb snd]; auto.
  set (b1 := if connected then reset b else b).
  assert (Hc1 : b_max_count b1 = 0) by (unfold b1; destruct connected; auto).
  destruct (advance b1) as [b' a] eqn:EA. unfold advance in EA. rewrite Hc1 in EA. cbn [N.eqb negb andb] in EA.
  destruct (DURATION_MAX <? N.min (b_current b1) (b_max b1) * b_mult b1); inversion EA; subst; cbn [snd]; auto.
  match goal with |- context [retry_loop ?b' script ?k'] => specialize (IH b' k' eq_refl) end.
  destruct (retry_loop _ script (k + 1)) as [ds f]. cbn [snd] in *. exact IH.
Qed.

(* a non-retryable error ends the client at once: nothing is slept, nothing retried *)
Theorem fatal_ends_at_once b connected rest k :
  retry_loop b (AtFail connected false :: rest) k = ([], FFatal k).
Proof. reflexivity. Qed.

(* after a connection that had been established, the next delay is the shortest one again *)
Theorem reset_after_success b rest k d ds f :
  retry_loop b (AtFail true true :: rest) k = (d :: ds, f) ->
  d = N.min (b_initial b) (b_max b).
Proof.
  cbn [retry_loop negb]. unfold advance, reset. cbn [b_max_count b_count b_current b_max b_mult b_initial].
  destruct (negb (b_max_count b =? 0) && (b_max_count b <=? 0)); [discriminate|].
  destruct (DURATION_MAX <? N.min (b_initial b) (b_max b) * b_mult b); [discriminate|].
  destruct (retry_loop _ rest (k + 1)) as [ds' f']. intros E; inversion E; reflexivity.
Qed.

(* the client's parameters: delays min(200 ms * 2^j, max_retry_interval) *)
Example client_delays :
  fst (retry_loop (client_backoff 1000 0) (repeat (AtFail false true) 5) 0) =
  [200 * ms; 400 * ms; 800 * ms; 1000 * ms; 1000 * ms].
Proof. vm_compute. reflexivity. Qed.

(* ---- no panic: the Duration multiplication never overflows when max * mult fits ---- *)
Lemma advance_params b : let '(b', _) := advance b in
  b_max b' = b_max b /\ b_mult b' = b_mult b /\ b_max_count b' = b_max_count b /\ b_initial b' = b_initial b.
Proof.
  unfold advance. destruct (negb (b_max_count b =? 0) && (b_max_count b <=? b_count b)); [auto|].
  destruct (DURATION_MAX <? N.min (b_current b) (b_max b) * b_mult b); cbn; auto.
Qed.

Lemma advance_no_panic b : b_max b * b_mult b <= DURATION_MAX -> snd (advance b) <> APanic.
Proof.
  intros H. unfold advance. destruct (negb (b_max_count b =? 0) && (b_max_count b <=? b_count b)); [discriminate|].
  destruct (N.ltb_spec DURATION_MAX (N.min (b_current b) (b_max b) * b_mult b)) as [L|L]; [|discriminate].
  exfalso. nia.
Qed.

Theorem retry_loop_no_panic : forall script b k, b_max b * b_mult b <= DURATION_MAX ->
  snd (retry_loop b script k) <> FPanic.
Proof.
  induction script as [|a script IH]; intros b k H; cbn [retry_loop snd]; [discriminate|].
  destruct a as [|connected retryable]; cbn [snd]; [discriminate|].
  destruct retryable; cbn [negb snd]; [|discriminate].
  set (b1 := if connected then reset b else b).
  assert (H1 : b_max b1 * b_mult b1 <= DURATION_MAX) by (unfold b1; destruct connected; exact H).
  pose proof (advance_no_panic b1 H1) as NP. pose proof (advance_params b1) as AP.
  destruct (advance b1) as [b' a]. cbn [snd] in NP. destruct AP as (Ex & Em & _ & _).
  destruct a; cbn [snd]; try discriminate; try congruence.
  specialize (IH b' (k + 1) ltac:(rewrite Ex, Em; exact H1)).
  destruct (retry_loop b' script (k + 1)) as [ds f]. exact IH.
Qed.

(* the client's generator: for every max_retry_interval that fits the u64 argument, no overflow, ever *)
Corollary client_never_panics script max_ms max_count k : max_ms < 2 ^ 64 ->
  snd (retry_loop (client_backoff max_ms max_count) script k) <> FPanic.
Proof.
  intros H. apply retry_loop_no_panic. unfold client_backoff, bo_new, DURATION_MAX. cbn [b_max b_mult].
  change (2 ^ 64) with 18446744073709551616 in H. lia.
Qed.
