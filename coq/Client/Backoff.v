(* Executable model of penguin_mux::timing::Backoff (timing.rs) and of the client's retry loop
   (penguin/src/client/mod.rs: main_future).  Durations are nanoseconds. *)
From PV Require Export Common.Bytes Common.Wire.

Record backoff := mkBo { b_initial : N; b_max : N; b_mult : N; b_max_count : N; b_current : N; b_count : N }.

Definition bo_new (initial max mult max_count : N) : backoff := mkBo initial max mult max_count initial 0.

(* Duration::MAX in nanoseconds: (2^64 - 1) s + 999_999_999 ns; Duration * u32 panics beyond *)
Definition DURATION_MAX : N := 18446744073709551615 * 1000000000 + 999999999.

Inductive adv := ANone | ASome (d : N) | APanic.

Definition advance (b : backoff) : backoff * adv :=
  if negb (b_max_count b =? 0) && (b_max_count b <=? b_count b) then (b, ANone)
  else
    let old := N.min (b_current b) (b_max b) in
    if DURATION_MAX <? old * b_mult b then (b, APanic)
    else (mkBo (b_initial b) (b_max b) (b_mult b) (b_max_count b) (old * b_mult b) (b_count b + 1), ASome old).

Definition reset (b : backoff) : backoff :=
  mkBo (b_initial b) (b_max b) (b_mult b) (b_max_count b) (b_initial b) 0.

(* ---- the retry loop ---- *)
(* what one connection attempt ends with *)
Inductive attempt :=
| AtQuit                       (* the user asked to quit while connected: Ok(()) *)
| AtFail (connected : bool) (retryable : bool).   (* failed before / after the connection was established *)

Inductive final := FOk | FFatal (at_attempt : N) | FGiveUp (at_attempt : N) | FRunning | FPanic.

(* returns the delays slept between attempts and how the client ends (FRunning: the script is
   exhausted and the client is still trying / connected) *)
Fixpoint retry_loop (b : backoff) (script : list attempt) (k : N) : list N * final :=
  match script with
  | [] => ([], FRunning)
  | AtQuit :: _ => ([], FOk)
  | AtFail connected retryable :: rest =>
      let b := if connected then reset b else b in
      if negb retryable then ([], FFatal k)
      else
        match advance b with
        | (_, ANone) => ([], FGiveUp k)
        | (_, APanic) => ([], FPanic)
        | (b', ASome d) => let '(ds, f) := retry_loop b' rest (k + 1) in (d :: ds, f)
        end
  end.

Definition client_backoff (max_retry_interval_ms max_retry_count : N) : backoff :=
  bo_new 200000000 (max_retry_interval_ms * 1000000) 2 max_retry_count.

(* ---- correspondence glue ---- *)
Definition put_big (d : N) : list N := [d mod 4294967296; (d / 4294967296) mod 4294967296; d / 18446744073709551616].
Definition get_big (a b c : N) : N := a + b * 4294967296 + c * 18446744073709551616.

Definition put_adv (a : adv) : list N :=
  match a with ANone => [0] | ASome d => 1 :: put_big d | APanic => [2] end.

(* ops: 0 = advance, 1 = reset; a panic ends the run *)
Fixpoint run_ops (b : backoff) (ops : list N) : list N :=
  match ops with
  | [] => []
  | 0 :: r => let '(b', a) := advance b in
              match a with APanic => put_adv a | _ => put_adv a ++ run_ops b' r end
  | _ :: r => run_ops (reset b) r
  end.

Definition run_backoff (c : list N) : list N :=
  match c with
  | i0 :: i1 :: i2 :: m0 :: m1 :: m2 :: mult :: max_count :: ops =>
      run_ops (bo_new (get_big i0 i1 i2) (get_big m0 m1 m2) mult max_count) ops
  | _ => MALFORMED
  end.

(* the scripted fake server of the end-to-end harness: behaviour kinds per accepted connection *)
Definition attempt_of_kind (kind : N) : option attempt :=
  match kind with
  | 1 => Some (AtFail false true)     (* closed during the handshake *)
  | 2 => Some (AtFail true true)      (* connection lost abruptly *)
  | 3 => Some (AtFail true true)      (* orderly close by the server *)
  | 4 => Some (AtFail false false)    (* HTTP error answer *)
  | 5 => Some (AtFail false true)     (* handshake timeout *)
  | 6 => Some (AtFail true false)     (* protocol violation by the server *)
  | 7 => Some (AtFail true true)      (* stream request timeout / loss *)
  | 8 => Some (AtFail false true)     (* connection refused (not observable by the fake server) *)
  | 9 => Some (AtFail true false)     (* protocol violation by the server while a stream request is in flight *)
  | 10 => Some (AtFail false true)    (* handshake timeout within the TLS handshake *)
  | 11 => Some (AtFail true true)     (* keepalive timeout: the server went silent *)
  | 12 => Some (AtFail false true)    (* connection reset during the handshake *)
  | 13 => Some (AtFail false false)   (* TLS error *)
  | 14 => Some (AtFail false false)   (* wrong Sec-WebSocket-Accept *)
  | _ => None                          (* healthy *)
  end.

(* (attempts up to the first healthy one, number of local connections opened meanwhile, observed by the server?) *)
Fixpoint parse_script (c : list N) : list (attempt * N * bool) :=
  match c with
  | kind :: _ :: opens :: r =>
      match attempt_of_kind kind with
      | Some a => (a, opens, negb (kind =? 8)) :: parse_script r
      | None => []
      end
  | _ => []
  end.

Definition final_code (f : final) : list N :=
  match f with FOk => [0; 0] | FFatal k => [1; k + 1] | FGiveUp k => [2; k + 1] | FRunning => [3; 0] | FPanic => [4; 0] end.

(* the gaps the fake server can measure: from one observed failure (or the client's start, if the
   first attempts are refused) to the next accepted connection; refused attempts in between add
   their delays to the gap *)
Fixpoint gaps (obs : list bool) (ds : list N) (acc : option N) : list N :=
  match obs with
  | [] => match acc with Some a => [a] | None => [] end
  | o :: obs' =>
      let emit := if o then match acc with Some a => [a] | None => [] end else [] in
      match ds with
      | d :: ds' => emit ++ gaps obs' ds' (Some (if o then d else match acc with Some a => a + d | None => d end))
      | [] => emit
      end
  end.

Definition count_true (l : list bool) : N := fold_right (fun (b : bool) (a : N) => if b then a + 1 else a) 0 l.

Definition run_retry (c : list N) : list N :=
  match c with
  | max_ms :: max_count :: _ :: _ :: r =>
      let sc := parse_script r in
      let '(ds, f) := retry_loop (client_backoff max_ms max_count) (map (fun x : attempt * N * bool => fst (fst x)) sc) 0 in
      let executed := match f with FRunning => length sc | FFatal k | FGiveUp k => (N.to_nat k + 1)%nat | _ => 0%nat end in
      let done := firstn executed sc in
      let nloc := fold_right N.add 0 (map (fun x : attempt * N * bool => snd (fst x)) done) in
      let obs := map (fun x : attempt * N * bool => snd x) done in
      let gs := gaps obs (map (fun d => d / 1000000) ds) None in
      (* with FRunning the [] case of gaps has emitted the gap before the final healthy connection *)
      let accepted := count_true obs + match f with FRunning => 1 | _ => 0 end in
      let fc := match f with FRunning => 3 | FFatal _ => 1 | FGiveUp _ => 2 | FOk => 0 | FPanic => 4 end in
      N.of_nat (length gs) :: gs ++ [fc; accepted] ++
      nloc :: repeat (match f with FRunning => 1 | _ => 0 end) (N.to_nat nloc)
  | _ => MALFORMED
  end.

Definition run_client (c : list N) : list N :=
  match c with
  | 1 :: r => run_backoff r
  | 2 :: r => run_retry r
  | _ => MALFORMED
  end.
