(* Executable model of penguin_mux::timing::Backoff (timing.rs) and of the client's retry loop
   (penguin/src/client/mod.rs: main_future).  Durations are nanoseconds. *)
From PV Require Export Common.Bytes Common.Wire.

Record backoff := mkBo { b_initial : N; b_max : N; b_mult : N; b_max_count : N; b_current : N; b_count : N }.

Definition bo_new (initial max mult max_count : N) : backoff := mkBo initial max mult max_count initial 0.

(* Duration::MAX in nanoseconds: (2^64 - 1) s + 999_999_999 ns; Duration * u32 panics beyond *)
Definition DURATION_MAX : N := 18446744073709551615 * 1000000000 + 999999999.

Inductive adv := ANone | ASome (d : N) | APanic.

Definition advance (b : backoff) : backoff * adv :=
  if negb (b_max_count b =? 0) && (b_max_count b <=? b_count b) then (b, ANone)
  else
    let old := N.min (b_current b) (b_max b) in
    if DURATION_MAX <? old * b_mult b then (b, APanic)
    else (mkBo (b_initial b) (b_max b) (b_mult b) (b_max_count b) (old * b_mult b) (b_count b + 1), ASome old).

Definition reset (b : backoff) : backoff :=
  mkBo (b_initial b) (b_max b) (b_mult b) (b_max_count b) (b_initial b) 0.

(* ---- the retry loop ---- *)
(* what one connection attempt ends with *)
Inductive attempt :=
| AtQuit                       (* the user asked to quit while connected: Ok(()) *)
| AtFail (connected : bool) (retryable : bool).   (* failed before / after the connection was established *)

Inductive final := FOk | FFatal (at_attempt : N) | FGiveUp (at_attempt : N) | FRunning | FPanic.

(* returns the delays slept between attempts and how the client ends (FRunning: the script is
   exhausted and the client is still trying / connected) *)
Fixpoint retry_loop (b : backoff) (script : list attempt) (k : N) : list N * final :=
  match script with
  | [] => ([], FRunning)
  | AtQuit :: _ => ([], FOk)
  | AtFail connected retryable :: rest =>
      let b := if connected then reset b else b in
      if negb retryable then ([], FFatal k)
      else
        match advance b with
        | (_, ANone) => ([], FGiveUp k)
        | (_, APanic) => ([], FPanic)
        | (b', ASome d) => let '(ds, f) := retry_loop b' rest (k + 1) in (d :: ds, f)
        end
  end.

Definition client_backoff (max_retry_interval_ms max_retry_count : N) : backoff :=
  bo_new 200000000 (max_retry_interval_ms * 1000000) 2 max_retry_count.

(* ---- correspondence glue ---- *)
Definition put_adv (a : adv) : list N :=
  match a with ANone => [0] | ASome d => [1; d] | APanic => [2] end.

(* ops: 0 = advance, 1 = reset *)
Fixpoint run_ops (b : backoff) (ops : list N) : list N :=
  match ops with
  | [] => []
  | 0 :: r => let '(b', a) := advance b in put_adv a ++ run_ops b' r
  | _ :: r => run_ops (reset b) r
  end.

Definition run_backoff (c : list N) : list N :=
  match c with
  | initial :: max :: mult :: max_count :: ops => run_ops (bo_new initial max mult max_count) ops
  | _ => MALFORMED
  end.
