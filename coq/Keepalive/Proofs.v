From PV Require Import Keepalive.Model.
From Coq Require Import ZifyBool ZifyN ZifyNat.

(* a tick reports a timeout only when strictly more than T has passed since the last pong *)
Theorem no_early_timeout s s' p : tick s = (s', p, true) ->
  exists t, k_to (s_cfg s) = Some t /\ t < s_now s - s_last_pong s /\ s_running s' = false /\ p = 0.
Proof.
  unfold tick. destruct (k_int (s_cfg s)) as [period|]; [|intros H; inversion H].
  destruct (negb (s_running s) || (s_now s <? s_next s)); [intros H; inversion H|].
  destruct (k_to (s_cfg s)) as [t|].
  - destruct (N.ltb_spec t (s_now s - s_last_pong s)) as [L|L]; intros H; inversion H; subst.
    exists t. repeat split; auto.
  - intros H; inversion H.
Qed.

(* keepalive disabled: no ping is ever sent and no timeout ever occurs *)
Theorem disabled_is_silent es : forall s, k_int (s_cfg s) = None ->
  let '(s', out) := run s es in
  s_running s' = s_running s /\ k_int (s_cfg s') = None /\
  Forall (fun x => x = 0 \/ x = 1 \/ x = 2) out /\
  (forall i, nth_error out i = Some 106 -> False).
Proof.
  induction es as [|e es IH]; intros s H; cbn [run].
  - repeat split; auto. intros i Hi. destruct i; discriminate.
  - assert (T : forall x, k_int (s_cfg x) = None -> tick x = (x, 0, false)) by (intros x Hx; unfold tick; now rewrite Hx).
    destruct e; cbn [step].
    + rewrite T by exact H. cbn [s_cfg].
      specialize (IH (mkSt (s_cfg s) (s_now s + d) (s_last_pong s) (s_next s) (s_running s)) H).
      destruct (run _ es) as [s2 os]. destruct IH as (A & B & C & D). cbn [s_running] in A.
      repeat split; auto.
      * cbn [app]. repeat constructor; auto.
      * intros i Hi. destruct i as [|[|[|i]]]; cbn in Hi; try discriminate. eapply D; eauto.
    + destruct (s_running s) eqn:R.
      * rewrite T by exact H.
        specialize (IH (mkSt (s_cfg s) (s_now s) (s_now s) (s_next s) true) H).
        destruct (run _ es) as [s2 os]. destruct IH as (A & B & C & D). cbn [s_running] in A.
        repeat split; auto.
        -- cbn [app]. repeat constructor; auto.
        -- intros i Hi. destruct i as [|[|[|i]]]; cbn in Hi; try discriminate. eapply D; eauto.
      * rewrite T by exact H. specialize (IH s H). destruct (run s es) as [s2 os]. destruct IH as (A & B & C & D).
        repeat split; auto; try congruence.
        -- cbn [app]. repeat constructor; auto.
        -- intros i Hi. destruct i as [|[|[|i]]]; cbn in Hi; try discriminate. eapply D; eauto.
    + specialize (IH s H). destruct (run s es) as [s2 os]. destruct IH as (A & B & C & D).
      repeat split; auto.
      * cbn [app]. constructor; auto. destruct (s_running s); auto.
      * intros i Hi. destruct i as [|i]; cbn in Hi; [destruct (s_running s); discriminate|]. eapply D; eauto.
    + rewrite T by exact H. cbn [s_cfg].
      specialize (IH (mkSt (s_cfg s) (s_now s + d) (if s_running s then s_now s + d else s_last_pong s) (s_next s) (s_running s)) H).
      destruct (run _ es) as [s2 os]. destruct IH as (A & B & C & D). cbn [s_running] in A.
      repeat split; auto.
      * cbn [app]. repeat constructor; auto.
      * intros i Hi. destruct i as [|[|[|i]]]; cbn in Hi; try discriminate. eapply D; eauto.
    + rewrite T by exact H.
      specialize (IH s H). destruct (run s es) as [s2 os]. destruct IH as (A & B & C & D).
      repeat split; auto.
      * cbn [app]. repeat constructor; auto.
      * intros i Hi. destruct i as [|[|[|i]]]; cbn in Hi; try discriminate. eapply D; eauto.
Qed.

(* no timeout configured (T indefinite): pings, never a timeout *)
Theorem no_timeout_when_indefinite s : k_to (s_cfg s) = None -> snd (tick s) = false.
Proof.
  intros H. unfold tick. destruct (k_int (s_cfg s)); [|reflexivity].
  destruct (negb (s_running s) || (s_now s <? s_next s)); [reflexivity|]. rewrite H. reflexivity.
Qed.

(* the clamp: with the interval set first, the stored timeout is never shorter than the interval *)
Theorem clamp i t : match k_int (options 0 i t), k_to (options 0 i t) with
                    | Some iv, Some tv => iv <= tv
                    | _, _ => True
                    end.
Proof.
  unfold options, od, od_max. replace (0 =? 0) with true by reflexivity. cbn [k_int k_to].
  destruct (i =? 0), (t =? 0); cbn [k_int k_to]; auto. lia.
Qed.

(* ---- a peer that has stopped answering ---- *)
Section Dead.
Variables (Iv T : N).
Hypothesis HI : 6 <= Iv.          (* the model's 5 ms lateness rule of tokio's interval is out of play *)
Hypothesis HT : Iv <= T.

(* a running state right after an on-time tick, pong last seen at p *)
Definition on_grid (s : st) (p : N) : Prop :=
  s_cfg s = mkCfg (Some Iv) (Some T) /\ s_running s = true /\ s_last_pong s = p /\
  s_next s = s_now s + Iv /\ p <= s_now s /\ s_now s - p <= T.

Lemma silent_step s p : on_grid s p ->
  let '(s', out) := step s (Adv Iv) in
  (on_grid s' p /\ out = [1; 0; 0] /\ s_now s' = s_now s + Iv) \/
  (s_running s' = false /\ out = [0; 1; 106] /\ s_now s' = s_now s + Iv /\
   p + T < s_now s' /\ s_now s' <= p + T + Iv).
Proof.
  intros (C & R & L & Nx & Hp & He). cbn [step]. unfold tick. cbn [s_cfg s_running s_now s_next s_last_pong].
  rewrite C. cbn [k_int k_to]. rewrite R, Nx, L. cbn [negb orb].
  destruct (N.ltb_spec (s_now s + Iv) (s_now s + Iv)); [lia|].
  destruct (N.ltb_spec T (s_now s + Iv - p)) as [Lt|Ge].
  - right. cbn [s_running s_now]. repeat split; auto; lia.
  - left. destruct (N.ltb_spec (s_now s + Iv + 5) (s_now s + Iv)); [lia|].
    unfold on_grid. cbn [s_cfg s_running s_last_pong s_next s_now]. repeat split; auto; lia.
Qed.

(* with no further pong the connection is declared dead at a tick strictly later than T and at
   most T + Iv after the last pong, and not before *)
Theorem dead_peer_detected_in_window : forall n s p, on_grid s p ->
  let '(s', out) := run s (repeat (Adv Iv) n) in
  (s_running s' = true /\ s_now s' = s_now s + N.of_nat n * Iv /\ s_now s' - p <= T) \/
  (s_running s' = false /\ exists k, (k < n)%nat /\
     let tau := s_now s + (N.of_nat k + 1) * Iv in p + T < tau /\ tau <= p + T + Iv /\
     nth_error out (3 * k + 2) = Some 106).
Proof.
  induction n as [|n IH]; intros s p G; cbn [repeat run].
  - left. destruct G as (_ & R & _ & _ & Hp & He). repeat split; auto; lia.
  - pose proof (silent_step s p G) as S. destruct (step s (Adv Iv)) as [s1 o1].
    destruct S as [(G1 & -> & N1)|(R1 & -> & N1 & Lo & Hi)].
    + specialize (IH s1 p G1). destruct (run s1 (repeat (Adv Iv) n)) as [s2 o2].
      destruct IH as [(A & B & C)|(A & k & Hk & Hw)].
      * left. repeat split; auto. lia.
      * right. split; auto. exists (S k). split; [lia|].
        destruct Hw as (W1 & W2 & W3). rewrite N1 in W1, W2.
        repeat split; try lia.
        replace (3 * S k + 2)%nat with (3 + (3 * k + 2))%nat by lia. exact W3.
    + (* detected now; later events find the task ended *)
      assert (E : forall m x, s_running x = false -> s_running (fst (run x (repeat (Adv Iv) m))) = false).
      { induction m as [|m IHm]; intros x Hx; cbn [repeat run]; auto.
        cbn [step]. unfold tick. cbn [s_cfg s_running]. destruct (k_int (s_cfg x)).
        - rewrite Hx. cbn [negb orb]. specialize (IHm (mkSt (s_cfg x) (s_now x + Iv) (s_last_pong x) (s_next x) false) eq_refl).
          destruct (run _ (repeat (Adv Iv) m)). exact IHm.
        - specialize (IHm (mkSt (s_cfg x) (s_now x + Iv) (s_last_pong x) (s_next x) (s_running x)) Hx).
          destruct (run _ (repeat (Adv Iv) m)). exact IHm. }
      specialize (E n s1 R1). destruct (run s1 (repeat (Adv Iv) n)) as [s2 o2]. cbn [fst] in E.
      right. split; auto. exists 0%nat. split; [lia|]. cbn. repeat split; auto; lia.
Qed.

(* it IS detected: after enough silent intervals the task has ended *)
Theorem dead_peer_is_detected n s p : on_grid s p -> T + Iv < N.of_nat n * Iv ->
  s_running (fst (run s (repeat (Adv Iv) n))) = false.
Proof.
  intros G Hn. pose proof (dead_peer_detected_in_window n s p G) as D.
  destruct (run s (repeat (Adv Iv) n)) as [s' out]. cbn [fst].
  destruct D as [(A & B & C)|(A & _)]; auto.
  destruct G as (_ & _ & _ & _ & Hp & _). lia.
Qed.

Lemma tick_before s : k_int (s_cfg s) = Some Iv -> s_now s < s_next s -> tick s = (s, 0, false).
Proof.
  intros C L. unfold tick. rewrite C. destruct (N.ltb_spec (s_now s) (s_next s)); [|lia].
  now rewrite orb_true_r.
Qed.

Lemma tick_on_time s : s_cfg s = mkCfg (Some Iv) (Some T) -> s_running s = true ->
  s_now s = s_next s -> s_now s - s_last_pong s <= T ->
  tick s = (mkSt (s_cfg s) (s_now s) (s_last_pong s) (s_next s + Iv) true, 1, false).
Proof.
  intros C R N0 E. unfold tick. rewrite C. cbn [k_int k_to]. rewrite R. cbn [negb orb].
  destruct (N.ltb_spec (s_now s) (s_next s)); [lia|].
  destruct (N.ltb_spec T (s_now s - s_last_pong s)); [lia|].
  destruct (N.ltb_spec (s_next s + 5) (s_now s)); [lia|]. reflexivity.
Qed.

(* one round: the pong arrives [a] after the tick, the next tick comes on time *)
Lemma prompt_round s p a : on_grid s p -> a < Iv ->
  on_grid (fst (run s [Adv a; Pong; Adv (Iv - a)])) (s_now s + a).
Proof.
  intros (C & R & L & Nx & Hp & He) Ha. cbn [run step].
  set (s1 := mkSt (s_cfg s) (s_now s + a) (s_last_pong s) (s_next s) (s_running s)).
  rewrite (tick_before s1); [|unfold s1; cbn [s_cfg]; rewrite C; reflexivity|unfold s1; cbn [s_now s_next]; lia].
  cbv beta iota. cbn [run step]. replace (s_running s1) with true by (unfold s1; cbn [s_running]; now rewrite R).
  set (s2 := mkSt (s_cfg s1) (s_now s1) (s_now s1) (s_next s1) true).
  rewrite (tick_before s2); [|unfold s2, s1; cbn [s_cfg]; rewrite C; reflexivity|unfold s2, s1; cbn [s_now s_next]; lia].
  cbv beta iota. cbn [run step].
  set (s3 := mkSt (s_cfg s2) (s_now s2 + (Iv - a)) (s_last_pong s2) (s_next s2) (s_running s2)).
  rewrite (tick_on_time s3); [|unfold s3, s2, s1; cbn [s_cfg s_now s_next s_running s_last_pong]; auto; lia ..].
  cbv beta iota. cbn [run fst]. unfold on_grid, s3, s2, s1. cbn [s_cfg s_now s_next s_running s_last_pong]. repeat split; auto; lia.
Qed.

Lemma run_app_ka s a b : fst (run s (a ++ b)) = fst (run (fst (run s a)) b).
Proof.
  revert s. induction a as [|e a IH]; intros s; cbn [app run]; [reflexivity|].
  destruct (step s e) as [s1 o]. specialize (IH s1). destruct (run s1 (a ++ b)) as [s2 o2].
  destruct (run s1 a) as [s3 o3]. cbn [fst] in *. exact IH.
Qed.

(* a peer that answers every ping before the next tick is never declared dead: pong at any
   offset a < I after each tick, for any number of rounds *)
Theorem prompt_peer_never_times_out : forall offs s p, on_grid s p ->
  Forall (fun a => a < Iv) offs ->
  s_running (fst (run s (concat (map (fun a => [Adv a; Pong; Adv (Iv - a)]) offs)))) = true.
Proof.
  induction offs as [|a offs IH]; intros s p G F; cbn [map concat].
  - cbn [run fst]. destruct G as (_ & R & _). exact R.
  - apply Forall_cons_iff in F as [Ha F]. rewrite run_app_ka.
    apply (IH _ (s_now s + a)); auto. now apply (prompt_round s p).
Qed.
End Dead.

(* The literal reading "each ping answered within T => never times out" does not hold for
   answers slower than the interval: I = 1 s, T = 1.5 s, the first ping answered at once,
   the second after 1.4 s (< T): the tick at 2 s sees 2 s > T since the last pong. *)
Example slow_but_live_peer_is_timed_out :
  let s0 := fst (fst (tick (init (options 0 1000 1500)))) in
  let '(s, out) := run s0 [Pong; Adv 1000; Adv 1000] in
  s_running s = false /\ out = [0; 0; 0; 1; 0; 0; 0; 1; 106].
Proof. vm_compute. auto. Qed.

(* a Pong that has arrived by the time the task runs counts, even if a tick is due in the very
   same poll: the receive side is served before the ping loop *)
Theorem pong_with_tick_counts s d : s_running s = true ->
  let '(s', out) := step s (AdvPong d) in s_running s' = true /\ nth_error out 2 = Some 0.
Proof.
  intros R. cbn [step]. rewrite R. unfold tick. cbn [s_cfg s_running s_now s_next s_last_pong].
  destruct (k_int (s_cfg s)) as [period|]; [|cbn; auto].
  cbn [negb orb]. destruct (s_now s + d <? s_next s); [cbn; auto|].
  rewrite N.sub_diag. destruct (k_to (s_cfg s)) as [t|]; cbn [s_running nth_error]; auto.
  destruct (N.ltb_spec t 0); [lia|]. cbn [s_running nth_error]. auto.
Qed.

(* a Ping the peer sends on its own is no evidence that our pings are answered: it never
   refreshes the time of the last pong, so it cannot postpone the detection of a dead answer path *)
Lemma tick_last_pong s : s_last_pong (fst (fst (tick s))) = s_last_pong s.
Proof.
  unfold tick. destruct (k_int (s_cfg s)); [|reflexivity].
  destruct (negb (s_running s) || (s_now s <? s_next s)); [reflexivity|].
  destruct (k_to (s_cfg s)) as [t|]; [destruct (t <? s_now s - s_last_pong s)|]; reflexivity.
Qed.

Theorem peer_ping_is_no_answer s : s_last_pong (fst (step s PingIn)) = s_last_pong s.
Proof.
  cbn [step]. pose proof (tick_last_pong s) as H. destruct (tick s) as [[s' p] to]. exact H.
Qed.
