(* Executable model of the keepalive mechanism: Options::keepalive_interval / keepalive_timeout
   (config.rs, with OptionalDuration's order: None = indefinite = greatest), the ping loop
   of task.rs (tokio interval, MissedTickBehavior::Skip, first tick immediate) and the Pong
   handling.  Times are milliseconds on the harness's paused clock. *)
From PV Require Export Common.Bytes.

(* OptionalDuration::from(Duration): zero means none *)
Definition od (ms : N) : option N := if ms =? 0 then None else Some ms.
(* Ord for OptionalDuration: None is the greatest *)
Definition od_max (a b : option N) : option N :=
  match a, b with
  | Some x, Some y => Some (N.max x y)
  | _, _ => None
  end.

Record cfg := mkCfg { k_int : option N; k_to : option N }.
(* order 0: keepalive_interval(i) then keepalive_timeout(t); 1: the other way round *)
Definition options (order i t : N) : cfg :=
  if order =? 0 then mkCfg (od i) (od_max (od t) (od i))
  else mkCfg (od i) (od_max (od t) None).

Record st := mkSt {
  s_cfg : cfg;
  s_now : N;
  s_last_pong : N;
  s_next : N;          (* deadline of the next tick *)
  s_running : bool
}.

Inductive event := Adv (d : N) | Pong | PollDgram | AdvPong (d : N)    (* AdvPong: the clock advances and a Pong arrives before the task runs *)
  | PingIn.            (* the peer sends a Ping of its own: no evidence that OUR pings are answered *)

(* one pass of the ping loop at time [now]; returns (state, pings sent, timed out) *)
Definition tick (s : st) : st * N * bool :=
  match k_int (s_cfg s) with
  | None => (s, 0, false)
  | Some period =>
      if negb (s_running s) || (s_now s <? s_next s) then (s, 0, false)
      else
        let elapsed := s_now s - s_last_pong s in
        match k_to (s_cfg s) with
        | Some t =>
            if t <? elapsed then (mkSt (s_cfg s) (s_now s) (s_last_pong s) (s_next s) false, 0, true)
            else
              let timeout := s_next s in
              let next := if timeout + 5 <? s_now s then s_now s + period - ((s_now s - timeout) mod period)
                          else timeout + period in
              (mkSt (s_cfg s) (s_now s) (s_last_pong s) next true, 1, false)
        | None =>
            let timeout := s_next s in
            let next := if timeout + 5 <? s_now s then s_now s + period - ((s_now s - timeout) mod period)
                        else timeout + period in
            (mkSt (s_cfg s) (s_now s) (s_last_pong s) next true, 1, false)
        end
  end.

Definition init (c : cfg) : st := mkSt c 0 0 0 true.

(* [pings; closed; done] (+ the datagram poll's result) *)
Definition step (s : st) (e : event) : st * list N :=
  match e with
  | Adv d =>
      let s := mkSt (s_cfg s) (s_now s + d) (s_last_pong s) (s_next s) (s_running s) in
      let '(s', p, to) := tick s in
      (s', [p; if to then 1 else 0; if to then 106 else 0])
  | Pong =>
      let s := if s_running s then mkSt (s_cfg s) (s_now s) (s_now s) (s_next s) true else s in
      let '(s', p, to) := tick s in
      (s', [p; if to then 1 else 0; if to then 106 else 0])
  | PollDgram => (s, [if s_running s then 1 else 2])
  | PingIn =>
      let '(s', p, to) := tick s in
      (s', [p; if to then 1 else 0; if to then 106 else 0])
  | AdvPong d =>
      (* the receive arm of the task runs before the ping arm: the Pong is seen first *)
      let s := mkSt (s_cfg s) (s_now s + d) (if s_running s then s_now s + d else s_last_pong s) (s_next s) (s_running s) in
      let '(s', p, to) := tick s in
      (s', [p; if to then 1 else 0; if to then 106 else 0])
  end.

Fixpoint run (s : st) (es : list event) : st * list N :=
  match es with
  | [] => (s, [])
  | e :: r => let '(s1, o) := step s e in let '(s2, os) := run s1 r in (s2, o ++ os)
  end.

Fixpoint parse_events (fuel : nat) (l : list N) : option (list event) :=
  match fuel with
  | O => match l with [] => Some [] | _ => None end
  | S f =>
      match l with
      | [] => Some []
      | 0 :: d :: r => option_map (cons (Adv d)) (parse_events f r)
      | 1 :: r => option_map (cons Pong) (parse_events f r)
      | 3 :: d :: r => option_map (cons (AdvPong d)) (parse_events f r)
      | 4 :: r => option_map (cons PingIn) (parse_events f r)
      | _ :: r => option_map (cons PollDgram) (parse_events f r)
      end
  end.

Definition run_keepalive (c : list N) : list N :=
  match c with
  | 1 :: order :: i :: t :: evs =>
      match parse_events (length evs) evs with
      | Some es =>
          (* start-up: the first poll of the task at time 0 (first tick is immediate) *)
          let '(s0, p, to) := tick (init (options order i t)) in
          [p; if to then 1 else 0; if to then 106 else 0] ++ snd (run s0 es)
      | None => [999999]
      end
  | _ => [999999]
  end.
