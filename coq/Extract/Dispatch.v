(* The single entry point of the correspondence drivers. *)
From PV Require Import Common.Wire Frame.Dispatch Chain.Dispatch Socks.Dispatch Mux.Dispatch Flow.Dispatch Keepalive.Model Atomic.Model Atomic.TwoWriters Gate.Model Client.Backoff Tls.Model Tunnel.Direct.

Definition dispatch (c : list N) : list N :=
  match c with
  | 9 :: r => run_frame r
  | 20 :: r => run_chain r
  | 18 :: r => run_socks r
  | 30 :: r => run_mux r
  | 31 :: r => run_flow r
  | 16 :: r => run_keepalive r
  | 12 :: r => run_atomic r
  | 13 :: r => run_atomic2 r
  | 14 :: r => run_gate r
  | 19 :: r => run_client r
  | 17 :: r => run_tls r
  | 1 :: r => run_tunnel r
  | _ => MALFORMED
  end.
