From Coq Require Import Extraction ExtrOcamlBasic.
From PV Require Import Extract.Dispatch.
Extraction "model.ml" dispatch.
