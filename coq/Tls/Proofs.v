From PV Require Import Tls.Model.

(* the client side: reached only if the chain validates against the given roots and the name
   matches, unless verification is skipped, in which case any certificate is accepted *)
Theorem reaches_iff c :
  reaches c = true <->
  ((t_skip c = true \/ (t_server_cert c = Trusted /\ t_name_ok c = true)) /\
   (t_client_ca c = false \/ t_client_cert c = CTrusted)).
Proof.
  destruct c as [i n s cc ca]. unfold reaches, client_accepts, server_accepts, chain_valid.
  cbn [t_skip t_server_cert t_name_ok t_client_ca t_client_cert].
  destruct i, n, s, cc, ca; cbn; split; intros H; try reflexivity; try discriminate;
    try (repeat split; auto; fail);
    try (destruct H as [[H|[H1 H2]] [H3|H3]]; discriminate).
Qed.

Theorem skip_accepts_any_certificate c : t_skip c = true -> client_accepts c = true.
Proof. intros H. unfold client_accepts. rewrite H. reflexivity. Qed.

Theorem verify_needs_chain_and_name c : t_skip c = false ->
  client_accepts c = true -> t_server_cert c = Trusted /\ t_name_ok c = true.
Proof.
  unfold client_accepts, chain_valid. intros ->. destruct (t_server_cert c), (t_name_ok c); cbn; intros H; try discriminate; auto.
Qed.

Theorem client_ca_requires_issued_cert c : t_client_ca c = true ->
  server_accepts c = true -> t_client_cert c = CTrusted.
Proof. unfold server_accepts. intros ->. destruct (t_client_cert c); cbn; intros H; try discriminate; auto. Qed.

Theorem no_client_ca_never_asks c : t_client_ca c = false -> server_asks c = false /\ server_accepts c = true.
Proof. unfold server_asks, server_accepts. intros ->. auto. Qed.

(* ---- name selection ---- *)
Theorem sni_overrides url hn n : select_name url hn (Some n) = n.
Proof. reflexivity. Qed.
Theorem hostname_overrides_url url h : select_name url (Some h) None = h.
Proof. reflexivity. Qed.
Theorem url_host_by_default url : select_name url None None = url.
Proof. reflexivity. Qed.

(* with verification on, the client reaches the server iff the SELECTED name is one of the certificate's *)
Theorem name_case_iff url hn sni : name_case_reaches url hn sni false = true <-> select_name url hn sni = 1.
Proof.
  unfold name_case_reaches, reaches, client_accepts, server_accepts. cbn [t_skip t_server_cert t_name_ok t_client_ca chain_valid orb andb negb].
  rewrite Bool.andb_true_r. apply N.eqb_eq.
Qed.

(* ---- identity swap ---- *)
Fixpoint final (s : istate) (es : list iev) : istate :=
  match es with [] => s | e :: r => final (fst (istep s e)) r end.

(* what an established connection saw never changes, whatever happens later *)
Theorem established_undisturbed : forall es s k c,
  nth_error (i_conns s) k = Some c -> nth_error (i_conns (final s es)) k = Some c.
Proof.
  induction es as [|e es IH]; intros s k c H; cbn [final]; [exact H|].
  apply IH. destruct e as [|good i|j|kd|wc]; cbn [istep fst i_conns].
  - destruct (admitted (snd (i_cur s)) 1); cbn [fst i_conns]; [|exact H].
    rewrite nth_error_app1; [exact H|]. apply nth_error_Some. rewrite H. discriminate.
  - destruct good; exact H.
  - exact H.
  - exact H.
  - exact H.
Qed.

(* a handshake sees exactly the identity installed by the last successful reload *)
Fixpoint last_reload (cur : ident) (es : list iev) : ident :=
  match es with
  | [] => cur
  | IReload true i :: r => last_reload i r
  | _ :: r => last_reload cur r
  end.

Theorem handshake_sees_latest : forall es s,
  i_cur (final s es) = last_reload (i_cur s) es.
Proof.
  induction es as [|e es IH]; intros s; cbn [final last_reload]; [reflexivity|].
  rewrite IH. destruct e as [|good i|j|kd|wc]; cbn [istep fst i_cur]; try reflexivity.
  - destruct (admitted (snd (i_cur s)) 1); reflexivity.
  - destruct good; reflexivity.
Qed.

(* a returning client (session cache from an earlier connection) gets no more and sees nothing older than a
   new client: it is admitted iff the identity installed by the last successful reload admits its certificate,
   and it sees that identity's certificate *)
Theorem returning_sees_latest es s wc :
  let cur := last_reload (i_cur s) es in
  snd (istep (final s es) (IReturning wc)) =
  if admitted (snd cur) (if wc then 1 else 0) then [1; fst cur] else [0].
Proof. cbv zeta. rewrite <- handshake_sees_latest. reflexivity. Qed.

(* so is a new client: admitted iff no client CA is configured or its certificate is under the CA that the file held
   at the last successful reload (not under one it held earlier), and it sees the latest certificate *)
Theorem fresh_sees_latest es s kind :
  let cur := last_reload (i_cur s) es in
  snd (istep (final s es) (IFresh kind)) = if admitted (snd cur) kind then [1; fst cur] else [0].
Proof. cbv zeta. rewrite <- handshake_sees_latest. reflexivity. Qed.

Theorem admitted_iff ca kind : admitted ca kind = true <-> ca = 0 \/ ca = kind.
Proof. unfold admitted. rewrite Bool.orb_true_iff, !N.eqb_eq. reflexivity. Qed.

Theorem handshake_output s : admitted (snd (i_cur s)) 1 = true ->
  snd (istep s IHandshake) = [1; fst (i_cur s); if snd (i_cur s) =? 0 then 0 else 1].
Proof. intros H. cbn [istep]. rewrite H. reflexivity. Qed.

(* a failed reload changes nothing *)
Theorem failed_reload_keeps_identity s i : fst (istep s (IReload false i)) = s.
Proof. reflexivity. Qed.
