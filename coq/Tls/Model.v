(* Decision model of TLS peer authentication as configured by penguin/src/tls/rustls.rs
   (make_client_config: verifier chosen by (skip_verify, client certificate);
    make_server_config_from_mem: WebPkiClientVerifier iff a client CA path is given)
   and of the hot-swappable server identity (tls/mod.rs TlsIdentity, server/mod.rs run_listener:
   the identity is loaded once per accepted connection). *)
From PV Require Export Common.Bytes Common.Wire.

(* who issued a certificate *)
Inductive issuer := Trusted | OtherCA | SelfSigned.
Inductive ccert := CNone | CTrusted | COther.

Record tcase := mkT {
  t_server_cert : issuer;   (* relative to the roots the client was given *)
  t_name_ok : bool;         (* the requested server name is one of the certificate's names *)
  t_skip : bool;            (* client told to skip verification *)
  t_client_cert : ccert;    (* relative to the server's client CA *)
  t_client_ca : bool }.     (* server configured with a client CA *)

Definition chain_valid (i : issuer) : bool := match i with Trusted => true | _ => false end.

Definition client_accepts (c : tcase) : bool :=
  t_skip c || (chain_valid (t_server_cert c) && t_name_ok c).

Definition server_asks (c : tcase) : bool := t_client_ca c.

Definition server_accepts (c : tcase) : bool :=
  negb (t_client_ca c) || match t_client_cert c with CTrusted => true | _ => false end.

(* the client reaches the server: both handshakes sides complete and application data flows *)
Definition reaches (c : tcase) : bool := client_accepts c && server_accepts c.

(* ---- which name the client asks for (client/ws_connect.rs): --tls-server-name, else
   --hostname, else the host of the URL; it is both the SNI and the name the certificate must match ---- *)
Definition select_name (url_host : N) (hostname sni : option N) : N :=
  match sni with
  | Some n => n
  | None => match hostname with Some h => h | None => url_host end
  end.

(* the harness's name codes: 1 "localhost" (the certificate's only name), 2 "other.example", 3 "127.0.0.1" *)
Definition name_case_reaches (url_host : N) (hostname sni : option N) (skip : bool) : bool :=
  reaches (mkT Trusted (select_name url_host hostname sni =? 1) skip CNone false).

(* ---- the hot-swappable identity ---- *)
(* identity = (which server certificate, which client CA the file holds when the identity is (re)loaded:
   0 none configured, 1 the first client CA, 2 another client CA written to the same file) *)
Definition ident := (N * N)%type.
(* a client presenting a certificate of kind k (0 none, 1 under the first CA, 2 under the second) is admitted *)
Definition admitted (ca kind : N) : bool := (ca =? 0) || (ca =? kind).

Inductive iev :=
| IHandshake                 (* a new client connects (skip-verify, good client cert): which certificate does it see *)
| IReload (good : bool) (i : ident)  (* the files are replaced and the identity reloaded; bad files: the reload fails *)
| IUse (k : N)               (* an established connection is used again *)
| IFresh (kind : N)          (* a new client presenting a certificate of the given kind; the connection is not kept *)
| IReturning (withcert : bool). (* a client that connected before comes back with its session cache (with / without the
                                good client certificate): it is authenticated as, and sees what, a new client would *)

Record istate := mkI { i_cur : ident; i_conns : list N }.  (* certificate seen by each established connection *)

Definition istep (s : istate) (e : iev) : istate * list N :=
  match e with
  | IHandshake =>
      if admitted (snd (i_cur s)) 1
      then (mkI (i_cur s) (i_conns s ++ [fst (i_cur s)]), [1; fst (i_cur s); if snd (i_cur s) =? 0 then 0 else 1])
      else (s, [0])
  | IFresh kind => (s, if admitted (snd (i_cur s)) kind then [1; fst (i_cur s)] else [0])
  | IReload good i => (if good then mkI i (i_conns s) else s, [if good then 1 else 0])
  | IUse k => (s, match nth_error (i_conns s) (N.to_nat k) with Some c => [1; c] | None => [0] end)
  | IReturning withcert =>
      (s, if admitted (snd (i_cur s)) (if withcert then 1 else 0) then [1; fst (i_cur s)] else [0])
  end.

Fixpoint irun (s : istate) (es : list iev) : list N :=
  match es with
  | [] => []
  | e :: r => let '(s', o) := istep s e in o ++ irun s' r
  end.

(* ---- glue ---- *)
(* server certificates 3, 4, 5: the trusted one again over other key algorithms *)
Definition issuer_of (n : N) : issuer := match n with 0 | 3 | 4 | 5 => Trusted | 1 => OtherCA | _ => SelfSigned end.
Definition ccert_of (n : N) : ccert := match n with 0 => CNone | 1 | 4 => CTrusted | _ => COther end.
Definition b2n (b : bool) : N := if b then 1 else 0.

Fixpoint parse_iev (c : list N) : list iev :=
  match c with
  | 0 :: r => IHandshake :: parse_iev r
  | 1 :: good :: cert :: ca :: r => IReload (negb (good =? 0)) (cert, ca) :: parse_iev r
  | 2 :: k :: r => IUse k :: parse_iev r
  | 3 :: k :: r => IReturning (k =? 0) :: parse_iev r
  | 4 :: k :: r => IFresh k :: parse_iev r
  | _ => []
  end.

Definition run_tls (c : list N) : list N :=
  match c with
  | [1; sc; nm; sk; cc; ca] =>
      let t := mkT (issuer_of sc) (nm =? 0) (negb (sk =? 0)) (ccert_of cc) (negb (ca =? 0)) in
      [b2n (reaches t); b2n (server_asks t)]
  | 2 :: cert :: ca :: r => irun (mkI (cert, ca) []) (parse_iev r)
  | [5; cert; n; bad] =>
      (* the same with, when [bad] is set, a reload that fails before each good one: the identity stays (reached with
         the right client certificate, same certificate seen), and the following good reload takes effect *)
      flat_map (fun i => [1; (cert + N.of_nat i) mod 3; 0; 1] ++
                         (if negb (bad =? 0) && (N.of_nat i <? n) then [1; (cert + N.of_nat i) mod 3] else []))
               (seq 0 (S (N.to_nat n)))
  | [5; cert; n] =>
      (* the identity replaced n times through the server's own reload path, the client CA staying configured:
         per round: reached with the right client certificate, certificate seen, reached without one, asked *)
      flat_map (fun i => [1; (cert + N.of_nat i) mod 3; 0; 1]) (seq 0 (S (N.to_nat n)))
  | [4; which; sk] =>
      (* roots / client CA without any certificate, or none given (then: the system store, which holds root A) *)
      let skip := negb (sk =? 0) in
      match which with
      | 0 => [b2n (reaches (mkT OtherCA true skip CNone false))]     (* nothing validates against an empty store *)
      | 1 => [b2n (reaches (mkT Trusted true skip CNone false))]     (* no --tls-ca: the system store *)
      | 2 => [0]                                                      (* a client CA without certificates: no identity *)
      | 4 | 5 | 6 => [0]                                              (* a client CA that cannot be loaded: no identity *)
      | 7 => [0; 0]                                                   (* ... on a reload: it fails, a client without certificate stays out *)
      | _ => [b2n (reaches (mkT Trusted true skip COther true))]     (* client cert under the system root, not under the client CA *)
      end
  | [3; url; hn; sni; sk] =>
      let opt x := match x with 0 => None | _ => Some x end in
      [b2n (name_case_reaches (match url with 0 => 3 | _ => 1 end) (opt hn) (opt sni) (negb (sk =? 0)))]
  | _ => MALFORMED
  end.
